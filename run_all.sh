#!/bin/bash
# run_all.sh [quick|thorough] — run every registered check on the current tree (refreshes evidence/)
cd "$(dirname "$0")"
tier=${1:-quick}
rc=0
for p in $(python3 -c "import json; print(' '.join(c['property_id'] for c in json.load(open('MANIFEST.json'))['checks']))"); do
  ./check $p $tier || rc=1
done
exit $rc
