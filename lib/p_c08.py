"""C08 — thread-safety markers are sound."""
from .runner import Property
from . import rustc_batch as RB

# witness data types: name -> (rust type, Send?, Sync?)
WIT = {
    "unit": ("()", "TT"), "string": ("String", "TT"), "rc": ("std::rc::Rc<u8>", "FF"), "cell": ("std::cell::Cell<u8>", "TF"),
    "ptr": ("PtrHolder", "FF"), "arcmutex": ("std::sync::Arc<std::sync::Mutex<u8>>", "TT"),
    "refcell_ref": ("&'static std::cell::Cell<u8>", "FF"), "guard": ("std::sync::MutexGuard<'static, u8>", "FT"),
}
HANDLES = {
    "SyntaxNode": "cstree::syntax::SyntaxNode<K, {D}>", "SyntaxToken": "cstree::syntax::SyntaxToken<K, {D}>",
    "SyntaxElement": "cstree::syntax::SyntaxElement<K, {D}>", "SyntaxElementRef": "cstree::syntax::SyntaxElementRef<'static, K, {D}>",
    "ResolvedNode": "cstree::syntax::ResolvedNode<K, {D}>", "ResolvedToken": "cstree::syntax::ResolvedToken<K, {D}>",
    "ResolvedElement": "cstree::syntax::ResolvedElement<K, {D}>", "ResolvedElementRef": "cstree::syntax::ResolvedElementRef<'static, K, {D}>",
}
# witness syntax-kind types: name -> (rust type, Send?Sync?)
KINDS = {"plain": ("K", "TT"), "brand": ("KBrand", "FF"), "rcbrand": ("KRc", "FF"), "cellref": ("KCellRef", "TF")}
GEN = {"none": ("'static", "FF"), "send": ("Send + 'static", "TF"), "sync": ("Sync + 'static", "FT"), "both": ("Send + Sync + 'static", "TT")}
# what a text view borrows its resolver as: name -> (rust type, Send?Sync?)
VIEW_RES = {"dyn": ("dyn Resolver<TokenKey>", "FF"), "dynss": ("dyn Resolver<TokenKey> + Send + Sync", "TT"), "ok": ("OkResolver", "TT"),
            "cell": ("CellResolver", "TF"), "rc": ("RcResolver", "FF")}
RES = {"rc": ("RcResolver", "FF"), "sendonly": ("CellResolver", "TF"), "ok": ("OkResolver", "TT")}

PRELUDE = """#![allow(dead_code, unused)]
use cstree::{RawSyntaxKind, Syntax};
use cstree::interning::{Resolver, TokenKey};
#[derive(Debug, Clone, Copy, PartialEq, Eq)]
pub struct K(u32);
impl Syntax for K {
    fn from_raw(raw: RawSyntaxKind) -> Self { K(raw.0) }
    fn into_raw(self) -> RawSyntaxKind { RawSyntaxKind(self.0) }
    fn static_text(self) -> Option<&'static str> { None }
}
pub struct PtrHolder(*const u8);
macro_rules! kind_type { ($n:ident, $f:ty) => {
    #[derive(Debug, Clone, Copy, PartialEq, Eq)] pub struct $n(u32, std::marker::PhantomData<$f>);
    impl Syntax for $n {
        fn from_raw(raw: RawSyntaxKind) -> Self { $n(raw.0, std::marker::PhantomData) }
        fn into_raw(self) -> RawSyntaxKind { RawSyntaxKind(self.0) }
        fn static_text(self) -> Option<&'static str> { None }
    }
} }
kind_type!(KBrand, *const ());
kind_type!(KRc, std::rc::Rc<u8>);
kind_type!(KCellRef, std::cell::Cell<u8>);
fn assert_send<T: Send>() {}
fn assert_sync<T: Sync>() {}
#[derive(Default)] pub struct RcResolver(std::rc::Rc<std::cell::RefCell<Vec<String>>>);
impl Resolver<TokenKey> for RcResolver { fn try_resolve(&self, _k: TokenKey) -> Option<&str> { None } }
#[derive(Default)] pub struct CellResolver(std::cell::Cell<u8>);
impl Resolver<TokenKey> for CellResolver { fn try_resolve(&self, _k: TokenKey) -> Option<&str> { None } }
#[derive(Default)] pub struct OkResolver(Vec<String>);
impl Resolver<TokenKey> for OkResolver { fn try_resolve(&self, _k: TokenKey) -> Option<&str> { None } }
fn green() -> cstree::green::GreenNode { cstree::green::GreenNode::new(RawSyntaxKind(0), Vec::new()) }
"""


class C08(Property):
    id = "C08"
    design_ref = "DESIGN.md section 5 / C08"
    needs_hooks = False
    theorems_note = ("markers_sound (with the bounds extracted from the CURRENT source: a handle that is Send or Sync implies thread-safe "
                     "data, and — for trees that could be constructed — a thread-safe resolver; for all instantiations, represented by "
                     "their Send/Sync bits), markers_complete (thread-safe data and resolver are accepted), green_always, "
                     "unbounded_markers_refuted (the pre-fix markers accept Rc data and an Rc-caching resolver)")
    assumptions = [
        "Rust's auto-trait rules: SyntaxToken, SyntaxElement(Ref) and the Resolved* wrappers are structs/enums over SyntaxNode plus "
        "plain data, so their Send/Sync is derived from SyntaxNode's — checked for every handle type by the rustc correspondence",
        "what a handle makes reachable (Arc<D> clones through get_data/set_data, the Arc<dyn Resolver> through resolver()) is read off "
        "the code by hand; the soundness of the red structure's own synchronisation is C05-C07",
        "a trait bound can only observe whether a type is Send / Sync: instantiations are represented by these bits",
    ]
    nontrivial_rule = ("compile-time programs: assert_send/assert_sync over 8 handle types x 8 witness data types, generic functions with "
                       "every subset of {Send, Sync} as bound on D, constructors with thread-unsafe and thread-safe resolvers, green types; "
                       "non-trivial = the witness is not thread-safe or the function is generic; distinct = distinct program")

    def cases(self, tier, seed):
        res = []
        for h in HANDLES:
            for w, (_, bits) in WIT.items():
                for tr in ("Send", "Sync"):
                    res.append(("exhaustive", "A handle %s %s %s %s" % (h, w, bits, tr)))
            for g, (_, bits) in GEN.items():
                for tr in ("Send", "Sync"):
                    res.append(("exhaustive", "A gen %s %s %s %s" % (h, g, bits, tr)))
        for which in ("node", "resolved"):
            for r, (_, bits) in RES.items():
                res.append(("exhaustive", "A ctor %s %s %s" % (which, r, bits)))
        for t in ("GreenNode", "GreenToken"):
            for tr in ("Send", "Sync"):
                res.append(("exhaustive", "A green %s %s" % (t, tr)))
        # the kind parameter is a type-level tag: handles over thread-safe data are Send + Sync whatever the kind type is
        for h in HANDLES:
            for k, (_, kbits) in KINDS.items():
                for tr in ("Send", "Sync"):
                    res.append(("exhaustive", "A skind %s:%s %s %s" % (h, k, kbits, tr)))
        # borrowed text views over every way of borrowing a resolver
        for i, (_, ibits) in VIEW_RES.items():
            for w in ("unit", "cell", "rc", "arcmutex"):
                for tr in ("Send", "Sync"):
                    res.append(("exhaustive", "A text %s %s %s %s %s" % (i, ibits, w, WIT[w][1], tr)))
        return res

    exhaustive_note = {"quick": "8 handle types x (8 witnesses + 4 generic bound sets) x {Send, Sync}; 2 constructors x 3 resolvers; green types",
                       "thorough": "8 handle types x (8 witnesses + 4 generic bound sets) x {Send, Sync}; 2 constructors x 3 resolvers; green types"}

    def program(self, i, case):
        t = case.split(" ")
        if t[1] == "handle":
            ty = HANDLES[t[2]].replace("{D}", WIT[t[3]][0])
            return "fn f%d() { assert_%s::<%s>() }" % (i, t[5].lower(), ty)
        if t[1] == "gen":
            ty = HANDLES[t[2]].replace("{D}", "D")
            return "fn f%d<D: %s>() { assert_%s::<%s>() }" % (i, GEN[t[3]][0], t[5].lower(), ty)
        if t[1] == "ctor":
            c = "cstree::syntax::SyntaxNode::<K, ()>" if t[2] == "node" else "cstree::syntax::ResolvedNode::<K, ()>"
            return "fn f%d() { let _ = %s::new_root_with_resolver(green(), %s::default()); }" % (i, c, RES[t[3]][0])
        if t[1] == "skind":
            h, k = t[2].split(":")
            ty = HANDLES[h].replace("<K,", "<%s," % KINDS[k][0]).replace("{D}", "String")
            return "fn f%d() { assert_%s::<%s>() }" % (i, t[4].lower(), ty)
        if t[1] == "text":
            return "fn f%d() { assert_%s::<cstree::text::SyntaxText<'static, 'static, %s, K, %s>>() }" % (i, t[6].lower(), VIEW_RES[t[2]][0], WIT[t[4]][0])
        return "fn f%d() { assert_%s::<cstree::green::%s>() }" % (i, t[3].lower(), t[2])

    def custom_impl(self, cases, profile):
        src = PRELUDE.rstrip("\n").split("\n")
        lines = {}
        for i, c in enumerate(cases):
            src.append(self.program(i, c))
            lines[len(src)] = i
        d = RB.write_crate("c08_programs", "lib", "\n".join(src) + "\n", features=())
        rc, out, err = RB.cargo(d, ["check", "--message-format=json", "--quiet"])
        errs = RB.error_lines(out, "src/lib.rs")
        rejected, stray = set(), []
        for ln, msg in errs:
            if ln in lines:
                rejected.add(lines[ln])
            else:
                stray.append((ln, msg))
        if stray or (rc != 0 and not rejected):
            return ["BATCH-BUILD-FAILED %s" % (str(stray[:2]) + err[-200:]).replace("\n", " ")] * len(cases)
        return ["reject" if i in rejected else "accept" for i in range(len(cases))]

    def spec(self, case, impl):
        t = case.split(" ")
        if t[1] in ("handle", "gen"):
            exp = "accept" if t[4] == "TT" else "reject"
            what = "%s<K, %s>: %s" % (t[2], t[3], t[5])
        elif t[1] == "ctor":
            exp = "accept" if t[4] == "TT" else "reject"
            what = "%s::new_root_with_resolver with a %s resolver" % (t[2], t[3])
        elif t[1] == "skind":
            exp = "accept"
            what = "%s over thread-safe data with the kind type %s: %s" % (t[2].split(":")[0], KINDS[t[2].split(":")[1]][0], t[4])
        elif t[1] == "text":
            exp = "accept" if (t[3][1] == "T" and t[5] == "TT") else "reject"
            what = "SyntaxText<%s, K, %s>: %s" % (VIEW_RES[t[2]][0], t[4], t[6])
        else:
            exp, what = "accept", "%s: %s" % (t[2], t[3])
        if impl != exp:
            return "the compiler %ss `%s` but soundness/completeness demands %s" % (impl, what, exp)
        return None

    def nontrivial(self, case, impl):
        t = case.split(" ")
        return t[1] == "gen" or (t[1] in ("handle", "ctor") and t[4] != "TT") or (t[1] == "text" and not (t[3][1] == "T" and t[5] == "TT")) or (t[1] == "skind" and t[3] != "TT")

    def known_class(self, case, impl, why):
        return None

    def shrink_tokens(self, case):
        return None


PROPERTY = C08()
