"""C16 — serialized trees deserialize to the same tree."""
import re
from .runner import Property
from .core import Rng
from . import gen_events as G
from .buildref import Cache, run_events
from .treefmt import Node, Tok, parse_text, STATIC
from .navref import T

FORMS = ["plain", "data", "rplain", "rdata"]
MODES = ["str", "slice", "reader", "value"]
TOKS = ["T5:97", "T5:", "T6:233.98", "X100", "T5:34", "T5:92.110", "T5:10.9", "T7:119070.34.8364", "T5:97.32.98", "X103"]


def node_count(t):
    return 1 + sum(node_count(c) for c in t.children if isinstance(c, Node))


def ref_w(evs, data):
    """reference reading of an event stream + data list -> 'ERR' or (tree, [data or None per node in preorder])"""
    stack, roots, flags = [], [], []
    for e in evs:
        c, rest = e[0], e[1:]
        if c == "e":
            k, f = rest.split(":")
            if not stack and roots:
                return "ERR"
            stack.append((int(k), []))
            flags.append(f == "1")
        elif c == "t":
            k, t = rest.split(":")
            if not stack:
                return "ERR"
            k = int(k)
            stack[-1][1].append(Tok(k, STATIC[k] if k in STATIC else parse_text(t)))
        else:
            if not stack:
                return "ERR"
            k, kids = stack.pop()
            n = Node(k, kids)
            (stack[-1][1] if stack else roots).append(n)
    if stack or len(roots) != 1:
        return "ERR"
    if sum(flags) != len(data):
        return "ERR"
    it = iter(data)
    return roots[0], [next(it) if f else None for f in flags]


class C16(Property):
    id = "C16"
    design_ref = "DESIGN.md section 5 / C16"
    profiles = ("debug", "release")
    theorems_note = ("text_field_reads_every_input (the token text field, as typed in the CURRENT source, deserializes from borrowed, escaped "
                     "and owned input), roundtrip (deserialize(serialize t) denotes t, for every tree, every input mode, any hash), "
                     "data_roundtrip + data_list_exact (flags and data list are consumed in step, in preorder; any other length is an "
                     "error), deser_total (with the nesting check: never a panic; whatever is accepted denotes what the events describe), "
                     "nest_ok_parse, unchecked_refuted (the pre-fix deserializer accepts [Enter, Enter, Leave]); nest_ok_iff_parse and rejects_exactly (with the current type of the token text field the deserializer reports an error for exactly the event streams that are not one well-nested tree rooted in a node, and accepts all others)")
    assumptions = [
        "serde / serde_json: the event stream is encoded and decoded faithfully; a `&str` field deserializes only from unescaped "
        "borrowed input, a `Cow<str>` field from any input — assumed in exactly this form (deser_str), exercised by all four "
        "deserialization entry points",
        "kinds in the stream are in range of the consumer's Syntax::from_raw (the harness' from_raw is total); tokens of static-text "
        "kinds carry their static text (debug builds assert it)",
    ]
    nontrivial_rule = ("(tree, data assignment, serialization form, deserialization entry point) round trips with texts containing quotes, "
                       "backslashes, control and multi-byte characters; plus hand-made event streams (balanced or not) with data lists of "
                       "all lengths; non-trivial = text needs escaping or input is owned, or the stream is malformed; distinct = distinct case line")
    exhaustive_note = {"quick": "all event streams of <= 4 events over {enter(flag), token, leave} x data lists of length 0..2",
                       "thorough": "all event streams of <= 5 events over {enter(flag), token, leave} x data lists of length 0..3"}

    def cases(self, tier, seed):
        res = []
        for c in ["Z data str S1 T5:97.34 S2 T5:98 F F | 01", "Z data reader S1 T5:97 F | 1", "Z rdata value S1 T5:97 F | 1",
                  "W str |", "W value |", "W reader |", "W slice |", "W str | 5", "W str e1:0 e2:0 l |", "W str l |", "W str e1:0 |", "W str t5:97 |", "W str e1:0 l e2:0 l |", "W str e1:1 l |", "W str e1:0 l | 5"]:
            res.append(("corpus", c))
        import itertools
        alpha = ["e1:0", "e2:1", "t5:97", "l"]
        n, dl = (4, 3) if tier == "quick" else (5, 4)
        for ln in range(0, n + 1):
            for seq in itertools.product(alpha, repeat=ln):
                for d in range(dl):
                    for mode in (["str", "value"] if ln <= 3 else ["str"]):
                        res.append(("exhaustive", " ".join(["W", mode] + list(seq) + ["|"] + [str(7 + i) for i in range(d)])))
        # deep trees: the event stream is flat, so no nesting depth may be rejected (serde_json's recursion limit of 128
        # concerns the JSON nesting, which stays constant)
        import sys
        sys.setrecursionlimit(max(sys.getrecursionlimit(), 20000))
        k = 0
        for depth in ([127, 128, 129, 130, 257, 300] if tier == "quick" else [127, 128, 129, 130, 255, 256, 257, 300, 513, 700]):
            ev = ["S1"] + ["S%d" % (1 + j % 3) for j in range(depth - 1)] + ["T5:97.34"] + ["F"] * depth
            for form in FORMS:
                flags = "".join("1" if (j + k) % 3 == 0 else "0" for j in range(depth))
                res.append(("corpus", "Z %s %s %s | %s" % (form, MODES[k % 4], " ".join(ev), flags)))
                k += 1
        rng = Rng(seed + 16)
        nrand = 1200 if tier == "quick" else 24000
        for i in range(nrand):
            ev = G.rand_tree_events(rng, rng.choice([3, 10, 40]), toks=TOKS, wide=rng.chance(1, 4))
            tr, fin = run_events(Cache(), ev)
            nn = node_count(fin)
            flags = "".join(rng.choice("01") for _ in range(nn))
            res.append(("random", "Z %s %s %s | %s" % (FORMS[i % 4], MODES[(i // 4) % 4], " ".join(ev), flags)))
        for i in range(nrand // 4):
            # single-edit corruptions of a valid stream
            ev = G.rand_tree_events(rng, rng.choice([2, 6, 15]), toks=["T5:97", "T5:", "T6:233.98"])
            w = []
            for o in ev:
                if o[0] == "S":
                    w.append("e%s:%d" % (o[1:], rng.below(2)))
                elif o[0] == "T":
                    w.append("t" + o[1:])
                else:
                    w.append("l")
            nflag = sum(1 for x in w if x.endswith(":1") and x[0] == "e")
            r = rng.below(5)
            if r == 0 and len(w) > 1:
                del w[rng.below(len(w))]
            elif r == 1:
                w.insert(rng.below(len(w) + 1), rng.choice(["l", "e3:0", "t5:97"]))
            elif r == 2:
                nflag += rng.choice([-1, 1, 2])
            elif r == 3:
                w = w + w
            data = " ".join(str(50 + j) for j in range(max(0, nflag)))
            res.append(("malformed", "W %s %s | %s" % (rng.choice(MODES), " ".join(w), data)))
        return res

    def project(self, line):
        return re.sub(r"ERR<[^>]*>", "ERR", line)

    def spec(self, case, impl):
        t = case.split(" ")
        if impl.startswith("PANIC"):
            return "deserialization panicked (%s) instead of returning an error" % impl
        if t[0] == "Z":
            bar = t.index("|")
            tr, fin = run_events(Cache(), t[3:bar])
            if not isinstance(fin, Node):
                return None
            flags = t[bar + 1] if len(t) > bar + 1 else ""
            with_data = t[1] in ("data", "rdata")
            n = node_count(fin)
            data = ["%d" % (100 + i) if with_data and i < len(flags) and flags[i] == "1" else "-" for i in range(n)]
            exp = "%s data=%s" % (fin.dump(), ",".join(data))
            if impl != exp:
                return "round trip through %s/%s: got `%s`, expected `%s`" % (t[1], t[2], impl[:300], exp[:300])
            return None
        bar = t.index("|")
        r = ref_w(t[2:bar], [int(x) for x in t[bar + 1:] if x])
        if r == "ERR":
            return None if impl == "ERR" else "a stream that does not describe exactly one well-nested tree (or a mismatching data list) was accepted: " + impl[:200]
        tree, data = r
        exp = "%s data=%s" % (tree.dump(), ",".join("-" if d is None else str(d) for d in data))
        if impl != exp:
            return "got `%s`, expected `%s`" % (impl[:300], exp[:300])
        return None

    def nontrivial(self, case, impl):
        return impl == "ERR" or any(x in case for x in (":34", ":92", ":10", " reader ", " value "))

    def distribution(self, cases, impl_lines):
        return {"accepted": sum(1 for l in impl_lines if l.startswith("(")), "rejected": sum(1 for l in impl_lines if l.startswith("ERR")),
                "round_trips": sum(1 for c in cases if c.startswith("Z")), "hand_made_streams": sum(1 for c in cases if c.startswith("W"))}

    def shrink_tokens(self, case):
        t = case.split(" ")
        if t[0] == "W":
            bar = t.index("|")
            return None
        return None


PROPERTY = C16()
