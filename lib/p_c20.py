"""C20 — a failed interning leaves the builder intact."""
import itertools
from .runner import Property
from .core import Rng
from . import gen_events as G
from .buildref import check_history_line


class C20(Property):
    id = "C20"
    design_ref = "DESIGN.md section 5 / C20"
    theorems_note = ("intern_fail_noop (the failing token() call panics and changes nothing: stacks, both caches, registers), "
                     "fault_erasure (for every history and every set of failing positions the resulting builder state equals that of "
                     "the history with the failed tokens erased), fault_trace, fault_erasure_tree (the tree finally finished denotes the "
                     "remaining events and the cache invariant survives)")
    assumptions = [
        "the failing interner leaves its own table unchanged (the harness' user interner does; the theorem is about the builder)",
        "order of effects in token(): interner first, then token cache, then element stack — transcribed in the model, checked by "
        "the correspondence with an interner that fails on command and panics caught with catch_unwind",
        "memory: 'released exactly once / no leak' is observed with a counting global allocator (live bytes return to the baseline "
        "after the whole history, including the unwound calls); not a theorem",
    ]
    nontrivial_rule = ("event sequences with an injected interner failure at one or more token positions (failed-and-skipped or "
                       "failed-then-retried), optionally followed by a second tree through the same cache; non-trivial = at least one "
                       "fault on a non-static token and the history still finishes a tree; distinct = distinct case line")
    exhaustive_note = {"quick": "every balanced event sequence of <= 6 events x every non-empty subset of its interned-token positions, as skip and as retry",
                       "thorough": "every balanced event sequence of <= 7 events x every non-empty subset of its interned-token positions, as skip and as retry"}

    def faulted(self, ops):
        pos = [i for i, o in enumerate(ops) if o[0] == "T" and int(o[1:].split(":")[0]) < 100]
        out = []
        for r in range(1, len(pos) + 1):
            for sub in itertools.combinations(pos, r):
                skip = [("E" + o[1:]) if i in sub else o for i, o in enumerate(ops)]
                out.append(skip)
                retry = []
                for i, o in enumerate(ops):
                    if i in sub:
                        retry.append("E" + o[1:])
                        if i == sub[0]:
                            retry.append("E" + o[1:])      # a repeated fault on the first position
                    retry.append(o)
                out.append(retry)
        return out

    def cases(self, tier, seed):
        res = []
        for c in ["S1 E5:97 T5:98 E5:99 E5:99 F", "S1 E100:43 F", "E5:1 S1 E5:2 T5:98 F", "S1 S2 E5:97 F S2 T5:97 F F"]:
            res.append(("corpus", "L u f " + c))
        for ops in G.enum_balanced(6 if tier == "quick" else 7, toks=["T5:97", "T5:", "T6:233", "X100"]):
            for f in self.faulted(ops):
                res.append(("exhaustive", "L u f " + " ".join(f)))
        rng = Rng(seed + 20)
        nrand = 1500 if tier == "quick" else 30000
        for i in range(nrand):
            builds = []
            for _ in range(1 + rng.below(3)):
                ops = G.rand_tree_events(rng, rng.choice([5, 15, 50, 150]), wide=rng.chance(1, 3))
                out = []
                for o in ops:
                    if o[0] == "T" and rng.chance(1, 4):
                        out.append("E" + o[1:])
                        if rng.chance(1, 2):
                            out.append(o)
                    else:
                        out.append(o)
                builds.append(out)
            res.append(("random", "L u %s %s" % (rng.choice(["f", "0"]), " / ".join(" ".join(b) for b in builds))))
        return res

    def spec(self, case, impl):
        if " || leak " not in impl:
            return "malformed implementation output: " + impl[:100]
        body, leak = impl.rsplit(" || leak ", 1)
        why = check_history_line(case, body)
        if why:
            return why
        if leak.strip() != "0":
            return "memory not released exactly once: live bytes differ from the baseline by %s after the history was dropped" % leak
        return None

    def project(self, line):
        # the finished trees, memory, and what the cache shares: after a caught failure the cache must behave as if the
        # token had never been offered — what was cached before the fault is still shared afterwards
        return line

    def nontrivial(self, case, impl):
        toks = case.split(" ")[3:]
        return any(t[0] == "E" and int(t[1:].split(":")[0]) < 100 for t in toks) and "(" in impl

    def distribution(self, cases, impl_lines):
        faults = {}
        for c in cases:
            n = sum(1 for t in c.split(" ")[3:] if t[0] == "E")
            faults[min(n, 8)] = faults.get(min(n, 8), 0) + 1
        return {"faults_per_history": {str(k): v for k, v in sorted(faults.items())},
                "histories_with_tree": sum(1 for l in impl_lines if "(" in l)}

    def shrink_tokens(self, case):
        toks = case.split(" ")
        return toks[:3], toks[3:]


PROPERTY = C20()
