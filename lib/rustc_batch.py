"""rustc_batch.py — rustc/cargo as the implementation side for the properties decided at compile time
(C17: the derive macro, C08: Send/Sync).  Programs are generated into one crate per batch; verdicts come
from `cargo check --message-format=json` (errors mapped to items by line span)."""
import json, os, shutil, subprocess
from . import core


def crate_dir(name):
    d = os.path.join(core.WORK, name)
    os.makedirs(os.path.join(d, "src"), exist_ok=True)
    return d


def write_crate(name, kind, source, features=("derive",), extra_deps=""):
    d = crate_dir(name)
    feats = ", ".join('"%s"' % f for f in features)
    open(os.path.join(d, "Cargo.toml"), "w").write(
        '[package]\nname = "%s"\nversion = "0.0.0"\nedition = "2021"\npublish = false\n\n[workspace]\n\n'
        '[dependencies]\ncstree = { path = "%s/cstree", features = [%s] }\n%s\n' % (name, core.REPO, feats, extra_deps))
    shutil.copy(os.path.join(core.REPO, "Cargo.lock"), os.path.join(d, "Cargo.lock"))
    open(os.path.join(d, "src", "lib.rs" if kind == "lib" else "main.rs"), "w").write(source)
    return d


def cargo(d, args, timeout=900, rustflags="--cfg cstree_verif"):
    env = dict(os.environ)
    env.update({"CARGO_NET_OFFLINE": "true", "CARGO_TARGET_DIR": os.path.join(core.WORK, "rustc_batch_target"), "RUSTFLAGS": rustflags})
    with core.BuildLock("cargo-batch"):
        p = subprocess.run(["cargo"] + args + ["--offline"], cwd=d, stdout=subprocess.PIPE, stderr=subprocess.PIPE,
                           text=True, errors="replace", timeout=timeout, env=env)
    return p.returncode, p.stdout, p.stderr


def error_lines(stdout, crate_src_suffix):
    """line numbers (1-based) of every error-level diagnostic that points into our source file"""
    lines = []
    for l in stdout.splitlines():
        if not l.startswith("{"):
            continue
        try:
            m = json.loads(l)
        except ValueError:
            continue
        if m.get("reason") != "compiler-message":
            continue
        msg = m["message"]
        if msg.get("level") != "error":
            continue
        def spans(x):
            # primary spans of the message itself (not of the attached notes), following macro expansions
            for sp in x.get("spans", []):
                if not sp.get("is_primary", True):
                    continue
                yield sp
                e = sp.get("expansion")
                while e:
                    yield e["span"]
                    e = e["span"].get("expansion")
        hit = False
        for sp in spans(msg):
            if sp.get("file_name", "").endswith(crate_src_suffix):
                lines.append((sp["line_start"], msg.get("message", "")))
                hit = True
        if not hit:
            lines.append((0, msg.get("message", "")))
    return lines
