"""treefmt.py — canonical tree dumps shared by the spec oracles (same format as harness dump_green)."""

STATIC = {100: "+", 101: "", 102: "+", 103: "let", 104: "é"}


def utf8_len(s):
    return len(s.encode("utf-8"))


def parse_text(s):
    return "" if s == "" else "".join(chr(int(p)) for p in s.split("."))


def show_text(s):
    return ".".join(str(ord(c)) for c in s)


class Tok:
    __slots__ = ("kind", "text")
    def __init__(self, kind, text):
        self.kind, self.text = kind, text
    def length(self):
        return utf8_len(self.text)
    def dump(self):
        return "[%d@%d:%s]" % (self.kind, self.length(), show_text(self.text))
    def text_of(self):
        return self.text


class Node:
    __slots__ = ("kind", "children", "_len")
    def __init__(self, kind, children):
        self.kind, self.children = kind, children
        self._len = sum(c.length() for c in children)
    def length(self):
        return self._len
    def dump(self):
        return "(%d@%d%s)" % (self.kind, self._len, "".join(" " + c.dump() for c in self.children))
    def text_of(self):
        return "".join(c.text_of() for c in self.children)
