"""gen_events.py — generators of builder event sequences (shared by C01, C04, C11, C15, C20, ...)."""

TOKS_SMALL = ["T5:97", "T5:", "T6:233", "X100"]
TOKS_RICH = ["T5:97", "T5:98", "T5:", "T6:233", "T6:119070.98", "T5:43", "T7:97", "X100", "X101", "X102", "X103", "X104",
             "T100:43", "T103:108.101.116"]


def enum_balanced(maxlen, starts=("S1", "S2"), toks=TOKS_SMALL):
    """All event sequences of length <= maxlen that denote exactly one root node."""
    out = []
    def rec(prefix, depth, n):
        # close everything if possible
        if depth == 0 and prefix:
            out.append(list(prefix))
            return                      # a second root is unbalanced: handled by the malformed stream
        if n >= maxlen:
            return
        remaining = maxlen - n
        if depth + 1 <= remaining - 1 or not prefix:
            for s in starts:
                if depth + 2 <= remaining:
                    rec(prefix + [s], depth + 1, n + 1)
        if depth >= 1:
            if depth + 1 <= remaining:
                for t in toks:
                    rec(prefix + [t], depth, n + 1)
            rec(prefix + ["F"], depth - 1, n + 1)
    rec([], 0, 0)
    return out


def rand_tree(rng, budget, depth=0, toks=TOKS_RICH, wide=False):
    """A random balanced subtree as an event list; favours repeated small shapes."""
    ops = ["S%d" % (1 + rng.below(3))]
    n = rng.below(7 if wide else 4) if budget[0] > 0 else 0
    if wide and rng.chance(1, 6):
        n += 4 + rng.below(12)
    for _ in range(n):
        if budget[0] <= 0:
            break
        budget[0] -= 1
        if depth < 12 and rng.chance(2, 5):
            ops += rand_tree(rng, budget, depth + 1, toks, wide)
        else:
            ops.append(rng.choice(toks))
    ops.append("F")
    return ops


def rand_tree_events(rng, size, toks=TOKS_RICH, wide=False):
    budget = [size]
    ops = rand_tree(rng, budget, 0, toks, wide)
    # repetition: duplicate some complete subtrees in place (exercises the node cache)
    return ops


def mutate_unbalanced(rng, ops):
    ops = list(ops)
    r = rng.below(4)
    if r == 0 and ops:
        del ops[rng.below(len(ops))]
    elif r == 1:
        ops.insert(rng.below(len(ops) + 1), "F")
    elif r == 2:
        ops.insert(rng.below(len(ops) + 1), "X5")       # static token of a kind without static text
    else:
        ops.append(rng.choice(["T5:97", "S1", "F"]))
    return ops


def fx_collision_case():
    """The real-FxHash collision found in the design phase (rustc-hash 2.1): with kind-1 tokens whose
    texts "0000".."1274" are interned in this order (key = index), the nodes 7["0261","1125","1274"] and
    7["0000","0000","0000"] have the same kind, text length and 32-bit child hash (0xc02c22d4)."""
    def t(i):
        return "T1:" + ".".join(str(ord(c)) for c in "%04d" % i)
    ops = ["S9"] + [t(i) for i in range(1275)]
    ops += ["S7", t(261), t(1125), t(1274), "F", "S7", t(0), t(0), t(0), "F"]
    ops += ["S7", t(1464 % 1275), "F"]
    ops += ["F"]
    return ops
