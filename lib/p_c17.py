"""C17 — derived syntax kinds convert safely and invertibly."""
from .runner import Property
from .core import Rng
import os, subprocess
from . import rustc_batch as RB, core
from .treefmt import parse_text, show_text

TEXTS = ["43", "", "108.101.116", "233", "34.92", "43"]          # "+", "", "let", "é", "\"\\", "+" (duplicates across variants are fine)


def rust_lit(cps):
    return '"' + "".join("\\u{%x}" % ord(c) for c in parse_text(cps)) + '"'


def variant_src(i, v):
    f, d, attrs = v[0] == "1", v[1], [a for a in v[2:].split(";") if a]
    out = []
    for a in attrs:
        if a[0] == "L":
            out.append("    #[static_text(%s)]" % rust_lit(a[1:]))
        elif a[0] == "N":
            out.append("    #[static_text(not_a_literal)]")
        elif a[0] == "P":
            out.append("    #[static_text]")
        else:
            out.append('    #[static_text = "x"]')
    name = "V%d" % i
    if f:
        name += "(u8)"
    # an explicit discriminant in any form: literal, constant, expression, parenthesised, cast
    if d != "0":
        name += " = " + {"1": "%d" % (i + 5), "2": "super::FIRST", "3": "1 << %d" % (i + 2), "4": "(%d)" % (i + 5), "5": "b'+' as u32"}[d]
    out.append("    %s," % name)
    return out


def def_src(idx, case):
    t = case.split(" ")
    kind, reprs = t[1], t[2]
    vs = [x for x in t[4:] if x]
    lines = ["pub mod d%d {" % idx, "#[derive(Debug, Clone, Copy, PartialEq, Eq, cstree::Syntax)]"]
    if reprs != "-":
        lines.append("#[repr(%s)]" % reprs.replace(",", ", "))
    if kind == "e":
        lines.append("pub enum E {")
        for i, v in enumerate(vs):
            lines += variant_src(i, v)
        lines.append("}")
    elif kind == "s":
        lines.append("pub struct E { pub x: u32 }")
    else:
        lines = ["pub mod d%d {" % idx, "#[derive(Clone, Copy, cstree::Syntax)]"] + ([("#[repr(%s)]" % reprs)] if reprs != "-" else []) + ["pub union E { pub x: u32 }"]
    lines.append("}")
    return lines


def spec_line(case):
    t = case.split(" ")
    kind, reprs, vs = t[1], t[2], [x for x in t[4:] if x]
    ok = kind == "e" and reprs == "u32"
    texts = []
    for v in vs:
        attrs = [a for a in v[2:].split(";") if a]
        if v[0] == "1" or v[1] != "0" or len(attrs) > 1 or any(a[0] != "L" for a in attrs):
            ok = False
        texts.append(("=" + attrs[0][1:]) if attrs and attrs[0][0] == "L" else "-")
    if not ok:
        return "REJECT"
    n = len(vs)
    return "ACCEPT n=%d raw=%s from=%s texts=%s" % (n, ",".join(str(i) for i in range(n)),
                                                   ",".join([str(i) for i in range(n)] + ["P"] * 3), ";".join(texts))


class C17(Property):
    id = "C17"
    design_ref = "DESIGN.md section 5 / C17"
    theorems_note = ("accepted_laws (if the derive accepts a definition: it is an enum with exactly repr(u32), all variants are unit "
                     "variants without discriminants and with at most one literal static_text; from_raw(into_raw v) = v, raws are 0..n-1 "
                     "in order, from_raw panics for every raw >= n, static_text v is exactly the annotation), ill_formed_rejected, "
                     "well_formed_accepted")
    assumptions = [
        "the model starts from the abstract definition syn hands to the macro (item kind, repr idents, per variant: fields?, "
        "discriminant?, shapes of the static_text attributes); syn/quote/proc-macro plumbing is not modelled",
        "Rust assigns the discriminants 0,1,2,... to a fieldless repr(u32) enum without explicit discriminants (language rule)",
        "rustc + the real macro are the implementation side of the correspondence: every generated definition is compiled, the accepted "
        "ones are run (all raw values 0..n+2 under catch_unwind)",
    ]
    nontrivial_rule = ("generated definitions: enums with 0..40 variants and random annotation placement (accepted), and ill-formed ones "
                       "(struct/union, missing/other/multiple repr, fields, explicit discriminants, malformed/duplicate static_text); "
                       "non-trivial = accepted with >= 2 variants and >= 1 annotation, or rejected for a single reason; distinct = distinct definition")

    def cases(self, tier, seed):
        res = []
        base = ["V e u32 | 00 00L43; 00", "V e u32 | 00L;", "V e - | 00", "V e u16 | 00", "V e C | 00", "V e C,u32 | 00",
                "V s u32 |", "V u u32 |", "V e u32 | 10", "V e u32 | 01", "V e u32 | 02", "V e u32 | 03", "V e u32 | 04", "V e u32 | 05", "V e u32 | 00 03 00", "V e u32 | 00L43; 02", "V e u32 | 00N;", "V e u32 | 00P;", "V e u32 | 00V;",
                "V e u32 | 00L43;L43;", "V e u32 | 00L43;L45;", "V e u32 | 00 10L43;", "V e u32 | 00L43; 00L43;"]
        for c in base:
            res.append(("corpus", c))
        rng = Rng(seed + 17)
        n_ok, n_bad = (40, 40) if tier == "quick" else (200, 200)
        for i in range(n_ok):
            n = rng.choice([1, 2, 3, 5, 8, 13, 40]) if i % 5 else 1 + rng.below(40)     # rustc itself rejects a zero-variant repr(u32) enum (E0084)
            vs = ["00" + (("L%s;" % rng.choice(TEXTS)) if rng.chance(1, 3) else "") for _ in range(n)]
            res.append(("random", "V e u32 | " + " ".join(vs)))
        for i in range(n_bad):
            n = 1 + rng.below(6)
            vs = ["00" + (("L%s;" % rng.choice(TEXTS)) if rng.chance(1, 3) else "") for _ in range(n)]
            kind, reprs = "e", "u32"
            r = rng.below(8)
            j = rng.below(n)
            if r == 0:
                kind = rng.choice(["s", "u"])
            elif r == 1:
                reprs = rng.choice(["-", "u16", "C", "C,u32", "u8", "i32", "u64"])
            elif r == 2:
                vs[j] = "10" + vs[j][2:]
            elif r == 3:
                vs[j] = "0" + rng.choice("12345") + vs[j][2:]
            elif r == 4:
                vs[j] = "00" + rng.choice(["N;", "P;", "V;"])
            elif r == 5:
                vs[j] = "00L43;L%s;" % rng.choice(TEXTS)
            elif r == 6:
                vs[j] = "00L43;" + rng.choice(["N;", "P;", "V;"])
            else:
                vs[j] = "11" + vs[j][2:]
            res.append(("malformed", "V %s %s | %s" % (kind, reprs, " ".join(vs))))
        return res

    def custom_impl(self, cases, profile):
        # 1. classify: all definitions in one library crate, compiled once with JSON diagnostics
        src, ranges = ["#![allow(dead_code, unused)]", "pub const FIRST: u32 = 5;"], []
        for i, c in enumerate(cases):
            lines = def_src(i, c)
            ranges.append((len(src) + 1, len(src) + len(lines)))
            src += lines
        d = RB.write_crate("c17_classify", "lib", "\n".join(src) + "\n")
        rc, out, err = RB.cargo(d, ["check", "--message-format=json", "--quiet"])
        errs = RB.error_lines(out, "src/lib.rs")
        rejected = set()
        for ln, msg in errs:
            for i, (a, b) in enumerate(ranges):
                if a <= ln <= b:
                    rejected.add(i)
        if rc != 0 and not rejected:
            return ["CLASSIFY-BUILD-FAILED " + (err[-300:].replace("\n", " "))] * len(cases)
        accepted = [i for i in range(len(cases)) if i not in rejected]
        # 2. run the accepted ones
        results = {}
        if accepted:
            src = ["#![allow(dead_code, unused)]", "pub const FIRST: u32 = 5;", "use cstree::{RawSyntaxKind, Syntax};", "use std::panic::catch_unwind;"]
            for i in accepted:
                src += def_src(i, cases[i])
            src.append("fn show<S: Syntax + std::panic::UnwindSafe + 'static>(idx: usize, variants: &[S]) {")
            src.append("    let n = variants.len() as u32;")
            src.append('    let raws: Vec<String> = variants.iter().map(|v| v.into_raw().0.to_string()).collect();')
            src.append('    let froms: Vec<String> = (0..n + 3).map(|r| { if probe_log() { println!("{idx} PROBE from_raw({r})"); } match catch_unwind(move || S::from_raw(RawSyntaxKind(r)).into_raw().0) { Ok(x) => x.to_string(), Err(_) => "P".to_string() } }).collect();')
            src.append('    let texts: Vec<String> = variants.iter().map(|v| match v.static_text() { Some(t) => format!("={}", t.chars().map(|c| (c as u32).to_string()).collect::<Vec<_>>().join(".")), None => "-".to_string() }).collect();')
            src.append('    println!("{idx} ACCEPT n={n} raw={} from={} texts={}", raws.join(","), froms.join(","), texts.join(";"));')
            src.append("}")
            # `c17_run` runs every enum; `c17_run <idx>` runs one and logs each probe (used when the whole run dies:
            # an out-of-range from_raw that is not rejected is undefined behaviour and usually aborts the process)
            src.append("fn probe_log() -> bool { std::env::args().count() > 1 }")
            src.append("fn main() {")
            src.append("    std::panic::set_hook(Box::new(|_| {}));")
            src.append("    let only: Option<usize> = std::env::args().nth(1).map(|a| a.parse().unwrap());")
            for i in accepted:
                n = len([x for x in cases[i].split(" ")[4:] if x])
                src.append("    if only.map_or(true, |o| o == %d) { show::<d%d::E>(%d, &[%s]); }" % (i, i, i, ", ".join("d%d::E::V%d" % (i, j) for j in range(n))))
            src.append("}")
            d2 = RB.write_crate("c17_run", "bin", "\n".join(src) + "\n")
            rc, out, err = RB.cargo(d2, ["build", "--quiet"])
            if rc != 0:
                return ["RUN-BUILD-FAILED " + err[-300:].replace("\n", " ")] * len(cases)
            exe = os.path.join(core.WORK, "rustc_batch_target", "debug", "c17_run")
            p = subprocess.run([exe], stdout=subprocess.PIPE, stderr=subprocess.DEVNULL, text=True, errors="replace", timeout=600)
            for l in p.stdout.splitlines():
                idx, rest = l.split(" ", 1)
                results[int(idx)] = rest
            if p.returncode != 0:
                for i in accepted:
                    if i in results:
                        continue
                    q = subprocess.run([exe, str(i)], stdout=subprocess.PIPE, stderr=subprocess.DEVNULL, text=True, errors="replace", timeout=600)
                    lines = q.stdout.splitlines()
                    done = [l for l in lines if " ACCEPT " in l]
                    if q.returncode == 0 and done:
                        results[i] = done[0].split(" ", 1)[1]
                    else:
                        last = [l for l in lines if " PROBE " in l]
                        results[i] = "ABORT exit=%d at %s" % (q.returncode, last[-1].split(" PROBE ")[1] if last else "start")
        return [results.get(i, "REJECT") if i not in rejected else "REJECT" for i in range(len(cases))]

    def spec(self, case, impl):
        exp = spec_line(case)
        if impl != exp:
            return "rustc + derive: `%s`, the laws dictate `%s`" % (impl[:200], exp[:200])
        return None

    def nontrivial(self, case, impl):
        return impl == "REJECT" or ("n=" in impl and not impl.startswith("ACCEPT n=0") and not impl.startswith("ACCEPT n=1 ") and "=" in impl.split("texts=")[1])

    def distribution(self, cases, impl_lines):
        return {"accepted": sum(1 for l in impl_lines if l.startswith("ACCEPT")), "rejected": sum(1 for l in impl_lines if l == "REJECT")}

    def shrink_tokens(self, case):
        return None


PROPERTY = C17()
