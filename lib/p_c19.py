"""C19 — display and debug output are total and faithful."""
from .runner import Property
from .core import Rng
from . import gen_events as G
from .buildref import Cache, run_events
from .treefmt import Node, Tok, show_text
from .navref import T

CH = {1: 97, 2: 233, 3: 8364, 4: 119070}


def compositions(n, parts=(1, 2, 3, 4)):
    if n == 0:
        yield []
        return
    for p in parts:
        if p <= n:
            for r in compositions(n - p, parts):
                yield [p] + r


def esc(s):
    out = []
    for c in s:
        out.append({'"': '\\"', "\\": "\\\\", "\n": "\\n", "\t": "\\t", "\r": "\\r", "\0": "\\0"}.get(c, c))
    return '"' + "".join(out) + '"'


def abbrev(s):
    b = s.encode("utf-8")
    if len(b) < 25:
        return s
    for idx in range(21, 25):
        try:
            return b[:idx].decode("utf-8") + " ..."
        except UnicodeDecodeError:
            continue
    return None      # the unreachable!() of the code


def expected(events):
    tr, fin = run_events(Cache(), events)
    if not isinstance(fin, Node):
        return None
    t = T(fin)
    def flat(p):
        s, e = t.rng(p)
        el = t.elem[p]
        head = "K(%d)@%d..%d" % (el.kind, s, e)
        if isinstance(el, Tok):
            a = abbrev(el.text)
            if a is None:
                return None
            return head + " " + esc(a)
        return head
    per = []
    for p in t.order:
        f = flat(p)
        per.append("%s => %s" % (f.replace("\n", "¶"), show_text(t.elem[p].text_of())))
    rec = "".join("  " * len(p) + flat(p) + "¶" for p in t.order)
    return " ; ".join(per + ["REC " + rec])


class C19(Property):
    id = "C19"
    design_ref = "DESIGN.md section 5 / C19"
    theorems_note = ("abbrev_total (for EVERY token text the debug abbreviation finds a character boundary among the candidate cut "
                     "positions extracted from the current source — the unreachable!() is unreachable; generic version for any window "
                     "of 4 positions), abbrev_faithful, debug_recursive_spec (one line per element, once, in source order, indented by "
                     "depth; the final level assertion holds), display_is_text")
    assumptions = [
        "kinds are printed by the caller's Debug impl and text by std's <str as Debug> (escape_debug): both are outside the model; "
        "the harness uses derive(Debug) for its kind type and the driver re-implements the escape for the generators' alphabet",
        "UTF-8 widths 1..4 (valid str) — the only fact about the encoding the totality proof uses",
    ]
    nontrivial_rule = ("trees whose token texts have every byte length 0..40 and every alignment of 1-4 byte characters relative to "
                       "the abbreviation window; non-trivial = some token text is >= 25 bytes and contains a multi-byte character "
                       "overlapping bytes 21..25; distinct = distinct case line")
    exhaustive_note = {"quick": "texts = k ASCII bytes (k = 17..20) followed by every sequence of 1-4 byte characters filling bytes k..28, plus tails of 0/5 bytes",
                       "thorough": "texts = k ASCII bytes (k = 13..20) followed by every sequence of 1-4 byte characters filling bytes k..28, plus tails of 0..12 bytes"}

    def text_of(self, widths):
        return ".".join(str(CH[w]) for w in widths)

    def cases(self, tier, seed):
        res = [("corpus", "D S1 T5:97.34.92.10.233 S2 T6:" + ".".join(["49"] * 20 + ["8364", "8364", "55", "56"]) + " F X100 F")]
        ks = range(17, 21) if tier == "quick" else range(13, 21)
        tails = [0, 5] if tier == "quick" else [0, 1, 2, 5, 12]
        for k in ks:
            for comp in compositions(28 - k):
                for tail in tails:
                    w = [1] * k + comp + [1] * tail
                    res.append(("exhaustive", "D S1 T5:%s F" % self.text_of(w)))
        # characters that <str as Debug> escapes (quote, backslash, newline, tab), at every position of the kept prefix
        for esc in (34, 92, 10, 9):
            for pos in range(0, 26):
                for total in ((26, 30) if tier == "quick" else (25, 26, 30, 40)):
                    if pos < total:
                        w = [97] * pos + [esc] + [97] * (total - pos - 1)
                        res.append(("exhaustive", "D S1 T5:%s F" % ".".join(str(c) for c in w)))
        for n in range(0, 25):                      # short texts: every length, a few width mixes
            for comp in list(compositions(n))[:40]:
                res.append(("exhaustive", "D S1 T5:%s F" % self.text_of(comp)))
        # deep trees: the indentation is 2 x depth at every depth (no cap, no wrap)
        import sys
        sys.setrecursionlimit(max(sys.getrecursionlimit(), 20000))
        for depth in ([31, 32, 33, 40, 70] if tier == "quick" else [31, 32, 33, 40, 63, 64, 65, 70, 129, 300]):
            ev = ["S1"] + ["S%d" % (1 + j % 2) for j in range(depth - 1)] + ["T5:97"] + ["F"] * (depth // 2) + ["T6:233"] + ["F"] * (depth - depth // 2)
            res.append(("corpus", "D " + " ".join(ev)))
        rng = Rng(seed + 19)
        toks = ["T5:97", "T5:", "T6:233.98", "X100", "X103", "T5:34.92.10.9", "T7:" + ".".join(["119070"] * 7),
                "T7:" + ".".join(["97"] * 22 + ["233"] * 3), "T7:" + ".".join(["8364"] * 9)]
        for _ in range(400 if tier == "quick" else 8000):
            ev = G.rand_tree_events(rng, rng.choice([5, 15, 50]), toks=toks, wide=rng.chance(1, 3))
            res.append(("random", "D " + " ".join(ev)))
        return res

    def spec(self, case, impl):
        exp = expected(case[2:].split(" "))
        if exp is None:
            return None if impl == "BUILD-PANIC" else "expected BUILD-PANIC"
        if "PANIC:" in impl:
            return "formatting panicked: " + impl[impl.index("PANIC:"):][:40]
        if impl != exp:
            a, b = impl.split(" ; "), exp.split(" ; ")
            for x, y in zip(a, b):
                if x != y:
                    return "got `%s`, expected `%s`" % (x[:200], y[:200])
            return "output differs in length"
        return None

    def nontrivial(self, case, impl):
        return " ..." in impl and any(ch in case for ch in ("233", "8364", "119070"))

    def distribution(self, cases, impl_lines):
        return {"abbreviated_tokens": sum(l.count(' ..."') for l in impl_lines)}

    def shrink_tokens(self, case):
        return None


PROPERTY = C19()
