"""buildref.py — the reference semantics of builder event sequences used by the C01/C04/C20 oracles:
a stack parser over plain trees (what the events denote) plus the documented sharing policy
(tokens with equal kind+text are one allocation; nodes with <= 3 children, equal kind and equal children
are one allocation; everything else is a fresh allocation).  Independent of hashes and of the Coq model."""
from .treefmt import Tok, Node, parse_text, STATIC

THRESHOLD = 3


class Cache:
    def __init__(self):
        self.tokens = {}     # (kind, text) -> obj
        self.nodes = {}      # dump -> obj
        self.counter = 0

    def fresh(self, obj):
        obj_id = self.counter
        self.counter += 1
        return obj_id


class RTok(Tok):
    __slots__ = ("uid",)


class RNode(Node):
    __slots__ = ("uid",)


def run_events(cache, ops):
    """-> (expected trace list with '.'/'P', final) ; final = tree obj | 'PANIC' | None (unspecified:
    nodes still open at finish)"""
    opens = []       # (kind, start)
    elems = []
    trace = []
    for op in ops:
        c, rest = op[0], op[1:]
        if c == "S":
            opens.append((int(rest), len(elems)))
            trace.append(".")
        elif c in "TEX":
            if c == "X":
                k, txt = int(rest), None
            else:
                k, txt = rest.split(":")
                k, txt = int(k), parse_text(txt)
            if k in STATIC:
                txt = STATIC[k]
            elif c == "X":
                trace.append("P")
                continue
            elif c == "E":
                trace.append("P")      # the interner fails: panic, nothing else changes
                continue
            key = (k, txt)
            t = cache.tokens.get(key)
            if t is None:
                t = RTok(k, txt)
                t.uid = cache.fresh(t)
                cache.tokens[key] = t
            elems.append(t)
            trace.append(".")
        elif c == "F":
            if not opens:
                trace.append("P")
                continue
            kind, start = opens.pop()
            kids = elems[start:]
            del elems[start:]
            n = RNode(kind, kids)
            if len(kids) <= THRESHOLD:
                d = n.dump()
                hit = cache.nodes.get(d)
                if hit is None:
                    n.uid = cache.fresh(n)
                    cache.nodes[d] = n
                else:
                    n = hit
            else:
                n.uid = cache.fresh(n)
            elems.append(n)
            trace.append(".")
        else:
            raise ValueError("not an event: " + op)
    if opens:
        return trace, None
    if len(elems) == 1 and isinstance(elems[0], Node):
        return trace, elems[0]
    return trace, "PANIC"


def preorder_uids(t, out):
    out.append(t.uid)
    if isinstance(t, Node):
        for c in t.children:
            preorder_uids(c, out)


def expected_history(builds):
    """builds: list of op lists -> (list of (trace, final), share list or None)"""
    cache = Cache()
    res, allids, ok = [], [], True
    for ops in builds:
        tr, fin = run_events(cache, ops)
        res.append((tr, fin))
        if fin is None:
            ok = False
        elif fin != "PANIC":
            preorder_uids(fin, allids)
    if not ok:
        return res, None
    seen = {}
    share = []
    for u in allids:
        if u not in seen:
            seen[u] = len(seen)
        share.append(seen[u])
    return res, share


def check_history_line(case, impl):
    """Compare an `H` case's implementation output with the reference. -> None or what fails."""
    toks = case.split(" ")
    builds, cur = [], []
    for t in toks[3:]:
        if t == "/":
            builds.append(cur); cur = []
        else:
            cur.append(t)
    builds.append(cur)
    exp, share = expected_history(builds)
    parts = impl.split(" || ")
    if len(parts) != len(builds) + 1:
        return "malformed implementation output: " + impl[:120]
    for i, ((tr, fin), part) in enumerate(zip(exp, parts)):
        if " | " not in part:
            return "malformed implementation output: " + part[:120]
        gtr, gfin = part.split(" | ", 1)
        codes = split_codes(gtr)
        if len(codes) != len(tr):
            return "tree %d: trace length differs" % i
        for j, (g, e) in enumerate(zip(codes, tr)):
            if e == "." and g != ".":
                return "tree %d op %d (%s): panicked (%s) although the event is well-formed" % (i, j, builds[i][j], g)
            if e == "P" and g == ".":
                return "tree %d op %d (%s): accepted although it has no meaning" % (i, j, builds[i][j])
        if gfin.startswith("CHANGED<"):
            return "tree %d was altered by a later build through the same cache: %s" % (i, gfin[:200])
        if fin is None:
            continue
        if fin == "PANIC":
            if not gfin.startswith("PANIC:"):
                return "tree %d: finish returned a tree although the events do not denote exactly one node" % i
        else:
            d = fin.dump()
            if gfin != d:
                return "tree %d: built %s but the events denote %s" % (i, gfin[:300], d[:300])
    if share is not None:
        g = parts[-1]
        if g == "share -":
            return None
        if not g.startswith("share "):
            return "malformed share list"
        got = [int(x) for x in g[6:].split(",")] if g[6:] else []
        if got != share:
            return "sharing differs from the documented policy: got %s expected %s" % (got[:60], share[:60])
    return None


def split_codes(tr):
    out, i = [], 0
    while i < len(tr):
        if tr[i] == "?" and i + 1 < len(tr) and tr[i + 1] == "<":
            j = tr.index(">", i)
            out.append(tr[i:j + 1]); i = j + 1
        else:
            out.append(tr[i]); i += 1
    return out
