"""navref.py — reference semantics of red-tree navigation, defined directly on the tree structure
(document order, true byte offsets).  Independent of the Coq model and of how the code computes offsets."""
from .treefmt import Tok, Node, parse_text, STATIC
from .buildref import Cache, run_events


class T:
    """tree with positions"""
    def __init__(self, root):
        self.root = root
        self.start = {}
        self.elem = {}
        self.order = []          # all positions in document (pre)order
        self._walk(root, (), 0)

    def _walk(self, e, path, off):
        self.start[path] = off
        self.elem[path] = e
        self.order.append(path)
        if isinstance(e, Node):
            o = off
            for i, c in enumerate(e.children):
                self._walk(c, path + (i,), o)
                o += c.length()

    def is_node(self, p):
        return isinstance(self.elem[p], Node)

    def rng(self, p):
        return self.start[p], self.start[p] + self.elem[p].length()

    def show(self, p):
        s, e = self.rng(p)
        return "%s%s@%d..%d" % ("n" if self.is_node(p) else "t", "".join("/%d" % i for i in p), s, e)

    def kids(self, p):
        return [p + (i,) for i in range(len(self.elem[p].children))] if self.is_node(p) else []

    def tokens_in(self, p):
        return [q for q in self.order if q[:len(p)] == p and not self.is_node(q)]

    def all_tokens(self):
        return [q for q in self.order if not self.is_node(q)]

    def subtree(self, p):
        return [q for q in self.order if q[:len(p)] == p]

    def preorder(self, p, nodes_only):
        out = []
        def rec(q):
            out.append("+" + self.show(q))
            for c in self.kids(q):
                if not nodes_only or self.is_node(c):
                    rec(c)
            out.append("-" + self.show(q))
        rec(p)
        return out


def parse_handle(s):
    """'n/0/2@3..5' -> (is_node, path, start, end)"""
    kind = s[0]
    body, rng = s[1:].split("@")
    path = tuple(int(x) for x in body.split("/") if x != "")
    a, b = rng.split("..")
    return kind == "n", path, int(a), int(b)


def build_tree(events):
    tr, fin = run_events(Cache(), events)
    if fin is None or fin == "PANIC":
        return None
    return T(fin)


def expected_op(t, regs, op):
    """-> (expected output string or callable validator, new register (path or None))"""
    parts = op.split(":")
    name = parts[0]
    try:
        src = regs[int(parts[1])]
    except (IndexError, ValueError):
        src = None
    if src is None:
        return "-", None
    p = src
    node = t.is_node(p)

    def one(q):
        return (t.show(q), q) if q is not None else ("-", None)

    def lst(qs):
        return "[" + ",".join(t.show(q) for q in qs) + "]", None

    def sibs(q, step, nodes_only):
        if not q:
            return []
        par, i = q[:-1], q[-1]
        out = []
        k = t.kids(par)
        j = i + step
        while 0 <= j < len(k):
            if not nodes_only or t.is_node(k[j]):
                out.append(k[j])
            j += step
        return out

    first = lambda l: l[0] if l else None
    if name == "par":
        return one(p[:-1] if p else None)
    if name == "anc":
        q = p if node else p[:-1]
        out = []
        while True:
            out.append(q)
            if not q:
                break
            q = q[:-1]
        return lst(out)
    if name in ("nst", "pst"):
        return one(first(sibs(p, 1 if name == "nst" else -1, False)))
    if name in ("sibt+", "sibt-"):
        return lst([p] + sibs(p, 1 if name == "sibt+" else -1, False))
    if not node:
        toks = t.all_tokens()
        i = toks.index(p)
        if name == "nt":
            return one(toks[i + 1] if i + 1 < len(toks) else None)
        if name == "pt":
            return one(toks[i - 1] if i > 0 else None)
        if name in ("ft", "lt"):
            return one(p)
        return "-", None
    k = t.kids(p)
    nk = [q for q in k if t.is_node(q)]
    if name == "fc":
        return one(first(nk))
    if name == "fct":
        return one(first(k))
    if name == "lc":
        return one(nk[-1] if nk else None)
    if name == "lct":
        return one(k[-1] if k else None)
    if name in ("ns", "ps"):
        return one(first(sibs(p, 1 if name == "ns" else -1, True)))
    if name in ("sib+", "sib-"):
        return lst([p] + sibs(p, 1 if name == "sib+" else -1, True))
    if name == "ft":
        return one(first(t.tokens_in(p)))
    if name == "lt":
        tk = t.tokens_in(p)
        return one(tk[-1] if tk else None)
    if name == "ch":
        i = int(parts[2])
        return one(nk[i] if i < len(nk) else None)
    if name == "cht":
        i = int(parts[2])
        return one(k[i] if i < len(k) else None)
    if name in ("nca", "ncta", "pcb", "pctb"):
        try:
            c = regs[int(parts[2])]
        except (IndexError, ValueError):
            c = None
        if c is None or not c or c[:-1] != p:
            return "-", None
        step = 1 if name in ("nca", "ncta") else -1
        return one(first(sibs(c, step, name in ("nca", "pcb"))))
    if name == "chs":
        return lst(nk)
    if name == "chts":
        return lst(k)
    if name == "desc":
        return lst([q for q in t.subtree(p) if t.is_node(q)])
    if name == "desct":
        return lst(t.subtree(p))
    if name == "pre":
        return "[" + ",".join(t.preorder(p, True)) + "]", None
    if name == "pret":
        return "[" + ",".join(t.preorder(p, False)) + "]", None
    if name in ("sz", "szt"):
        items = nk if name == "sz" else k
        def rep(n):
            return "len=%d,cnt=%d,hint=%d-%d,n=%d" % (n, n, n, n, n)
        return rep(len(items)) + "|" + rep(max(len(items) - 1, 0)), None
    if name == "ar":
        return "%d,%d" % (len(nk), len(k)), None
    if name in ("itn", "its"):
        items = nk if name == "itn" else k
        script = [int(x) for x in parts[2].split(".") if x] if len(parts) > 2 else []
        idx, out = 0, []
        for kk in script:
            idx += kk
            if idx < len(items):
                out.append(items[idx])
                idx += 1
            else:
                idx = len(items)
        term = parts[3] if len(parts) > 3 else ""
        rest = items[idx:]
        tail = {"l": " last=" + (t.show(rest[-1]) if rest else "-"), "c": " count=%d" % len(rest),
                "z": " len=%d,hint=%d-%d" % (len(rest), len(rest), len(rest)),
                "f": " rest=[" + ",".join(t.show(q) for q in rest) + "]"}.get(term, "")
        return lst(out)[0] + tail, None
    if name == "tao":
        off = int(parts[2])
        s, e = t.rng(p)
        if not (s <= off <= e):
            return (lambda got: None if got.startswith("PANIC:") else "offset outside the node's range must panic, got " + got), None
        if s == e:
            return "none", None
        hits = [q for q in t.tokens_in(p) if t.rng(q)[0] != t.rng(q)[1] and t.rng(q)[0] <= off <= t.rng(q)[1]]
        if len(hits) == 1:
            return "single " + t.show(hits[0]), hits[0]
        if len(hits) == 2:
            return "between %s %s" % (t.show(hits[0]), t.show(hits[1])), hits[1]
        return "?internal: %d tokens touch the offset" % len(hits), None
    if name == "taoh":
        off = int(parts[2])
        s, e = t.rng(p)
        if not (s <= off <= e):
            return (lambda got: None if got.startswith("PANIC:") else "offset outside the node's range must panic, got " + got), None
        hits = [q for q in t.tokens_in(p) if t.rng(q)[0] != t.rng(q)[1] and t.rng(q)[0] <= off <= t.rng(q)[1]]
        if len(hits) > 2:
            return "?internal: %d tokens touch the offset" % len(hits), None
        sh = lambda q: t.show(q)
        return "L=%s R=%s it=[%s] sz=%s" % (sh(hits[0]) if hits else "-", sh(hits[-1]) if hits else "-", ",".join(map(sh, hits)),
                                            ",".join(str(max(len(hits) - k, 0)) for k in range(4))), (hits[-1] if hits else None)
    if name == "cov":
        rs_, re_ = int(parts[2]), int(parts[3])
        s, e = t.rng(p)
        if not (s <= rs_ and re_ <= e):
            return (lambda got: None if got.startswith("PANIC:") else "range outside the node's range must panic, got " + got), None
        def validate(got):
            if got.startswith("PANIC"):
                return "covering_element panicked inside its precondition: " + got
            try:
                isn, q, a, b = parse_handle(got)
            except Exception:
                return "malformed handle " + got
            if q not in t.elem or q[:len(p)] != p:
                return "result %s is not in the subtree" % got
            if t.show(q) != got:
                return "result %s reports a wrong kind/range (true: %s)" % (got, t.show(q))
            qs, qe = t.rng(q)
            if not (qs <= rs_ and re_ <= qe):
                return "result %s does not contain the range %d..%d" % (got, rs_, re_)
            for c in t.kids(q):
                cs, ce = t.rng(c)
                if cs <= rs_ and re_ <= ce:
                    return "result %s is not the deepest: its child %s also contains the range" % (got, t.show(c))
            return None
        return validate, "FROM-IMPL"
    return "-", None


def check_nav_line(case, impl, only=None):
    """-> None or what fails.  `only`: set of op names this property is about (others are still used to
    advance the registers but a mismatch on them is not this property's violation)."""
    toks = case.split(" ")
    bar = toks.index("|") if "|" in toks else len(toks)
    events, nav = toks[2:bar], toks[bar + 1:]
    t = build_tree(events)
    if t is None:
        return None if impl.startswith("BUILD-PANIC") else "the events do not build a tree but the harness produced one"
    if impl.startswith("BUILD-PANIC"):
        return "building the tree panicked: " + impl
    sections = impl.split(" ;; ")
    if len(sections) != 3:
        return "malformed output: " + impl[:200]
    outs = sections[0].split(" ; ") if nav else []
    if len(outs) != len(nav):
        return "expected %d op results, got %d" % (len(nav), len(outs))
    regs = [()]
    for i, (op, got) in enumerate(zip(nav, outs)):
        exp, reg = expected_op(t, regs, op)
        name = op.split(":")[0]
        mine = only is None or name in only
        if callable(exp):
            why = exp(got)
            if why and mine:
                return "op %d (%s): %s" % (i, op, why)
            if reg == "FROM-IMPL":
                try:
                    reg = parse_handle(got)[1]
                    if reg not in t.elem:
                        reg = None
                except Exception:
                    reg = None
        elif got != exp:
            if mine:
                return "op %d (%s): got %s, the tree structure dictates %s" % (i, op, got[:300], exp[:300])
            # keep following the implementation's own answer where possible
            try:
                reg = parse_handle(got)[1] if got not in ("-",) and not got.startswith("[") else None
                if reg not in t.elem:
                    reg = None
            except Exception:
                reg = None
        regs.append(reg)
    # handles held in registers keep reporting their true range
    held_part, _, classes_part = sections[1].partition(" ~ ")
    held = held_part.split(" ")
    for i, h in enumerate(held):
        if h == "-":
            continue
        try:
            isn, q, a, b = parse_handle(h)
        except Exception:
            return "malformed held handle " + h
        if q not in t.elem or t.show(q) != h:
            return "register %d holds %s but that position's true range/kind is %s" % (i, h, t.show(q) if q in t.elem else "?")
    # final dump: every element reports its exact span
    exp_dump = ",".join(t.show(q) for q in t.order)
    if sections[2] != exp_dump:
        g, e = sections[2].split(","), exp_dump.split(",")
        for x, y in zip(g, e):
            if x != y:
                return "after the traversal element %s reports %s" % (y, x)
        return "final dump differs in length"
    return None


def check_identity(case, impl):
    """C05, sequential part: two handles are equal exactly when they denote the same position, and equal handles hash equally"""
    sections = impl.split(" ;; ")
    if len(sections) != 3 or " ~ " not in sections[1]:
        return None if impl.startswith("BUILD-PANIC") else "malformed output: " + impl[:200]
    held_part, _, classes_part = sections[1].partition(" ~ ")
    held, classes = held_part.split(" "), classes_part.split(",")
    if len(held) != len(classes):
        return "malformed identity classes"
    by_class = {}
    for i, (h, c) in enumerate(zip(held, classes)):
        if (h == "-") != (c == "-"):
            return "register %d: handle %s but class %s" % (i, h, c)
        if h == "-":
            continue
        if c.endswith("h!"):
            return "register %d holds a handle equal to an earlier one (%s) but their hashes differ" % (i, h)
        pos = h.split("@")[0]
        if c in by_class and by_class[c] != pos:
            return "registers holding %s and %s compare equal although they denote different positions" % (by_class[c], pos)
        by_class.setdefault(c, pos)
    seen = {}
    for c, pos in by_class.items():
        if pos in seen:
            return "two handles to position %s compare unequal" % pos
        seen[pos] = c
    return None
