"""C14 — replacing an element substitutes exactly that element."""
from .runner import Property
from .core import Rng
from . import gen_events as G, gen_nav as GN
from .buildref import Cache, run_events
from .treefmt import Node, Tok, show_text
from .navref import T


def tree_of(events):
    tr, fin = run_events(Cache(), events)
    return fin if isinstance(fin, Node) else None


def subst(t, path, r):
    if not path:
        return r
    kids = list(t.children)
    kids[path[0]] = subst(kids[path[0]], path[1:], r)
    return Node(t.kind, kids)


def get(t, path):
    for i in path:
        if not isinstance(t, Node) or i >= len(t.children):
            return None
        t = t.children[i]
    return t


class C14(Property):
    id = "C14"
    design_ref = "DESIGN.md section 5 / C14"
    theorems_note = ("replace_denote (the result denotes the original with exactly the chosen position substituted), replace_kind_mismatch "
                     "(panic), replace_wf (all lengths/hashes along the spine recomputed), replace_text (text = text before ++ replacement "
                     "text ++ text after), replace_equal (replacing by an equal element yields a tree equal to the original)")
    assumptions = [
        "the original tree and red trees built on it are unchanged because green values are immutable (Arc without interior mutability) — "
        "by construction in the model; observed by the correspondence (original re-dumped, a live red tree re-dumped)",
    ]
    nontrivial_rule = ("(tree, position, replacement) triples; non-trivial = the position is not the root and the replacement differs in "
                       "length from the replaced element, or the position lies in a shared (deduplicated) sub-tree; distinct = distinct case line")
    exhaustive_note = {"quick": "every tree of <= 6 events x every position x 6 replacements", "thorough": "every tree of <= 7 events x every position x 10 replacements"}

    REPL_NODE = ["S%d F", "S%d T5:120.121.122 F", "S%d S%d T5:97 F T6:233 F", "S%d X100 F", "S%d T5: F", "S%d S2 F S1 F F"]
    REPL_TOK = ["S9 T%d:120.121 F", "S9 T%d: F", "S9 T%d:97 F", "S9 T%d:233.98 F"]

    def cases(self, tier, seed):
        res = []
        # positions inside shared sub-trees: the same small node twice, replace inside one occurrence
        res.append(("corpus", "Y S1 S2 T5:97 F S2 T5:97 F F | 1.0 | S9 T5:120.121 F"))
        res.append(("corpus", "Y S1 S2 T5:97 F S2 T5:97 F F | 0 | S2 T5:97 F"))
        res.append(("corpus", "Y S1 S2 T5:97 F F | 0 | S3 F"))
        trees = GN.small_trees(6 if tier == "quick" else 7) + [e for e in G.enum_balanced(5, toks=["X100", "T5:97"])]
        for ev in trees:
            t = tree_of(ev)
            if t is None:
                continue
            tt = T(t)
            for path in tt.order:
                e = tt.elem[path]
                pstr = ".".join(str(i) for i in path) if path else "-"
                if isinstance(e, Node):
                    for r in self.REPL_NODE[:6]:
                        k = e.kind
                        rep = r.replace("%d", str(k), 1).replace("%d", "2")
                        res.append(("exhaustive", "Y %s | %s | %s" % (" ".join(ev), pstr, rep)))
                    res.append(("exhaustive", "Y %s | %s | S%d F" % (" ".join(ev), pstr, e.kind + 1)))     # kind mismatch
                else:
                    for r in (self.REPL_TOK if e.kind < 100 else ["S9 X%d F", "S9 S2 F X%d F"]):
                        res.append(("exhaustive", "Y %s | %s | %s" % (" ".join(ev), pstr, r % e.kind)))
                    res.append(("exhaustive", "Y %s | %s | S9 T%d:97 F" % (" ".join(ev), pstr, e.kind + 1 if e.kind < 100 else 7)))
        # the same under forced hash collisions (mask 0: every child hash is 0; mask 3: four values): what replace_with
        # returns must not rest on the hash
        masked = []
        for stream, c in res:
            if stream == "exhaustive" and len(c) < 60:
                masked.append((stream, "Y m0 " + c[2:]))
                masked.append((stream, "Y m3 " + c[2:]))
        res += masked
        rng = Rng(seed + 14)
        nrand = 800 if tier == "quick" else 15000
        for _ in range(nrand):
            ev = G.rand_tree_events(rng, rng.choice([6, 20, 60, 200]), wide=rng.chance(1, 3))
            t = tree_of(ev)
            tt = T(t)
            path = rng.choice(tt.order)
            e = tt.elem[path]
            pstr = ".".join(str(i) for i in path) if path else "-"
            if isinstance(e, Node):
                rep = G.rand_tree_events(rng, rng.choice([0, 3, 10, 40]))
                rep[0] = "S%d" % (e.kind if rng.chance(9, 10) else e.kind + 1)
            else:
                k = e.kind if rng.chance(9, 10) else (e.kind + 1 if e.kind < 100 else 7)
                rep = ["S9", ("X%d" % k) if k >= 100 else "T%d:%s" % (k, rng.choice(["", "97", "120.233.122"])), "F"]
            res.append(("random", "Y %s%s | %s | %s" % (rng.choice(["", "", "m0 ", "m3 "]), " ".join(ev), pstr, " ".join(rep))))
        return res

    def spec(self, case, impl):
        ev, pstr, rev = [x.strip().split(" ") for x in case[2:].split(" | ")]
        if ev and ev[0].startswith("m"):
            ev = ev[1:]          # hash mask: the expected result does not depend on it
        t, r = tree_of(ev), tree_of(rev)
        if t is None or r is None:
            return None if impl == "BUILD-PANIC" else "expected BUILD-PANIC"
        path = tuple(int(x) for x in pstr[0].split(".")) if pstr[0] != "-" else ()
        target = get(t, path)
        if target is None:
            return None if impl == "NO-SUCH-POSITION" else "expected NO-SUCH-POSITION"
        if isinstance(target, Node):
            repl = r
        else:
            repl = next((c for c in r.children if isinstance(c, Tok)), None)
            if repl is None:
                return None if impl == "NO-REPLACEMENT-TOKEN" else "expected NO-REPLACEMENT-TOKEN"
        if "orig_unchanged=1" not in impl.split(" "):
            return "the original tree (or a red tree on it) changed: " + impl[-60:]
        if repl.kind != target.kind:
            return None if impl.startswith("PANIC:k") else "kind mismatch must panic, got " + impl[:80]
        new = subst(t, list(path), repl)
        # fresh=11: the result is equal to, and hashes like, the same tree constructed from scratch
        exp = "%s text=%s ranges=%s orig_unchanged=1 fresh=11" % (new.dump(), show_text(new.text_of()), ",".join(T(new).show(q) for q in T(new).order))
        if impl != exp:
            return "got `%s`, expected `%s`" % (impl[:400], exp[:400])
        return None

    def nontrivial(self, case, impl):
        parts = case.split(" | ")
        return parts[1] != "-" and not impl.startswith("PANIC") and "(" in impl

    def distribution(self, cases, impl_lines):
        return {"kind_mismatch_panics": sum(1 for l in impl_lines if l.startswith("PANIC:k")),
                "root_replacements": sum(1 for c in cases if " | - | " in c)}

    def shrink_tokens(self, case):
        return None


PROPERTY = C14()
