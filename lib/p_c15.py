"""C15 — green equality and hashing are structural and route-independent."""
from .runner import Property
from .core import Rng
from . import gen_events as G
from .buildref import Cache, run_events
from .treefmt import Node

SCRIPT_OPS = ["n", "b", "t0", "t1", "t2", "u0", "u1", "l", "c", "z", "h", "f", "r"]


def tree_of(events):
    tr, fin = run_events(Cache(), events)
    return fin if isinstance(fin, Node) else None


def show_child(c):
    return "%s%d@%d" % ("n" if isinstance(c, Node) else "t", c.kind, c.length())


def iter_ref(children, script):
    it = list(children)
    out = []
    opt = lambda c: show_child(c) if c is not None else "-"
    for op in script:
        c, rest = op[0], op[1:]
        if c == "n":
            out.append(opt(it.pop(0) if it else None))
        elif c == "b":
            out.append(opt(it.pop() if it else None))
        elif c == "t":
            n = int(rest)
            if n < len(it):
                x = it[n]; del it[:n + 1]; out.append(opt(x))
            else:
                it = []; out.append("-")
        elif c == "u":
            n = int(rest)
            if n < len(it):
                x = it[len(it) - 1 - n]; del it[len(it) - 1 - n:]; out.append(opt(x))
            else:
                it = []; out.append("-")
        elif c in "lc":
            out.append(str(len(it)))
        elif c == "z":
            out.append(opt(it[-1] if it else None))
        elif c == "h":
            out.append("%d-%d" % (len(it), len(it)))
        elif c == "f":
            out.append("".join(show_child(x) + "+" for x in it))
        elif c == "r":
            out.append("".join(show_child(x) + "+" for x in reversed(it)))
    return " ".join(out)


def mutate(rng, ev):
    """single edit that keeps the sequence balanced"""
    ev = list(ev)
    toks = [i for i, o in enumerate(ev) if o[0] in "TX"]
    starts = [i for i, o in enumerate(ev) if o[0] == "S"]
    r = rng.below(6)
    if r == 0 and toks:
        i = rng.choice(toks); ev[i] = rng.choice(["T5:97", "T5:98", "T5:", "T6:97", "X100", "X102", "T5:43"])
    elif r == 1 and starts:
        i = rng.choice(starts); ev[i] = "S%d" % (1 + rng.below(3))
    elif r == 2 and toks:
        del ev[rng.choice(toks)]
    elif r == 3:
        ev.insert(1 + rng.below(len(ev) - 1), rng.choice(["T5:97", "T5:", "X101"]))
    elif r == 4:
        i = 1 + rng.below(len(ev) - 1); ev[i:i] = ["S2", "F"]
    elif len(toks) >= 2:
        i, j = rng.choice(toks), rng.choice(toks); ev[i], ev[j] = ev[j], ev[i]
    return ev


class C15(Property):
    id = "C15"
    design_ref = "DESIGN.md section 5 / C15"
    theorems_note = ("geq_structural (== holds exactly when kinds, shape and token texts agree, for well-formed trees over one duplicate-free "
                     "interner), geq_hash (equal => same hash input), every route yields well-formed trees (builder with any cache, "
                     "GreenNode::new, replace_with), text_len_sum (reported length = byte length of the text), child-iterator laws for the "
                     "three non-forwarding methods (last, fold, rfold), nth, nth_back and next_back")
    assumptions = [
        "slice::Iter (std) is the sequence the remaining iterator methods forward to — each forward is exercised against a plain list",
        "hash values are never compared absolutely: only equality of the byte streams fed to a recording Hasher",
        "triomphe ThinArc/Arc equality = pointer equality or structural equality of header and slice (not modelled; exercised)",
    ]
    nontrivial_rule = ("pairs (tree, single-edit mutant | same tree) built through one cache, plus the first tree again by direct construction "
                       "and through a fresh cache, plus an iterator script on the root's children; non-trivial = the pair differs in exactly "
                       "one edit or is equal by a different route, and the script mixes front and back operations; distinct = distinct case line")
    exhaustive_note = {"quick": "all ordered pairs of balanced event sequences of <= 5 events", "thorough": "all ordered pairs of balanced event sequences of <= 6 events"}

    def cases(self, tier, seed):
        res = []
        rng = Rng(seed + 15)
        small = G.enum_balanced(5 if tier == "quick" else 6)
        for a in small:
            for b in small:
                script = [rng.choice(SCRIPT_OPS) for _ in range(4)]
                res.append(("exhaustive", "G %s / %s | %s" % (" ".join(a), " ".join(b), " ".join(script))))
        # the same pairs with all child hashes forced to collide (mask 0) or nearly so (mask 3): equality must not rest on the hash
        small4 = G.enum_balanced(4 if tier == "quick" else 5)
        for a in small4:
            for b in small4:
                for m in ("m0", "m3"):
                    res.append(("exhaustive", "G %s %s / %s | len" % (m, " ".join(a), " ".join(b))))
        nrand = 1500 if tier == "quick" else 30000
        for i in range(nrand):
            a = G.rand_tree_events(rng, rng.choice([5, 15, 50, 200]), wide=rng.chance(1, 2))
            b = list(a) if rng.chance(1, 3) else mutate(rng, a)
            script = [rng.choice(SCRIPT_OPS) for _ in range(rng.choice([3, 8, 20]))]
            m = rng.choice(["", "", "m0 ", "m3 ", "mff "])
            res.append(("random", "G %s%s / %s | %s" % (m, " ".join(a), " ".join(b), " ".join(script))))
        return res

    def spec(self, case, impl):
        body = case[2:]
        evs, script = body.split(" | ") if " | " in body else (body, "")
        a, b = [x.split(" ") for x in evs.split(" / ")]
        if a and a[0].startswith("m"):
            a = a[1:]            # hash mask: the expected outputs do not depend on it
        ta, tb_ = tree_of(a), tree_of(b)
        if ta is None or tb_ is None:
            return None if impl == "BUILD-PANIC" else "expected BUILD-PANIC"
        eq = ta.dump() == tb_.dump()
        exp = "eq=%d heq=%s sym=1 new_eq=1 new_heq=1 fresh_eq=1 fresh_heq=1 len_ok=1 | %s" % (
            eq, "1" if eq else "-", iter_ref(ta.children, script.split(" ") if script else []))
        if impl != exp:
            return "got `%s`, expected `%s`" % (impl[:300], exp[:300])
        return None

    def nontrivial(self, case, impl):
        return "eq=" in impl and any(o in case for o in (" b", " u0", " u1", " r"))

    def distribution(self, cases, impl_lines):
        return {"equal_pairs": sum(1 for l in impl_lines if l.startswith("eq=1")),
                "unequal_pairs": sum(1 for l in impl_lines if l.startswith("eq=0"))}

    def shrink_tokens(self, case):
        return None


PROPERTY = C15()
