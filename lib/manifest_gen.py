"""Regenerates MANIFEST.json from the property modules that exist (python3 -m lib.manifest_gen)."""
import importlib, json, os, subprocess
from . import core

ALL = ["C%02d" % i for i in range(1, 21)]
PENDING_REASON = "not claimed yet: model/theorems for this property are not built at this commit (see DESIGN.md section 5 for the plan)"


def main():
    checks, na = [], []
    for p in ALL:
        path = os.path.join(core.VERIF, "lib", "p_%s.py" % p.lower())
        if not os.path.exists(path) or not os.path.exists(core.property_file(p)):
            na.append({"property_id": p, "reason": PENDING_REASON})
            continue
        P = importlib.import_module("lib.p_" + p.lower()).PROPERTY
        if getattr(P, "not_applicable", None):
            na.append({"property_id": p, "reason": P.not_applicable})
            continue
        checks.append({
            "property_id": p,
            "quick_cmd": "./check %s quick" % p,
            "thorough_cmd": "./check %s thorough" % p,
            "evidence_file": "/verif/evidence/%s.json" % p,
            "replay_cmd_template": "./check %s --replay {path}" % p,
            "engine": "coq-model+correspondence",
            "level_claimed": {"category": "proof", "text": getattr(P, "level_text", P.theorems_note), "design_ref": P.design_ref},
            "level_note": getattr(P, "level_note", "; ".join(P.assumptions)),
            "technique": getattr(P, "technique", "Coq 8.16 theorems over a hand-written executable Gallina model; model tied to the code by a differential correspondence run (extracted OCaml model vs Rust harness on generated cases) and translator facts"),
        })
    commits = subprocess.run(["git", "-C", core.REPO, "log", "--format=%h %s"], capture_output=True, text=True).stdout.splitlines()
    hook_commits = [c.split(" ")[0] for c in commits if c.split(" ", 1)[1].startswith("verif-hook:")]
    man = {
        "version": 1,
        "setup_cmd": "./check --setup",
        "hooks": {
            "guard": "cstree_verif",
            "enable": "RUSTFLAGS=\"--cfg cstree_verif\" (set by ./check when it builds harness/ against /repo/cstree)",
            "baseline_off_cmd": "cd /repo && cargo test --workspace --no-fail-fast --offline",
            "source_commits": hook_commits,
            "add_only": True,
        },
        "engines": [{
            "name": "coq-model+correspondence", "path": "/verif/check",
            "serves_properties": [c["property_id"] for c in checks],
            "kind_free_text": "Coq 8.16.1 theorems over an executable Gallina model (coq/), extracted to OCaml (ocaml/modelrun) and run against the real crate (harness/implrun) on the same generated cases; translator facts in coq/Extracted.v regenerated from /repo on every run",
        }],
        "checks": checks,
        "not_applicable": na,
        "notes": "See DESIGN.md. Known findings: KNOWN_FINDINGS.txt. Seeded breakages: seeded/.",
    }
    json.dump(man, open(os.path.join(core.VERIF, "MANIFEST.json"), "w"), indent=1)
    print("MANIFEST.json: %d checks, %d not claimed" % (len(checks), len(na)))


main()
