"""core.py — shared machinery of ./check: builds (translator, Coq, extraction, OCaml, Rust harness),
sharded execution of case files on the implementation and on the extracted model, proof audit,
known findings, replay files, evidence files."""
import fcntl, hashlib, json, os, re, subprocess, sys, time

VERIF = os.path.dirname(os.path.dirname(os.path.abspath(__file__)))
REPO = os.environ.get("VERIF_REPO", "/repo")
COQ = os.path.join(VERIF, "coq")
OCAML = os.path.join(VERIF, "ocaml")
HARNESS = os.path.join(VERIF, "harness")
WORK = os.path.join(VERIF, "work")
NPROC = min(16, os.cpu_count() or 4)
HOOK_CFG = "cstree_verif"

ALLOWED_AXIOMS = set()   # none: every property theorem must be closed under the global context

FORBIDDEN = re.compile(r"\b(Admitted|admit|Axiom|Axioms|Parameter|Parameters|Conjecture|Conjectures|"
                       r"Admit Obligations|bypass_check|native_compute)\b|Unset\s+Guard|"
                       r"Unset\s+Positivity|Unset\s+Universe\s+Checking|type-in-type|impredicative-set")


class Broken(Exception):
    """A proof obligation / build step / correspondence no longer checks."""
    def __init__(self, what, detail=""):
        super().__init__(what)
        self.what, self.detail = what, detail


def sh(cmd, cwd=None, timeout=1800, env=None, check=False):
    e = dict(os.environ)
    e["CARGO_NET_OFFLINE"] = "true"
    if env:
        e.update(env)
    p = subprocess.run(cmd, cwd=cwd, shell=isinstance(cmd, str), stdout=subprocess.PIPE,
                       stderr=subprocess.STDOUT, timeout=timeout, env=e, text=True, errors="replace")
    if check and p.returncode != 0:
        raise Broken("command failed: %s" % (cmd if isinstance(cmd, str) else " ".join(cmd)), p.stdout[-4000:])
    return p.returncode, p.stdout


class BuildLock:
    def __init__(self, name="build"):
        os.makedirs(WORK, exist_ok=True)
        self.path = os.path.join(WORK, ".%s.lock" % name)
    def __enter__(self):
        self.f = open(self.path, "w")
        fcntl.flock(self.f, fcntl.LOCK_EX)
    def __exit__(self, *a):
        fcntl.flock(self.f, fcntl.LOCK_UN)
        self.f.close()


# ------------------------------------------------------------------------------------------------
# translator + Coq

def run_translator():
    rc, out = sh([sys.executable, os.path.join(VERIF, "translator", "extract.py"), REPO,
                  os.path.join(COQ, "Extracted.v")])
    if rc != 0:
        raise Broken("translator failed", out)
    return out.strip()


def coq_makefile():
    mk = os.path.join(COQ, "Makefile")
    cp = os.path.join(COQ, "_CoqProject")
    if not os.path.exists(mk) or os.path.getmtime(mk) < os.path.getmtime(cp):
        sh("coq_makefile -f _CoqProject -o Makefile", cwd=COQ, check=True)


def coq_build(targets, timeout=2400):
    """Full .vo build of the given targets (never -vos).  Returns the make output."""
    with BuildLock("coq"):
        coq_makefile()
        rc, out = sh(["make", "-j%d" % NPROC] + targets, cwd=COQ, timeout=timeout)
    if rc != 0:
        raise Broken("Coq build failed for %s" % " ".join(targets), out[-6000:])
    return out


def property_file(prop):
    return os.path.join(COQ, "Properties", prop + ".v")


def theorem_names(prop):
    src = open(property_file(prop)).read()
    return re.findall(r"^Theorem\s+([A-Za-z0-9_']+)", src, re.M)


def audit_sources():
    """No Admitted/admit/Axiom/Parameter/... anywhere in the development."""
    bad = []
    for root, _, files in os.walk(COQ):
        for fn in files:
            if not fn.endswith(".v"):
                continue
            path = os.path.join(root, fn)
            txt = open(path).read()
            # strip comments (non-nested is enough: the development does not nest them)
            code = re.sub(r"\(\*.*?\*\)", "", txt, flags=re.S)
            for m in FORBIDDEN.finditer(code):
                bad.append("%s: %s" % (os.path.relpath(path, VERIF), m.group(0)))
    if bad:
        raise Broken("forbidden construct in the Coq development", "\n".join(bad))


def pinned_check(prop):
    """The statements of the property theorems are pinned by hash (coq/PINNED.json)."""
    pj = os.path.join(COQ, "PINNED.json")
    pins = json.load(open(pj)) if os.path.exists(pj) else {}
    h = statements_hash(prop)
    if prop not in pins:
        raise Broken("no pinned statement hash for %s (run ./check --pin %s)" % (prop, prop))
    if pins[prop] != h:
        raise Broken("statements of Properties/%s.v changed (pinned %s, now %s)" % (prop, pins[prop][:12], h[:12]))
    return h


def statements_hash(prop):
    src = open(property_file(prop)).read()
    src = re.sub(r"\(\*.*?\*\)", "", src, flags=re.S)
    stmts = re.findall(r"^(Theorem\s+.*?)\nProof\.", src, re.M | re.S)
    norm = "\n".join(re.sub(r"\s+", " ", s).strip() for s in stmts)
    return hashlib.sha256(norm.encode()).hexdigest()


def prove(prop):
    """Compile Properties/<prop>.vo from the current Extracted.v and audit Print Assumptions.
    Returns dict(theorems=[...], assumptions={thm: [...]}, checker_cmd=...)."""
    audit_sources()
    vo = "Properties/%s.vo" % prop
    # always re-run the property file itself so that its Print Assumptions output is captured
    try:
        os.remove(os.path.join(COQ, vo))
    except FileNotFoundError:
        pass
    out = coq_build([vo])
    thms = theorem_names(prop)
    # Print Assumptions blocks appear in order, one per theorem
    blocks = re.findall(r"(Closed under the global context|Axioms:\n(?:.+\n?)+?)(?=\n(?:Closed|Axioms|COQC|make|$)|\Z)", out)
    assum = {}
    closed = out.count("Closed under the global context")
    axiom_blocks = re.findall(r"Axioms:\n((?:[^\n]+\n?)+)", out)
    if closed + len(axiom_blocks) != len(thms):
        raise Broken("Print Assumptions output does not cover every theorem of %s (%d theorems, %d reports)"
                     % (prop, len(thms), closed + len(axiom_blocks)), out[-3000:])
    used = set()
    for b in axiom_blocks:
        for m in re.finditer(r"^([A-Za-z0-9_.']+)\s*:", b, re.M):
            used.add(m.group(1))
    extra = used - ALLOWED_AXIOMS
    if extra:
        raise Broken("theorems of %s depend on axioms not in the trusted base: %s" % (prop, sorted(extra)), out[-3000:])
    pinned_check(prop)
    return {"theorems": thms, "axioms": sorted(used),
            "checker_cmd": "make -C coq Properties/%s.vo  (coqc 8.16.1, full .vo; Print Assumptions per theorem)" % prop}


def coqchk(prop):
    """Re-check Properties/<prop>.vo and everything it depends on with the independent checker; returns its context summary."""
    rc, out = sh(["coqchk", "-silent", "-o", "-Q", ".", "CsModel", "CsModel.Properties.%s" % prop], cwd=COQ, timeout=3000)
    if rc != 0:
        raise Broken("coqchk rejects Properties/%s.vo" % prop, out[-3000:])
    m = re.search(r"\* Axioms:(.*?)\n\s*\n\* Constants/Inductives relying on type-in-type:(.*?)\n\s*\n\* Constants/Inductives relying on unsafe \(co\)fixpoints:(.*?)\n\s*\n\* Inductives whose positivity is assumed:(.*?)\n", out, re.S)
    if not m:
        raise Broken("coqchk output not understood for %s" % prop, out[-2000:])
    fields = [re.sub(r"\s+", " ", x).strip() for x in m.groups()]
    axioms = [] if fields[0] == "<none>" else [a for a in fields[0].split(" ") if a]
    extra = set(axioms) - ALLOWED_AXIOMS
    if extra or any(f != "<none>" for f in fields[1:]):
        raise Broken("coqchk: %s depends on axioms / unchecked features outside the trusted base: %s" % (prop, fields), out[-2000:])
    return {"cmd": "coqchk -silent -o -Q coq CsModel CsModel.Properties.%s" % prop, "axioms": axioms,
            "type_in_type": fields[1], "unsafe_fixpoints": fields[2], "assumed_positivity": fields[3]}


# ------------------------------------------------------------------------------------------------
# extraction + OCaml model runner

def newest(paths):
    return max(os.path.getmtime(p) for p in paths if os.path.exists(p))


def build_modelrun():
    with BuildLock("ocaml"):
        coq_build(["Extract.vo"]) if False else None
        gen = os.path.join(OCAML, "gen")
        os.makedirs(gen, exist_ok=True)
        exe = os.path.join(OCAML, "modelrun")
        deps = [os.path.join(COQ, f) for f in os.listdir(COQ) if f.endswith(".v")] + [os.path.join(OCAML, "driver.ml")]
        if os.path.exists(exe) and os.path.getmtime(exe) >= newest(deps):
            return exe
        # the model files must be compiled first (Extract.v requires them)
        coq_build([f[:-2] + ".vo" for f in extract_requires()])
        rc, out = sh(["coqc", "-Q", COQ, "CsModel", os.path.join(COQ, "Extract.v")], cwd=gen, timeout=600)
        if rc != 0:
            raise Broken("extraction failed", out[-4000:])
        rc, out = sh("ocamlfind ocamlopt -w -a -O3 -unboxed-types 2>/dev/null; "
                     "ocamlfind ocamlopt -w -a -I gen gen/model.mli gen/model.ml driver.ml -o modelrun",
                     cwd=OCAML, timeout=600)
        if rc != 0:
            raise Broken("ocamlopt failed", out[-4000:])
        return exe


def extract_requires():
    src = open(os.path.join(COQ, "Extract.v")).read()
    m = re.search(r"From CsModel Require Import ([^.]+)\.", src)
    return [n + ".v" for n in m.group(1).split()]


# ------------------------------------------------------------------------------------------------
# Rust harness

def build_harness(profile="debug", hooks=True):
    with BuildLock("cargo"):
        lock_repo = os.path.join(REPO, "Cargo.lock")
        lock_saved = os.path.join(HARNESS, ".Cargo.lock.repo")
        lock = os.path.join(HARNESS, "Cargo.lock")
        cur = open(lock_repo).read()
        if not os.path.exists(lock) or not os.path.exists(lock_saved) or open(lock_saved).read() != cur:
            open(lock, "w").write(cur)
            open(lock_saved, "w").write(cur)
        tdir = "target-nolasso" if profile == "nolasso" else "target"
        env = {"RUSTFLAGS": ("--cfg %s" % HOOK_CFG) if hooks else "", "CARGO_TARGET_DIR": os.path.join(HARNESS, tdir)}
        cmd = ["cargo", "build", "--offline", "--quiet"] + (["--release"] if profile == "release" else []) \
            + (["--no-default-features"] if profile == "nolasso" else [])
        rc, out = sh(cmd, cwd=HARNESS, env=env, timeout=1800)
        if rc != 0:
            raise Broken("harness does not build against %s (%s)" % (REPO, profile), out[-6000:])
        return os.path.join(HARNESS, tdir, "release" if profile == "release" else "debug", "implrun")


# ------------------------------------------------------------------------------------------------
# sharded execution

def run_sharded(exe, cases, extra_args=(), timeout=1800, shards=None, tag="run", stall=None):
    """Run `exe <file> extra_args` over the cases split into shards; returns the output lines."""
    os.makedirs(WORK, exist_ok=True)
    n = len(cases)
    if stall is None:
        stall = int(os.environ.get("VERIF_STALL", "900" if os.environ.get("VERIF_SOAK") else "300"))
    shards = shards or (NPROC if n >= 2000 else 1)
    size = (n + shards - 1) // shards if n else 1
    procs = []
    base = os.path.join(WORK, "%s.%d" % (tag, os.getpid()))
    for i in range(shards):
        chunk = cases[i * size:(i + 1) * size]
        if not chunk:
            continue
        path = "%s.%d.cases" % (base, i)
        with open(path, "w") as f:
            f.write("\n".join(chunk) + "\n")
        outp = "%s.%d.out" % (base, i)
        fo = open(outp, "w")
        p = subprocess.Popen([exe, path] + list(extra_args), stdout=fo, stderr=subprocess.DEVNULL)
        procs.append((p, path, outp, fo, len(chunk)))
    lines = []
    t0 = time.time()
    for p, path, outp, fo, cnt in procs:
        # wait, but give up on a process that has stopped producing output (a hung runner, e.g. after heap corruption)
        last_size, last_change = -1, time.time()
        while True:
            try:
                p.wait(timeout=2)
                break
            except subprocess.TimeoutExpired:
                pass
            try:
                size = os.path.getsize(outp)
            except OSError:
                size = 0
            now = time.time()
            if size != last_size:
                last_size, last_change = size, now
            if now - t0 > timeout or now - last_change > stall:
                p.kill()
                p.wait()
                break
        fo.close()
        got = open(outp).read().split("\n")
        if got and got[-1] == "":
            got.pop()
        restarts = 0
        while len(got) < cnt:
            # the process died (abort / stack overflow / timeout) on the case after the last line it printed: mark that
            # case and run the rest of the shard in a new process, so that exactly the cases that kill it are reported
            got.append("RUNNER-DIED rc=%s" % p.returncode)
            rest = open(path).read().split("\n")[len(got):cnt]
            restarts += 1
            if not rest:
                break
            if restarts > 12 or time.time() - t0 > timeout:
                # it keeps dying: the cases that killed it are marked; the rest of this shard is not run
                got += ["NOT-RUN (the runner died %d times in this shard)" % restarts] * (cnt - len(got))
                break
            rpath = path + ".rest"
            with open(rpath, "w") as f:
                f.write("\n".join(rest) + "\n")
            try:
                p = subprocess.run([exe, rpath] + list(extra_args), stdout=subprocess.PIPE, stderr=subprocess.DEVNULL, text=True, errors="replace",
                                   timeout=max(1, min(40, timeout - (time.time() - t0))))
                more = p.stdout.split("\n")
            except subprocess.TimeoutExpired as e:
                more = (e.stdout or b"").decode("utf-8", "replace").split("\n") if isinstance(e.stdout, bytes) else (e.stdout or "").split("\n")
                class _P: returncode = "timeout"
                p = _P()
            os.remove(rpath)
            if more and more[-1] == "":
                more.pop()
            got += more[:len(rest)]
        lines.extend(got[:cnt])
        os.remove(path)
        os.remove(outp)
    return lines


# ------------------------------------------------------------------------------------------------
# known findings

def known_findings():
    """KNOWN_FINDINGS.txt: lines `known: property=Cxx class=<id> <text>` and `fixed: property=Cxx <commit> <text>`."""
    path = os.path.join(VERIF, "KNOWN_FINDINGS.txt")
    known, fixed = [], []
    if os.path.exists(path):
        for line in open(path):
            line = line.strip()
            m = re.match(r"known:\s+property=(\S+)\s+class=(\S+)\s+(.*)", line)
            if m:
                known.append({"property": m.group(1), "cls": m.group(2), "text": m.group(3)})
            m = re.match(r"fixed:\s+property=(\S+)\s+(\S+)\s+(.*)", line)
            if m:
                fixed.append({"property": m.group(1), "commit": m.group(2), "text": m.group(3)})
    return known, fixed


# ------------------------------------------------------------------------------------------------
# replay + evidence

def write_replay(prop, payload):
    d = os.path.join(VERIF, "replays")
    os.makedirs(d, exist_ok=True)
    i = 0
    while os.path.exists(os.path.join(d, "%s-%d.json" % (prop, i))):
        i += 1
    path = os.path.join(d, "%s-%d.json" % (prop, i))
    payload = dict(payload)
    payload.setdefault("property", prop)
    payload.setdefault("command", "./check %s --replay %s" % (prop, path))
    with open(path, "w") as f:
        json.dump(payload, f, indent=1, ensure_ascii=False)
    return path


def write_evidence(prop, tier, seed, level, coverage, assumptions, wall_s, violations):
    d = os.path.join(VERIF, "evidence")
    os.makedirs(d, exist_ok=True)
    ev = {"property_id": prop, "tier": tier, "seed": int(seed), "level": level, "coverage": coverage,
          "assumptions": assumptions, "wall_s": round(wall_s, 2), "violations": int(violations)}
    with open(os.path.join(d, prop + ".json"), "w") as f:
        json.dump(ev, f, indent=1, ensure_ascii=False)
    return ev


class Rng:
    """xorshift64* — every random choice of a run derives from VERIF_SEED through this."""
    def __init__(self, seed):
        self.s = (seed * 0x9E3779B97F4A7C15 + 0x1234567) & 0xFFFFFFFFFFFFFFFF or 1
    def next(self):
        x = self.s
        x ^= (x >> 12); x ^= (x << 25) & 0xFFFFFFFFFFFFFFFF; x ^= (x >> 27)
        self.s = x
        return (x * 0x2545F4914F6CDD1D) & 0xFFFFFFFFFFFFFFFF
    def below(self, n):
        return self.next() % n
    def choice(self, xs):
        return xs[self.below(len(xs))]
    def chance(self, num, den):
        return self.below(den) < num
