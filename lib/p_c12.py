"""C12 — the text view of a node behaves like the string it denotes."""
from .runner import Property
from .core import Rng
from . import gen_events as G, gen_nav as GN
from .buildref import Cache, run_events
from .treefmt import Node, Tok, show_text, parse_text
from .navref import T

CHARS = [97, 98, 233, 8364, 119070]


def boundaries(b):
    """byte offsets that are char boundaries of the UTF-8 bytes b"""
    out, i = [0], 0
    s = b.decode("utf-8")
    for c in s:
        i += len(c.encode("utf-8"))
        out.append(i)
    return out


class VRef:
    def __init__(self, text_bytes, aligned=True):
        self.b, self.aligned = text_bytes, aligned


def splittings(rng, text, k):
    """the same text split into tokens in k random ways"""
    out = []
    for _ in range(k):
        cuts = sorted(set(rng.below(len(text) + 1) for _ in range(rng.below(4))))
        parts, last = [], 0
        for c in cuts + [len(text)]:
            parts.append(text[last:c]); last = c
        ev = ["S1"]
        for i, p in enumerate(parts):
            if rng.chance(1, 4):
                ev += ["S2", "T5:" + show_text(p), "F"]
            else:
                ev.append("T5:" + show_text(p))
        ev.append("F")
        out.append(ev)
    return out


class C12(Property):
    id = "C12"
    design_ref = "DESIGN.md section 5 / C12"
    theorems_note = ("slice_open_ended (a.., ..b, .. are the closed slices with the missing end filled in), chunks_concat (for a view with character-boundary ends the chunks never panic and concatenate to exactly the byte slice "
                     "of the node's text), and on chunk lists: contains_char / find_char / char_at / eq_str agree with the concatenated "
                     "string, eq_view (the two-pointer zip_texts) agrees with string equality for ANY two chunkings, slice composition")
    assumptions = [
        "the tokens of a sub-tree in document order with their true offsets (tokens_with_ranges uses descendants_with_tokens and "
        "text_range: C02/C03); the view model starts from that list",
        "slice ends and char_at offsets are character boundaries (the property's own restriction: otherwise Rust's str indexing panics)",
    ]
    nontrivial_rule = ("(trees, views, queries): the same text split into tokens differently, texts differing in one character, prefixes; "
                       "every boundary-aligned sub-range; probe characters inside and outside the text; all pairs of views; "
                       "non-trivial = the view is a proper sub-range that cuts through a token, or two views with different chunkings "
                       "are compared; distinct = distinct case line")

    def cases(self, tier, seed):
        res = [("corpus", "X S1 T5:97.233 S2 T5:98 T5: F T5:99.100 F / S1 T5:97 T5:233.98.99 T5:100 F | len:0 str:0 eqv:0:1 has:0:233 find:0:98 at:0:1 slice:0:1:4 str:2 eqs:2:233.98 chunks:2 try:0:1 node:0:1 str:3 slice:0:0:9")]
        rng = Rng(seed + 12)
        n = 500 if tier == "quick" else 10000
        for i in range(n):
            L = rng.choice([0, 1, 2, 4, 7])
            text = "".join(chr(rng.choice(CHARS)) for _ in range(L))
            other = text
            r = rng.below(4)
            if r == 0 and text:
                j = rng.below(len(text)); other = text[:j] + chr(rng.choice(CHARS)) + text[j + 1:]
            elif r == 1 and text:
                other = text[:rng.below(len(text))]
            a, b = splittings(rng, text, 1)[0], splittings(rng, other, 1)[0]
            bnd = boundaries(text.encode("utf-8"))
            ops = ["len:0", "empty:0", "str:0", "chunks:0", "eqv:0:1", "eqv:1:0", "eqs:0:" + show_text(text), "eqs:0:" + show_text(other),
                   "eqs:1:" + show_text(text)]
            for c in set(CHARS[:3] + [ord(x) for x in text[:2]]):
                ops += ["has:0:%d" % c, "find:0:%d" % c]
            for off in bnd + [bnd[-1] + 1]:
                ops.append("at:0:%d" % off)
            # every boundary-aligned sub-range (bounded)
            nviews = 2
            prev_slice = 0
            pairs = [(x, y) for x in bnd for y in bnd if x <= y]
            for (x, y) in pairs[:12] if tier == "quick" else pairs[:40]:
                ops.append("slice:0:%d:%d" % (x, y)); v = nviews; nviews += 1
                ops += ["str:%d" % v, "len:%d" % v, "chunks:%d" % v, "eqv:%d:1" % v, "find:%d:%d" % (v, CHARS[rng.below(3)])]
                if v > 2:
                    ops += ["eqv:%d:%d" % (v, prev_slice), "eqv:%d:%d" % (prev_slice, v)]      # two slices of the SAME node
                prev_slice = v
                sub = text.encode("utf-8")[x:y]
                bs = boundaries(sub)
                if len(bs) > 2:
                    ops.append("slice:%d:%d:%d" % (v, bs[1], bs[-1])); w = nviews; nviews += 1      # composition
                    ops += ["str:%d" % w, "at:%d:0" % w]
            # two different sub-ranges of the SAME node that are equally long: equal exactly when their texts are
            same_len = [(p1, p2) for p1 in pairs for p2 in pairs if p1 < p2 and p1[1] - p1[0] == p2[1] - p2[0] and p1[1] > p1[0]]
            for (p1, p2) in same_len[:6] if tier == "quick" else same_len[:30]:
                ops += ["slice:0:%d:%d" % p1, "slice:0:%d:%d" % p2, "eqv:%d:%d" % (nviews, nviews + 1), "eqv:%d:%d" % (nviews + 1, nviews)]
                nviews += 2
            ops += ["slice:0:%d:%d" % (bnd[-1], bnd[-1] + 1), "slice:0:2:1", "try:0:1", "try:0:9"]; nviews += 2
            # the same slices given as ops ranges: a..b, a.., ..b, .. (and out of range / reversed)
            x, y = pairs[rng.below(len(pairs))]
            for form in ("%d:%d" % (x, y), "%d:_" % x, "_:%d" % y, "_:_", "%d:_" % (bnd[-1] + 1), "_:%d" % (bnd[-1] + 1), "%d:%d" % (y + 1, y)):
                ops.append("sliceo:0:" + form); v = nviews; nviews += 1
                ops += ["str:%d" % v, "len:%d" % v]
            ops += ["sliceo:2:_:_", "str:%d" % nviews]; nviews += 1
            res.append(("random", "X %s / %s | %s" % (" ".join(a), " ".join(b), " ".join(ops))))
        # views of inner nodes
        for i in range(n // 5):
            ev = G.rand_tree_events(rng, rng.choice([5, 15, 40]), toks=["T5:97", "T5:", "T6:233.98", "X100", "T7:119070.8364"], wide=rng.chance(1, 3))
            t = T(run_events(Cache(), ev)[1])
            ops = []
            nodes = [p for p in t.order if t.is_node(p)]
            for k in range(4):
                p = rng.choice(nodes)
                ops.append("node:0:%s" % (".".join(map(str, p)) if p else "-"))
                v = 1 + k
                ops += ["str:%d" % v, "len:%d" % v, "chunks:%d" % v, "eqv:%d:0" % v, "at:%d:0" % v, "find:%d:98" % v]
            res.append(("random", "X %s | %s" % (" ".join(ev), " ".join(ops))))
        return res

    def spec(self, case, impl):
        toks = case.split(" ")
        bar = toks.index("|")
        builds, cur = [], []
        for x in toks[1:bar]:
            if x == "/":
                builds.append(cur); cur = []
            else:
                cur.append(x)
        builds.append(cur)
        trees = []
        for b in builds:
            fin = run_events(Cache(), b)[1]
            if not isinstance(fin, Node):
                return None
            trees.append(T(fin))
        views = [VRef(t.root.text_of().encode("utf-8")) for t in trees]
        outs = impl.split(" ; ")
        ops = toks[bar + 1:]
        if len(outs) != len(ops):
            return "expected %d results, got %d" % (len(ops), len(outs))
        for op, got in zip(ops, outs):
            p = op.split(":")
            def view(i):
                try:
                    return views[int(p[i])]
                except (IndexError, ValueError):
                    return None
            exp = None
            if p[0] == "node":
                ti, path = int(p[1]), tuple(int(x) for x in p[2].split(".")) if p[2] != "-" else ()
                t = trees[ti]
                if path in t.elem and t.is_node(path):
                    views.append(VRef(t.elem[path].text_of().encode("utf-8"))); exp = "ok"
                else:
                    views.append(None); exp = "-"
            elif p[0] in ("slice", "sliceo"):
                v = view(1)
                if v is None:
                    views.append(None); exp = "-"
                else:
                    a = 0 if p[2] == "_" else int(p[2])
                    b = len(v.b) if p[3] == "_" else int(p[3])
                    if a <= b <= len(v.b):
                        bnd = boundaries(v.b) if v.aligned else []
                        views.append(VRef(v.b[a:b], v.aligned and a in bnd and b in bnd)); exp = "len=%d" % (b - a)
                    else:
                        views.append(None)
                        if not got.startswith("PANIC"):
                            return "%s: a slice outside 0..len must panic, got %s" % (op, got)
                        continue
            else:
                v = view(1)
                if v is None:
                    exp = "-"
                elif p[0] == "len":
                    exp = str(len(v.b))
                elif p[0] == "empty":
                    exp = "1" if len(v.b) == 0 else "0"
                elif not v.aligned:
                    continue                      # a view cut inside a character: str indexing may panic (outside the property)
                else:
                    s = v.b.decode("utf-8")
                    if p[0] == "str":
                        exp = show_text(s)
                    elif p[0] == "has":
                        exp = "1" if chr(int(p[2])) in s else "0"
                    elif p[0] == "find":
                        i = s.find(chr(int(p[2])))
                        exp = "-" if i < 0 else str(len(s[:i].encode("utf-8")))
                    elif p[0] == "at":
                        off = int(p[2])
                        if off >= len(v.b):
                            exp = "-"
                        elif off in boundaries(v.b):
                            exp = str(ord(v.b[off:].decode("utf-8")[0]))
                        else:
                            continue
                    elif p[0] == "eqs":
                        exp = "1" if s == parse_text(p[2] if len(p) > 2 else "") else "0"
                    elif p[0] == "eqv":
                        w = view(2)
                        if w is None:
                            exp = "-"
                        elif not w.aligned:
                            continue
                        else:
                            exp = "1" if v.b == w.b else "0"
                    elif p[0] == "chunks":
                        if not (got.startswith("[") and got.endswith("]")):
                            return "%s: got %s" % (op, got)
                        joined = "".join(parse_text(c) for c in got[1:-1].split("|")) if got != "[]" else ""
                        if joined != s:
                            return "%s: the chunks concatenate to %s, the view denotes %s" % (op, show_text(joined), show_text(s))
                        continue
                    elif p[0] == "try":
                        continue
            if exp is not None and got != exp:
                return "%s: got %s, the string the view denotes gives %s" % (op, got, exp)
        return None

    def nontrivial(self, case, impl):
        return "slice:" in case and " / " in case

    def shrink_tokens(self, case):
        toks = case.split(" ")
        bar = toks.index("|")
        return None


PROPERTY = C12()
