"""C02 — every red element reports its exact source span."""
import re
from .runner import Property
from .treefmt import show_text
from .core import Rng
from . import gen_events as G, gen_nav as GN
from .navref import build_tree, check_nav_line, parse_handle

HANDLE = re.compile(r"[nt](?:/\d+)*@\d+\.\.\d+")


class C02(Property):
    id = "C02"
    design_ref = "DESIGN.md section 5 / C02"
    theorems_note = ("Inv (every materialised position caches its TRUE offset) is preserved by every navigation primitive, whichever "
                     "route reaches an element first (forward iteration, backward, sibling hops, indexed lookups with API-issued arguments, "
                     "token walks, preorder walks, offset queries) — reach_inv over arbitrary operation histories; range_exact, root_zero, "
                     "children_tile, text_slice")
    assumptions = [
        "the public indexed lookups next_child[_or_token]_after / prev_child[_or_token]_before take a caller-supplied offset: the theorem "
        "assumes the offset the API itself handed out for that child (ArgsOk); a wrong argument would be cached (API hazard, recorded)",
        "text sizes below 2^32 (u32 arithmetic modelled unbounded)",
    ]
    nontrivial_rule = ("(tree, traversal program) pairs; non-trivial = some element is first reached by a route other than plain forward "
                       "iteration from the root (backward, sibling hop, indexed lookup, token walk, offset query); distinct = distinct case line")
    exhaustive_note = {"quick": "every tree of <= 6 events (empty nodes, zero-length and multi-byte tokens) x every element x every first-reach route",
                       "thorough": "every tree of <= 8 events (empty nodes, zero-length and multi-byte tokens) x every element x every first-reach route"}

    def cases(self, tier, seed):
        res = []
        for c in ["N p S1 T5:97 S2 F T6:233.98 S2 T5:99 F F | lct:0 pst:1 pst:2 pst:3 fc:0",
                  "N p S1 S2 F T5:97 S2 F T5:98 S2 F F | lt:0 pt:1 ft:0 nt:3",
                  "N r S1 S2 T5:97 T5: F S2 S1 T6:233.98 F F F | lc:0 lct:1 pst:2 ps:1 tao:0:1 cov:0:1:4"]:
            res.append(("corpus", c))
        maxlen = 6 if tier == "quick" else 8
        for ev in GN.small_trees(maxlen):
            t = build_tree(ev)
            if t is None:
                continue
            for path in t.order:
                for i, (name, prog) in enumerate(GN.routes_to(t, path)):
                    res.append(("exhaustive", "N %s %s | %s" % ("pr"[i % 2], " ".join(ev), " ".join(prog))))
        rng = Rng(seed + 2)
        nrand = 1200 if tier == "quick" else 25000
        for i in range(nrand):
            ev = G.rand_tree_events(rng, rng.choice([6, 20, 60, 200]), toks=GN.TOKS_NAV + ["X100", "X101", "X104", "T104:233", "T7:119070"], wide=rng.chance(1, 3))
            t = build_tree(ev)
            prog = GN.random_program(rng, t, rng.choice([5, 20, 80]))
            res.append(("random", "N %s %s | %s" % ("pr"[i % 2], " ".join(ev), " ".join(prog))))
        return res

    def project(self, line):
        # C02 is about the ranges elements report; WHICH element an operation returns is C03's business.
        parts = line.split(" ;; ")
        return parts[2] if len(parts) == 3 else line

    def spec(self, case, impl):
        toks = case.split(" ")
        bar = toks.index("|")
        t = build_tree(toks[2:bar])
        if t is None:
            return None
        # impl is already projected: the final dump, then (for trees of moderate size) the resolved text of every node
        texts = None
        if " texts " in impl or impl.endswith(" texts"):
            impl, texts = impl.split(" texts", 1)
            texts = texts.strip()
        if len(t.order) <= 60:
            want = "|".join(show_text(t.elem[q].text_of()) for q in t.order if t.is_node(q))
            if texts is None:
                return "the resolved node texts are missing from the output"
            if texts != want:
                for q, got, w in zip([q for q in t.order if t.is_node(q)], texts.split("|"), want.split("|")):
                    if got != w:
                        return "the text of node %s resolves to `%s`, but the slice of the whole text it covers is `%s`" % (t.show(q), got, w)
                return "resolved node texts differ: " + texts[:200]
        exp = ",".join(t.show(q) for q in t.order)
        if impl != exp:
            g, e = impl.split(","), exp.split(",")
            for x, y in zip(g, e):
                if x != y:
                    return "element %s reports %s after the traversal" % (y, x)
            return "final range dump differs: " + impl[:200]
        return None

    def spec_raw(self, case, raw):
        """every handle printed anywhere carries the true range of its position"""
        toks = case.split(" ")
        bar = toks.index("|")
        t = build_tree(toks[2:bar])
        if t is None:
            return None
        for h in HANDLE.findall(raw):
            isn, q, a, b = parse_handle(h)
            if q in t.elem and t.show(q) != h:
                return "a handle to %s reports %s" % (t.show(q), h)
        return None

    def nontrivial(self, case, impl):
        ops = case.split(" | ")[1].split(" ") if " | " in case else []
        return any(o.split(":")[0] not in ("cht", "ch", "chts", "chs", "fct") for o in ops)

    def distribution(self, cases, impl_lines):
        d = {}
        for c in cases:
            if " | " not in c:
                continue
            for o in c.split(" | ")[1].split(" "):
                n = o.split(":")[0]
                d[n] = d.get(n, 0) + 1
        return {"operations": d}

    def shrink_tokens(self, case):
        toks = case.split(" ")
        bar = toks.index("|")
        return toks[:bar + 1], toks[bar + 1:]


PROPERTY = C02()
