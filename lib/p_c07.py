"""C07 — concurrent use through the safe API is free of data races (partial)."""
import os, re, subprocess
from .runner import Property
from . import core
from . import concref as CR
from .p_c05 import TREES

MIRI_DIR = os.path.join(core.VERIF, "miri")
PROGRAMS = ["traverse", "clone_drop", "data", "green"]
# (no data operations here: the node data lives inside its RwLock, so how the data methods lock is not a data-race question but
# C18's; a change there must not disturb this check -- the Miri program `data` still runs them free-running)
K_PROGS = ["f0", "l0", "c0:1", "f0 f1", "f0 s1", "l0 p1", "f0 d0", "k0 d0 d1", "d0", "f0 k1 d0", "c0:2 d0", "l0 k1 d0 d1", "f0 f1 d0",
           "a0", "z0", "a0 a1", "a0 n1", "a0 d0"]


def miri(program, lo, hi, timeout=1500, leaks=True):
    env = dict(os.environ)
    # (a leak is C06's business, not a data race: C07 runs Miri with its leak check off)
    env.update({"MIRIFLAGS": "-Zmiri-many-seeds=%d..%d%s" % (lo, hi, "" if leaks else " -Zmiri-ignore-leaks"), "CARGO_NET_OFFLINE": "true",
                "CARGO_TARGET_DIR": os.path.join(MIRI_DIR, "target")})
    lock = os.path.join(MIRI_DIR, "Cargo.lock")
    cur = open(os.path.join(core.REPO, "Cargo.lock")).read()
    if not os.path.exists(lock) or open(lock).read() != cur:
        open(lock, "w").write(cur)
    try:
        p = subprocess.run(["cargo", "+nightly", "miri", "run", "--offline", "--quiet", "--", program], cwd=MIRI_DIR, env=env,
                           stdout=subprocess.PIPE, stderr=subprocess.STDOUT, text=True, timeout=timeout)
    except subprocess.TimeoutExpired:
        return "MIRI-TIMEOUT"
    out = p.stdout
    m = re.search(r"error: (Undefined Behavior: [^\n]*)", out)
    if m:
        where = re.search(r"-->\s*(\S+)", out[m.end():])
        loc = where.group(1) if where else "?"
        loc = re.sub(r"^/repo/", "", loc)
        return "UB %s @ %s" % (re.sub(r"alloc\d+|<\d+>", "_", m.group(1)), loc)
    if p.returncode != 0:
        m = re.search(r"(error[^\n]*|panicked at [^\n]*)", out)
        return "FAILED " + (m.group(1)[:200] if m else out[-200:].replace("\n", " "))
    return "ok"


class C07(Property):
    id = "C07"
    trusted_base = Property.trusted_base + [
        "hooks under cfg(cstree_verif): instrumented RwLock / AtomicU32 / UnsafeCell (cstree/src/verif.rs) report the steps of the real "
        "primitives they wrap; the deterministic scheduler and the trace renderer of harness/src/conc_cases.rs",
        "Miri (nightly toolchain): happens-before race detector and aliasing model, run on miri/src/main.rs for a fixed range of seeds",
        "hypotheses of the theorems that stand for third-party code: LockExclusion (parking_lot RwLock), the hb_rmw edge (C11 release sequences)",
    ]
    design_ref = "DESIGN.md section 5 / C07"
    shards = 16
    theorems_note = ("write_locks_exclusive (in every reachable state of the machine no slot is write-locked twice: the locks held across steps by race losers and by the teardown exclude each other), user_state_needs_thread_safe_types / views_need_shareable_resolvers (from the Send/Sync bounds in the current source), lock_discipline_orders (any two conflicting accesses made inside critical sections of the location's reader/writer "
                     "lock are ordered by happens-before, given the lock's mutual exclusion), teardown_after_uses (with release decrements "
                     "and an acquiring final decrement, everything a thread did before giving up its handle happens-before the teardown), "
                     "machine_accesses_under_lock (in every reachable state of the concurrent machine every step requests slot contents "
                     "only directly after taking that slot's lock), source_sites_ok (from the CURRENT source: every fetch_add/fetch_sub "
                     "on the reference count is AcqRel; no exclusive reference to the shared counter; exclusive references to slot contents "
                     "only in the teardown, which runs alone by C06)")
    assumptions = [
        "PARTIAL: the theorems are about traces of synchronisation events and about the machine; that the real code's memory accesses "
        "are exactly those the hooks report (a reference obtained under a lock is not used after the lock is released; green trees, "
        "triomphe/std Arc, parking_lot, lasso/dashmap internals) is not proved — it is searched with Miri's happens-before race detector "
        "and aliasing model on free-running programs over the safe API, and the hook traces of all explored schedules are checked "
        "against the lock discipline",
        "parking_lot RwLock: conflicting critical sections do not overlap and a release synchronises with the next conflicting acquire "
        "(hypothesis LockExclusion and the hb_lock edge); C11: every read-modify-write continues the release sequence (hb_rmw edge)",
        "Miri explores a finite set of schedules per program (its seeds); it is a search, not a proof",
    ]
    nontrivial_rule = ("(a) Miri runs: (program, seed block) with programs traverse / clone_drop / data / green; non-trivial = all; "
                       "(b) hook traces under the deterministic scheduler: (tree, thread programs, schedule); non-trivial = two threads touch "
                       "the same slot or the counter; distinct = distinct case line")
    exhaustive_note = {"quick": "Miri seeds 0..16 of each of the 4 programs; all schedules of length 18 with <= 2 context switches for 18 (tree, program pair) combinations",
                       "thorough": "Miri seeds 0..128 of each of the 4 programs; all schedules of length 24 with <= 3 context switches for 90 combinations"}

    def cases(self, tier, seed):
        res = []
        blocks = [(0, 16)] if tier == "quick" else [(0, 32), (32, 64), (64, 96), (96, 128)]
        for prog in PROGRAMS:
            for lo, hi in blocks:
                res.append(("miri", "M %s %d %d" % (prog, lo, hi)))
        # hook traces: same generator as C05/C06 over navigation, clone/drop and data programs
        from .p_c05 import ConcBase
        g = ConcBase()
        g.trees = TREES
        res += [(s, c) for s, c in g.gen(tier, seed, K_PROGS, 7)]
        # what keeps safe code from racing on the USER's data and resolver are the Send / Sync bounds of the handles and of
        # the borrowed text views: rustc decides them for witness types (the same programs as C08, for the node handle and
        # the views)
        from .p_c08 import PROPERTY as C08P
        res += [(s, c) for s, c in C08P.cases(tier, seed) if c.startswith("A handle SyntaxNode ") or c.startswith("A gen SyntaxNode ")
                or c.startswith("A text ") or c.startswith("A ctor ")]
        return res

    def custom_impl(self, cases, profile):
        exe = core.build_harness(profile, hooks=True)
        ks = [c for c in cases if c.startswith("K ")]
        kout = dict(zip(ks, core.run_sharded(exe, ks, tag="C07.impl", shards=16))) if ks else {}
        from .p_c08 import PROPERTY as C08P
        acs = [c for c in cases if c.startswith("A ")]
        aout = dict(zip(acs, C08P.custom_impl(acs, profile))) if acs else {}
        out = []
        for c in cases:
            if c.startswith("A "):
                out.append(aout[c])
            elif c.startswith("M "):
                _, prog, lo, hi = c.split(" ")
                r = miri(prog, int(lo), int(hi), leaks=False)
                if r.startswith("UB") and int(hi) - int(lo) > 1:
                    # which seed?  (for the replay)
                    for sd in range(int(lo), int(hi)):
                        if miri(prog, sd, sd + 1, leaks=False).startswith("UB"):
                            r += " (first failing seed %d)" % sd
                            break
                out.append(r)
            else:
                out.append(kout.get(c, "?unknown"))
        return out

    def project(self, line):
        if line in ("accept", "reject"):
            return line
        p = line.split(" || ")
        if len(p) != 3:
            return re.sub(r" \(first failing seed \d+\)", "", line)
        # the slot protocol and the counter: slot locks, slot accesses, counter updates with their orderings, allocation and
        # free.  (The node data lives INSIDE its RwLock — safe code cannot reach it without the lock — so how often the data
        # lock is taken is C18's business, not a data-race question.)
        return " ".join(x for x in CR.strip_markers(p[0]).split(" ") if x and x.split(":", 1)[1][0] not in "DdEe")

    def spec(self, case, impl):
        if case.startswith("M "):
            return None if impl == "ok" else "Miri on program `%s`: %s" % (case.split(" ")[1], impl)
        return None

    def spec_raw(self, case, raw):
        if case.startswith("A "):
            from .p_c08 import PROPERTY as C08P
            why = C08P.spec(case, raw)
            return ("a safe program may then race on the data or the resolver: " + why) if why else None
        if case.startswith("M "):
            return None if raw == "ok" else "Miri on program `%s`: %s" % (case.split(" ")[1], raw)
        return CR.check_discipline(case, raw)

    def nontrivial(self, case, impl):
        return True

    def shrink_tokens(self, case):
        return None

    def distribution(self, cases, impl_lines):
        return {"miri_runs": sum(1 for c in cases if c.startswith("M ")), "schedules": sum(1 for c in cases if c.startswith("K "))}


PROPERTY = C07()
