"""C04 — sharing through the node cache is transparent and effective."""
from .runner import Property
from .core import Rng
from . import gen_events as G
from .buildref import check_history_line
from .p_c01 import C01, BACKENDS


class C04(C01):
    id = "C04"
    design_ref = "DESIGN.md section 5 / C04"
    theorems_note = ("cache_transparent (a build through ANY used cache denotes the same tree as through a fresh one, any hash), "
                     "earlier_unchanged (trees built earlier denote the same after any later build), "
                     "lookup_sound (a cache hit is structurally equal to the requested node — never merged on a hash collision), "
                     "tokens_shared / small_nodes_shared (within a cache, equal token data resp. equal small nodes are one allocation)")
    nontrivial_rule = ("histories of 1-6 trees built through ONE cache; observed: every tree after every build, and the partition of all "
                       "elements of all trees into allocations (pointer identity, hook verif_addr); non-trivial = history of >= 2 trees "
                       "in which a later tree repeats an element of an earlier one; distinct = distinct case line")
    exhaustive_note = {"quick": "all ordered pairs of balanced event sequences of <= 5 events (2 node kinds x 4 token forms), hash masks ffffffff and 0",
                       "thorough": "all ordered pairs of balanced event sequences of <= 6 events (2 node kinds x 4 token forms), hash masks ffffffff, 3 and 0"}

    def cases(self, tier, seed):
        res = []
        col = G.fx_collision_case()
        # the colliding pair split over two trees of one history
        res.append(("corpus", "H d f " + " ".join(col[:1276] + ["S7"] + col[1277:1280] + ["F", "F"]) + " / S9 S7 " +
                    " ".join(col[1282:1285]) + " F F"))
        res.append(("corpus", "H d 0 S1 S2 T5:97 F F / S1 S2 T5:98 F F / S1 S2 T5:97 F F"))
        res.append(("corpus", "H d f S1 T5:97 T5:97 T5:97 T5:97 F / S1 T5:97 T5:97 T5:97 T5:97 F / S2 S1 T5:97 T5:97 T5:97 T5:97 F F / S2 S1 T5:97 T5:97 T5:97 T5:97 F F"))
        # colliding leaves under two to four levels of otherwise identical parents, split over the trees of one history
        for d in (2, 3, 4):
            for a, b in (("97", "98"), ("97", ""), ("97.98", "98.97")):
                chain = lambda x: " ".join(["S%d" % (2 + i) for i in range(d)] + ["T5:" + x] + ["F"] * d)
                for m in ("0", "3", "f"):
                    res.append(("corpus", "H d %s S1 %s F / S1 %s F / S1 %s F" % (m, chain(a), chain(b), chain(a))))
        small = G.enum_balanced(5 if tier == "quick" else 6)
        masks = ["f", "0"] if tier == "quick" else ["f", "0", "3"]
        for a in small:
            for b in small:
                for m in masks:
                    res.append(("exhaustive", "H d %s %s / %s" % (m, " ".join(a), " ".join(b))))
        rng = Rng(seed + 4)
        nrand = 1200 if tier == "quick" else 25000
        for i in range(nrand):
            k = 2 + rng.below(5)
            toks = G.TOKS_RICH if rng.chance(1, 2) else G.TOKS_SMALL
            builds = []
            for _ in range(k):
                if builds and rng.chance(1, 3):
                    builds.append(list(rng.choice(builds)))          # the same tree again
                else:
                    builds.append(G.rand_tree_events(rng, rng.choice([4, 10, 30, 120]), toks=toks, wide=rng.chance(1, 3)))
            b = BACKENDS[i % len(BACKENDS)]
            m = rng.choice(["f", "f", "0", "3"])
            res.append(("random", "H %s %s %s" % (b, m, " / ".join(" ".join(x) for x in builds))))
        return res

    def project(self, line):
        return line

    def nontrivial(self, case, impl):
        if " / " not in case:
            return False
        g = impl.rsplit("share ", 1)
        if len(g) != 2 or not g[1]:
            return False
        ids = g[1].split(",")
        return len(set(ids)) < len(ids)

    def shrink_tokens(self, case):
        toks = case.split(" ")
        return toks[:3], toks[3:]


PROPERTY = C04()
