"""C11 — token text, static text and text equality agree."""
from .runner import Property
from .core import Rng
from . import gen_events as G
from .buildref import Cache, run_events
from .treefmt import Node, Tok, STATIC, show_text

TOKS = ["T5:43", "T5:97", "T5:", "T6:43", "T6:233", "X100", "X101", "X102", "X103", "X104", "T7:108.101.116", "T7:233", "T100:43", "T103:108.101.116",
        "T104:233"]


def toks_of(t, out):
    for c in t.children:
        if isinstance(c, Node):
            toks_of(c, out)
        else:
            out.append(c)


class C11(Property):
    id = "C11"
    design_ref = "DESIGN.md section 5 / C11"
    profiles = ("debug", "release")
    theorems_note = ("text_eq_sym, text_eq_sound (true only if the resolved texts are equal), text_eq_complete (equal texts => true when both "
                     "kinds have static text or both have none), static_no_interner, static_two_ways (token(kind, static text) and "
                     "static_token(kind) produce the identical builder state), resolve_built (from C01), old_text_eq_refuted (the pre-fix "
                     "text_eq panics in debug builds for a static/interned pair)")
    assumptions = ["text_eq is total because it no longer contains assertions (the fixed code is a plain match); the harness runs every "
                   "ordered pair under catch_unwind in debug AND release builds",
                   "one duplicate-free interner shared by the compared trees (the property's own restriction)"]
    nontrivial_rule = ("trees over alphabets mixing static and interned kinds, incl. interned tokens whose text equals a static text and two "
                       "static kinds with the same text; all ordered pairs of tokens within and across two trees; non-trivial = the pair "
                       "matrix contains a static/interned pair and a static/static pair of different kinds; distinct = distinct case line")

    def cases(self, tier, seed):
        res = [("corpus", "Q S1 T5:43 X100 X102 T5:97 T6:97 F / S1 X100 T5:43 F"),
               ("corpus", "Q S1 X101 T5: X104 T7:233 F"), ("corpus", "Q S1 X104 T104:233 T5:97 F / S1 T104:233 X104 F"), ("corpus", "Q S1 T100:43 X100 F / S2 X103 T103:108.101.116 T7:108.101.116 F")]
        rng = Rng(seed + 11)
        # bounded-exhaustive: all ordered pairs of token forms, in one tree and across two trees
        for a in TOKS:
            for b in TOKS:
                res.append(("exhaustive", "Q S1 %s %s F" % (a, b)))
                res.append(("exhaustive", "Q S1 %s F / S2 %s F" % (a, b)))
        nrand = 600 if tier == "quick" else 12000
        for _ in range(nrand):
            builds = [G.rand_tree_events(rng, rng.choice([3, 8, 20]), toks=TOKS) for _ in range(1 + rng.below(2))]
            res.append(("random", "Q " + " / ".join(" ".join(b) for b in builds)))
        return res

    def spec(self, case, impl):
        builds = [b.split(" ") for b in case[2:].split(" / ")]
        cache = Cache()
        toks = []
        for b in builds:
            tr, fin = run_events(cache, b)
            if not isinstance(fin, Node):
                return None if impl == "BUILD-PANIC" else "expected BUILD-PANIC"
            toks_of(fin, toks)
        if " | " not in impl:
            return "malformed output " + impl[:100]
        parts = impl.split(" | ")
        if len(parts) == 5 and ("-TREES-DIFFER" in parts[4]):
            return "text_eq between tokens of trees that carry a resolver (all sharing one interner) differs from text_eq between the same tokens of plain trees: " + parts[4][:200]
        if len(parts) != 4:
            return "malformed output " + impl[:100]
        descr, rows, dumps, same = parts
        # the trees themselves: kinds, lengths (byte lengths of the texts) and texts
        c2, exp_dumps = Cache(), []
        for b in builds:
            exp_dumps.append(run_events(c2, b)[1].dump())
        if dumps != " / ".join(exp_dumps):
            return "trees differ from the events: got `%s`, expected `%s`" % (dumps[:200], " / ".join(exp_dumps)[:200])
        # tokens with the same kind and text are one allocation, however they were added (by kind alone or with text)
        ids, seen = [], {}
        for t in toks:
            ids.append(seen.setdefault((t.kind, t.text), len(seen)))
        if same != "same " + ",".join(str(i) for i in ids):
            return "token sharing differs: got `%s`, expected `same %s`" % (same, ",".join(str(i) for i in ids))
        descr = descr.split(" ") if descr else []
        rows = rows.split(",") if rows else []
        if len(descr) != len(toks):
            return "expected %d tokens, got %d" % (len(toks), len(descr))
        for d, t in zip(descr, toks):
            k, txt, key, st, res_ok = d.split(":")
            if int(k) != t.kind or txt != show_text(t.text):
                return "token %s resolves to %s but was built from kind %d text %s" % (d, txt, t.kind, show_text(t.text))
            if (t.kind in STATIC) != (st != "-") or (t.kind in STATIC and st != show_text(STATIC[t.kind])):
                return "token %s: static text reported as %s" % (d, st)
            if (t.kind in STATIC) != (key == "-"):
                return "token %s: a static-text kind must not carry an interner key (and vice versa)" % d
            if res_ok != "r":
                return "token %s: ResolvedToken::text differs from resolve_text" % d
        n = len(toks)
        m = []
        for r in rows:
            cells, i = [], 0
            while i < len(r):
                if r[i] == "P":
                    return "text_eq panicked (%s)" % r[i:i + 2]
                cells.append(r[i]); i += 1
            m.append(cells)
        if len(m) != n or any(len(r) != n for r in m):
            return "malformed text_eq matrix"
        for i in range(n):
            for j in range(n):
                a, b = toks[i], toks[j]
                if m[i][j] != m[j][i]:
                    return "text_eq is not symmetric for tokens %d,%d" % (i, j)
                if m[i][j] == "1" and a.text != b.text:
                    return "text_eq true for different texts (%d,%d)" % (i, j)
                if a.text == b.text and ((a.kind in STATIC) == (b.kind in STATIC)) and m[i][j] != "1":
                    return "text_eq false for equal texts of tokens %d (kind %d) and %d (kind %d)" % (i, a.kind, j, b.kind)
        return None

    def nontrivial(self, case, impl):
        ks = [int(t[1:].split(":")[0]) for t in case.split(" ") if t[:1] in "TX"]
        return any(k >= 100 for k in ks) and any(k < 100 for k in ks)

    def shrink_tokens(self, case):
        return None


PROPERTY = C11()
