"""C09 — checkpoints wrap and roll back exactly as documented."""
import itertools
from .runner import Property
from .core import Rng
from .treefmt import Tok, Node, parse_text, STATIC


def ref_run(ops):
    """Reference model with element identities (the property's prose, independent of index arithmetic).
    Returns (expected_trace, expected_final, classes): expected_trace is a list with, per op,
    '.' (must succeed), 'P' (must panic), or '?' (either — an invalidated checkpoint is used);
    after a '?' that the implementation accepts the reference can no longer predict the state, so
    the remaining expectations are all '?' and expected_final is None."""
    fresh = itertools.count()
    opens = []      # (nid, kind, start)  start = number of elements below this node's first child
    elems = []      # (eid, tree)
    cps = []        # (tuple of nids, tuple of eids)
    trace, classes = [], []
    lost = False
    for op in ops:
        c, rest = op[0], op[1:]
        if lost:
            trace.append("?")
            continue
        if c == "S":
            opens.append((next(fresh), int(rest), len(elems)))
            trace.append(".")
        elif c in "TE":
            k, txt = rest.split(":")
            k = int(k)
            if k in STATIC:
                # static kind: text ignored (release) / must match (debug); generator keeps them equal
                elems.append((next(fresh), Tok(k, STATIC[k])))
                trace.append(".")
            elif c == "E":
                trace.append("P")
            else:
                elems.append((next(fresh), Tok(k, parse_text(txt))))
                trace.append(".")
        elif c == "X":
            k = int(rest)
            if k in STATIC:
                elems.append((next(fresh), Tok(k, STATIC[k])))
                trace.append(".")
            else:
                trace.append("P")
        elif c == "F":
            if not opens:
                trace.append("P")
            else:
                nid, kind, start = opens.pop()
                kids = [t for _, t in elems[start:]]
                del elems[start:]
                elems.append((next(fresh), Node(kind, kids)))
                trace.append(".")
        elif c == "C":
            cps.append((tuple(n for n, _, _ in opens), tuple(e for e, _ in elems)))
            trace.append(".")
        elif c in "AR":
            if c == "A":
                slot, kind = rest.split(":")
                slot, kind = int(slot), int(kind)
            else:
                slot = int(rest)
            if slot >= len(cps):
                trace.append(".")
                continue
            nids, eids = cps[slot]
            cur_n = tuple(n for n, _, _ in opens)
            cur_e = tuple(e for e, _ in elems)
            valid_revert = cur_n[:len(nids)] == nids and cur_e[:len(eids)] == eids
            if c == "R":
                if valid_revert:
                    classes.append("valid_revert")
                    del opens[len(nids):]
                    del elems[len(eids):]
                    trace.append(".")
                else:
                    classes.append("invalid_revert")
                    trace.append("?")
                    lost = True
            else:
                if valid_revert and len(cur_n) == len(nids):
                    classes.append("valid_wrap")
                    opens.append((next(fresh), kind, len(eids)))
                    trace.append(".")
                elif valid_revert:
                    classes.append("wrap_open")
                    trace.append("P")
                else:
                    classes.append("invalid_wrap")
                    trace.append("?")
                    lost = True
    if lost:
        final = None
    elif len(elems) == 1 and isinstance(elems[0][1], Node):
        final = elems[0][1].dump()
    else:
        final = "PANIC"
    return trace, final, classes


def split_trace(tr):
    """'..M.?<x>.' -> list of per-op codes"""
    out, i = [], 0
    while i < len(tr):
        if tr[i] == "?" and i + 1 < len(tr) and tr[i + 1] == "<":
            j = tr.index(">", i)
            out.append(tr[i:j + 1])
            i = j + 1
        else:
            out.append(tr[i])
            i += 1
    return out


class C09(Property):
    id = "C09"
    design_ref = "DESIGN.md section 5 / C09"
    theorems_note = ("revert_valid, wrap_valid, wrap_open_panics, invalid_safe (WF preserved by every operation sequence, "
                     "valid or not), finish_node_in_bounds, valid_preserved (which operations keep a checkpoint valid), "
                     "old_guard_refuted (the pre-fix guard panics on a valid history)")
    assumptions = [
        "a panic raised by a builder method leaves the builder unchanged (all asserts precede mutation) — exercised by "
        "the harness, which catches every panic and continues on the same builder",
        "validity of a checkpoint in the theorems = the open nodes / elements of the checkpoint state are still the "
        "outermost open nodes / oldest elements (value prefix); the harness oracle classifies by element identities",
    ]
    nontrivial_rule = ("operation sequences over {start, token, finish_node, checkpoint, start_node_at(i), revert_to(i)}; "
                       "non-trivial = uses a checkpoint at least once (start_node_at or revert_to on a taken checkpoint); "
                       "distinct = distinct operation sequence")
    exhaustive_note = {"quick": "all operation sequences of length <= 6 over the 9-letter alphabet with <= 2 live checkpoints",
                       "thorough": "all operation sequences of length <= 8 over the 9-letter alphabet with <= 2 live checkpoints"}

    ALPHA = ["S1", "T5:97", "T5:", "F", "C", "A0:7", "A1:7", "R0", "R1"]

    def enum(self, maxlen):
        out = []
        def rec(prefix, ncp, n):
            if prefix:
                out.append(prefix)
            if n == maxlen:
                return
            for a in self.ALPHA:
                if a == "C":
                    if ncp >= 2:
                        continue
                    rec(prefix + [a], ncp + 1, n + 1)
                elif a[0] in "AR":
                    slot = int(a[1])
                    if slot >= ncp:
                        continue
                    rec(prefix + [a], ncp, n + 1)
                else:
                    rec(prefix + [a], ncp, n + 1)
        rec([], 0, 0)
        return out

    def cases(self, tier, seed):
        res = []
        # corpus: adversarial / previously failing histories first
        corpus = [
            "S1 C T5:97 S2 R0 F",                       # F5: valid revert with an unfinished newer node
            "S1 C T5:97 S2 T5:98 R0 T5:99 F",
            "C S1 T5:97 F A0:7 F",
            "S1 C T5:97 C T5:98 A0:7 R1 F F",            # wrap at older checkpoint, then revert newer
            "S1 T5:1 C S2 F F R0",
            "S1 C S2 T5:97 F A0:7 T5:98 F F",
            "S1 X100 C T5:233 A0:8 F X103 F",
        ]
        for c in corpus:
            res.append(("corpus", "B d " + c))
        maxlen = 6 if tier == "quick" else 8
        for ops in self.enum(maxlen):
            # keep only sequences that use a checkpoint, plus all short ones
            if len(ops) <= 4 or any(o[0] in "AR" for o in ops):
                res.append(("exhaustive", "B d " + " ".join(ops)))
        rng = Rng(seed)
        nrand = 3000 if tier == "quick" else 60000
        alpha = ["S1", "S2", "T5:97", "T5:", "T6:233.119070", "X100", "F", "C"]
        for _ in range(nrand):
            n = 5 + rng.below(36)
            ops, ncp, depth = [], 0, 0
            for _ in range(n):
                r = rng.below(100)
                if r < 12 and ncp < 5:
                    ops.append("C"); ncp += 1
                elif r < 30 and ncp > 0:
                    ops.append("A%d:%d" % (rng.below(ncp), 7 + rng.below(2)))
                elif r < 45 and ncp > 0:
                    ops.append("R%d" % rng.below(ncp))
                elif r < 60:
                    ops.append(rng.choice(["S1", "S2"]))
                elif r < 78:
                    ops.append("F")
                else:
                    ops.append(rng.choice(["T5:97", "T5:", "T6:233.119070", "X100"]))
            backend = "u" if rng.chance(1, 4) else "d"
            res.append(("random", "B %s %s" % (backend, " ".join(ops))))
        return res

    def spec(self, case, impl):
        ops = case.split(" ")[2:]
        if " | " not in impl:
            return "malformed implementation output: " + impl[:100]
        tr, fin = impl.split(" | ", 1)
        tr = split_trace(tr)
        exp, efin, _ = ref_run(ops)
        if len(tr) != len(exp):
            return "trace length %d != %d ops" % (len(tr), len(exp))
        loose = False          # an invalidated checkpoint was used and accepted: from here on only well-formedness is required
        for i, (g, e) in enumerate(zip(tr, exp)):
            if g.startswith("?") or g == "!":
                # an index / slice / unwrap panic that is none of the documented ones: the builder is ill-formed
                return "op %d (%s): unexpected panic kind %s%s" % (i, ops[i], g, " (after an invalidated checkpoint was accepted)" if loose else "")
            if loose:
                continue
            if e == "." and g != ".":
                return "op %d (%s): panicked (%s) although the reference model says it must succeed" % (i, ops[i], g)
            if e == "P" and g == ".":
                return "op %d (%s): succeeded although it must panic" % (i, ops[i])
            if e == "?":
                loose = True
        if efin is not None:
            if efin == "PANIC":
                if not fin.startswith("PANIC:"):
                    return "finish returned a tree although the builder does not hold exactly one node"
            elif fin != efin:
                return "finished tree %s differs from the reference %s" % (fin, efin)
        else:
            # invalidated checkpoint was accepted: anything well-formed goes; the dump itself proves the tree is walkable
            if fin.startswith("PANIC:?"):
                return "finish: unexpected panic kind " + fin
        return None

    def nontrivial(self, case, impl):
        return any(t[0] in "AR" for t in case.split(" ")[2:])

    def distribution(self, cases, impl_lines):
        d = {}
        lens = {}
        for c in cases:
            ops = c.split(" ")[2:]
            _, _, classes = ref_run(ops)
            for k in classes:
                d[k] = d.get(k, 0) + 1
            b = min(len(ops) // 5 * 5, 40)
            lens[b] = lens.get(b, 0) + 1
        panics = {}
        for l in impl_lines:
            for ch in l.split(" | ")[0]:
                if ch != ".":
                    panics[ch] = panics.get(ch, 0) + 1
        return {"checkpoint_use_classes": d, "length_histogram": {str(k): v for k, v in sorted(lens.items())},
                "panic_codes": panics}


PROPERTY = C09()
