"""C13 — offset and range queries find the right element."""
import re
from .runner import Property
from .core import Rng
from . import gen_events as G, gen_nav as GN
from .navref import build_tree, check_nav_line

RANGE = re.compile(r"@\d+\.\.\d+")


class C13(Property):
    id = "C13"
    design_ref = "DESIGN.md section 5 / C13"
    theorems_note = ("tao_complete (EVERY non-empty token below the node that touches the offset is in the answer: Single means exactly one such token), tao_left_right / tao_iterator / tao_bias_meaning (the TokenAtOffset helper: biases = first/last of the tokens found, the iterator yields exactly them with exact size hints), tao_total (inside start <= off <= end the unwrap, the assert and the unreachable! of token_at_offset are never hit, "
                     "including with empty nodes and zero-length tokens), tao_spec (None iff empty text; Single = the unique non-empty token "
                     "touching the offset; Between = the two that meet there), cover_total / cover_spec (covering_element returns an element "
                     "of the subtree containing the range, none of whose children contains it)")
    assumptions = ["well-formed green tree (every node's length is the sum of its children's) — established by the builder (C01)",
                   "Inv of C02 (cached offsets are true offsets) — proved preserved by these queries as well"]
    nontrivial_rule = ("(tree, start node, offset | range) queries; non-trivial = the tree contains an empty node or zero-length token and "
                       "the query touches a boundary between two children; distinct = distinct case line")
    exhaustive_note = {"quick": "every tree of <= 6 events x every node x every offset in [start,end] and every sub-range",
                       "thorough": "every tree of <= 8 events x every node x every offset in [start,end] and every sub-range"}

    def cases(self, tier, seed):
        res = [("corpus", "N p S1 S2 F T5:97 T5: S2 F T6:233.98 S2 T5: F F | tao:0:0 tao:0:1 tao:0:4 cov:0:1:1 cov:0:0:0 cov:0:4:4 tao:0:9")]
        maxlen = 6 if tier == "quick" else 8
        for ev in GN.small_trees(maxlen):
            t = build_tree(ev)
            if t is None:
                continue
            for path in t.order:
                if not t.is_node(path):
                    continue
                prog = GN.offset_queries(t, path)
                for api in ("p", "r") if len(ev) <= 5 else ("p",):
                    res.append(("exhaustive", "N %s %s | %s" % (api, " ".join(ev), " ".join(prog))))
        rng = Rng(seed + 13)
        nrand = 800 if tier == "quick" else 15000
        for i in range(nrand):
            ev = G.rand_tree_events(rng, rng.choice([6, 20, 60, 200]), toks=GN.TOKS_NAV + ["X100", "X101"], wide=rng.chance(1, 3))
            t = build_tree(ev)
            total = t.root.length()
            prog = []
            for _ in range(20):
                if rng.chance(1, 2):
                    prog.append("%s:0:%d" % (rng.choice(["tao", "taoh"]), rng.below(total + 2)))
                else:
                    a = rng.below(total + 1)
                    prog.append("cov:0:%d:%d" % (a, a + rng.below(total - a + 2)))
            res.append(("random", "N %s %s | %s" % ("pr"[i % 2], " ".join(ev), " ".join(prog))))
        return res

    def project(self, line):
        parts = line.split(" ;; ")
        if len(parts) != 3:
            return line
        ops = [RANGE.sub("", o) for o in parts[0].split(" ; ")
               if o.startswith("single") or o.startswith("between") or o == "none" or o.startswith("PANIC") or o.startswith("L=") or o[:1] in "nt"]
        return " ; ".join(ops)

    def spec(self, case, impl):
        return None

    def spec_raw(self, case, raw):
        why = check_nav_line(case, raw, only={"tao", "taoh", "cov"})
        if why and why.startswith("op "):
            m = re.match(r"op (\d+) \(([^)]*)\): got (.*), the tree structure dictates (.*)", why)
            if m and RANGE.sub("", m.group(3)) == RANGE.sub("", m.group(4)):
                return None
            return why
        return None

    def nontrivial(self, case, impl):
        return "S1 F" in case or "S2 F" in case or "T5: " in case

    def shrink_tokens(self, case):
        toks = case.split(" ")
        bar = toks.index("|")
        return toks[:bar + 1], toks[bar + 1:]


PROPERTY = C13()
