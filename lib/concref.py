"""concref.py — oracles for the concurrent properties (C05, C06, C18), computed from what the real code did
under the deterministic scheduler: the hook trace, the handles each thread obtained, allocation balance."""
import itertools, re
from .buildref import Cache, run_events
from .treefmt import Node
from .navref import T

HANDLE = re.compile(r"^([nt])((?:/\d+)*)#(\d+|\?)@(\d+)\.\.(\d+)$")


def parse_case(case):
    ev, progs, sched = case[2:].split(" | ")
    programs = [p.split(" ") if p else [] for p in progs.split(" // ")]
    return ev.split(" "), programs, [int(x) for x in sched.split(" ") if x]


def parse_out(impl):
    parts = impl.split(" || ")
    if len(parts) != 3:
        return None
    trace = [tuple(x.split(":", 1)) for x in parts[0].split(" ") if x]
    results = [r.split(",") if r else [] for r in parts[1].split(" // ")]
    m = re.match(r"leak=(-?\d+) payloads=(\d+)/(\d+)", parts[2])
    return trace, results, (int(m.group(1)), int(m.group(2)), int(m.group(3))) if m else None


def expected_positions(t, prog):
    """the positions the operations of one thread must return (None = no element), by tree structure"""
    regs, out = [()], []
    for op in prog:
        c, rest = op[0], op[1:]
        c = {"a": "f", "z": "l", "n": "s", "b": "p"}.get(c, c)      # the node-only routes reach the same positions
        a = rest.split(":")
        r = int(a[0]) if a[0] else 0
        src = regs[r] if r < len(regs) else None
        if c in "fclspk":
            res = None
            if src is not None:
                if c == "k":
                    res = src
                elif c in "fcl" and t.is_node(src):
                    k = t.kids(src)
                    i = 0 if c == "f" else (len(k) - 1 if c == "l" else int(a[1]))
                    res = k[i] if 0 <= i < len(k) else None
                elif c in "sp" and src:
                    k = t.kids(src[:-1])
                    i = src[-1] + (1 if c == "s" else -1)
                    res = k[i] if 0 <= i < len(k) else None
            regs.append(res)
            out.append(("h", res))
        elif c == "d":
            out.append(("d", src))
            if src is not None and r < len(regs):
                regs[r] = None
        else:
            out.append(("data", src if (src is not None and t.is_node(src)) else None))
    return out


def check_c05(case, impl):
    ev, programs, _ = parse_case(case)
    fin = run_events(Cache(), ev)[1]
    if not isinstance(fin, Node):
        return None
    t = T(fin)
    po = parse_out(impl)
    if po is None:
        return "malformed output: " + impl[:200]
    _, results, _ = po
    ident = {}          # path -> identity
    owner = {}          # identity (nodes) -> path
    for tid, (prog, res) in enumerate(zip(programs, results)):
        exp = expected_positions(t, prog)
        if len(exp) != len(res):
            return "thread %d: %d results for %d operations" % (tid, len(res), len(exp))
        for op, (kind, pos), got in zip(prog, exp, res):
            if kind != "h":
                continue
            if pos is None:
                if got != "-":
                    return "thread %d op %s: returned %s where the tree has no element" % (tid, op, got)
                continue
            m = HANDLE.match(got)
            if not m:
                return "thread %d op %s: returned %s, expected a handle to %s" % (tid, op, got, t.show(pos))
            isn, path, idn = m.group(1) == "n", tuple(int(x) for x in m.group(2).split("/") if x), m.group(3)
            if path != pos or "%s%s@%s..%s" % (m.group(1), m.group(2), m.group(4), m.group(5)) != t.show(pos):
                return "thread %d op %s: handle %s does not carry kind/position/range of %s" % (tid, op, got, t.show(pos))
            key = (isn, path if isn else path[:-1])
            if key in ident and ident[key] != idn:
                return "two different red elements for position %s: #%s and #%s" % (t.show(pos), ident[key], idn)
            ident[key] = idn
            if isn:
                if idn in owner and owner[idn] != path:
                    return "one red node #%s stands for two positions" % idn
                owner[idn] = path
    return None


def check_c06(case, impl):
    po = parse_out(impl)
    if po is None:
        return "malformed output (crash?): " + impl[:200]
    trace, results, tail = po
    if tail is None:
        return "malformed output tail"
    trace = [(tid, e) for tid, e in trace if e[0] not in "()"]
    live, freed = {0}, set()
    nthreads = len(results)
    rc = nthreads
    torn = False
    for i, (tid, e) in enumerate(trace):
        k = e[0]
        if k == "A":
            b = int(e[1:])
            if b in live or b in freed:
                return "block %d allocated twice" % b
            live.add(b)
        elif k == "F":
            b = int(e[1:])
            if b in freed:
                return "block %d freed twice (event %d)" % (b, i)
            if b not in live:
                return "block %d freed but never allocated" % b
            live.discard(b); freed.add(b)
            if b == 0 and i != len(trace) - 1:
                return "the root block is freed although %d more steps follow (use after free)" % (len(trace) - 1 - i)
        elif k in "RrWw":
            b = int(e[1:].split(".")[0])
            if b in freed:
                return "event %s touches block %d after it was freed" % (e, b)
        elif k in "DdEe":
            b = int(e[1:])
            if b in freed:
                return "data access %s on block %d after it was freed" % (e, b)
        elif k in "+-":
            d = int(e.split("~")[0])          # a weaker ordering than AcqRel is marked ~Ordering: C07's business
            if not torn and rc + d < 0:
                return "reference count below zero before teardown"
            if not torn and rc == 1 and d == -1:
                torn = True          # the last handle: teardown starts here, and only here
            elif not torn and rc + d == 0:
                return "reference count reached 0 by a step other than the drop of the last handle"
            rc += d
    if live:
        return "blocks %s are never freed (leak)" % sorted(live)
    if not torn:
        return "the tree was never torn down although every handle was dropped"
    leak, dropped, created = tail
    if leak != 0:
        return "memory not released: %d live bytes remain after all handles are gone" % leak
    return None


def strip_markers(trace_str):
    """the hook events of a trace, without the operation boundary markers of the harness"""
    return " ".join(x for x in trace_str.split(" ") if x and x.split(":", 1)[1][0] not in "()")


def op_intervals(trace):
    """(tid, op index) -> (position of the begin marker, position of the end marker) in the trace"""
    iv = {}
    for i, (tid, e) in enumerate(trace):
        if e[0] == "(":
            iv[(int(tid), int(e[1:]))] = [i, None]
        elif e[0] == ")":
            iv[(int(tid), int(e[1:]))][1] = i
    return iv


def slot_apply(cur, op):
    """sequential optional-slot semantics: (new content, result text)"""
    c = op[0]
    v = op[1:].split(":")[1] if ":" in op else None
    if c == "S":
        return v, "set=%s" % v
    if c == "T":
        return (v, "tryset=ok%s" % v) if cur is None else (cur, "tryset=err%s" % v)
    if c == "G":
        return cur, "get=%s" % (cur if cur is not None else "-")
    return None, "cleared"


def check_c18(case, impl):
    """linearizability of the data operations against the sequential optional slot of each tree position:
    there must be a total order of the operations that respects program order and real-time order (an operation that
    returned before another one started comes first) and explains every result"""
    ev, programs, _ = parse_case(case)
    po = parse_out(impl)
    if po is None:
        return "malformed output: " + impl[:200]
    trace, results, tail = po
    fin = run_events(Cache(), ev)[1]
    t = T(fin)
    iv = op_intervals(trace)
    ops = []          # (tid, index in thread, op, position, result, begin, end)
    for tid, (prog, res) in enumerate(zip(programs, results)):
        exp = expected_positions(t, prog)
        if len(exp) != len(res):
            return "thread %d: %d results for %d operations" % (tid, len(res), len(exp))
        for k, (op, (kind, pos), got) in enumerate(zip(prog, exp, res)):
            if kind == "data" and pos is not None:
                b, e = iv.get((tid, k), (None, None))
                if b is None or e is None:
                    return "thread %d operation %d has no boundary markers in the trace" % (tid, k)
                ops.append((tid, k, op, pos, got, b, e))
    n = len(ops)
    order = []

    def search(done, slots):
        if len(done) == n:
            return True
        for i, (tid, k, op, pos, got, b, e) in enumerate(ops):
            if i in done:
                continue
            # program order and real-time order: nothing that must come before i is still pending
            if any(j not in done and j != i and (ops[j][6] < b or (ops[j][0] == tid and ops[j][1] < k)) for j in range(n)):
                continue
            new, exp = slot_apply(slots.get(pos), op)
            if exp != got:
                continue
            s2 = dict(slots)
            if new is None:
                s2.pop(pos, None)
            else:
                s2[pos] = new
            order.append(i)
            if search(done | {i}, s2):
                return True
            order.pop()
        return False

    if not search(frozenset(), {}):
        descr = ", ".join("thread %d %s -> %s" % (o[0], o[2], o[4]) for o in sorted(ops, key=lambda o: o[5]))
        return "the results of the data operations are not those of any one-at-a-time execution: " + descr
    if tail is None:
        return "malformed output tail"
    leak, dropped, created = tail
    if dropped != created:
        return "%d payload values created but %d dropped" % (created, dropped)
    return None


def check_discipline(case, impl):
    """C07 on a hook trace: every request for the content of a child slot is made while the thread holds that slot's lock;
    every update of the reference count is AcqRel; nothing touches a block after it was freed"""
    po = parse_out(impl)
    if po is None:
        return "malformed output (crash?): " + impl[:200]
    trace, results, tail = po
    held = {}           # tid -> set of (lock id)
    freed = set()
    for k, (tid, e) in enumerate(trace):
        c = e[0]
        if c in "()":
            continue
        h = held.setdefault(tid, set())
        if c in "RW":
            h.add((c, e[1:]))
        elif c in "rw":
            h.discard((c.upper(), e[1:]))
        elif c == "a":
            if ("R", e[1:]) not in h and ("W", e[1:]) not in h:
                return "thread %s requests the content of slot %s without holding its lock (event %d)" % (tid, e[1:], k)
        elif c in "+-":
            if "~" in e:
                return "reference count update %s is not AcqRel (event %d)" % (e, k)
        elif c == "?":
            return "the reference count is read by a plain load (%s, event %d): a decision taken on it can be stale by the time it is acted on" % (e, k)
        elif c == "F":
            freed.add(e[1:])
        if c in "RWrwa" and e[1:].split(".")[0] in freed:
            return "event %s touches block %s after it was freed" % (e, e[1:].split(".")[0])
        if c in "DdEe" and e[1:] in freed:
            return "data lock event %s on block %s after it was freed" % (e, e[1:])
    return None


def schedules(length, nthreads, max_switches):
    """all schedules of the given length that change the running thread at most max_switches times"""
    out = []
    for k in range(0, max_switches + 1):
        for cuts in itertools.combinations(range(1, length), k):
            for first in range(nthreads):
                for others in itertools.product(range(1, nthreads), repeat=k):
                    s, cur, last = [], first, 0
                    segs = list(cuts) + [length]
                    for j, c in enumerate(segs):
                        s += [cur] * (c - last)
                        last = c
                        if j < k:
                            cur = (cur + others[j]) % nthreads
                    out.append(s)
    return out
