"""gen_nav.py — trees and traversal programs for the red-tree properties (C02, C03, C13, C05...)."""
from . import gen_events as G
from .navref import build_tree

TOKS_NAV = ["T5:97", "T5:", "T6:233.98"]            # 1 byte, 0 bytes, 3 bytes (2-byte char first)

NODE_OPS = ["par", "fc", "fct", "lc", "lct", "ns", "nst", "ps", "pst", "ft", "lt", "anc", "sib+", "sib-", "sibt+", "sibt-",
            "chs", "chts", "desc", "desct", "pre", "pret", "sz", "szt", "ar"]
TOKEN_OPS = ["par", "nst", "pst", "nt", "pt", "anc", "sibt+", "sibt-"]


def small_trees(maxlen):
    return G.enum_balanced(maxlen, starts=("S1", "S2"), toks=TOKS_NAV)


def reach_forward(path, pre=()):
    """program (list of ops) that reaches `path` from the root by forward iteration; returns (ops, register of target);
    `pre`: operations to run first (each operation's result occupies one register)"""
    ops, reg = list(pre), 0
    for i in path:
        ops.append("cht:%d:%d" % (reg, i))
        reg = len(ops)
    return ops, reg


def routes_to(t, path):
    """programs whose LAST step is the first to reach `path`, one per route"""
    if not path:
        return []
    par, i = path[:-1], path[-1]
    base, preg = reach_forward(par)
    n = len(t.elem[par].children)
    progs = []
    progs.append(("forward", base + ["cht:%d:%d" % (preg, i)]))
    # backward: last child then previous-sibling hops
    ops = base + ["lct:%d" % preg]
    for _ in range(n - 1 - i):
        ops.append("pst:%d" % len(ops))
    progs.append(("backward", ops))
    if i > 0:
        progs.append(("hop-from-left", base + ["cht:%d:%d" % (preg, i - 1), "nst:%d" % (len(base) + 1)]))
        progs.append(("indexed-after", base + ["cht:%d:%d" % (preg, i - 1), "ncta:%d:%d" % (preg, len(base) + 1)]))
    if i + 1 < n:
        ops = base + ["lct:%d" % preg]
        for _ in range(n - 2 - i):
            ops.append("pst:%d" % len(ops))
        right = len(ops)
        progs.append(("hop-from-right", ops + ["pst:%d" % right]))
        progs.append(("indexed-before", ops + ["pctb:%d:%d" % (preg, right)]))
    s, e = t.rng(path)
    if t.is_node(path):
        progs.append(("first/last-child", base + (["fc:%d" % preg] if i == min([j for j in range(n) if t.is_node(par + (j,))]) else ["lc:%d" % preg])))
        progs.append(("covering", ["cov:0:%d:%d" % (s, e)]))
    else:
        progs.append(("token-at-offset", ["tao:0:%d" % s]))
        progs.append(("first-token", ["ft:0", "nt:1", "nt:2"]))
    return progs


def all_ops_from(t, path, pre=()):
    base, reg = reach_forward(path, pre)
    ops = list(base)
    names = NODE_OPS if t.is_node(path) else TOKEN_OPS
    for n in names:
        ops.append("%s:%d" % (n, reg))
    if t.is_node(path):
        k = len(t.elem[path].children)
        for i in range(k + 1):
            ops.append("ch:%d:%d" % (reg, i))
        # a partly consumed child iterator, finished by last / count / len+size_hint / fold
        for j in range(min(k, 3) + 1):
            script = ".".join(["0"] * j)
            for it in ("itn", "its"):
                for term in "lczf":
                    ops.append("%s:%d:%s:%s" % (it, reg, script, term))
    return ops


def offset_queries(t, path):
    base, reg = reach_forward(path)
    s, e = t.rng(path)
    ops = list(base)
    for off in range(s, e + 1):
        ops.append("tao:%d:%d" % (reg, off))
        ops.append("taoh:%d:%d" % (reg, off))
    for a in range(s, e + 1):
        for b in range(a, e + 1):
            ops.append("cov:%d:%d:%d" % (reg, a, b))
    return ops


def random_program(rng, t, n, queries=True):
    ops = []
    single = ["par", "fc", "fct", "lc", "lct", "ns", "nst", "ps", "pst", "ft", "lt", "nt", "pt"]
    for _ in range(n):
        r = rng.below(100)
        reg = rng.below(len(ops) + 1) if rng.chance(3, 4) else max(0, len(ops) - rng.below(3))
        if r < 60:
            ops.append("%s:%d" % (rng.choice(single), reg))
        elif r < 68:
            ops.append("%s:%d:%d" % (rng.choice(["ch", "cht"]), reg, rng.below(5)))
        elif r < 72:
            ops.append("%s:%d:%s%s" % (rng.choice(["itn", "its"]), reg, ".".join(str(rng.below(3)) for _ in range(1 + rng.below(4))),
                                       rng.choice(["", ":l", ":c", ":z", ":f"])))
        elif r < 80:
            ops.append("%s:%d:%d" % (rng.choice(["nca", "ncta", "pcb", "pctb"]), reg, rng.below(len(ops) + 1)))
        elif r < 88 and queries:
            total = t.root.length()
            ops.append("tao:0:%d" % rng.below(total + 1))
        elif r < 94 and queries:
            total = t.root.length()
            a = rng.below(total + 1)
            ops.append("cov:0:%d:%d" % (a, a + rng.below(total - a + 1)))
        else:
            ops.append("%s:%d" % (rng.choice(["anc", "sib+", "sib-", "sibt+", "sibt-", "chs", "chts", "desc", "desct", "pre", "pret", "sz", "szt"]), reg))
    return ops


def identity_program(t):
    """every position reached twice, by forward iteration and from the back: the registers then hold two handles per
    position (C05: equal exactly when same position)"""
    ops, reg_of = [], {(): 0}
    for path in t.order:
        if not path:
            continue
        ops.append("cht:%d:%d" % (reg_of[path[:-1]], path[-1]))
        reg_of[path] = len(ops)
    for path in t.order:
        if t.is_node(path) and t.elem[path].children:
            ops.append("lct:%d" % reg_of[path])
            r = len(ops)
            for _ in range(len(t.elem[path].children) - 1):
                ops.append("pst:%d" % r)
                r = len(ops)
    return ops
