"""C05 — one red element per tree position under any thread interleaving."""
import re
from .runner import Property
from .core import Rng
from . import concref as CR

TREES = ["S1 S2 T5:97 F T5:98 F", "S1 T5:97 S2 F S2 T5:98 T5:99 F F", "S1 S2 S2 T5:97 F F F"]
NAV_PROGS = ["f0", "l0", "c0:1", "f0 f1", "f0 s1", "l0 p1", "c0:2", "f0 l0", "l0 f0", "f0 f1 f2", "c0:1 p1",
             # a z n b: the same hops through the node-only routes wherever the element reached is a node
             "a0", "z0", "a0 a1", "a0 n1", "z0 b1", "a0 z0", "z0 a0", "a0 a1 a2"]


class ConcBase(Property):
    needs_hooks = True
    trusted_base = Property.trusted_base + [
        "hooks under cfg(cstree_verif): instrumented RwLock / AtomicU32 / UnsafeCell (cstree/src/verif.rs) report the steps of the real "
        "primitives they wrap; the deterministic scheduler and the trace renderer of harness/src/conc_cases.rs",
        "Miri (nightly) as a second search for a failing run when an obligation breaks (never as evidence that the property holds)",
    ]
    trees = TREES
    progs = NAV_PROGS

    def gen(self, tier, seed, progs, seed_off):
        res = []
        rng = Rng(seed + seed_off)
        L, sw = (18, 2) if tier == "quick" else (24, 3)
        scheds2 = CR.schedules(L, 2, sw)
        pairs = [(a, b) for a in progs for b in progs]
        # exhaustive: every schedule with at most `sw` context switches, for a rotating selection of program pairs
        take = 6 if tier == "quick" else 30
        for ti, tree in enumerate(self.trees):
            for k in range(take):
                a, b = pairs[(ti * 7 + k * 11) % len(pairs)]
                for s in scheds2:
                    res.append(("exhaustive", "K %s | %s // %s | %s" % (tree, a, b, " ".join(map(str, s)))))
        # random: three threads, random schedules
        for _ in range(400 if tier == "quick" else 8000):
            tree = rng.choice(self.trees)
            n = 2 + rng.below(2)
            ps = [rng.choice(progs) for _ in range(n)]
            s = [rng.below(n) for _ in range(40)]
            res.append(("random", "K %s | %s | %s" % (tree, " // ".join(ps), " ".join(map(str, s)))))
        return res

    def shrink_tokens(self, case):
        return None

    miri_programs = ["traverse"]

    def extra_search(self, tier):
        """free-running threads under Miri (its scheduler preempts anywhere, its race detector sees unordered accesses):
        used only when the machine correspondence or a proof no longer checks"""
        from .p_c07 import miri
        for prog in self.miri_programs:
            r = miri(prog, 0, 16 if tier == "quick" else 64)
            if r != "ok":
                return ("M %s 0 %d" % (prog, 16 if tier == "quick" else 64), "Miri on program `%s`: %s" % (prog, r), r)
        return None

    def distribution(self, cases, impl_lines):
        races = sum(1 for l in impl_lines if "+2" in l.split(" || ")[0] or " +1 " in l.split(" || ")[0].replace(":+1", " +1 ") and False)
        lost = sum(1 for l in impl_lines if ":+2" in l)
        return {"schedules_with_a_lost_node_creation_race": lost,
                "schedules_with_teardown_on_thread_1_or_2": sum(1 for l in impl_lines if " 1:F0" in l or " 2:F0" in l)}


class C05(ConcBase):
    id = "C05"
    design_ref = "DESIGN.md section 5 / C05"
    theorems_note = ("on the concurrent machine, for every number of threads, all programs and every schedule (Reach): "
                     "one_element_per_position (all handles any threads hold or were given for one position are the same element), "
                     "handles_denote_slots, slot_write_once (an initialised slot keeps its element until the teardown; a loser installs "
                     "nothing), block_identity (one NodeData block stands for one position; no child shares the root's block), "
                     "slot_kinds_correct (a slot holds a node exactly where the green tree has a node child; its parent position is the "
                     "root or an initialised node slot), handles_carry_true_offsets (whoever won the race and by whichever route — first/"
                     "last child, iterator, sibling hop in either direction — the offset stored with an element is the true text offset of "
                     "its position), loser_neutral (the loser's four steps leave count, slots, offsets, locks, data and allocation counter "
                     "as they were)")
    assumptions = [
        "the machine is at the granularity of the hook points (lock requests, read-modify-writes); between two hook points a thread's "
        "code touches only thread-private state or state protected by the lock it holds — the schedule correspondence replays every "
        "explored schedule of the real code against the machine, event by event",
        "parking_lot RwLock provides mutual exclusion; the scheduler never lets two threads into conflicting critical sections, so the "
        "real locks are never contended during the correspondence runs",
    ]
    nontrivial_rule = ("(tree, thread programs, schedule); non-trivial = the schedule makes a thread lose a creation race (a candidate is "
                       "built and discarded) or two threads obtain the same position by different routes; distinct = distinct case line")
    exhaustive_note = {"quick": "all schedules of length 18 with <= 2 context switches, 2 threads, 18 (tree, program pair) combinations",
                       "thorough": "all schedules of length 24 with <= 3 context switches, 2 threads, 90 (tree, program pair) combinations"}

    def cases(self, tier, seed):
        res = self.gen(tier, seed, NAV_PROGS, 5)
        # identity semantics, sequentially: every position of every small tree (empty nodes and zero-length tokens
        # included) is reached twice, by different routes; handles are equal exactly when they denote the same position
        from . import gen_nav as GN
        from .navref import build_tree
        for ev in GN.small_trees(5 if tier == "quick" else 7):
            t = build_tree(ev)
            if t is None or len(t.order) < 3:
                continue
            prog = GN.identity_program(t)
            res.append(("exhaustive", "N %s %s | %s" % ("pr"[len(ev) % 2], " ".join(ev), " ".join(prog))))
        return res

    def project(self, line):
        if " ;; " in line:
            sec = line.split(" ;; ")
            return sec[1].partition(" ~ ")[2] if len(sec) == 3 else line
        # C05 is about what the threads obtain: handles (position, kind, range, identity).  Identities are renumbered by first
        # appearance in the results, so that WHICH thread's candidate won a race -- which depends on how the schedule lines up
        # with the blocking points of the code -- does not matter, while two identities for one position still do.
        p = line.split(" || ")
        if len(p) != 3:
            return line
        seen = {}
        def ren(m):
            return "#%d" % seen.setdefault(m.group(1), len(seen))
        return re.sub(r"#(\d+|\?)", ren, p[1])

    def spec(self, case, impl):
        return None

    def spec_raw(self, case, raw):
        if case.startswith("M "):
            return None if raw == "ok" else "Miri on program `%s`: %s" % (case.split(" ")[1], raw)
        if case.startswith("N "):
            from .navref import check_identity
            return check_identity(case, raw)
        return CR.check_c05(case, raw)

    def nontrivial(self, case, impl):
        if case.startswith("N "):
            return "T5: " in case + " " or "S2 F" in case
        return ":+2" in self._raw_impl.get(case, "") or ":+1 " in self._raw_impl.get(case, "")


PROPERTY = C05()
