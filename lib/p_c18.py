"""C18 — per-node data behaves like an atomic optional slot."""
from . import concref as CR
from .p_c05 import ConcBase

PROGS = ["S0:5", "T0:7", "G0", "X0", "T0:7 G0", "S0:5 X0", "G0 T0:9 G0", "f0 S1:3 G1", "f0 T1:4", "T0:1 T0:2", "X0 G0", "f0 G1 X1",
         "l0 S1:3 G1", "l0 T1:4", "c0:1 T1:6 G1", "S0:5 S0:6", "S0:5 G0 S0:6", "G0 G0", "T0:8 G0 G0"]


LPROGS = ["S0:5 X0 G0 T0:9", "S0:6", "X0 G0", "S0:5 S0:6 G0", "T0:7 X0 T0:8", "G0 T0:9 G0", "X0", "S0:1 X0 S0:2 X0", "G0 G0", "T0:3 G0 X0 G0"]


class C18(ConcBase):
    id = "C18"
    design_ref = "DESIGN.md section 5 / C18"
    theorems_note = ("data_linearizable (for EVERY run, any programs and schedule: the history of its data operations, in step order, executed sequentially on one optional slot per position gives exactly the results the threads recorded, ends in the store the machine holds, and keeps program order; every reachable state has such a history), data_step_atomic (every data operation is one machine step, under the data lock, and that step is the sequential "
                     "optional-slot operation on the data of its tree position: new content and result as specified, every other position "
                     "untouched), other_steps_keep_data, try_set_exclusive (a conditional set succeeds exactly when the slot is empty, and "
                     "fills it), payloads_dropped_once (for every reachable state: values created = values stored + values dropped; when "
                     "all threads are done all of them have been dropped)")
    assumptions = [
        "each data method runs entirely under the node's data RwLock in the right mode (one machine step): read off the code; the lock "
        "events of the real code are replayed against the machine",
        "values are handed out as Arc clones: they stay valid after being replaced or cleared (triomphe Arc counting assumed)",
    ]
    nontrivial_rule = ("(tree, thread programs of data operations on one or two nodes, schedule), K cases replayed on the machine event by event, U cases (payload destructors are scheduling points: user code may take arbitrarily long) checked by the linearizability search alone; non-trivial = two threads operate on "
                       "the same node and at least one conditional set or clear is involved; distinct = distinct case line")
    exhaustive_note = {"quick": "all schedules of length 18 with <= 2 context switches, 2 threads, 18 (tree, program pair) combinations",
                       "thorough": "all schedules of length 24 with <= 3 context switches, 2 threads, 90 (tree, program pair) combinations"}

    miri_programs = ["data"]

    def cases(self, tier, seed):
        res = self.gen(tier, seed, PROGS, 18)
        # `U` cases: the destructor of a stored value is user code and may take arbitrarily long, so it is a scheduling
        # point of its own (the machine's step is atomic: the claim is C18_data_linearizable; checked by the
        # linearizability search only)
        from .core import Rng
        rng = Rng(seed + 118)
        L, sw = (14, 2) if tier == "quick" else (18, 3)
        scheds = CR.schedules(L, 2, sw)
        pairs = [(a, b) for a in LPROGS for b in LPROGS]
        take = 24 if tier == "quick" else len(pairs)
        for k in range(take):
            a, b = pairs[(k * 7) % len(pairs)]
            for sc in scheds:
                res.append(("exhaustive", "U %s | %s // %s | %s" % (self.trees[0], a, b, " ".join(map(str, sc)))))
        for _ in range(300 if tier == "quick" else 6000):
            n = 2 + rng.below(2)
            ps = [rng.choice(LPROGS) for _ in range(n)]
            sc = [rng.below(n) for _ in range(40)]
            res.append(("random", "U %s | %s | %s" % (self.trees[0], " // ".join(ps), " ".join(map(str, sc)))))
        return res

    def project(self, line):
        if line.startswith("UY "):
            return "ok"
        p = line.split(" || ")
        if len(p) != 3:
            return line
        data_events = " ".join(x for x in p[0].split(" ") if x.split(":")[1][0] in "DdEe")
        return data_events + " || " + p[1] + " || " + p[2].split(" ", 1)[1]

    def spec(self, case, impl):
        return None

    def spec_raw(self, case, raw):
        if case.startswith("M "):
            return None if raw == "ok" else "Miri on program `%s`: %s" % (case.split(" ")[1], raw)
        if case.startswith("U "):
            if not raw.startswith("UY "):
                return "malformed output: " + raw[:200]
            return CR.check_c18("K" + case[1:], raw[3:])
        return CR.check_c18(case, raw)

    def nontrivial(self, case, impl):
        return any(x in case for x in ("T0", "X0", "T1", "X1")) and " // " in case


PROPERTY = C18()
