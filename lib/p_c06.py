"""C06 — a tree is reclaimed exactly once, when its last handle goes away."""
import re
from . import concref as CR
from .p_c05 import ConcBase

PROGS = ["f0", "f0 d0", "k0 d0 d1", "f0 f1 d0 d1", "l0 d0", "d0", "f0 k1 d0", "c0:1 d0 s1", "f0 d1 f0", "k0 k0 d0",
         "a0", "a0 d0", "a0 a1 d0 d1", "z0 d0", "a0 n1 d0"]


def handles_ref(case, raw):
    """reference for `R` cases: a tree is torn down by exactly the operation that takes its last handle away"""
    t = case.split(" ")
    n, ops = int(t[1]), t[3:]
    regs = list(range(n))
    alive = [True] * n
    def gone(tree):
        if tree is not None and alive[tree] and tree not in regs:
            alive[tree] = False
            return "t%d" % tree
        return "-"
    exp = []
    for op in ops:
        c, idx = op[0], [int(x) for x in op[1:].split(":")]
        old = None
        if c in "ck":
            regs.append(regs[idx[0]] if idx[0] < len(regs) else None)
        elif c == "d":
            if idx[0] < len(regs):
                old, regs[idx[0]] = regs[idx[0]], None
        elif c == "f":
            a, b = idx
            if a < len(regs) and b < len(regs) and regs[a] is not None and regs[b] is not None:
                old, regs[a] = regs[a], regs[b]
        elif c == "s":
            a, b = idx
            if a < len(regs) and b < len(regs):
                regs[a], regs[b] = regs[b], regs[a]
        exp.append(gone(old))
    fin = []
    for i in range(len(regs)):
        old, regs[i] = regs[i], None
        fin.append(gone(old))
    want = "RH %s || %s || leak=0" % (" ".join(exp), " ".join(fin))
    if raw != want:
        return "handle operations over %d trees: got `%s`, a tree must go exactly when its last handle goes: `%s`" % (n, raw[:200], want[:200])
    if not all(not a for a in alive):
        return "a tree survived all its handles"
    return None


class C06(ConcBase):
    id = "C06"
    design_ref = "DESIGN.md section 5 / C06"
    theorems_note = ("handles_stay_valid (while any thread holds any handle the teardown has not started and every block of the tree is live and unfreed); multi-tree handle machine (Handles.v): handles_reclaim / step_reports / no_leak over clone, child, drop, clone_from, swap on n trees; for every number of threads, all programs and every schedule (Reach): rc_accounting (before the teardown the "
                     "reference count = owned handles + compensation queued in loser paths; a thread inside an operation owns a handle), "
                     "count_positive, teardown_alone (never earlier: the step that starts the teardown reads 1 and no other thread owns a "
                     "handle or is inside an operation), free_once (never twice: freed blocks are pairwise different and not live; every "
                     "live block is claimed exactly once by the root, a slot, a candidate or a queued free), no_leak (never leaked: when "
                     "all threads are done the teardown has run and no block, node slot or node datum is left)")
    assumptions = [
        "memory validity itself (no read of freed memory) is not visible in hook traces or counters: one deterministic program (miri/src/main.rs "
        "`handles`: the last handle is in turn the root, an inner node, a token, a handle on another thread, a handle re-pointed across "
        "trees) runs under Miri on every check; a finite run, not a proof — the theorem side is handles_stay_valid / free_once / no_leak",
        "counter arithmetic is modelled in Z: fewer than 2^32 - 2 owned handles at once and fewer than 2^31 materialised elements "
        "(the teardown decrements below zero, wrapping the u32)",
        "memory of the green tree, resolver and data is observed with a counting global allocator (live bytes return to the baseline); "
        "the machine models the NodeData blocks",
    ]
    nontrivial_rule = ("(tree, thread programs with clone/drop, schedule); non-trivial = the last drop happens on a thread other than 0, "
                       "or an inner/token handle outlives the root handle, or a creation race is lost; distinct = distinct case line")
    exhaustive_note = {"quick": "all schedules of length 18 with <= 2 context switches, 2 threads, 18 (tree, program pair) combinations",
                       "thorough": "all schedules of length 24 with <= 3 context switches, 2 threads, 90 (tree, program pair) combinations"}

    miri_programs = ["clone_drop", "traverse"]

    def cases(self, tier, seed):
        res = self.gen(tier, seed, PROGS, 6)
        # memory validity itself (a read of freed memory does not show in hook traces or counters): one deterministic
        # program under Miri in which the last handle is, in turn, the root, an inner node, a token, a handle on another
        # thread, a handle re-pointed across trees
        res.append(("miri", "M handles 0 %d" % (1 if tier == "quick" else 4)))
        # `R` cases: several trees and the handle operations std provides on top of Clone and Drop (Handles.v)
        import itertools
        from .core import Rng
        alpha = ["c0", "c1", "k0", "k1", "d0", "d1", "d2", "f0:1", "f1:0", "f2:0", "f2:1", "f0:2", "s0:1", "s0:2"]
        n = 3 if tier == "quick" else 4
        for ln in range(1, n + 1):
            for seq in itertools.product(alpha, repeat=ln):
                res.append(("exhaustive", "R 2 | " + " ".join(seq)))
        rng = Rng(seed + 106)
        for _ in range(600 if tier == "quick" else 12000):
            nt = 1 + rng.below(3)
            nregs = nt
            ops = []
            for _ in range(rng.choice([4, 10, 25])):
                c = rng.choice("ckdffs")
                a, b = rng.below(nregs + 1), rng.below(nregs + 1)
                if c in "ck":
                    ops.append("%s%d" % (c, a)); nregs += 1
                elif c == "d":
                    ops.append("d%d" % a)
                else:
                    ops.append("%s%d:%d" % (c, a, b))
            res.append(("random", "R %d | %s" % (nt, " ".join(ops))))
        return res

    def project(self, line):
        if line.startswith("RH ") or " || " not in line:
            return line
        p = line.split(" || ")
        # (memory orderings weaker than AcqRel are marked ~Ordering in the trace: they are C07's business, not C06's)
        return (re.sub(r"~\w+", "", CR.strip_markers(p[0])) + " || " + re.sub(r" payloads=.*", "", p[2])) if len(p) == 3 else line

    def spec(self, case, impl):
        return None

    def spec_raw(self, case, raw):
        if case.startswith("M "):
            return None if raw == "ok" else "Miri on program `%s`: %s" % (case.split(" ")[1], raw)
        if case.startswith("R "):
            return handles_ref(case, raw)
        return CR.check_c06(case, raw)

    def nontrivial(self, case, impl):
        raw = self._raw_impl.get(case, "")
        return " 1:F0" in raw or ":+2" in raw or " d0" in case


PROPERTY = C06()
