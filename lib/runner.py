"""runner.py — the common flow of a property check:
   prove (Coq)  ->  build model runner + harness  ->  generate cases  ->  run implementation and model
   ->  correspondence diff + property oracle  ->  search/shrink on a break  ->  evidence / VIOLATION."""
import json, os, sys, time, traceback
from . import core
from .core import Broken


class Property:
    id = "C00"
    design_ref = ""
    theorems_note = ""
    assumptions = []
    trusted_base = [
        "Coq 8.16.1 kernel (coqc, full .vo build; vm_compute used for closed witnesses; no native_compute)",
        "no axioms: every property theorem is 'Closed under the global context' (Print Assumptions, audited on every run)",
        "hand-written Gallina model (coq/*.v) tied to /repo by the differential correspondence run of this check",
        "extraction: ExtrOcamlBasic only (bool, option, list, prod, unit, sumbool); OCaml 4.13.1; ocaml/driver.ml glue",
        "translator/extract.py (pattern extraction of constants/facts from the Rust sources into coq/Extracted.v)",
        "Rust harness (harness/), rustc/cargo, the case generators and the spec oracle in lib/",
    ]
    profiles = ("debug",)          # harness build profiles exercised
    needs_hooks = True
    shards = None

    def cases(self, tier, seed):
        """-> list of (stream, case_line)"""
        raise NotImplementedError

    def spec(self, case, impl):
        """The property's own oracle, independent of the implementation-shaped model.
        -> None if the implementation output satisfies the property on this case,
           else a short string saying what fails."""
        return None

    def spec_raw(self, case, raw_impl):
        """optional second oracle on the unprojected implementation output"""
        return None

    def known_class(self, case, impl, why):
        """-> class id of KNOWN_FINDINGS.txt this failure falls into, or None"""
        return None

    def nontrivial(self, case, impl):
        """-> True if the case exercises the property's mechanism (for distinct_nontrivial)"""
        return True

    nontrivial_rule = "every case"

    def distribution(self, cases, impl_lines):
        return {}

    def shrink_tokens(self, case):
        """-> (prefix_tokens, shrinkable_tokens) or None if the case cannot be shrunk token-wise"""
        toks = case.split(" ")
        return toks[:2], toks[2:]

    def model_args(self, profile):
        return ["release" if profile == "release" else "debug"]

    def cases_for(self, profile, cases):
        """the cases that make sense for a harness build profile (default: all)"""
        return cases

    def project(self, line):
        """The part of an output line this property is about (applied to both sides before they are compared)."""
        return line


def execute(P, cases, profile, exes):
    if hasattr(P, "custom_impl"):
        impl = P.custom_impl(cases, profile)
    else:
        impl = core.run_sharded(exes["impl_" + profile], cases, tag=P.id + ".impl", shards=P.shards)
    if hasattr(P, "extra_search") and any(c.startswith("M ") for c in cases):
        # replay of a Miri run found by the extra search
        from .p_c07 import miri
        impl = list(impl)
        for i, c in enumerate(cases):
            if c.startswith("M "):
                _, prog, lo, hi = c.split(" ")
                impl[i] = miri(prog, int(lo), int(hi))
    if "model" in exes:
        model = core.run_sharded(exes["model"], cases, extra_args=P.model_args(profile), tag=P.id + ".model", shards=P.shards)
    else:
        # the model could not be rebuilt from the current source: search the implementation alone
        model = ["?model-unavailable"] * len(cases)
    P._raw_impl = dict(zip(cases, impl))
    return [P.project(l) for l in impl], [P.project(l) for l in model]


def shrink(P, case, profile, exes, failing):
    """Greedy token removal while `failing(case, impl, model)` stays true."""
    st = P.shrink_tokens(case)
    if st is None:
        return case
    prefix, toks = st
    changed = True
    rounds = 0
    while changed and rounds < 40 and len(toks) > 1:
        changed = False
        rounds += 1
        cands = [" ".join(prefix + toks[:i] + toks[i + 1:]) for i in range(len(toks))]
        try:
            impl, model = execute(P, cands, profile, exes)
        except Exception:
            return " ".join(prefix + toks)
        for i, (c, a, b) in enumerate(zip(cands, impl, model)):
            if a.startswith("HARNESS-PANIC") or a.startswith("RUNNER-DIED") and False:
                continue
            if failing(c, a, b):
                toks = toks[:i] + toks[i + 1:]
                changed = True
                break
    return " ".join(prefix + toks)


def run_property(P, tier, seed, replay=None):
    t0 = time.time()
    known, fixed = core.known_findings()
    known_here = [k for k in known if k["property"] == P.id]
    broken = []          # obligations that no longer check: (what, detail)
    proof = None
    obligations = 0
    discharged = 0

    # 1. translator + proofs
    try:
        core.run_translator()
    except Broken as b:
        broken.append(("translator", b.what, b.detail))
    try:
        proof = core.prove(P.id)
        obligations += len(proof["theorems"])
        discharged += len(proof["theorems"])
    except Broken as b:
        n = len(core.theorem_names(P.id)) if os.path.exists(core.property_file(P.id)) else 1
        obligations += n
        broken.append(("proof", b.what, b.detail))

    # thorough: the compiled theorems are re-checked by the independent checker (coqchk), which also reports
    # the axioms of everything they depend on; and the release profile (no debug assertions, wrapping arithmetic)
    # of the harness is exercised as well
    coqchk = None
    if tier == "thorough" and proof is not None and not replay:
        obligations += 1
        try:
            coqchk = core.coqchk(P.id)
            discharged += 1
        except Broken as b:
            broken.append(("coqchk", b.what, b.detail))
    if tier == "thorough" and not hasattr(P, "custom_impl") and "release" not in P.profiles and getattr(P, "release_in_thorough", True):
        P.profiles = tuple(P.profiles) + ("release",)

    # 2. builds
    exes = {}
    try:
        exes["model"] = core.build_modelrun()
    except Broken as b:
        broken.append(("model-build", b.what, b.detail))
    for prof in P.profiles:
        if hasattr(P, "custom_impl"):
            exes["impl_" + prof] = "custom"
            continue
        try:
            exes["impl_" + prof] = core.build_harness(prof, hooks=P.needs_hooks)
        except Broken as b:
            broken.append(("harness-build", b.what, b.detail))

    # 3. cases
    if replay:
        rp = json.load(open(replay))
        streams = [("replay", rp["case"])] if "case" in rp else []
    else:
        streams = P.cases(tier, seed)
    cases = [c for _, c in streams]

    violations = []      # (case, why, impl, model, profile)
    known_hits = {}      # cls -> example
    corr_diffs = []      # (case, impl, model, profile)
    evaluations = 0
    nontrivial = set()
    samples = []
    dist = {}
    stream_counts = {}
    for s, _ in streams:
        stream_counts[s] = stream_counts.get(s, 0) + 1

    obligations += 1     # the correspondence
    can_run = all(("impl_" + p) in exes for p in P.profiles)
    have_model = "model" in exes
    if can_run and cases:
        all_cases = cases
        for prof in P.profiles:
            cases = P.cases_for(prof, all_cases)
            if not cases:
                continue
            impl, model = execute(P, cases, prof, exes)
            evaluations += len(cases)
            for c, a, b in zip(cases, impl, model):
                why = None
                if a.startswith("NOT-RUN"):
                    continue        # only after the runner died repeatedly: those cases are reported
                if a.startswith("HARNESS-PANIC") or a.startswith("RUNNER-DIED") or a.startswith("?unknown"):
                    why = "harness could not run the case: " + a[:200]
                else:
                    why = P.spec(c, a) or P.spec_raw(c, P._raw_impl.get(c, a))
                if why:
                    cls = P.known_class(c, a, why)
                    if cls and any(k["cls"] == cls for k in known_here):
                        known_hits.setdefault(cls, (c, why))
                    else:
                        violations.append((c, why, a, b, prof))
                elif have_model and a != b:
                    corr_diffs.append((c, a, b, prof))
                if P.nontrivial(c, a):
                    nontrivial.add(c)
            if prof == P.profiles[0]:
                dist = P.distribution(cases, impl)
                step = max(1, len(cases) // 5)
                samples = [{"case": cases[i], "impl": impl[i], "model": model[i]} for i in range(0, len(cases), step)][:6]
        cases = all_cases
        if have_model and not corr_diffs and not violations:
            discharged += 1
    elif not cases:
        discharged += 1

    wall = time.time() - t0
    rc = 0
    out_lines = []
    for cls, (c, why) in known_hits.items():
        txt = next(k["text"] for k in known_here if k["cls"] == cls)
        out_lines.append("KNOWN-FINDING: property=%s class=%s %s (e.g. %s)" % (P.id, cls, txt, c[:120]))

    if violations:
        # a case whose output is wrong comes before one on which the runner died (after undefined behaviour the
        # process may die on a later, innocent case)
        c, why, a, b, prof = min(violations, key=lambda v: (v[1].startswith("harness could not run"), len(v[0])))
        try:
            small = shrink(P, c, prof, exes, lambda cc, aa, bb: (P.spec(cc, aa) or P.spec_raw(cc, P._raw_impl.get(cc, aa))) is not None and
                           not (P.known_class(cc, aa, P.spec(cc, aa)) and
                                any(k["cls"] == P.known_class(cc, aa, P.spec(cc, aa)) for k in known_here)))
            ia, ib = execute(P, [small], prof, exes)
            c, a, b, why = small, ia[0], ib[0], P.spec(small, ia[0]) or P.spec_raw(small, P._raw_impl.get(small, ia[0])) or why
        except Exception:
            pass
        path = core.write_replay(P.id, {"kind": "input", "case": c, "profile": prof, "what_fails": why,
                                        "impl_output": a, "model_output": b, "seed": seed,
                                        "failing_cases_total": len(violations)})
        out_lines.append("VIOLATION property=%s replay=%s" % (P.id, path))
        rc = 1
    extra = None
    if not violations and (corr_diffs or broken) and hasattr(P, "extra_search"):
        # a second, slower search that only runs when something no longer checks
        try:
            extra = P.extra_search(tier)
        except Exception as e:          # the search is best effort
            extra = None
    if extra:
        c, why, a = extra
        path = core.write_replay(P.id, {"kind": "input", "case": c, "profile": P.profiles[0], "what_fails": why,
                                        "impl_output": a, "model_output": "(search outside the model)", "seed": seed,
                                        "found_by": "extra search after a broken obligation",
                                        "broken": [("%s: %s" % (k, w)) for k, w, _ in broken] +
                                                  (["correspondence: %d differing cases" % len(corr_diffs)] if corr_diffs else [])})
        out_lines.append("VIOLATION property=%s replay=%s" % (P.id, path))
        rc = 1
    elif violations:
        pass
    elif corr_diffs or broken:
        # a proof obligation or the correspondence no longer checks, and the search (the spec oracle on
        # every generated case, corpus first) found no input on which the property itself fails
        payload = {"kind": "obligation", "seed": seed,
                   "theorem_or_correspondence": [],
                   "searched": ("%d cases (streams %s) run on the implementation against the property oracle: no failing input" % (evaluations, stream_counts)) if can_run else "nothing could be run (build failures)"}
        if corr_diffs:
            c, a, b, prof = min(corr_diffs, key=lambda v: len(v[0]))
            try:
                c = shrink(P, c, prof, exes, lambda cc, aa, bb: aa != bb)
                ia, ib = execute(P, [c], prof, exes)
                a, b = ia[0], ib[0]
            except Exception:
                pass
            payload.update({"case": c, "profile": prof, "impl_output": a, "model_output": b,
                            "correspondence_diffs_total": len(corr_diffs)})
            payload["theorem_or_correspondence"].append(
                "correspondence %s: implementation and Coq model (coq/*.v via ocaml/modelrun) disagree" % P.id)
        for kind, what, detail in broken:
            payload["theorem_or_correspondence"].append("%s: %s" % (kind, what))
            payload.setdefault("details", []).append(detail[-3000:])
        path = core.write_replay(P.id, payload)
        out_lines.append("VIOLATION property=%s replay=%s no-failing-input-found" % (P.id, path))
        rc = 1

    coverage = {
        "obligations": obligations,
        "discharged": discharged if rc == 0 else min(discharged, obligations - 1),
        "checker_cmd": (proof or {}).get("checker_cmd", "make -C coq Properties/%s.vo" % P.id),
        "trusted_base": P.trusted_base,
        "theorems": (proof or {}).get("theorems", []),
        "theorems_note": P.theorems_note,
        "axioms_used": (proof or {}).get("axioms", []),
        "coqchk": coqchk,
        "evaluations": evaluations,
        "distinct_nontrivial": len(nontrivial),
        "rule": P.nontrivial_rule,
        "samples": samples,
        "streams": stream_counts,
        "distribution": dist,
        "profiles": list(P.profiles),
        "known_findings_hit": sorted(known_hits),
        "exhaustive": getattr(P, "exhaustive_note", {}).get(tier, False) and True or False,
        "exhaustive_bound": getattr(P, "exhaustive_note", {}).get(tier, ""),
    }
    if not replay and not os.environ.get("VERIF_NO_EVIDENCE"):
        core.write_evidence(P.id, tier, seed, "proof", coverage, P.assumptions, wall, 1 if rc else 0)
    for l in out_lines:
        print(l)
    print("%s %s: %d theorems, %d/%d obligations, %d evaluations, %d distinct non-trivial, %.1fs -> %s"
          % (P.id, tier, len((proof or {}).get("theorems", [])), coverage["discharged"], obligations,
             evaluations, len(nontrivial), wall, "OK" if rc == 0 else "VIOLATION"))
    return rc
