"""C03 — navigation is coherent with the tree structure."""
import re
from .runner import Property
from .core import Rng
from . import gen_events as G, gen_nav as GN
from .navref import build_tree, check_nav_line

RANGE = re.compile(r"@\d+\.\.\d+")


class C03(Property):
    id = "C03"
    design_ref = "DESIGN.md section 5 / C03"
    theorems_note = ("iter_script_spec (any sequence of nth(k) calls on ONE child iterator yields what the same calls yield on the plain list of the wanted children), per-operation refinement of the structural specification (first/last child, next/previous sibling with and without "
                     "tokens, indexed lookups, child iterators), parent_child, preorder walks are well nested and visit every element once, "
                     "iterator size reports are exact, token walk enumerates all tokens left to right (after the fixes of F2/F3); "
                     "refuted variants for the pre-fix code; token navigation: first_token / last_token = first / last token position below the element in document order, next_token / prev_token = successor / predecessor in the document order of ALL tokens of the tree (tokens_split: before ++ own ++ after = all), elements without tokens are passed over; first_token_unfixed_refuted (the behaviour before F3)")
    assumptions = [
        "the Resolved* API is tied by correspondence only (every case is run through the plain and through the resolved API); "
        "it is not modelled separately",
    ]
    nontrivial_rule = ("(tree, element, operation) triples: every navigation method from every element of every small tree, through the "
                       "plain and the resolved API; non-trivial = the tree contains an empty node or a zero-length token, or the program "
                       "contains a walk/iterator report; distinct = distinct case line")
    exhaustive_note = {"quick": "every tree of <= 6 events x every element x every navigation method x both APIs",
                       "thorough": "every tree of <= 8 events x every element x every navigation method x both APIs"}

    def cases(self, tier, seed):
        res = []
        for c in ["N p S1 T5:97 S2 F T5:98 F | sz:0 chs:0",                      # F2
                  "N p S1 S2 F T5:97 S2 F T5:98 S2 F F | ft:0 lt:0 nt:1 pt:2",    # F3
                  "N r S1 S2 S2 F F T5:97 S2 S2 F F F | ft:0 lt:0 pret:0"]:
            res.append(("corpus", c))
        maxlen = 6 if tier == "quick" else 8
        for ev in GN.small_trees(maxlen):
            t = build_tree(ev)
            if t is None:
                continue
            for path in t.order:
                prog = GN.all_ops_from(t, path)
                for api in "pr":
                    res.append(("exhaustive", "N %s %s | %s" % (api, " ".join(ev), " ".join(prog))))
                # the same questions on a tree whose every element has already been visited (all red children exist):
                # what navigation returns must not depend on what was looked at before
                if path:
                    warm = GN.all_ops_from(t, path, pre=("pret:0",))
                    res.append(("exhaustive", "N %s %s | %s" % ("pr"[len(path) % 2], " ".join(ev), " ".join(warm))))
        # wide nodes: every sequence of up to 4 (5) children over {empty node, node with a token, token, empty token}, every
        # child as the starting point, on a fresh and on a fully visited tree (sibling navigation has to pass over elements
        # of the other kind whether or not they exist as red elements already)
        import itertools
        kinds = [["S2", "F"], ["S2", "T5:97", "F"], ["T5:98"], ["T5:"]]
        for n in range(2, 5 if tier == "quick" else 6):
            for combo in itertools.product(range(len(kinds)), repeat=n):
                ev = ["S1"] + [x for k in combo for x in kinds[k]] + ["F"]
                t = build_tree(ev)
                for i in range(n):
                    for pre in ((), ("pret:0",), ("chts:0",)):
                        prog = GN.all_ops_from(t, (i,), pre=pre)
                        res.append(("exhaustive", "N %s %s | %s" % ("pr"[(i + len(pre)) % 2], " ".join(ev), " ".join(prog))))
        rng = Rng(seed + 3)
        nrand = 1000 if tier == "quick" else 20000
        for i in range(nrand):
            ev = G.rand_tree_events(rng, rng.choice([6, 20, 60, 200]), toks=GN.TOKS_NAV + ["X100", "X101"], wide=rng.chance(1, 3))
            t = build_tree(ev)
            prog = GN.random_program(rng, t, rng.choice([5, 20, 60]), queries=False)   # offset/range queries are C13's
            res.append(("random", "N %s %s | %s" % ("pr"[i % 2], " ".join(ev), " ".join(prog))))
        return res

    OPS = set(GN.NODE_OPS + GN.TOKEN_OPS + ["ch", "cht", "nca", "ncta", "pcb", "pctb", "itn", "its"])

    def project(self, line):
        # C03 is about WHICH elements navigation returns; the ranges they report are C02's business,
        # offset/range queries are C13's
        parts = line.split(" ;; ")
        if len(parts) != 3:
            return line
        ops = [RANGE.sub("", o) if not (o.startswith("single") or o.startswith("between") or o == "none" or o.startswith("PANIC")) else "q"
               for o in parts[0].split(" ; ")]
        return " ; ".join(ops)

    def spec(self, case, impl):
        return None

    def spec_raw(self, case, raw):
        why = check_nav_line(case, raw, only=self.OPS)
        if why and ("reports" in why and "op " not in why):
            return None          # a range problem without a structural one: C02
        if why and why.startswith("op "):
            # compare structurally: strip ranges from both sides of the message's comparison
            m = re.match(r"op (\d+) \(([^)]*)\): got (.*), the tree structure dictates (.*)", why)
            if m and RANGE.sub("", m.group(3)) == RANGE.sub("", m.group(4)):
                return None
        if why and (why.startswith("register") or why.startswith("after the traversal") or why.startswith("final dump")):
            return None
        return why

    def nontrivial(self, case, impl):
        ev = case.split(" | ")[0]
        return "T5: " in ev + " " or " F" in ev.replace("S1 F", "S1 F!").replace("S2 F", "S2 F!") and "F!" in ev.replace("S1 F", "S1 F!").replace("S2 F", "S2 F!")

    def distribution(self, cases, impl_lines):
        d = {"plain": 0, "resolved": 0, "with_empty_node": 0}
        for c in cases:
            d["plain" if c.split(" ")[1] == "p" else "resolved"] += 1
            if "S1 F" in c or "S2 F" in c:
                d["with_empty_node"] += 1
        return d

    def shrink_tokens(self, case):
        toks = case.split(" ")
        bar = toks.index("|")
        return toks[:bar + 1], toks[bar + 1:]


PROPERTY = C03()
