"""C10 — interning is a stable bijection between strings and keys."""
import itertools, os
from .runner import Property
from .core import Rng
from .treefmt import parse_text, show_text

BACKENDS = ["d", "w", "u", "r", "k", "m", "c", "t", "h", "a"]
CAP = {"m": 65535, "c": 255}
STRS = ["", "97", "233", "119070.98", "97.97", "43"]


def ref_run(backend, ops):
    """reference: dict-based interner; key = order of first appearance"""
    table, byidx, out = {}, [], []
    cap = CAP.get(backend, 2 ** 32 - 1)
    for op in ops:
        c, rest = op[0], op[1:]
        if c in "ij":
            if rest in table:
                out.append(str(table[rest]))
            elif len(byidx) >= cap:
                out.append("E")
            else:
                table[rest] = len(byidx)
                byidx.append(rest)
                out.append(str(table[rest]))
        elif c == "r":
            raw = int(rest)
            if raw == 2 ** 32 - 1:
                out.append("x")
            elif raw < len(byidx) and raw < cap:
                out.append("=" + byidx[raw])
            else:
                out.append("-")
        elif c == "k":
            raw = int(rest)
            out.append("x" if raw == 2 ** 32 - 1 else "k%d" % raw)
        elif c == "u":
            raw = int(rest)
            out.append("x" if raw >= 2 ** 32 - 1 else "k%d" % raw)
    return " ".join(out)


class C10(Property):
    id = "C10"
    design_ref = "DESIGN.md section 5 / C10"
    profiles = ("debug", "nolasso")
    theorems_note = ("resolve_intern, run_resolves / run_injective (over EVERY sequence of requests: same key iff same string, every key "
                     "resolves to its string in the final table), resolve_stable, key_roundtrip_raw/key/invalid_rejected/raw_injective "
                     "(all 2^32 raw values, by arithmetic), foreign_key_conv/back (lasso key types: succeed exactly below min(capacity, 2^32-1), "
                     "round-trip, otherwise error), concurrent_intern_linearizable_partial")
    assumptions = [
        "PARTIAL for third-party backends: lasso Rodeo/ThreadedRodeo and indexmap enter as the abstract append-only duplicate-free table "
        "(key = insertion index); that refinement is tested by the correspondence on all ten backends/wrappers, not proved",
        "concurrent clause: proved under the premise that the thread-safe backend is linearizable w.r.t. the table; the premise is "
        "exercised by stress runs (2-8 threads) only",
        "two harness builds: with feature lasso_compat (cstree's TokenInterner = lasso) and without (TokenInterner = indexmap)",
    ]
    nontrivial_rule = ("intern/resolve/raw-key sequences over a 6-string alphabet (incl. empty and multi-byte), every backend; "
                       "non-trivial = interns >= 2 distinct strings and at least one repeated string or resolve; distinct = distinct case line")
    exhaustive_note = {"quick": "all intern sequences of length <= 5 over 4 strings followed by a resolve of every key 0..4, on 10 backends; raw-key boundary table",
                       "thorough": "all intern sequences of length <= 6 over 5 strings followed by a resolve of every key 0..6, on 10 backends; raw-key boundary table"}

    def cases(self, tier, seed):
        res = []
        bounds = [0, 1, 254, 255, 256, 65534, 65535, 65536, 2 ** 31 - 1, 2 ** 31, 2 ** 32 - 3, 2 ** 32 - 2, 2 ** 32 - 1]
        for b in BACKENDS:
            res.append(("corpus", "I %s i97 i98 %s %s" % (b, " ".join("k%d" % r for r in bounds), " ".join("r%d" % r for r in bounds))))
        # cstree keys seen through lasso's Key trait: 64-bit raw values on both sides of 2^32
        big = [0, 1, 2 ** 32 - 2, 2 ** 32 - 1, 2 ** 32, 2 ** 32 + 1, 2 ** 33 - 1, 2 ** 33, 2 ** 40 + 5, 2 ** 63, 2 ** 64 - 2 ** 32, 2 ** 64 - 2 ** 32 - 1, 2 ** 64 - 2, 2 ** 64 - 1]
        for b in ("k", "r", "t"):
            res.append(("corpus", "I %s i97 i98 %s" % (b, " ".join("u%d" % r for r in big))))
        # more distinct text than any initial arena holds (16 KiB in 400 strings): interning must not hit a memory ceiling
        def long_str(j):
            return ".".join(str(97 + (j * 7 + k * 3) % 26) for k in range(36)) + "." + ".".join(str(48 + int(ch)) for ch in "%04d" % j)
        for b in ("d", "w", "t", "a", "u"):
            n = 400 if tier == "quick" else 1500
            res.append(("corpus", "I %s %s i%s r0 r%d r%d" % (b, " ".join("i" + long_str(j) for j in range(n)), long_str(7), n - 1, n)))
        # capacity exhaustion of the small key types reached for real
        res.append(("corpus", "I c " + " ".join("i%d" % (1000 + i) for i in range(258)) + " i1000 j2000 r254 r255 r0"))
        if tier == "thorough" and os.environ.get("VERIF_SOAK"):
            # exhausting a 16-bit key space takes 65 538 interns; the list-based model needs about 20 minutes per
            # profile for it, so it only runs as a soak (VERIF_SOAK=1); the 8-bit key space above is the same code
            res.append(("corpus", "I m " + " ".join("i%d" % (1000 + i) for i in range(65538)) + " i1000 j200000 r65534 r65535 r0"))
        n, k = (5, 4) if tier == "quick" else (6, 5)
        for ln in range(1, n + 1):
            for seq in itertools.product(STRS[:k], repeat=ln):
                ops = ["i" + s for s in seq] + ["r%d" % i for i in range(ln + 1)]
                for b in (BACKENDS if ln <= 3 else ["d", "u", "m", "h"]):
                    res.append(("exhaustive", "I %s %s" % (b, " ".join(ops))))
        rng = Rng(seed + 10)
        nrand = 600 if tier == "quick" else 6000
        for i in range(nrand):
            pool = ["%d" % (97 + rng.below(40)) if rng.chance(3, 4) else ".".join(str(rng.choice([97, 233, 8364, 119070])) for _ in range(rng.below(4)))
                    for _ in range(3 + rng.below(300 if i % 10 == 0 else 12))]
            ops = []
            for _ in range(rng.choice([10, 40, 400])):
                r = rng.below(10)
                if r < 6:
                    ops.append(("i" if rng.chance(4, 5) else "j") + rng.choice(pool))
                elif r < 9:
                    ops.append("r%d" % rng.below(len(pool) + 3))
                elif BACKENDS[i % len(BACKENDS)] in "dwu" or rng.chance(1, 2):
                    ops.append("k%d" % rng.choice([rng.below(2 ** 32), 2 ** 32 - 1, 2 ** 32 - 2, 0]))
                else:
                    ops.append("u%d" % rng.choice([rng.below(2 ** 32), rng.below(2 ** 32) * 2 ** 32 + rng.below(4), rng.below(2 ** 64), 2 ** 32 - 1, 2 ** 32]))
            res.append(("random", "I %s %s" % (BACKENDS[i % len(BACKENDS)], " ".join(ops))))
        for i in range(12 if tier == "quick" else 200):
            res.append(("concurrent", "P %s %d %d %d" % (rng.choice(["a", "h"]), 2 + rng.below(7), rng.choice([8, 50, 400]), rng.below(10 ** 6))))
        return res

    def cases_for(self, profile, cases):
        if profile == "nolasso":
            return [c for c in cases if c.startswith("I ") and c.split(" ")[1] in ("d", "w", "u")]
        return cases

    def spec(self, case, impl):
        t = case.split(" ")
        if t[0] == "P":
            return None if impl == "ok" else "concurrent interning: " + impl
        exp = ref_run(t[1], t[2:])
        if impl != exp:
            g, e = impl.split(" "), exp.split(" ")
            for i, (x, y) in enumerate(zip(g, e)):
                if x != y:
                    return "op %d (%s): got %s, the reference interner gives %s" % (i, t[2 + i], x, y)
            return "output length differs"
        return None

    def nontrivial(self, case, impl):
        t = case.split(" ")
        if t[0] == "P":
            return True
        ins = [o[1:] for o in t[2:] if o[0] in "ij"]
        return len(set(ins)) >= 2 and (len(set(ins)) < len(ins) or any(o[0] == "r" for o in t[2:]))

    def distribution(self, cases, impl_lines):
        b = {}
        for c in cases:
            t = c.split(" ")
            key = t[0] + ":" + t[1]
            b[key] = b.get(key, 0) + 1
        return {"cases_per_backend": b, "exhausted_results": sum(l.count(" E") for l in impl_lines)}

    def shrink_tokens(self, case):
        t = case.split(" ")
        if t[0] == "P":
            return None
        return t[:2], t[2:]


PROPERTY = C10()
