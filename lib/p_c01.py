"""C01 — built trees are lossless and structurally faithful."""
from .runner import Property
from .core import Rng
from . import gen_events as G
from .buildref import check_history_line

# interner backends, then the other ways of making a builder: o / i / q = the cache is MOVED into every builder
# (GreenNodeBuilder::from_cache) over NodeCache::new() / NodeCache::from_interner(..) / NodeCache::with_interner(user interner)
BACKENDS = ["d", "u", "r", "m", "t", "h", "a", "o", "i", "q"]
# builders that own their cache (single trees): GreenNodeBuilder::new / with_interner / from_interner
OWNING = ["z", "w", "j"]


class C01(Property):
    id = "C01"
    design_ref = "DESIGN.md section 5 / C01"
    theorems_note = ("build_faithful (for EVERY hash function, starting cache, static-text table, debug/release: the finished tree "
                     "denotes exactly the tree the balanced event sequence denotes, is well-formed, and the cache invariant is kept), "
                     "build_text (tree text = concatenation of the texts fed in), build_unbalanced (meaningless events / not exactly "
                     "one root => panic), head_only_lookup_refuted (the pre-fix cache lookup by head only merges different nodes)")
    assumptions = [
        "documented precondition of token(): for a kind with static text the supplied text is that text (release builds ignore a "
        "mismatching text, debug builds panic) — WfEvent in the theorem",
        "interner backends enter the theorem as the abstract append-only table of the model; lasso/dashmap internals are not "
        "modelled — all seven backends are exercised by the correspondence",
        "a sequence that ends with nodes still open is outside build_unbalanced: finish() does not inspect the open-node stack",
        "text sizes below 2^32 (u32 arithmetic of text-size is modelled unbounded)",
    ]
    nontrivial_rule = ("event sequences (start/token/static token/finish), run through one fresh cache; non-trivial = the tree has "
                       ">= 2 nodes and >= 1 token; distinct = distinct (backend, hash mask, events) line")
    exhaustive_note = {"quick": "all balanced event sequences of <= 7 events over 2 node kinds x 4 token forms, under hash masks ffffffff, 3 and 0",
                       "thorough": "all balanced event sequences of <= 9 events over 2 node kinds x 4 token forms, under hash masks ffffffff, 3 and 0"}

    def cases(self, tier, seed):
        res = []
        res.append(("corpus", "H d f " + " ".join(G.fx_collision_case())))
        for c in ["S1 S2 T5:97 F S2 T5:98 F F", "S1 S2 T5:97 T5:98 F S2 T5:98 T5:97 F F",
                  "S1 S2 S2 T5:97 F F S2 S2 T5: T5:97 F F F", "S1 T6:233 T5:195.169 F", "S1 X100 T100:43 X102 T5:43 F"]:
            for m in ["f", "0", "3"]:
                res.append(("corpus", "H d %s %s" % (m, c)))
        # hash-colliding leaves under two or three levels of otherwise identical parents (the cache compares the DIRECT children
        # of a candidate; what lies deeper is compared by green-node equality)
        for d in (2, 3, 4):
            for a, b in (("97", "98"), ("97", ""), ("97.98", "98.97")):
                chain = lambda x: " ".join(["S%d" % (2 + i) for i in range(d)] + ["T5:" + x] + ["F"] * d)
                for m in ("0", "3", "f"):
                    res.append(("corpus", "H d %s S1 %s %s %s F" % (m, chain(a), chain(b), chain(a))))
        maxlen = 7 if tier == "quick" else 9
        for ops in G.enum_balanced(maxlen):
            for m in (["f", "0", "3"] if len(ops) <= (7 if tier == "quick" else 8) else ["0"]):
                res.append(("exhaustive", "H d %s %s" % (m, " ".join(ops))))
            if len(ops) <= 6:
                for route in OWNING + ["o", "i", "q"]:
                    res.append(("exhaustive", "H %s f %s" % (route, " ".join(ops))))
        rng = Rng(seed)
        nrand = 1500 if tier == "quick" else 30000
        for i in range(nrand):
            size = rng.choice([8, 20, 60, 200, 600]) if i % 50 else 1000
            ops = G.rand_tree_events(rng, size, wide=rng.chance(1, 3))
            b = BACKENDS[i % len(BACKENDS)]
            m = rng.choice(["f", "f", "0", "3", "ff"])
            res.append(("random", "H %s %s %s" % (b, m, " ".join(ops))))
        for i in range(nrand // 5):
            ops = G.mutate_unbalanced(rng, G.rand_tree_events(rng, rng.choice([4, 10, 30])))
            res.append(("malformed", "H %s %s %s" % (BACKENDS[i % 2], rng.choice(["f", "0"]), " ".join(ops))))
        res += self.example_cases(tier, Rng(seed + 101))
        return res

    # ---- the repository's own example parsers: their output must reproduce the input ----
    @staticmethod
    def cps(s):
        return ".".join(str(ord(c)) for c in s)

    def example_cases(self, tier, rng):
        res = []
        n = 150 if tier == "quick" else 3000
        # math: arbitrary token sequences (the parser wraps what it does not expect into Error nodes)
        math_toks = [("n", "1"), ("n", "42"), ("w", " "), ("w", "  "), ("a", "+"), ("s", "-"), ("m", "*"), ("d", "/"), ("n", "7")]
        res.append(("corpus", "E math n:49 w:32 a:43 w:32 n:50 w:32 m:42 w:32 n:51 w:32 a:43 w:32 n:52"))      # the example's own input
        for k in range(1, 4):
            import itertools
            for combo in itertools.product([("n", "1"), ("w", " "), ("a", "+"), ("m", "*")], repeat=k):
                res.append(("exhaustive", "E math " + " ".join("%s:%s" % (a, self.cps(b)) for a, b in combo)))
        for _ in range(n):
            toks = [rng.choice(math_toks) for _ in range(1 + rng.below(9))]
            res.append(("random", "E math " + " ".join("%s:%s" % (a, self.cps(b)) for a, b in toks)))

        # readme: well-formed expressions of its grammar (anything else is rejected by its lexer / parser), with and without blanks
        def expr(depth):
            r = rng.below(10)
            if depth <= 0 or r < 4:
                return str(rng.below(1000))
            if r < 8:
                return expr(depth - 1) + rng.choice(["", " ", "  "]) + rng.choice("+-") + rng.choice(["", " "]) + expr(depth - 1)
            return "(" + rng.choice(["", " "]) + expr(depth - 1) + rng.choice(["", " "]) + ")"
        for s in ["1+2", "(1+2)-3", "1 + 2", "12", " 1"]:
            res.append(("corpus", "E readme " + self.cps(s)))
        for _ in range(n):
            res.append(("random", "E readme " + self.cps(expr(3))))
        # s_expressions: any text over its alphabet, balanced or not
        alphabet = "()+-*/ 0123456789ab\n\t"
        for s in ["(+ (* 15 2) 62)", "", "(", ")", ")(", "(+ 1", "  x  "]:
            res.append(("corpus", "E sexp " + self.cps(s)))
        for _ in range(n):
            res.append(("random", "E sexp " + self.cps("".join(rng.choice(alphabet) for _ in range(rng.below(25))))))
        return res

    def known_class(self, case, impl, why):
        if case.startswith("E readme ") and impl.startswith("text="):
            inp = [int(x) for x in case.split(" ")[2].split(".") if x]
            out = [int(x) for x in impl[5:].split(".") if x]
            blanks = {32, 9, 10, 13}
            if any(c in blanks for c in inp) and out == [c for c in inp if c not in blanks]:
                return "example-readme-drops-whitespace"
        return None

    def project(self, line):
        # C01 is about structure and text; which allocations are shared is C04's business
        return line.rsplit(" || share ", 1)[0] + " || share -" if " || share " in line else line

    def spec(self, case, impl):
        if case.startswith("E "):
            parts = case.split(" ")
            if parts[1] == "math":
                want = ".".join(p.split(":", 1)[1] for p in parts[2:] if ":" in p and p.split(":", 1)[1])
            else:
                want = parts[2] if len(parts) > 2 else ""
            if impl == "REJECT" and parts[1] == "readme":
                return None            # the tutorial calculator may refuse input; it must not lose any
            if impl != "text=" + want:
                return "example parser `%s` does not reproduce its input: got %s" % (parts[1], impl[:200])
            return None
        return check_history_line(case, impl)

    def nontrivial(self, case, impl):
        if case.startswith("E "):
            return len(case) > 12
        toks = case.split(" ")[3:]
        return sum(1 for t in toks if t[0] == "S") >= 2 and any(t[0] in "TX" for t in toks)

    def distribution(self, cases, impl_lines):
        sizes, backends, masks, panics = {}, {}, {}, 0
        for c, l in zip(cases, impl_lines):
            if c.startswith("E "):
                backends["example:" + c.split(" ")[1]] = backends.get("example:" + c.split(" ")[1], 0) + 1
                continue
            t = c.split(" ")
            n = len(t) - 3
            b = 1
            while b < n:
                b *= 4
            sizes[b] = sizes.get(b, 0) + 1
            backends[t[1]] = backends.get(t[1], 0) + 1
            masks[t[2]] = masks.get(t[2], 0) + 1
            if "PANIC" in l:
                panics += 1
        return {"events_le": {str(k): v for k, v in sorted(sizes.items())}, "backends": backends, "hash_masks": masks,
                "cases_ending_in_panic": panics}

    def shrink_tokens(self, case):
        toks = case.split(" ")
        if case.startswith("E math"):
            return toks[:2], toks[2:]
        if case.startswith("E "):
            return None
        return toks[:3], toks[3:]


PROPERTY = C01()
