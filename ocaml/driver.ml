(* driver.ml — runs the extracted Coq model (gen/model.ml) on the case files the implementation ran.
   Hand-written glue: parsing of case lines, conversion of numbers, canonical printing.  Trusted. *)
open Model

let rec pos_of_int i = if i = 1 then XH else if i land 1 = 0 then XO (pos_of_int (i lsr 1)) else XI (pos_of_int (i lsr 1))
let n_of_int i = if i = 0 then N0 else Npos (pos_of_int i)
let rec int_of_pos = function XH -> 1 | XO p -> 2 * int_of_pos p | XI p -> 2 * int_of_pos p + 1
let int_of_n = function N0 -> 0 | Npos p -> int_of_pos p
let rec nat_of_int i = if i = 0 then O else S (nat_of_int (i - 1))
let rec int_of_nat = function O -> 0 | S n -> 1 + int_of_nat n

let split_on c s = if s = "" then [] else String.split_on_char c s
let parse_text s : text = List.map (fun p -> n_of_int (int_of_string p)) (split_on '.' s)
let show_text (t : text) = String.concat "." (List.map (fun c -> string_of_int (int_of_n c)) t)

(* the harness syntax: kinds 100..104 have static text (harness/src/syn.rs static_text_of) *)
let static_text (k : kind) : text option =
  match int_of_n k with
  | 100 -> Some (parse_text "43")
  | 101 -> Some []
  | 102 -> Some (parse_text "43")
  | 103 -> Some (parse_text "108.101.116")
  | 104 -> Some (parse_text "233")
  | _ -> None

(* child hash: by the theorems the observable behaviour does not depend on it (any H); the
   model runs with a constant hash, i.e. under total collision. *)
let hash0 (_ : hw list) : n = N0

let debug = ref true
let threshold () = cache_threshold

let panic_code = function
  | PFinishNodeNoParent -> "U" | PFinishNotOne -> "N" | PFinishToken -> "K"
  | PCheckpointParents -> "P" | PCheckpointUnfinished -> "Q" | PCheckpointChildren -> "H"
  | PCheckpointFirstChild -> "M" | PStaticMissing -> "s" | PStaticMismatch -> "d"
  | PIntern -> "I" | PKindMismatch -> "k" | PSliceRange -> "r" | POffsetRange -> "o"
  | PUnreachable -> "!" | PTextEqDebug -> "e" | PFromRaw -> "f" | PCharBoundary -> "c" | POther -> "?"

let rec dump_green strs buf g =
  match g with
  | GTok (_, k, key, len) ->
    let txt = match tok_text static_text strs k key with Some t -> show_text t | None -> "<none>" in
    Buffer.add_string buf (Printf.sprintf "[%d@%d:%s]" (int_of_n k) (int_of_n len) txt)
  | GNode (_, k, len, _, cs) ->
    Buffer.add_string buf (Printf.sprintf "(%d@%d" (int_of_n k) (int_of_n len));
    List.iter (fun c -> Buffer.add_char buf ' '; dump_green strs buf c) cs;
    Buffer.add_char buf ')'

let parse_op (t : string) : bop =
  let c = t.[0] and rest = String.sub t 1 (String.length t - 1) in
  let kt () = match String.index_opt rest ':' with
    | Some i -> (String.sub rest 0 i, String.sub rest (i + 1) (String.length rest - i - 1))
    | None -> failwith ("bad op " ^ t) in
  match c with
  | 'S' -> OStart (n_of_int (int_of_string rest))
  | 'T' -> let (k, x) = kt () in OToken (n_of_int (int_of_string k), parse_text x)
  | 'E' -> let (k, x) = kt () in OTokenFail (n_of_int (int_of_string k), parse_text x)
  | 'X' -> OStatic (n_of_int (int_of_string rest))
  | 'F' -> OFinishNode
  | 'C' -> OCheckpoint
  | 'A' -> let (s, k) = kt () in OStartAt (nat_of_int (int_of_string s), n_of_int (int_of_string k))
  | 'R' -> ORevert (nat_of_int (int_of_string rest))
  | _ -> failwith ("bad op " ^ t)

let run_b args =
  let ops = List.map parse_op (List.tl args) in
  let (sf, tr) = b_run static_text hash0 (threshold ()) HeadAndChildren !debug true (new_builder empty_cache) [] ops in
  let trace = String.concat "" (List.map (function None -> "." | Some p -> panic_code p) tr) in
  match b_finish sf with
  | Ok (g, c) -> let buf = Buffer.create 64 in dump_green c.c_strs buf g; trace ^ " | " ^ Buffer.contents buf
  | Panic p -> trace ^ " | PANIC:" ^ panic_code p

(* split a list on a separator *)
let split_list sep l =
  let rec go cur acc = function
    | [] -> List.rev (List.rev cur :: acc)
    | x :: r when x = sep -> go [] (List.rev cur :: acc) r
    | x :: r -> go (x :: cur) acc r in
  go [] [] l

let rec preorder_ids g acc =
  match g with
  | GTok (id, _, _, _) -> int_of_n id :: acc
  | GNode (id, _, _, _, cs) -> List.fold_left (fun a c -> preorder_ids c a) (int_of_n id :: acc) cs

(* `H <backend> <mask> <ops> [/ <ops>]*` : a history of trees through one cache *)
let run_h args =
  let builds = split_list "/" (List.tl (List.tl args)) in
  let cache = ref empty_cache in
  let results = List.map (fun toks ->
      let ops = List.map parse_op toks in
      let (sf, tr) = b_run static_text hash0 (threshold ()) HeadAndChildren !debug true (new_builder !cache) [] ops in
      let trace = String.concat "" (List.map (function None -> "." | Some p -> panic_code p) tr) in
      cache := sf.b_cache;
      match b_finish sf with
      | Ok (g, c) -> cache := c; (trace, Ok g)
      | Panic p -> (trace, Panic p)) builds in
  let strs = !cache.c_strs in
  let buf = Buffer.create 256 in
  let all = ref [] in
  List.iter (fun (trace, r) ->
      Buffer.add_string buf trace; Buffer.add_string buf " | ";
      (match r with
       | Ok g -> dump_green strs buf g; all := preorder_ids g !all
       | Panic p -> Buffer.add_string buf ("PANIC:" ^ panic_code p));
      Buffer.add_string buf " || ") results;
  let ids = List.rev !all in
  let seen = Hashtbl.create 64 in
  let renum = List.map (fun i ->
      match Hashtbl.find_opt seen i with
      | Some j -> j
      | None -> let j = Hashtbl.length seen in Hashtbl.add seen i j; j) ids in
  Buffer.add_string buf ("share " ^ String.concat "," (List.map string_of_int renum));
  Buffer.contents buf

(* `I <backend> <ops>`: intern / resolve / raw-key sequences *)
let two32m1 = n_of_int 4294967295
let backend_key = function
  | "m" -> MiniSpur | "c" -> MicroSpur | "r" | "h" -> Spur | _ -> TokenKeyAsLasso
let run_i args =
  let kty = backend_key (List.hd args) in
  let cap = match List.hd args with "u" -> n_of_int 4294967295 | _ -> lasso_cap kty in
  let strs = ref [] in
  let out = List.map (fun op ->
      let c = op.[0] and rest = String.sub op 1 (String.length op - 1) in
      match c with
      | 'i' | 'j' ->
        (match intern_c cap !strs (parse_text rest) with
         | Some (k, s') -> strs := s'; string_of_int (int_of_n k)
         | None -> "E")
      | 'r' ->
        (match try_from_u32 (n_of_int (int_of_string rest)) with
         | None -> "x"
         | Some inner ->
           (match (if List.hd args = "u" then Some (into_u32 inner) else to_lasso kty inner) with
            | None -> "-"
            | Some i -> (match resolve !strs i with Some t -> "=" ^ show_text t | None -> "-")))
      | 'k' ->
        (match try_from_u32 (n_of_int (int_of_string rest)) with
         | None -> "x"
         | Some inner -> "k" ^ string_of_int (int_of_n (into_u32 inner)))
      | 'u' ->
        (* <TokenKey as lasso::Key>::try_from_usize on a 64-bit raw value, then into_usize *)
        let x = Int64.of_string ("0u" ^ rest) in
        let rec pos_of_u64 x = if x = 1L then XH else
            let r = pos_of_u64 (Int64.shift_right_logical x 1) in if Int64.logand x 1L = 1L then XI r else XO r in
        let raw = if x = 0L then N0 else Npos (pos_of_u64 x) in
        (match from_lasso raw with
         | None -> "x"
         | Some inner -> "k" ^ string_of_int (int_of_n (into_u32 inner)))
      | _ -> failwith ("bad intern op " ^ op)) (List.tl args) in
  String.concat " " out

(* ------------------------------------------------------------------------------------------ *)
(* `R <n> | <ops>`: handle operations over n trees (Handles.v): per operation the trees torn down by it *)
let run_r n ops =
  let nat s = nat_of_int (int_of_string s) in
  let parse op =
    let c = op.[0] and rest = String.sub op 1 (String.length op - 1) in
    match c, String.split_on_char ':' rest with
    | 'c', [r] -> HClone (nat r) | 'k', [r] -> HChild (nat r) | 'd', [r] -> HDrop (nat r)
    | 'f', [a; b] -> HCloneFrom (nat a, nat b) | 's', [a; b] -> HSwap (nat a, nat b)
    | _ -> failwith ("bad handle op " ^ op) in
  let show ts = String.concat " " (List.map (fun t -> match t with [] -> "-" | l -> String.concat "+" (List.map (fun x -> "t" ^ string_of_int (int_of_nat x)) l)) ts) in
  let (s1, ts) = hrun_ops (hinit (nat_of_int n)) (List.map parse ops) in
  let (_, ts2) = hdrop_all s1 in
  "RH " ^ show ts ^ " || " ^ show ts2 ^ " || leak=0"

(* ------------------------------------------------------------------------------------------ *)
(* `N <p|r> <events> | <nav ops>` : red-tree traversal programs *)
let len_counts_nodes = ref true      (* the code after the fix of F2 *)
let tokens_skip_empty = ref true     (* the code after the fix of F3 *)

let show_pos g rs (p : pos) =
  let path = String.concat "" (List.map (fun i -> "/" ^ string_of_int (int_of_nat i)) (List.rev p)) in
  let s = int_of_n (offset_of rs p) in
  Printf.sprintf "%s%s@%d..%d" (if is_node_at g p then "n" else "t") path s (s + int_of_n (len_at g p))

let parse_nop (op : string) : nop option =
  let parts = Array.of_list (String.split_on_char ':' op) in
  let nat i = nat_of_int (int_of_string parts.(i)) in
  let r () = nat 1 in
  try Some (match parts.(0) with
    | "par" -> NPar (r ())
    | "fc" -> NFirstChild (true, r ()) | "fct" -> NFirstChild (false, r ())
    | "lc" -> NLastChild (true, r ()) | "lct" -> NLastChild (false, r ())
    | "ns" -> NNextSib (true, r ()) | "nst" -> NNextSib (false, r ())
    | "ps" -> NPrevSib (true, r ()) | "pst" -> NPrevSib (false, r ())
    | "ft" -> NFirstTok (r ()) | "lt" -> NLastTok (r ())
    | "nt" -> NNextTok (r ()) | "pt" -> NPrevTok (r ())
    | "ch" -> NChildNth (true, r (), nat 2) | "cht" -> NChildNth (false, r (), nat 2)
    | "nca" -> NChildAfter (true, r (), nat 2) | "ncta" -> NChildAfter (false, r (), nat 2)
    | "pcb" -> NChildBefore (true, r (), nat 2) | "pctb" -> NChildBefore (false, r (), nat 2)
    | "tao" -> NTao (r (), n_of_int (int_of_string parts.(2)))
    | "cov" -> NCov (r (), n_of_int (int_of_string parts.(2)), n_of_int (int_of_string parts.(3)))
    | "anc" -> NAnc (r ())
    | "sib+" -> NSibs (true, true, r ()) | "sib-" -> NSibs (true, false, r ())
    | "sibt+" -> NSibs (false, true, r ()) | "sibt-" -> NSibs (false, false, r ())
    | "chs" -> NChildren (true, r ()) | "chts" -> NChildren (false, r ())
    | "desc" -> NDesc (true, r ()) | "desct" -> NDesc (false, r ())
    | "pre" -> NPre (true, r ()) | "pret" -> NPre (false, r ())
    | "sz" -> NSizes (true, r ()) | "szt" -> NSizes (false, r ())
    | "ar" -> NArity (r ())
    | "itn" | "its" ->
      let script = List.map (fun x -> nat_of_int (int_of_string x)) (List.filter (fun x -> x <> "") (String.split_on_char '.' parts.(2))) in
      NIterScript (parts.(0) = "itn", r (), script)
    | _ -> raise Not_found)
  with _ -> None

let show_nres g rs = function
  | ROne (Some q) -> show_pos g rs q
  | ROne None | RSkip -> "-"
  | RList l -> "[" ^ String.concat "," (List.map (show_pos g rs) l) ^ "]"
  | REvs l -> "[" ^ String.concat "," (List.map (function Enter q -> "+" ^ show_pos g rs q | Leave q -> "-" ^ show_pos g rs q) l) ^ "]"
  | RTao (Panic q) -> "PANIC:" ^ panic_code q
  | RTao (Ok TNone) -> "none"
  | RTao (Ok (TSingle t)) -> "single " ^ show_pos g rs t
  | RTao (Ok (TBetween (l, r))) -> "between " ^ show_pos g rs l ^ " " ^ show_pos g rs r
  | RCov (Panic q) -> "PANIC:" ^ panic_code q
  | RCov (Ok e) -> show_pos g rs e
  | RSizes (l0, n0, l1, n1) ->
    let f l n = let l = int_of_nat l in Printf.sprintf "len=%d,cnt=%d,hint=%d-%d,n=%d" l l l l (int_of_nat n) in
    f l0 n0 ^ "|" ^ f l1 n1
  | RArity (a, b) -> Printf.sprintf "%d,%d" (int_of_nat a) (int_of_nat b)

(* one operation of the Coq register machine (Nav.nav_exec); unknown op names leave an empty register *)
let nav_step g (regs : pos option list) rs (op : string) : string * pos option * rstate =
  let helper = String.length op > 5 && String.sub op 0 5 = "taoh:" in
  let op' = if helper then "tao:" ^ String.sub op 5 (String.length op - 5) else op in
  match parse_nop op' with
  | None -> ("-", None, rs)
  | Some o ->
    let ((res, nr), rs') = nav_exec g !len_counts_nodes !tokens_skip_empty regs rs o in
    (match res with
     | RList picked when (match o with NIterScript _ -> true | _ -> false) && Array.length (Array.of_list (String.split_on_char ':' op)) > 3 ->
       (* the iterator after the script: what further calls of next yield (the model's own iterator, drained) *)
       let parts = Array.of_list (String.split_on_char ':' op) in
       let (rest, rs2) = (match o with
           | NIterScript (b, r, script) ->
             let nkids = (match List.nth_opt regs (int_of_nat r) with Some (Some p) -> List.length (kids g p) | _ -> 0) in
             let zeros = List.init (nkids + 1) (fun _ -> O) in
             (match nav_exec g !len_counts_nodes !tokens_skip_empty regs rs (NIterScript (b, r, script @ zeros)) with
              | ((RList all, _), rs2) -> let rec drop n l = if n = 0 then l else (match l with [] -> [] | _ :: t -> drop (n - 1) t) in (drop (List.length picked) all, rs2)
              | _ -> ([], rs'))
           | _ -> ([], rs')) in
       let sp = show_pos g rs2 in
       let n = List.length rest in
       let tail = (match parts.(3) with
           | "l" -> " last=" ^ (match List.rev rest with [] -> "-" | x :: _ -> sp x)
           | "c" -> " count=" ^ string_of_int n
           | "z" -> Printf.sprintf " len=%d,hint=%d-%d" n n n
           | "f" -> " rest=[" ^ String.concat "," (List.map sp rest) ^ "]"
           | _ -> "") in
       (show_nres g rs' res ^ tail, nr, rs')
     | RTao (Ok x) when helper ->
       (* the TokenAtOffset helper (TaoHelper.v): left / right bias, the iterator drained by 4 calls of next,
          and the exact size reported before each call *)
       let sp = show_pos g rs' in
       let opt = function Some t -> sp t | None -> "-" in
       let (items, sizes) = tao_drain (nat_of_int 4) x in
       (Printf.sprintf "L=%s R=%s it=[%s] sz=%s" (opt (tao_left x)) (opt (tao_right x))
          (String.concat "," (List.map sp items)) (String.concat "," (List.map (fun n -> string_of_int (int_of_nat n)) sizes)), nr, rs')
     | _ -> (show_nres g rs' res, nr, rs'))

let build_green toks =
  let ops = List.map parse_op toks in
  let (sf, _) = b_run static_text hash0 (threshold ()) HeadAndChildren !debug true (new_builder empty_cache) [] ops in
  match b_finish sf with
  | Ok (g, c) -> Ok (g, c)
  | Panic p -> Panic p

let run_n args =
  let rest = List.tl args in
  let rec split acc = function [] -> (List.rev acc, []) | "|" :: r -> (List.rev acc, r) | x :: r -> split (x :: acc) r in
  let (evs, nav) = split [] rest in
  match build_green evs with
  | Panic p -> "BUILD-PANIC:" ^ panic_code p
  | Ok (g, c) ->
    let n_strs = ref c.c_strs in
    let regs = ref [Some []] and rs = ref [] and outs = ref [] in
    List.iter (fun op ->
        let (s, r, rs') = nav_step g !regs !rs op in
        outs := s :: !outs; regs := !regs @ [r]; rs := rs') nav;
    let (all, rsf) = descendants g false !rs [] in
    let held = List.map (function Some p -> show_pos g rsf p | None -> "-") !regs in
    let texts =
      if List.length all > 60 then "" else
        " texts " ^ String.concat "|" (List.filter_map (fun p ->
            if is_node_at g p then (match subr g p with Some e -> Some (show_text (gtext static_text !n_strs e)) | None -> None) else None) all) in
    (* identity: registers holding the same position are equal handles *)
    let reps = ref [] in
    let classes = List.map (function
        | None -> "-"
        | Some p ->
          (match List.find_opt (fun (_, q) -> q = p) !reps with
           | Some (k, _) -> string_of_int k
           | None -> let k = List.length !reps in reps := !reps @ [(k, p)]; string_of_int k)) !regs in
    String.concat " ; " (List.rev !outs) ^ " ;; " ^ String.concat " " held ^ " ~ " ^ String.concat "," classes ^ " ;; "
    ^ String.concat "," (List.map (show_pos g rsf) all) ^ texts

(* ------------------------------------------------------------------------------------------ *)
(* `G` (C15) and `Y` (C14) *)
let build_in cache toks =
  let ops = List.map parse_op toks in
  let (sf, _) = b_run static_text hash0 (threshold ()) HeadAndChildren !debug true (new_builder cache) [] ops in
  match b_finish sf with Ok (g, c) -> Some (g, c) | Panic _ -> None

let rec rebuild g = match g with
  | GTok _ -> g
  | GNode (id, k, _, _, cs) -> green_node_new hash0 id k (List.map rebuild cs)

let show_child = function
  | GTok (_, k, _, l) -> Printf.sprintf "t%d@%d" (int_of_n k) (int_of_n l)
  | GNode (_, k, l, _, _) -> Printf.sprintf "n%d@%d" (int_of_n k) (int_of_n l)

let run_g args =
  (* an optional first argument m<hex> masks the child hashes of the implementation; the model's outputs do not depend
     on the hash function (the theorems hold for every hash) *)
  let args = match args with m :: r when String.length m > 0 && m.[0] = 'm' -> r | _ -> args in
  let rec split acc = function [] -> (List.rev acc, []) | "|" :: r -> (List.rev acc, r) | x :: r -> split (x :: acc) r in
  let (bs, script) = split [] args in
  let builds = split_list "/" bs in
  let e1 = List.hd builds in
  let e2 = match builds with [_; b] -> b | _ -> e1 in
  match build_in empty_cache e1 with
  | None -> "BUILD-PANIC"
  | Some (t1, c1) ->
    (match build_in c1 e2 with
     | None -> "BUILD-PANIC"
     | Some (t2, c2) ->
       let fresh = { c_next = c2.c_next; c_tokens = []; c_nodes = []; c_strs = c2.c_strs } in
       let t1f = match build_in fresh e1 with Some (g, _) -> g | None -> t1 in
       let t1n = rebuild t1 in
       let b x = if x then "1" else "0" in
       let eq = geq t1 t2 in
       let it = ref (gchildren t1) in
       let opt = function Some c -> show_child c | None -> "-" in
       let outs = List.map (fun op ->
           let c = op.[0] and rest = String.sub op 1 (String.length op - 1) in
           let n () = nat_of_int (int_of_string rest) in
           let len () = List.length !it in
           match c with
           | 'n' -> let (x, r) = gi_next !it in it := r; opt x
           | 'b' -> let (x, r) = gi_next_back !it in it := r; opt x
           | 't' -> let (x, r) = gi_nth !it (n ()) in it := r; opt x
           | 'u' -> let (x, r) = gi_nth_back !it (n ()) in it := r; opt x
           | 'l' | 'c' -> string_of_int (len ())
           | 'z' -> opt (gi_last !it)
           | 'h' -> Printf.sprintf "%d-%d" (len ()) (len ())
           | 'f' -> gi_fold (nat_of_int (len ())) (fun a x -> a ^ show_child x ^ "+") "" !it
           | 'r' -> gi_rfold (nat_of_int (len ())) (fun a x -> a ^ show_child x ^ "+") "" !it
           | _ -> "?") script in
       Printf.sprintf "eq=%s heq=%s sym=%s new_eq=%s new_heq=%s fresh_eq=%s fresh_heq=%s len_ok=1 | %s"
         (b eq) (if eq then "1" else "-") (b (geq t2 t1 = eq)) (b (geq t1 t1n && geq t1n t1)) (b (geq t1 t1n))
         (b (geq t1 t1f)) (b (geq t1 t1f)) (String.concat " " outs))

let run_y args =
  (* an optional first argument m<hex> masks the child hashes of the implementation; no model output depends on the hash *)
  let args = match args with m :: r when String.length m > 0 && m.[0] = 'm' -> r | _ -> args in
  match split_list "|" args with
  | [ev; path; rev] ->
    (match build_in empty_cache ev with
     | None -> "BUILD-PANIC"
     | Some (t, c1) ->
       (match build_in c1 rev with
        | None -> "BUILD-PANIC"
        | Some (r, c2) ->
          let strs = c2.c_strs in
          let p = match path with ["-"] | [] -> [] | [s] -> List.map (fun x -> nat_of_int (int_of_string x)) (String.split_on_char '.' s) | _ -> [] in
          (match subr t (List.rev p) with
           | None -> "NO-SUCH-POSITION"
           | Some target ->
             let repl = if is_node target then Some r
               else List.find_opt (fun c -> not (is_node c)) (gchildren r) in
             (match repl with
              | None -> "NO-REPLACEMENT-TOKEN"
              | Some rp ->
                (match replace_at hash0 t p rp c2.c_next with
                 | Panic q -> "PANIC:" ^ panic_code q ^ " orig_unchanged=1"
                 | Ok g' ->
                   let buf = Buffer.create 64 in dump_green strs buf g';
                   let txt = show_text (gtext static_text strs g') in
                   let (all, rsf) = descendants g' false [] [] in
                   let fresh = rebuild g' in
                   let b x = if x then "1" else "0" in
                   let hash_of = function GNode (_, _, _, h, _) -> Some h | GTok _ -> None in
                   Printf.sprintf "%s text=%s ranges=%s orig_unchanged=1 fresh=%s%s" (Buffer.contents buf) txt
                     (String.concat "," (List.map (show_pos g' rsf) all))
                     (b (geq g' fresh && geq fresh g')) (b (hash_of g' = hash_of fresh)))))))
  | _ -> "BAD-CASE"

(* `Q <events1> / <events2>` (C11) *)
let rec tokens_of g acc = match g with
  | GTok _ -> g :: acc
  | GNode (_, _, _, _, cs) -> List.fold_left (fun a c -> tokens_of c a) acc cs

let run_q args =
  let builds = split_list "/" args in
  let cache = ref empty_cache and greens = ref [] and ok = ref true in
  List.iter (fun b -> match build_in !cache b with
      | Some (g, c) -> cache := c; greens := g :: !greens
      | None -> ok := false) builds;
  if not !ok then "BUILD-PANIC" else begin
    let strs = !cache.c_strs in
    let toks = List.rev (List.fold_left (fun acc g -> tokens_of g acc) [] (List.rev !greens)) in
    let descr = List.map (fun t -> match t with
        | GTok (_, k, key, _) ->
          Printf.sprintf "%d:%s:%s:%s:r" (int_of_n k)
            (match tok_text static_text strs k key with Some x -> show_text x | None -> "<none>")
            (match key with Some i -> string_of_int (int_of_n i) | None -> "-")
            (match static_text k with Some x -> show_text x | None -> "-")
        | _ -> "?") toks in
    let rows = List.map (fun a -> String.concat "" (List.map (fun b -> if text_eq static_text a b then "1" else "0") toks)) toks in
    let dumps = List.map (fun g -> let b = Buffer.create 64 in dump_green strs b g; Buffer.contents b) (List.rev !greens) in
    let seen = ref [] in
    let ids = List.map (fun t -> match t with
        | GTok (id, _, _, _) ->
          (match List.assoc_opt id !seen with
           | Some j -> j
           | None -> let j = List.length !seen in seen := (id, j) :: !seen; j)
        | _ -> -1) toks in
    String.concat " " descr ^ " | " ^ String.concat "," rows ^ " | " ^ String.concat " / " dumps ^ " | same " ^
    String.concat "," (List.map string_of_int ids)
  end

(* ------------------------------------------------------------------------------------------ *)
(* `D <events>` (C19): display / debug *)
let utf8_of_cp (c : int) : string =
  let b = Buffer.create 4 in
  if c < 0x80 then Buffer.add_char b (Char.chr c)
  else if c < 0x800 then (Buffer.add_char b (Char.chr (0xC0 lor (c lsr 6))); Buffer.add_char b (Char.chr (0x80 lor (c land 0x3F))))
  else if c < 0x10000 then (Buffer.add_char b (Char.chr (0xE0 lor (c lsr 12))); Buffer.add_char b (Char.chr (0x80 lor ((c lsr 6) land 0x3F))); Buffer.add_char b (Char.chr (0x80 lor (c land 0x3F))))
  else (Buffer.add_char b (Char.chr (0xF0 lor (c lsr 18))); Buffer.add_char b (Char.chr (0x80 lor ((c lsr 12) land 0x3F))); Buffer.add_char b (Char.chr (0x80 lor ((c lsr 6) land 0x3F))); Buffer.add_char b (Char.chr (0x80 lor (c land 0x3F))));
  Buffer.contents b

(* Rust's <str as Debug>, for the alphabet the generators use (printable characters, quotes,
   backslash, \n, \t, \r) *)
let escape_debug (t : text) : string =
  "\"" ^ String.concat "" (List.map (fun c -> match int_of_n c with
      | 34 -> "\\\"" | 92 -> "\\\\" | 10 -> "\\n" | 9 -> "\\t" | 13 -> "\\r" | 0 -> "\\0"
      | c -> utf8_of_cp c) t) ^ "\""

let debug_flat g strs rs (p : pos) : string =
  let s = int_of_n (offset_of rs p) in
  let head = Printf.sprintf "K(%d)@%d..%d" (match subr g p with Some e -> int_of_n (gkind e) | None -> -1) s (s + int_of_n (len_at g p)) in
  match subr g p with
  | Some (GTok (_, k, key, _)) ->
    let txt = match tok_text static_text strs k key with Some x -> x | None -> [] in
    (match abbrev abbrev_len abbrev_lo abbrev_hi txt with
     | Ok x -> head ^ " " ^ escape_debug x
     | Panic q -> "PANIC:" ^ panic_code q)
  | _ -> head

let run_d args =
  match build_in empty_cache args with
  | None -> "BUILD-PANIC"
  | Some (g, c) ->
    let strs = c.c_strs in
    let (evs, rs) = preorder g false [] [] in
    let elems = List.filter_map (function Enter p -> Some p | Leave _ -> None) evs in
    let per = List.map (fun p ->
        let d = debug_flat g strs rs p in
        if String.length d >= 6 && String.sub d 0 6 = "PANIC:" then d
        else d ^ " => " ^ show_text (display_of static_text strs g (fst (preorder g false rs p)))) elems in
    let (lines, lvl) = debug_lines evs O in
    let recd =
      if int_of_nat lvl <> 0 then "REC PANIC:N"
      else begin
        let ls = List.map (fun (l, p) -> String.make (2 * int_of_nat l) ' ' ^ debug_flat g strs rs p) lines in
        if List.exists (fun l -> let t = String.trim l in String.length t >= 6 && String.sub t 0 6 = "PANIC:") ls
        then "REC PANIC:!" else "REC " ^ String.concat "" (List.map (fun l -> l ^ "\xc2\xb6") ls)
      end in
    String.concat " ; " (per @ [recd])

(* ------------------------------------------------------------------------------------------ *)
(* `Z` / `W` (C16): serialization round trips and rejection *)
let serde_checked = ref true      (* the deserializer checks the nesting (after the fix of F7) *)

let needs_escape (t : text) = List.exists (fun c -> let c = int_of_n c in c = 34 || c = 92 || c < 32) t

let mode_of (m : string) (evs : sev list) : input_mode =
  match m with
  | "str" | "slice" ->
    if List.exists (function SvTok (_, t) -> needs_escape t | _ -> false) evs then MBorrowedEscaped else MBorrowedPlain
  | _ -> MOwned

let describe_deser evs data mode =
  match deser_tree static_text hash0 (threshold ()) !debug !serde_checked serde_token_text_ty (mode_of mode evs) evs with
  | DErr -> "ERR"
  | DPanic p -> "PANIC:" ^ panic_code p
  | DOk ((g, strs), flags) ->
    (match attach flags data with
     | None -> "ERR"
     | Some ds ->
       let buf = Buffer.create 64 in dump_green strs buf g;
       Buffer.contents buf ^ " data=" ^ String.concat "," (List.map (function Some d -> string_of_int (int_of_n d) | None -> "-") ds))

(* gelem -> dtree with the data flags assigned to the nodes in preorder *)
let to_dtree strs g (flags : bool list) : dtree =
  let idx = ref 0 in
  let rec go g = match g with
    | GTok (_, k, key, _) -> DTok (k, (match tok_text static_text strs k key with Some t -> t | None -> []))
    | GNode (_, k, _, _, cs) ->
      let i = !idx in incr idx;
      let d = if (match List.nth_opt flags i with Some b -> b | None -> false) then Some (n_of_int (100 + i)) else None in
      let kids = List.map go cs in
      DNode (k, d, kids) in
  go g

let run_z args =
  match args with
  | form :: mode :: rest ->
    let (evtoks, fl) = (let rec split acc = function [] -> (List.rev acc, []) | "|" :: r -> (List.rev acc, r) | x :: r -> split (x :: acc) r in split [] rest) in
    let flags = match fl with [f] -> List.init (String.length f) (fun i -> f.[i] = '1') | _ -> [] in
    (match build_in empty_cache evtoks with
     | None -> "BUILD-PANIC"
     | Some (g, c) ->
       let t = to_dtree c.c_strs g flags in
       let with_data = (form = "data" || form = "rdata") in
       let evs = ser_events with_data t in
       let data = if with_data then ser_data t else [] in
       describe_deser evs data mode)
  | _ -> "BAD-CASE"

let run_w args =
  match args with
  | mode :: rest ->
    let (evtoks, data) = (let rec split acc = function [] -> (List.rev acc, []) | "|" :: r -> (List.rev acc, r) | x :: r -> split (x :: acc) r in split [] rest) in
    let evs = List.map (fun e ->
        let c = e.[0] and r = String.sub e 1 (String.length e - 1) in
        let (a, b) = match String.index_opt r ':' with
          | Some i -> (String.sub r 0 i, String.sub r (i + 1) (String.length r - i - 1)) | None -> (r, "") in
        match c with
        | 'e' -> SvEnter (n_of_int (int_of_string a), b = "1")
        | 't' -> SvTok (n_of_int (int_of_string a), parse_text b)
        | _ -> SvLeave) evtoks in
    describe_deser evs (List.map (fun d -> n_of_int (int_of_string d)) data) mode
  | _ -> "BAD-CASE"

(* ------------------------------------------------------------------------------------------ *)
(* `V <kind> <reprs> | <variants>` (C17): the derive macro on an abstract definition *)
let run_v args =
  match args with
  | kind :: reprs :: "|" :: vs ->
    let k = match kind with "e" -> IEnum | "s" -> IStruct | _ -> IUnion in
    let rs = if reprs = "-" then [] else List.map (fun r -> if r = "u32" then RU32 else ROther) (String.split_on_char ',' reprs) in
    let parse_variant (v : string) : variant =
      let f = v.[0] = '1' and d = v.[1] <> '0' in   (* 1..5: the forms an explicit discriminant can take *)
      let rest = String.sub v 2 (String.length v - 2) in
      let attrs = List.filter (fun a -> a <> "") (String.split_on_char ';' rest) in
      { v_fields = f; v_discr = d; v_attrs = List.map (fun a -> match a.[0] with
            | 'L' -> SListLit (parse_text (String.sub a 1 (String.length a - 1)))
            | 'N' -> SListNonLit | 'P' -> SPath | _ -> SNameValue) attrs } in
    let d = { d_kind = k; d_reprs = rs; d_variants = List.map parse_variant vs } in
    (match expand d with
     | None -> "REJECT"
     | Some texts ->
       let n = List.length d.d_variants in
       let raws = List.init n (fun i -> string_of_int (int_of_n (into_raw (nat_of_int i)))) in
       let froms = List.init (n + 3) (fun r -> match from_raw (nat_of_int n) (n_of_int r) with
           | Ok v -> string_of_int (int_of_nat v) | Panic _ -> "P") in
       let txts = List.init n (fun i -> match static_text_of texts (nat_of_int i) with Some t -> "=" ^ show_text t | None -> "-") in
       Printf.sprintf "ACCEPT n=%d raw=%s from=%s texts=%s" n (String.concat "," raws) (String.concat "," froms) (String.concat ";" txts))
  | _ -> "BAD-CASE"

(* `A ...` (C08): Send / Sync verdicts *)
let run_a args =
  let bits s = (String.length s > 0 && s.[0] = 'T', String.length s > 1 && s.[1] = 'T') in
  let verdict b = if b then "accept" else "reject" in
  match args with
  | ["handle"; _h; _w; wbits; tr] | ["gen"; _h; _w; wbits; tr] ->
    let (ds, dy) = bits wbits in
    let a = { d_send = ds; d_sync = dy; r_send = true; r_sync = true } in
    verdict (if tr = "Send" then is_send node_send_bounds a else is_sync node_sync_bounds a)
  | ["ctor"; _which; _r; rbits] ->
    let (rs, ry) = bits rbits in
    let a = { d_send = true; d_sync = true; r_send = rs; r_sync = ry } in
    verdict (constructible ctor_resolver_bounds a)
  | ["text"; _i; ibits; _w; wbits; _tr] ->
    (* a borrowed view: Send and Sync alike need the node handle and the borrowed resolver type to be Sync *)
    let (ds, dy) = bits wbits and (_, iy) = bits ibits in
    let a = { d_send = ds; d_sync = dy; r_send = true; r_sync = true } in
    verdict (view_ok node_sync_bounds a iy && other_marker_impls = O)
  | ["skind"; _h; kbits; _tr] ->
    (* a handle over thread-safe data and a kind type with the given Send/Sync bits: the kind type must not matter *)
    let (ks, ky) = bits kbits in
    verdict (sat node_kind_bounds ks ky)
  | ["green"; _t; _tr] -> verdict green_token_unconditional
  | _ -> "BAD-CASE"

(* ------------------------------------------------------------------------------------------ *)
(* `X` (C12): text views.  A view is (tree, node position, absolute start, absolute end). *)
let rec true_off_pos g (p : pos) : int =
  match p with
  | [] -> 0
  | i :: q ->
    let ks = kids g q in
    let rec take n l = if n = 0 then [] else match l with [] -> [] | x :: r -> x :: take (n - 1) r in
    true_off_pos g q + List.fold_left (fun a c -> a + int_of_n (glen c)) 0 (take (int_of_nat i) ks)

let run_x args =
  let rec split acc = function [] -> (List.rev acc, []) | "|" :: r -> (List.rev acc, r) | x :: r -> split (x :: acc) r in
  let (bs, ops) = split [] args in
  let cache = ref empty_cache and greens = ref [] and ok = ref true in
  List.iter (fun b -> match build_in !cache b with
      | Some (g, c) -> cache := c; greens := !greens @ [g]
      | None -> ok := false) (split_list "/" bs);
  if not !ok then "BUILD-PANIC" else begin
    let strs = !cache.c_strs in
    let trees = Array.of_list !greens in
    (* view: (tree, pos, s, e) *)
    let root_view i = let g = trees.(i) in Some (i, [], 0, int_of_n (glen g)) in
    let views = ref (List.init (Array.length trees) root_view) in
    let chunks_of (ti, p, s, e) =
      let g = trees.(ti) in
      match subr g p with
      | None -> Panic POther
      | Some el -> chunks (tok_ranges static_text strs el (n_of_int (true_off_pos g p))) (n_of_int s) (n_of_int e) in
    let outs = List.map (fun op ->
        let p = Array.of_list (String.split_on_char ':' op) in
        let num i = int_of_string p.(i) in
        let view i = if i < Array.length p then (match int_of_string_opt p.(i) with
            | Some k -> (match List.nth_opt !views k with Some v -> v | None -> None) | None -> None) else None in
        let with_chunks v f = match chunks_of v with Panic q -> "PANIC:" ^ panic_code q | Ok cs -> f cs in
        match p.(0) with
        | "node" ->
          let ti = num 1 in
          let path = if p.(2) = "-" then [] else List.map int_of_string (String.split_on_char '.' p.(2)) in
          let pos = List.rev_map nat_of_int path in
          if ti < Array.length trees && (match subr trees.(ti) pos with Some e -> is_node e | None -> false) then begin
            let s = true_off_pos trees.(ti) pos in
            views := !views @ [Some (ti, pos, s, s + int_of_n (len_at trees.(ti) pos))]; "ok"
          end else begin views := !views @ [None]; "-" end
        | "slice" | "sliceo" ->
          (match view 1 with
           | None -> views := !views @ [None]; "-"
           | Some (ti, pos, s, e) ->
             let fin i = if p.(i) = "_" then None else Some (n_of_int (num i)) in
             (match v_slice_opt (n_of_int s) (n_of_int e) (fin 2) (fin 3) with
              | Panic q -> views := !views @ [None]; "PANIC:" ^ panic_code q
              | Ok (s', e') -> views := !views @ [Some (ti, pos, int_of_n s', int_of_n e')];
                "len=" ^ string_of_int (int_of_n (v_len s' e'))))
        | _ ->
          (match view 1 with
           | None -> "-"
           | Some ((ti, pos, s, e) as v) ->
             (match p.(0) with
              | "len" -> string_of_int (int_of_n (v_len (n_of_int s) (n_of_int e)))
              | "empty" -> if v_is_empty (n_of_int s) (n_of_int e) then "1" else "0"
              | "str" -> with_chunks v (fun cs -> show_text (v_to_string cs))
              | "has" -> with_chunks v (fun cs -> if v_contains cs (n_of_int (num 2)) then "1" else "0")
              | "find" -> with_chunks v (fun cs -> match v_find cs (n_of_int (num 2)) N0 with Some x -> string_of_int (int_of_n x) | None -> "-")
              | "at" -> with_chunks v (fun cs -> match v_char_at cs (n_of_int (num 2)) N0 with
                  | Ok (Some c) -> string_of_int (int_of_n c) | Ok None -> "-" | Panic q -> "PANIC:" ^ panic_code q)
              | "eqs" -> with_chunks v (fun cs -> if v_eq_str cs (parse_text (if Array.length p > 2 then p.(2) else "")) then "1" else "0")
              | "eqv" ->
                (match view 2 with
                 | None -> "-"
                 | Some ((_, _, s2, e2) as w) ->
                   with_chunks v (fun xs -> with_chunks w (fun ys ->
                       if v_eq_view xs (v_len (n_of_int s) (n_of_int e)) ys (v_len (n_of_int s2) (n_of_int e2)) then "1" else "0")))
              | "chunks" -> with_chunks v (fun cs -> "[" ^ String.concat "|" (List.map show_text cs) ^ "]")
              | "try" -> with_chunks v (fun cs ->
                  let k = num 2 in
                  let rec take n l = if n = 0 then [] else match l with [] -> [] | x :: r -> x :: take (n - 1) r in
                  (if List.length cs <= k then "done" else "stopped") ^ "[" ^ String.concat "|" (List.map show_text (take k cs)) ^ "]")
              | _ -> "?"))) ops in
    String.concat " ; " outs
  end

(* ------------------------------------------------------------------------------------------ *)
(* `K <events> | <programs> | <schedule>` (C05, C06, C18): the concurrent machine under a schedule *)
let z_of_int i = if i = 0 then Z0 else if i > 0 then Zpos (pos_of_int i) else Zneg (pos_of_int (-i))
let int_of_z = function Z0 -> 0 | Zpos p -> int_of_pos p | Zneg p -> - (int_of_pos p)

let parse_cop (op : string) : cop =
  let c = op.[0] and rest = String.sub op 1 (String.length op - 1) in
  let parts = String.split_on_char ':' rest in
  let r = nat_of_int (match parts with x :: _ when x <> "" -> int_of_string x | _ -> 0) in
  let arg = match parts with _ :: a :: _ -> int_of_string a | _ -> 0 in
  match c with
  | 'f' | 'a' -> KFirst r | 'l' | 'z' -> KLast r | 'n' -> KNext r | 'b' -> KPrev r | 'c' -> KChild (r, nat_of_int arg) | 's' -> KNext r | 'p' -> KPrev r
  | 'k' -> KClone r | 'd' -> KDrop r
  | 'S' -> KSet (r, n_of_int arg) | 'T' -> KTrySet (r, n_of_int arg) | 'G' -> KGet r | 'X' -> KClear r
  | _ -> failwith ("bad thread op " ^ op)

let show_cev = function
  | CReadLock (b, i) -> Printf.sprintf "R%d.%d" (int_of_nat b) (int_of_nat i)
  | CReadUnlock (b, i) -> Printf.sprintf "r%d.%d" (int_of_nat b) (int_of_nat i)
  | CWriteLock (b, i) -> Printf.sprintf "W%d.%d" (int_of_nat b) (int_of_nat i)
  | CWriteUnlock (b, i) -> Printf.sprintf "w%d.%d" (int_of_nat b) (int_of_nat i)
  | CDataLock (b, w) -> Printf.sprintf "%s%d" (if w then "D" else "E") (int_of_nat b)
  | CDataUnlock (b, w) -> Printf.sprintf "%s%d" (if w then "d" else "e") (int_of_nat b)
  | CAccess (b, i) -> Printf.sprintf "a%d.%d" (int_of_nat b) (int_of_nat i)
  | CRmw d -> let d = int_of_z d in if d >= 0 then Printf.sprintf "+%d" d else string_of_int d
  | CAlloc b -> Printf.sprintf "A%d" (int_of_nat b)
  | CFree b -> Printf.sprintf "F%d" (int_of_nat b)

let run_k args =
  match split_list "|" args with
  | [evs; progs; sched] ->
    (match build_in empty_cache evs with
     | None -> "BUILD-PANIC"
     | Some (g, _) ->
       let programs = List.map (List.map parse_cop) (split_list "//" progs) in
       let schedule = List.map (fun x -> nat_of_int (int_of_string x)) sched in
       let s0 = cinit g programs in
       let (sf, tr) = crun g (nat_of_int 100000) s0 schedule O in
       if not (all_done sf) then "DEADLOCK" else begin
         let trace = String.concat " " (List.map (fun (t, e) -> string_of_int (int_of_nat t) ^ ":" ^ show_cev e) tr) in
         let show_handle (p, e) =
           let path = String.concat "" (List.map (fun i -> "/" ^ string_of_int (int_of_nat i)) (List.rev p)) in
           (* the offset stored with the element when its slot was filled: computed by the installing thread from the
              route it took (C05_handles_carry_true_offsets: it is the true offset whoever that was) *)
           let s = int_of_n (off_of sf.c_offs p) in
           let e_ = s + int_of_n (len_at g p) in
           match e with
           | ENode b -> Printf.sprintf "n%s#%d@%d..%d" path (int_of_nat b) s e_
           | EToken pb -> Printf.sprintf "t%s#%d@%d..%d" path (int_of_nat pb) s e_ in
         let created = ref 0 in
         let show_res = function
           | RHandle (Some h) -> show_handle h
           | RHandle None -> "-"
           | RDropped -> "dropped"
           | RSet v -> incr created; Printf.sprintf "set=%d" (int_of_n v)
           | RTrySet (ok, v) -> incr created; Printf.sprintf "tryset=%s%d" (if ok then "ok" else "err") (int_of_n v)
           | RGet (Some v) -> Printf.sprintf "get=%d" (int_of_n v)
           | RGet None -> "get=-"
           | RCleared -> "cleared"
           | RNone -> "-" in
         let res = String.concat " // " (List.map (fun t -> String.concat "," (List.map show_res t.t_out)) sf.c_threads) in
         (* what the machine still holds at the end: blocks never freed, payloads never dropped *)
         Printf.sprintf "%s || %s || leak=%d payloads=%d/%d" trace res (List.length sf.c_live) (int_of_nat sf.c_payload_drops) !created
       end)
  | _ -> "BAD-CASE"

let run_line line =
  match List.filter (fun s -> s <> "") (String.split_on_char ' ' line) with
  | [] -> ""
  | "E" :: kind :: rest ->
    (* an example parser of the repository (C01): by build_text the tree's text is the concatenation of the token texts
       fed to the builder; a lossless parser feeds every piece of its input, in order *)
    let pieces = if kind = "math" then List.map (fun a -> match String.index_opt a ':' with Some i -> String.sub a (i + 1) (String.length a - i - 1) | None -> "") rest else rest in
    "text=" ^ String.concat "." (List.filter (fun x -> x <> "") pieces)
  | "M" :: _ -> "ok"      (* a Miri run: the model's claim is the theorem (no race) *)
  | "U" :: _ -> "ok"      (* a run with user destructors as scheduling points: the model's claim is C18_data_linearizable *)
  | "B" :: args -> run_b args
  | "H" :: args -> run_h args
  | "D" :: args -> run_d args
  | "G" :: args -> run_g args
  | "Y" :: args -> run_y args
  | "I" :: args -> run_i args
  | "K" :: args -> run_k args
  | "R" :: n :: "|" :: ops -> run_r (int_of_string n) ops
  | "A" :: args -> run_a args
  | "Q" :: args -> run_q args
  | "X" :: args -> run_x args
  | "V" :: args -> run_v args
  | "Z" :: args -> run_z args
  | "W" :: args -> run_w args
  | "N" :: args -> run_n args
  | "P" :: _ -> "ok"
  | "L" :: args -> run_h args ^ " || leak 0"
  | k :: _ -> "?unknown-case-kind " ^ k

let () =
  let path = Sys.argv.(1) in
  if Array.length Sys.argv > 2 && Sys.argv.(2) = "release" then debug := false;
  let ic = open_in path in
  (try
     while true do
       let line = input_line ic in
       print_endline (try run_line line with e -> "MODEL-EXN:" ^ Printexc.to_string e)
     done
   with End_of_file -> ());
  close_in ic
