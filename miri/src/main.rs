//! Free-running multi-threaded programs over the SAFE API of cstree, run under Miri (C07): Miri's
//! happens-before race detector and its aliasing model report a race on any explored schedule in which two
//! conflicting accesses are unordered.  `races <program>`; the schedule is Miri's seed (`-Zmiri-seed`).
use cstree::build::{GreenNodeBuilder, NodeCache};
use cstree::green::GreenNode;
use cstree::interning::{new_threaded_interner, MultiThreadedTokenInterner};
use cstree::syntax::{SyntaxElementRef, SyntaxNode};
use cstree::{RawSyntaxKind, Syntax};
use std::sync::{Arc, Barrier};
use std::thread;

#[derive(Debug, Clone, Copy, PartialEq, Eq, Hash)]
#[repr(transparent)]
pub struct K(pub u32);

impl Syntax for K {
    fn from_raw(raw: RawSyntaxKind) -> Self {
        K(raw.0)
    }

    fn into_raw(self) -> RawSyntaxKind {
        RawSyntaxKind(self.0)
    }

    fn static_text(self) -> Option<&'static str> {
        match self.0 {
            100 => Some("+"),
            _ => None,
        }
    }
}

/// Root[ Inner[a b] x Inner2[c] + ]
fn tree() -> GreenNode {
    let mut b: GreenNodeBuilder<K> = GreenNodeBuilder::new();
    b.start_node(K(1));
    b.start_node(K(2));
    b.token(K(5), "a");
    b.token(K(5), "b");
    b.finish_node();
    b.token(K(6), "x");
    b.start_node(K(3));
    b.token(K(5), "c");
    b.finish_node();
    b.static_token(K(100));
    b.finish_node();
    b.finish().0
}

fn walk(n: &SyntaxNode<K, u32>) -> usize {
    let mut count = 1;
    for c in n.children_with_tokens() {
        match c {
            SyntaxElementRef::Node(c) => count += walk(c),
            SyntaxElementRef::Token(t) => {
                count += 1;
                let _ = t.text_range();
                let _ = t.parent().kind();
            }
        }
    }
    count
}

fn hash_of<T: std::hash::Hash>(t: &T) -> u64 {
    use std::hash::Hasher;
    let mut h = std::collections::hash_map::DefaultHasher::new();
    t.hash(&mut h);
    h.finish()
}

/// two threads materialise the same slots concurrently (creation races, loser clean-up), through their own handles;
/// the handles they obtained for one position must be equal and hash equally (C05), whatever the schedule
fn traverse() {
    let root: SyntaxNode<K, u32> = SyntaxNode::new_root(tree());
    let barrier = Arc::new(Barrier::new(2));
    let hs: Vec<_> = (0..2)
        .map(|_| {
            let r = root.clone();
            let b = Arc::clone(&barrier);
            thread::spawn(move || {
                b.wait();
                let n = walk(&r);
                let back = r.last_child_or_token().map(|e| e.text_range());
                let kids: Vec<_> = r.children().cloned().collect();
                let toks: Vec<_> = r.children_with_tokens().filter_map(|e| e.into_token().cloned()).collect();
                (n, back, kids, toks)
            })
        })
        .collect();
    let mut got = Vec::new();
    for h in hs {
        let (n, _, kids, toks) = h.join().unwrap();
        assert_eq!(n, 8);
        got.push((kids, toks));
    }
    let settled: Vec<_> = root.children().cloned().collect();
    for (kids, _) in &got {
        assert_eq!(kids.len(), settled.len());
        for (a, b) in kids.iter().zip(&settled) {
            assert!(a == b && hash_of(a) == hash_of(b), "two red nodes for one position");
            assert_eq!(a.text_range(), b.text_range());
        }
    }
    for (a, b) in got[0].1.iter().zip(&got[1].1) {
        assert!(a == b && hash_of(a) == hash_of(b), "two red tokens for one position");
    }
    drop(got);
    drop(settled);
    drop(root);
}

/// clone / drop on several threads; inner handles outlive the root handle; the last drop happens on a thread that
/// nobody joins before the others are done
fn clone_drop() {
    let root: SyntaxNode<K, u32> = SyntaxNode::new_root(tree());
    let inner = root.first_child().unwrap().clone();
    let tok = root.last_token().unwrap().clone();
    let (tx, rx) = std::sync::mpsc::channel::<()>();
    let r2 = root.clone();
    let t1 = thread::spawn(move || {
        let c = r2.clone();
        let _ = walk(&c);
        drop(r2);
        drop(c);
    });
    let t2 = thread::spawn(move || {
        let _ = inner.text_range();
        let k = inner.clone();
        drop(inner);
        let _ = k.first_token().map(|t| t.text_range());
        drop(k);
    });
    // the last handle may well be dropped here, on a thread that is never joined
    let t3 = thread::spawn(move || {
        let _ = tok.parent().kind();
        drop(tok);
        let _ = tx.send(());
    });
    drop(root);
    t1.join().unwrap();
    t2.join().unwrap();
    let _ = rx.recv();
    drop(t3);
}

/// data slot operations racing on one node, through different handles
fn data() {
    let root: SyntaxNode<K, u32> = SyntaxNode::new_root(tree());
    let hs: Vec<_> = (0..2u32)
        .map(|i| {
            let r = root.clone();
            thread::spawn(move || {
                let n = r.first_child().unwrap();
                let got = n.try_set_data(i);
                let seen = n.get_data().map(|a| *a);
                if i == 1 {
                    n.clear_data();
                } else {
                    n.set_data(7);
                }
                (got.is_ok(), seen)
            })
        })
        .collect();
    let oks: Vec<_> = hs.into_iter().map(|h| h.join().unwrap()).collect();
    assert!(oks.iter().filter(|(ok, _)| *ok).count() >= 1);
}

/// green trees and a thread-safe interner shared between threads
fn green() {
    let interner: Arc<MultiThreadedTokenInterner> = Arc::new(new_threaded_interner());
    let hs: Vec<_> = (0..2)
        .map(|i| {
            let mut int = Arc::clone(&interner);
            thread::spawn(move || {
                let mut cache = NodeCache::with_interner(&mut int);
                let mut b: GreenNodeBuilder<K, _> = GreenNodeBuilder::with_cache(&mut cache);
                b.start_node(K(1));
                b.token(K(5), "shared");
                b.token(K(5), if i == 0 { "left" } else { "right" });
                b.finish_node();
                b.finish().0
            })
        })
        .collect();
    let greens: Vec<GreenNode> = hs.into_iter().map(|h| h.join().unwrap()).collect();
    // share the green trees: clone / drop / compare on other threads
    let g0 = greens[0].clone();
    let g1 = greens[1].clone();
    let t = thread::spawn(move || {
        let c = g0.clone();
        let eq = c == g1;
        let first = c.children().next().map(|e| e.text_len());
        drop(c);
        (eq, first)
    });
    let same = greens[0] == greens[0].clone();
    let (eq, _) = t.join().unwrap();
    assert!(same && !eq);
}

/// C06, deterministic: which handle is the LAST one — the root, an inner node, a token under an inner node, a token
/// under the root — on this thread or on another one; handles re-pointed across trees with clone_from and swapped.
/// Every handle is used after the others are gone (its memory must still be valid).
fn handles() {
    let mk = || -> SyntaxNode<K, u32> {
        let r = SyntaxNode::new_root(tree());
        r.set_data(7);
        r
    };
    // the root last
    {
        let root = mk();
        let inner = root.first_child().unwrap().clone();
        let tok = inner.first_token().unwrap().clone();
        drop(tok);
        drop(inner);
        assert_eq!(walk(&root), 8);
    }
    // an inner node last
    {
        let root = mk();
        let inner = root.first_child().unwrap().clone();
        inner.set_data(1);
        drop(root);
        assert_eq!(inner.parent().unwrap().kind(), K(1));
        assert_eq!(u32::from(inner.text_range().end()), 2);
        assert_eq!(inner.get_data().map(|d| *d), Some(1));
    }
    // a token under an inner node last
    {
        let root = mk();
        let inner = root.first_child().unwrap().clone();
        let tok = inner.last_token().unwrap().clone();
        drop(inner);
        drop(root);
        assert_eq!(tok.parent().kind(), K(2));
        assert_eq!(tok.parent().parent().unwrap().get_data().map(|d| *d), Some(7));
    }
    // a token directly under the root last
    {
        let root = mk();
        let tok = root.last_token().unwrap().clone();
        drop(root);
        assert_eq!(u32::from(tok.text_range().start()), 4);
    }
    // an inner node last, on another thread
    {
        let root = mk();
        let inner = root.children().nth(1).unwrap().clone();
        drop(root);
        thread::spawn(move || {
            assert_eq!(inner.kind(), K(3));
            drop(inner);
        })
        .join()
        .unwrap();
    }
    // handles re-pointed across trees
    {
        let a = mk();
        let b = mk();
        let mut h = a.first_child().unwrap().clone();
        let x = b.children().nth(1).unwrap().clone();
        h.clone_from(&x);
        drop(a); // h no longer points into a: a goes here
        drop(x);
        drop(b);
        assert_eq!(h.parent().unwrap().get_data().map(|d| *d), Some(7));
        let mut v: Vec<SyntaxNode<K, u32>> = vec![mk(), mk()];
        let w: Vec<SyntaxNode<K, u32>> = vec![h.clone(), h.clone(), h.clone()];
        v.clone_from(&w);
        drop(w);
        drop(h);
        assert_eq!(v.len(), 3);
        assert_eq!(v[2].kind(), K(3));
        let mut p = mk();
        let mut q = v[0].clone();
        std::mem::swap(&mut p, &mut q);
        drop(v);
        drop(q);
        assert_eq!(p.kind(), K(3));
    }
}

fn main() {
    let which = std::env::args().nth(1).unwrap_or_else(|| "all".into());
    match which.as_str() {
        "handles" => handles(),
        "traverse" => traverse(),
        "clone_drop" => clone_drop(),
        "data" => data(),
        "green" => green(),
        _ => {
            traverse();
            clone_drop();
            data();
            green();
            handles();
        }
    }
    println!("done {which}");
}
