// Copies the repository's example parsers (cstree/examples) into OUT_DIR so that the harness can include them as
// modules and call their parsers (C01: "every input string fed through the repository's own example parsers").
// Inner doc comments `//!` are only allowed at the start of a file, so they become ordinary comments; nothing else changes.
use std::{env, fs, path::Path};

fn main() {
    let out = env::var("OUT_DIR").unwrap();
    for name in ["math", "readme", "s_expressions"] {
        let src = format!("/repo/cstree/examples/{name}.rs");
        println!("cargo:rerun-if-changed={src}");
        let text = fs::read_to_string(&src).unwrap_or_default();
        let fixed: String = text
            .lines()
            .map(|l| if l.trim_start().starts_with("//!") { l.replacen("//!", "// ", 1) } else { l.to_string() })
            .collect::<Vec<_>>()
            .join("\n");
        fs::write(Path::new(&out).join(format!("{name}.rs")), fixed).unwrap();
    }
}
