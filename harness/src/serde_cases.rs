//! `Z` cases (C16): serialize / deserialize round trips through all entry points and input kinds;
//! `W` cases: hand-made event streams and data lists that must be rejected with an error (never a panic).
use crate::builder_cases::{dump_green, parse_ops, run_ops};
use crate::interners::Shared;
use crate::syn::*;
use cstree::build::NodeCache;
use cstree::syntax::{ResolvedNode, SyntaxNode};
use std::sync::Arc;

type RNode = ResolvedNode<K, u32>;

fn describe(tree: &RNode) -> String {
    let mut s = String::new();
    dump_green(tree.green(), &**tree.resolver(), &mut s);
    let data: Vec<String> = tree.descendants().map(|n| n.get_data().map(|d| d.to_string()).unwrap_or_else(|| "-".into())).collect();
    format!("{s} data={}", data.join(","))
}

fn deser(mode: &str, json: &str) -> String {
    let r: Result<Result<RNode, String>, String> = catch(|| match mode {
        "str" => serde_json::from_str::<RNode>(json).map_err(|e| e.to_string()),
        "slice" => serde_json::from_slice::<RNode>(json.as_bytes()).map_err(|e| e.to_string()),
        "reader" => serde_json::from_reader::<_, RNode>(json.as_bytes()).map_err(|e| e.to_string()),
        "value" => serde_json::from_str::<serde_json::Value>(json)
            .map_err(|e| e.to_string())
            .and_then(|v| serde_json::from_value::<RNode>(v).map_err(|e| e.to_string())),
        _ => panic!("mode {mode}"),
    });
    match r {
        Err(c) => format!("PANIC:{c}"),
        Ok(Err(e)) => format!("ERR<{}>", e.split(" at line").next().unwrap_or("").replace(' ', "_")),
        Ok(Ok(t)) => describe(&t),
    }
}

/// `Z <form> <mode> <events> | <data flags per node in preorder: 0/1...>`
/// form: `plain` (as_serialize_with_resolver), `data` (as_serialize_with_data_with_resolver),
///       `rplain` (ResolvedNode: Serialize), `rdata` (ResolvedNode::as_serialize_with_data)
pub fn run_z(args: &[&str]) -> String {
    let form = args[0];
    let mode = args[1];
    let bar = args.iter().position(|a| *a == "|").unwrap_or(args.len());
    let mut cache = NodeCache::new();
    let Ok(green) = run_ops(&mut cache, &parse_ops(args[2..bar].iter().copied()), None).1 else { return "BUILD-PANIC".into() };
    let interner = Arc::new(cache.into_interner().unwrap());
    let flags: Vec<bool> = args.get(bar + 1).map(|f| f.chars().map(|c| c == '1').collect()).unwrap_or_default();
    let rroot: RNode = SyntaxNode::new_root_with_resolver(green, Shared(Arc::clone(&interner)));
    for (i, n) in rroot.descendants().enumerate() {
        if flags.get(i).copied().unwrap_or(false) {
            n.set_data(100 + i as u32);
        }
    }
    let json = match form {
        "plain" => serde_json::to_string(&rroot.syntax().as_serialize_with_resolver(&*interner)),
        "data" => serde_json::to_string(&rroot.syntax().as_serialize_with_data_with_resolver(&*interner)),
        "rplain" => serde_json::to_string(&rroot),
        "rdata" => serde_json::to_string(&rroot.as_serialize_with_data()),
        _ => panic!("form {form}"),
    };
    match json {
        Err(e) => format!("SER-ERR<{e}>"),
        Ok(j) => deser(mode, &j),
    }
}

/// `W <mode> <events: e<k>:<0|1> t<k>:<cps> l ...> | <data: n n n>` — builds the JSON by hand
pub fn run_w(args: &[&str]) -> String {
    let mode = args[0];
    let bar = args.iter().position(|a| *a == "|").unwrap_or(args.len());
    let mut evs = Vec::new();
    for e in &args[1..bar] {
        let (c, rest) = e.split_at(1);
        evs.push(match c {
            "e" => {
                let (k, f) = rest.split_once(':').unwrap();
                format!("{{\"t\":\"EnterNode\",\"c\":[{k},{}]}}", if f == "1" { "true" } else { "false" })
            }
            "t" => {
                let (k, t) = rest.split_once(':').unwrap();
                format!("{{\"t\":\"Token\",\"c\":[{k},{}]}}", serde_json::to_string(&parse_text(t)).unwrap())
            }
            "l" => "{\"t\":\"LeaveNode\"}".to_string(),
            _ => panic!("bad event {e}"),
        });
    }
    let data: Vec<&str> = if bar < args.len() { args[bar + 1..].to_vec() } else { vec![] };
    let json = format!("[[{}],[{}]]", evs.join(","), data.join(","));
    deser(mode, &json)
}
