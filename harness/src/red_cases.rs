//! `N` cases: a tree (builder events) plus a traversal program over handle registers, executed through
//! the plain (`p`) or the resolved (`r`) API (C02, C03, C13).  Handles are printed as
//! `n/0/2@3..5` (node) / `t/0/1@1..3` (token): kind of handle, child indices from the root, text range.
use crate::builder_cases::{parse_ops, run_ops};
use crate::syn::*;
use cstree::build::NodeCache;
use cstree::syntax::{ResolvedElementRef, ResolvedNode, SyntaxElement, SyntaxElementRef, SyntaxNode, SyntaxToken};
use cstree::text::{TextRange, TextSize};
use cstree::traversal::{Direction, WalkEvent};
use cstree::util::{NodeOrToken, TokenAtOffset};

type Node = SyntaxNode<K>;
type Token = SyntaxToken<K>;
type Elem = SyntaxElement<K>;
type ElemRef<'a> = SyntaxElementRef<'a, K>;

pub fn node_path(n: &Node) -> Vec<u32> {
    let mut p = Vec::new();
    let mut cur = n;
    while let Some(i) = cur.verif_index() {
        p.push(i);
        cur = cur.parent().unwrap();
    }
    p.reverse();
    p
}

pub fn show_node(n: &Node) -> String {
    let r = n.text_range();
    let p: String = node_path(n).iter().map(|i| format!("/{i}")).collect();
    format!("n{p}@{}..{}", u32::from(r.start()), u32::from(r.end()))
}

pub fn show_token(t: &Token) -> String {
    let r = t.text_range();
    let mut path = node_path(t.parent());
    path.push(t.verif_index());
    let p: String = path.iter().map(|i| format!("/{i}")).collect();
    format!("t{p}@{}..{}", u32::from(r.start()), u32::from(r.end()))
}

pub fn show_ref(e: ElemRef<'_>) -> String {
    match e {
        NodeOrToken::Node(n) => show_node(n),
        NodeOrToken::Token(t) => show_token(t),
    }
}

pub fn show_elem(e: &Elem) -> String {
    match e {
        NodeOrToken::Node(n) => show_node(n),
        NodeOrToken::Token(t) => show_token(t),
    }
}

fn re<'a>(e: ResolvedElementRef<'a, K>) -> ElemRef<'a> {
    match e {
        NodeOrToken::Node(n) => NodeOrToken::Node(n.syntax()),
        NodeOrToken::Token(t) => NodeOrToken::Token(t.syntax()),
    }
}

fn own(e: ElemRef<'_>) -> Elem {
    match e {
        NodeOrToken::Node(n) => NodeOrToken::Node(n.clone()),
        NodeOrToken::Token(t) => NodeOrToken::Token(t.clone()),
    }
}

fn dir(next: bool) -> Direction {
    if next {
        Direction::Next
    } else {
        Direction::Prev
    }
}

/// Full dump of the tree through a fresh traversal: every element with the range it reports now.
pub fn dump_ranges(root: &Node) -> String {
    root.descendants_with_tokens().map(show_ref).collect::<Vec<_>>().join(",")
}

fn sizes<I: ExactSizeIterator + Clone>(it: &I) -> String {
    let (lo, hi) = it.size_hint();
    format!(
        "len={},cnt={},hint={}-{},n={}",
        it.len(),
        it.clone().count(),
        lo,
        hi.map(|h| h.to_string()).unwrap_or_else(|| "inf".into()),
        it.clone().fold(0usize, |a, _| a + 1)
    )
}

/// One navigation operation. Returns (printed result, new register value).
fn step(resolved: bool, regs: &[Option<Elem>], op: &str) -> (String, Option<Elem>) {
    let parts: Vec<&str> = op.split(':').collect();
    let name = parts[0];
    let Some(Some(src)) = parts.get(1).and_then(|r| r.parse::<usize>().ok()).map(|i| regs.get(i).cloned().flatten()) else {
        return ("-".into(), None);
    };
    let arg = |i: usize| -> u32 { parts[i].parse().unwrap() };
    // single-handle results
    let one = |r: Option<ElemRef<'_>>| -> (String, Option<Elem>) {
        match r {
            Some(e) => (show_ref(e), Some(own(e))),
            None => ("-".into(), None),
        }
    };
    let list = |v: Vec<String>| -> (String, Option<Elem>) { (format!("[{}]", v.join(",")), None) };
    match &src {
        NodeOrToken::Node(n) => {
            let rn: Option<&ResolvedNode<K>> = if resolved { Some(n.resolved()) } else { None };
            match name {
                "par" => one(if let Some(r) = rn { r.parent().map(|p| p.syntax().into()) } else { n.parent().map(|p| p.into()) }),
                "fc" => one(if let Some(r) = rn { r.first_child().map(|p| p.syntax().into()) } else { n.first_child().map(|p| p.into()) }),
                "fct" => one(if let Some(r) = rn { r.first_child_or_token().map(re) } else { n.first_child_or_token() }),
                "lc" => one(if let Some(r) = rn { r.last_child().map(|p| p.syntax().into()) } else { n.last_child().map(|p| p.into()) }),
                "lct" => one(if let Some(r) = rn { r.last_child_or_token().map(re) } else { n.last_child_or_token() }),
                "ns" => one(if let Some(r) = rn { r.next_sibling().map(|p| p.syntax().into()) } else { n.next_sibling().map(|p| p.into()) }),
                "nst" => one(if let Some(r) = rn { r.next_sibling_or_token().map(re) } else { n.next_sibling_or_token() }),
                "ps" => one(if let Some(r) = rn { r.prev_sibling().map(|p| p.syntax().into()) } else { n.prev_sibling().map(|p| p.into()) }),
                "pst" => one(if let Some(r) = rn { r.prev_sibling_or_token().map(re) } else { n.prev_sibling_or_token() }),
                "ft" => one(if let Some(r) = rn { r.first_token().map(|t| t.syntax().into()) } else { n.first_token().map(|t| t.into()) }),
                "lt" => one(if let Some(r) = rn { r.last_token().map(|t| t.syntax().into()) } else { n.last_token().map(|t| t.into()) }),
                "ch" => {
                    let k = arg(2) as usize;
                    one(if let Some(r) = rn { r.children().nth(k).map(|p| p.syntax().into()) } else { n.children().nth(k).map(|p| p.into()) })
                }
                "cht" => {
                    let k = arg(2) as usize;
                    one(if let Some(r) = rn { r.children_with_tokens().nth(k).map(re) } else { n.children_with_tokens().nth(k) })
                }
                // the public indexed lookups, called with the index and offset the API handed out for a child handle
                "nca" | "ncta" | "pcb" | "pctb" => {
                    let Some(Some(child)) = parts.get(2).and_then(|r| r.parse::<usize>().ok()).map(|i| regs.get(i).cloned().flatten()) else {
                        return ("-".into(), None);
                    };
                    let (cparent, idx, range) = match &child {
                        NodeOrToken::Node(c) => (c.parent().cloned(), c.verif_index().unwrap_or(0), c.text_range()),
                        NodeOrToken::Token(c) => (Some(c.parent().clone()), c.verif_index(), c.text_range()),
                    };
                    if cparent.as_ref() != Some(n) {
                        return ("-".into(), None);
                    }
                    let idx = idx as usize;
                    match name {
                        "nca" => one(if let Some(r) = rn { r.next_child_after(idx, range.end()).map(|p| p.syntax().into()) } else { n.next_child_after(idx, range.end()).map(|p| p.into()) }),
                        "ncta" => one(if let Some(r) = rn { r.next_child_or_token_after(idx, range.end()).map(re) } else { n.next_child_or_token_after(idx, range.end()) }),
                        "pcb" => one(if let Some(r) = rn { r.prev_child_before(idx, range.start()).map(|p| p.syntax().into()) } else { n.prev_child_before(idx, range.start()).map(|p| p.into()) }),
                        _ => one(if let Some(r) = rn { r.prev_child_or_token_before(idx, range.start()).map(re) } else { n.prev_child_or_token_before(idx, range.start()) }),
                    }
                }
                "tao" => {
                    let off = TextSize::from(arg(2));
                    let r = catch(|| if let Some(r) = rn { r.token_at_offset(off).map(|t| t.syntax().clone()) } else { n.token_at_offset(off) });
                    match r {
                        Err(c) => (format!("PANIC:{c}"), None),
                        Ok(TokenAtOffset::None) => ("none".into(), None),
                        Ok(TokenAtOffset::Single(t)) => (format!("single {}", show_token(&t)), Some(NodeOrToken::Token(t))),
                        Ok(TokenAtOffset::Between(l, r)) => (format!("between {} {}", show_token(&l), show_token(&r)), Some(NodeOrToken::Token(r))),
                    }
                }
                // the TokenAtOffset helper: left / right bias, the iterator drained by 4 calls of next, len() before each call
                "taoh" => {
                    let off = TextSize::from(arg(2));
                    let r = catch(|| if let Some(r) = rn { r.token_at_offset(off).map(|t| t.syntax().clone()) } else { n.token_at_offset(off) });
                    match r {
                        Err(c) => (format!("PANIC:{c}"), None),
                        Ok(x) => {
                            let opt = |t: Option<cstree::syntax::SyntaxToken<K>>| t.map(|t| show_token(&t)).unwrap_or_else(|| "-".into());
                            let reg = x.clone().right_biased().map(NodeOrToken::Token);
                            let mut it = x.clone();
                            let mut items = Vec::new();
                            let mut sizes = Vec::new();
                            for _ in 0..4 {
                                let (lo, hi) = it.size_hint();
                                sizes.push(if hi == Some(lo) { it.len().to_string() } else { format!("{lo}-{hi:?}") });
                                if let Some(t) = it.next() {
                                    items.push(show_token(&t));
                                }
                            }
                            (format!("L={} R={} it=[{}] sz={}", opt(x.clone().left_biased()), opt(x.right_biased()), items.join(","), sizes.join(",")), reg)
                        }
                    }
                }
                "cov" => {
                    let range = TextRange::new(TextSize::from(arg(2)), TextSize::from(arg(3)));
                    let r = catch(|| if let Some(r) = rn { own(re(r.covering_element(range))) } else { own(n.covering_element(range)) });
                    match r {
                        Err(c) => (format!("PANIC:{c}"), None),
                        Ok(e) => (show_elem(&e), Some(e)),
                    }
                }
                "anc" => list(if let Some(r) = rn { r.ancestors().map(|a| show_node(a.syntax())).collect() } else { n.ancestors().map(show_node).collect() }),
                "sib+" | "sib-" => {
                    let d = dir(name == "sib+");
                    list(if let Some(r) = rn { r.siblings(d).map(|a| show_node(a.syntax())).collect() } else { n.siblings(d).map(show_node).collect() })
                }
                "sibt+" | "sibt-" => {
                    let d = dir(name == "sibt+");
                    list(if let Some(r) = rn { r.siblings_with_tokens(d).map(|a| show_ref(re(a))).collect() } else { n.siblings_with_tokens(d).map(show_ref).collect() })
                }
                "chs" => list(if let Some(r) = rn { r.children().map(|a| show_node(a.syntax())).collect() } else { n.children().map(show_node).collect() }),
                "chts" => list(if let Some(r) = rn { r.children_with_tokens().map(|a| show_ref(re(a))).collect() } else { n.children_with_tokens().map(show_ref).collect() }),
                "desc" => list(if let Some(r) = rn { r.descendants().map(|a| show_node(a.syntax())).collect() } else { n.descendants().map(show_node).collect() }),
                "desct" => list(if let Some(r) = rn { r.descendants_with_tokens().map(|a| show_ref(re(a))).collect() } else { n.descendants_with_tokens().map(show_ref).collect() }),
                "pre" => {
                    let f = |e: WalkEvent<&Node>| match e {
                        WalkEvent::Enter(x) => format!("+{}", show_node(x)),
                        WalkEvent::Leave(x) => format!("-{}", show_node(x)),
                    };
                    list(if let Some(r) = rn { r.preorder().map(|e| f(e.map(|x| x.syntax()))).collect() } else { n.preorder().map(f).collect() })
                }
                "pret" => {
                    let f = |e: WalkEvent<ElemRef<'_>>| match e {
                        WalkEvent::Enter(x) => format!("+{}", show_ref(x)),
                        WalkEvent::Leave(x) => format!("-{}", show_ref(x)),
                    };
                    list(if let Some(r) = rn { r.preorder_with_tokens().map(|e| f(e.map(re))).collect() } else { n.preorder_with_tokens().map(f).collect() })
                }
                // what the child iterators report about their size: fresh, and after one item
                "sz" => {
                    let mut it = n.children();
                    let a = sizes(&it);
                    it.next();
                    (format!("{a}|{}", sizes(&it)), None)
                }
                "szt" => {
                    let mut it = n.children_with_tokens();
                    let a = sizes(&it);
                    it.next();
                    (format!("{a}|{}", sizes(&it)), None)
                }
                "ar" => (format!("{},{}", n.arity(), n.arity_with_tokens()), None),
                // a sequence of nth(k) calls on ONE child iterator (k = 0 is next): what it yields
                "itn" | "its" => {
                    let script: Vec<usize> = parts.get(2).map(|s| s.split('.').filter(|x| !x.is_empty()).map(|x| x.parse().unwrap_or(0)).collect()).unwrap_or_default();
                    let mut out = Vec::new();
                    // how the partly consumed iterator is finished: "" nothing more, l = last(), c = count(),
                    // z = len() and size_hint(), f = fold over what remains
                    let term = parts.get(3).copied().unwrap_or("");
                    let hint = |len: usize, h: (usize, Option<usize>)| format!("len={},hint={}-{}", len, h.0, h.1.map(|x| x.to_string()).unwrap_or_else(|| "inf".into()));
                    let tail;
                    if name == "itn" {
                        let mut it = n.children();
                        for k in script {
                            if let Some(c) = it.nth(k) {
                                out.push(show_ref(c.into()));
                            }
                        }
                        tail = match term {
                            "l" => format!(" last={}", it.last().map(|c| show_ref(c.into())).unwrap_or_else(|| "-".into())),
                            "c" => format!(" count={}", it.count()),
                            "z" => format!(" {}", hint(it.len(), it.size_hint())),
                            "f" => format!(" rest=[{}]", it.fold(Vec::new(), |mut v, c| { v.push(show_ref(c.into())); v }).join(",")),
                            _ => String::new(),
                        };
                    } else {
                        let mut it = n.children_with_tokens();
                        for k in script {
                            if let Some(c) = it.nth(k) {
                                out.push(show_ref(c));
                            }
                        }
                        tail = match term {
                            "l" => format!(" last={}", it.last().map(show_ref).unwrap_or_else(|| "-".into())),
                            "c" => format!(" count={}", it.count()),
                            "z" => format!(" {}", hint(it.len(), it.size_hint())),
                            "f" => format!(" rest=[{}]", it.fold(Vec::new(), |mut v, c| { v.push(show_ref(c)); v }).join(",")),
                            _ => String::new(),
                        };
                    }
                    let (s, r) = list(out);
                    (format!("{s}{tail}"), r)
                }
                _ => ("-".into(), None),
            }
        }
        NodeOrToken::Token(t) => {
            let rt = if resolved { Some(t.resolved()) } else { None };
            match name {
                "par" => one(Some(if let Some(r) = rt { r.parent().syntax().into() } else { t.parent().into() })),
                "nst" => one(if let Some(r) = rt { r.next_sibling_or_token().map(re) } else { t.next_sibling_or_token() }),
                "pst" => one(if let Some(r) = rt { r.prev_sibling_or_token().map(re) } else { t.prev_sibling_or_token() }),
                "nt" => one(if let Some(r) = rt { r.next_token().map(|x| x.syntax().into()) } else { t.next_token().map(|x| x.into()) }),
                "pt" => one(if let Some(r) = rt { r.prev_token().map(|x| x.syntax().into()) } else { t.prev_token().map(|x| x.into()) }),
                "ft" | "lt" => one(Some(t.into())),
                "anc" => list(if let Some(r) = rt { r.ancestors().map(|a| show_node(a.syntax())).collect() } else { t.ancestors().map(show_node).collect() }),
                "sibt+" | "sibt-" => {
                    let d = dir(name == "sibt+");
                    list(if let Some(r) = rt { r.siblings_with_tokens(d).map(|a| show_ref(re(a))).collect() } else { t.siblings_with_tokens(d).map(show_ref).collect() })
                }
                _ => ("-".into(), None),
            }
        }
    }
}

/// `N <p|r> <events...> | <nav ops...>`
pub fn run_case(args: &[&str]) -> String {
    let resolved = args[0] == "r";
    let bar = args.iter().position(|a| *a == "|").unwrap_or(args.len());
    let events = parse_ops(args[1..bar].iter().copied());
    let nav: Vec<&str> = if bar < args.len() { args[bar + 1..].to_vec() } else { vec![] };
    let mut cache = NodeCache::new();
    let (_trace, fin) = run_ops(&mut cache, &events, None);
    let green = match fin {
        Ok(g) => g,
        Err(c) => return format!("BUILD-PANIC:{c}"),
    };
    let interner = crate::interners::Shared(std::sync::Arc::new(cache.into_interner().unwrap()));
    let texts_of = crate::interners::Shared(std::sync::Arc::clone(&interner.0));
    let root: Node = if resolved { ResolvedNode::new_root_with_resolver(green, interner).syntax().clone() } else { SyntaxNode::new_root(green) };
    let mut regs: Vec<Option<Elem>> = vec![Some(NodeOrToken::Node(root.clone()))];
    let mut outs = Vec::new();
    for op in nav {
        let (s, r) = match catch(|| step(resolved, &regs, op)) {
            Ok(x) => x,
            Err(c) => (format!("PANIC:{c}"), None),
        };
        outs.push(s);
        regs.push(r);
    }
    // every handle ever returned still reports the same range (handles are owned clones)
    let held: Vec<String> = regs.iter().map(|r| r.as_ref().map(show_elem).unwrap_or_else(|| "-".into())).collect();
    // (debug builds assert the cached offset on every hit: a wrong cached offset panics here)
    let dump = catch(|| dump_ranges(&root)).unwrap_or_else(|c| format!("DUMP-PANIC:{c}"));
    // the resolved text of every node (C02: "resolving the text of any node yields exactly that slice of the whole text");
    // only for trees of moderate size
    let texts = catch(|| {
        let nodes: Vec<_> = root.descendants().collect();
        if root.descendants_with_tokens().count() > 60 {
            return String::new();
        }
        let v: Vec<String> = nodes.iter().map(|n| crate::syn::show_text(&n.resolve_text(&texts_of).to_string())).collect();
        format!(" texts {}", v.join("|"))
    })
    .unwrap_or_else(|c| format!(" texts TEXT-PANIC:{c}"));
    // identity (C05): which registers hold EQUAL handles (== of SyntaxElement), and whether equal handles hash equally
    let hash_of = |e: &Elem| {
        use std::hash::{Hash, Hasher};
        let mut h = std::collections::hash_map::DefaultHasher::new();
        e.hash(&mut h);
        h.finish()
    };
    let mut classes: Vec<String> = Vec::new();
    let mut reps: Vec<(usize, &Elem)> = Vec::new();
    for r in &regs {
        match r {
            None => classes.push("-".into()),
            Some(e) => match reps.iter().find(|(_, f)| *f == e) {
                Some((k, f)) => classes.push(if hash_of(f) == hash_of(e) { k.to_string() } else { format!("{k}h!") }),
                None => {
                    reps.push((reps.len(), e));
                    classes.push((reps.len() - 1).to_string());
                }
            },
        }
    }
    format!("{} ;; {} ~ {} ;; {}{}", outs.join(" ; "), held.join(" "), classes.join(","), dump, texts)
}
