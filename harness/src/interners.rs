//! A user-supplied interner (hash-map based) that can be told to fail, for C20 and as a fourth backend.
use cstree::interning::{InternKey, Interner, Resolver, TokenKey};
use std::cell::Cell;
use std::collections::HashMap;
use std::rc::Rc;

#[derive(Debug, Default)]
pub struct UserInterner {
    map:  HashMap<String, u32>,
    strs: Vec<String>,
    /// when set, the next `try_get_or_intern` fails (and resets the flag)
    pub fail_next: Rc<Cell<bool>>,
}

impl Resolver<TokenKey> for UserInterner {
    fn try_resolve(&self, key: TokenKey) -> Option<&str> {
        self.strs.get(key.into_u32() as usize).map(|s| s.as_str())
    }
}

impl Interner<TokenKey> for UserInterner {
    type Error = ();

    fn try_get_or_intern(&mut self, text: &str) -> Result<TokenKey, ()> {
        if self.fail_next.replace(false) {
            return Err(());
        }
        if let Some(&i) = self.map.get(text) {
            return Ok(TokenKey::try_from_u32(i).unwrap());
        }
        let i = self.strs.len() as u32;
        self.strs.push(text.to_string());
        self.map.insert(text.to_string(), i);
        Ok(TokenKey::try_from_u32(i).unwrap())
    }
}

/// A shareable resolver over any resolver (the trees of one case all use the same interner).
#[derive(Debug)]
pub struct Shared<R>(pub std::sync::Arc<R>);
impl<R: Resolver<TokenKey>> Resolver<TokenKey> for Shared<R> {
    fn try_resolve(&self, key: TokenKey) -> Option<&str> {
        self.0.try_resolve(key)
    }
}
