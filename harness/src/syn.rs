//! Shared vocabulary of the harness: the syntax type, text encoding of cases, panic classification.
use cstree::{RawSyntaxKind, Syntax};
use std::panic::{catch_unwind, AssertUnwindSafe};

/// Harness syntax: every raw kind is valid; kinds 100..=104 have static text.
#[derive(Debug, Clone, Copy, PartialEq, Eq, Hash, PartialOrd, Ord)]
pub struct K(pub u32);

pub fn static_text_of(k: u32) -> Option<&'static str> {
    match k {
        100 => Some("+"),
        101 => Some(""),
        102 => Some("+"),
        103 => Some("let"),
        104 => Some("\u{e9}"),
        _ => None,
    }
}

impl Syntax for K {
    fn from_raw(raw: RawSyntaxKind) -> Self {
        K(raw.0)
    }
    fn into_raw(self) -> RawSyntaxKind {
        RawSyntaxKind(self.0)
    }
    fn static_text(self) -> Option<&'static str> {
        static_text_of(self.0)
    }
}

/// "97.233.119070" -> "aé𝄞"; "" -> ""
pub fn parse_text(s: &str) -> String {
    if s.is_empty() {
        return String::new();
    }
    s.split('.')
        .map(|p| char::from_u32(p.parse::<u32>().expect("cp")).expect("char"))
        .collect()
}

pub fn show_text(s: &str) -> String {
    s.chars().map(|c| (c as u32).to_string()).collect::<Vec<_>>().join(".")
}

/// Map a panic payload to the one-letter code shared with the model (ocaml/driver.ml).
pub fn classify(msg: &str) -> String {
    let c = if msg.contains("called `Option::unwrap()` on a `None` value") {
        "U"
    } else if msg.contains("only contained a token") {
        "K"
    } else if msg.contains("was `finish_node` called early") {
        "P"
    } else if msg.contains("contains one or more unfinished nodes") {
        "Q"
    } else if msg.contains("after reverting to an earlier checkpoint") {
        "H"
    } else if msg.contains("was an unmatched") {
        "M"
    } else if msg.contains("Missing static text") {
        "s"
    } else if msg.contains("which should have text") {
        "d"
    } else if msg.contains("failed to intern") {
        "I"
    } else if msg.contains("static_text().is_some()") {
        "e"
    } else if msg.contains("entered unreachable code") {
        "!"
    } else if msg.contains("is not a char boundary") {
        "c"
    } else if msg.contains("invalid slice") || (msg.starts_with("assertion failed: ") && msg.contains("<=")) {
        // (a bare `assert!(a <= b)` prints its expression: the names of locals are not part of the behaviour)
        "r"
    } else if msg.contains("Bad offset") || msg.contains("Bad range") {
        "o"
    } else if msg.contains("assertion `left == right` failed") && msg.contains("RawSyntaxKind(") {
        "k"
    } else if msg.contains("assertion `left == right` failed") {
        "N"
    } else {
        return format!("?<{}>", msg.replace(['\n', ' '], "_"));
    };
    c.to_string()
}

pub fn catch<R>(f: impl FnOnce() -> R) -> Result<R, String> {
    match catch_unwind(AssertUnwindSafe(f)) {
        Ok(r) => Ok(r),
        Err(e) => {
            let msg = if let Some(s) = e.downcast_ref::<&str>() {
                s.to_string()
            } else if let Some(s) = e.downcast_ref::<String>() {
                s.clone()
            } else {
                "non-string panic".to_string()
            };
            Err(classify(&msg))
        }
    }
}
