//! `E` cases (C01): the repository's own example parsers must reproduce their input.
//!   E math <k>:<cps> ...      a token sequence for examples/math.rs (k: w a s m d n)
//!   E readme <cps>            a string for the lexer + parser of examples/readme.rs
//!   E sexp <cps>              a string for examples/s_expressions.rs
use crate::syn::catch;

#[allow(dead_code, unused, clippy::all)]
mod ex_math {
    include!(concat!(env!("OUT_DIR"), "/math.rs"));
    pub fn run(tokens: &[(char, String)]) -> String {
        let toks: Vec<(SyntaxKind, &str)> = tokens
            .iter()
            .map(|(k, s)| {
                let kind = match k {
                    'w' => Whitespace,
                    'a' => Add,
                    's' => Sub,
                    'm' => Mul,
                    'd' => Div,
                    _ => Number,
                };
                (kind, s.as_str())
            })
            .collect();
        let (ast, resolver) = Parser {
            builder: GreenNodeBuilder::new(),
            iter:    toks.into_iter().peekable(),
        }
        .parse();
        ast.resolve_text(&resolver).to_string()
    }
}

#[allow(dead_code, unused, clippy::all)]
mod ex_readme {
    include!(concat!(env!("OUT_DIR"), "/readme.rs"));
    pub fn run(text: &str) -> Result<String, String> {
        let mut p = Parser::new(text);
        p.parse()?;
        let (tree, interner) = p.finish();
        let root = SyntaxNode::<Calculator>::new_root_with_resolver(tree, interner);
        Ok(root.text().to_string())
    }
}

#[allow(dead_code, unused, clippy::all)]
mod ex_sexp {
    include!(concat!(env!("OUT_DIR"), "/s_expressions.rs"));
    pub fn run(text: &str) -> String {
        let p = parse(text);
        p.syntax().resolve_text(&p.resolver).to_string()
    }
}

fn parse_text(s: &str) -> String {
    s.split('.').filter(|x| !x.is_empty()).filter_map(|x| x.parse::<u32>().ok()).filter_map(char::from_u32).collect()
}

fn show(s: &str) -> String {
    s.chars().map(|c| (c as u32).to_string()).collect::<Vec<_>>().join(".")
}

pub fn run_e(args: &[&str]) -> String {
    match args.first().copied() {
        Some("math") => {
            let toks: Vec<(char, String)> = args[1..]
                .iter()
                .map(|a| {
                    let (k, t) = a.split_once(':').unwrap_or((a, ""));
                    (k.chars().next().unwrap_or('n'), parse_text(t))
                })
                .collect();
            match catch(|| ex_math::run(&toks)) {
                Ok(t) => format!("text={}", show(&t)),
                Err(c) => format!("PANIC:{c}"),
            }
        }
        Some("readme") => {
            let text = parse_text(args.get(1).copied().unwrap_or(""));
            match catch(|| ex_readme::run(&text)) {
                Ok(Ok(t)) => format!("text={}", show(&t)),
                Ok(Err(_)) | Err(_) => "REJECT".into(),
            }
        }
        Some("sexp") => {
            let text = parse_text(args.get(1).copied().unwrap_or(""));
            match catch(|| ex_sexp::run(&text)) {
                Ok(t) => format!("text={}", show(&t)),
                Err(c) => format!("PANIC:{c}"),
            }
        }
        _ => "BAD-CASE".into(),
    }
}
