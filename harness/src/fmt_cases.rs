//! `D` cases (C19): Display / Debug of nodes and tokens, with a supplied resolver and through the resolved API.
use crate::builder_cases::{parse_ops, run_ops};
use crate::interners::Shared;
use crate::syn::*;
use cstree::build::NodeCache;
use cstree::syntax::{ResolvedNode, SyntaxNode};
use cstree::util::NodeOrToken;
use std::sync::Arc;

fn flat(s: &str) -> String {
    s.replace('\n', "\u{b6}")
}

/// `D <events>`
pub fn run_d(args: &[&str]) -> String {
    let mut cache = NodeCache::new();
    let Ok(green) = run_ops(&mut cache, &parse_ops(args.iter().copied()), None).1 else { return "BUILD-PANIC".into() };
    let interner = Arc::new(cache.into_interner().unwrap());
    let root: SyntaxNode<K> = SyntaxNode::new_root(green.clone());
    let rroot: ResolvedNode<K> = SyntaxNode::new_root_with_resolver(green, Shared(Arc::clone(&interner)));
    let mut out = Vec::new();
    // every element: non-recursive debug and display, plain API with a supplied resolver vs resolved API
    let plain: Vec<_> = root.descendants_with_tokens().collect();
    let resolved: Vec<_> = rroot.descendants_with_tokens().collect();
    for (a, b) in plain.iter().zip(resolved.iter()) {
        let r = catch(|| {
            let d1 = a.debug(&*interner, false);
            let s1 = a.display(&*interner);
            let (d2, s2) = match b {
                NodeOrToken::Node(n) => (format!("{n:?}"), format!("{n}")),
                NodeOrToken::Token(t) => (format!("{t:?}"), format!("{t}")),
            };
            if d1 != d2 || s1 != s2 {
                format!("API-MISMATCH<{d1}|{d2}|{s1}|{s2}>")
            } else {
                format!("{d1} => {}", show_text(&s1))
            }
        });
        out.push(match r {
            Ok(s) => flat(&s),
            Err(c) => format!("PANIC:{c}"),
        });
    }
    let rec = catch(|| {
        let a = root.debug(&*interner, true);
        let b = format!("{rroot:#?}");
        if a != b {
            format!("API-MISMATCH<{a}|{b}>")
        } else {
            a
        }
    });
    out.push(match rec {
        Ok(s) => format!("REC {}", flat(&s)),
        Err(c) => format!("REC PANIC:{c}"),
    });
    out.join(" ; ")
}
