//! `G` cases (C15): equality / hashing of green trees built by different routes, text_len sums, the child
//! iterator against a plain sequence.  `Y` cases (C14): replace_with.
use crate::builder_cases::{dump_green, parse_ops, run_ops, Op};
use crate::red_cases::dump_ranges;
use crate::syn::*;
use cstree::build::NodeCache;
use cstree::green::{GreenNode, GreenToken};
use cstree::interning::{new_interner, Resolver, TokenInterner, TokenKey};
use cstree::syntax::{SyntaxElement, SyntaxNode};
use cstree::util::NodeOrToken;
use std::hash::{Hash, Hasher};

/// Records everything that is fed to it: two values "hash equally" iff the recorded streams are equal
/// (absolute hash values are never compared, so a change of the hash function is not an alarm).
#[derive(Default)]
struct Rec(Vec<u8>);
impl Hasher for Rec {
    fn finish(&self) -> u64 {
        0
    }
    fn write(&mut self, b: &[u8]) {
        self.0.extend_from_slice(b);
        self.0.push(0xfe);
    }
}
fn stream<T: Hash>(t: &T) -> Vec<u8> {
    let mut r = Rec::default();
    t.hash(&mut r);
    r.0
}

fn split<'a>(args: &'a [&'a str], sep: &str) -> Vec<&'a [&'a str]> {
    args.split(|a| *a == sep).collect()
}

/// rebuild a tree bottom-up by direct construction (GreenNode::new), re-using the token allocations
fn rebuild(n: &GreenNode) -> GreenNode {
    let children: Vec<NodeOrToken<GreenNode, GreenToken>> = n
        .children()
        .map(|c| match c {
            NodeOrToken::Node(x) => NodeOrToken::Node(rebuild(x)),
            NodeOrToken::Token(t) => NodeOrToken::Token(t.clone()),
        })
        .collect();
    GreenNode::new(n.kind(), children)
}

fn len_ok<R: Resolver<TokenKey> + ?Sized>(n: &GreenNode, r: &R) -> (u32, bool) {
    let mut sum = 0u32;
    let mut ok = true;
    for c in n.children() {
        match c {
            NodeOrToken::Node(x) => {
                let (s, o) = len_ok(x, r);
                sum += s;
                ok &= o;
            }
            NodeOrToken::Token(t) => {
                let txt = static_text_of(t.kind().0).unwrap_or_else(|| t.text(r).unwrap());
                ok &= u32::from(t.text_len()) as usize == txt.len();
                sum += txt.len() as u32;
            }
        }
    }
    (sum, ok && u32::from(n.text_len()) == sum)
}

fn show_child(c: NodeOrToken<&GreenNode, &GreenToken>) -> String {
    match c {
        NodeOrToken::Node(n) => format!("n{}@{}", n.kind().0, u32::from(n.text_len())),
        NodeOrToken::Token(t) => format!("t{}@{}", t.kind().0, u32::from(t.text_len())),
    }
}

fn iter_script(n: &GreenNode, script: &[&str]) -> String {
    let mut it = n.children();
    let mut out = Vec::new();
    let opt = |c: Option<NodeOrToken<&GreenNode, &GreenToken>>| c.map(show_child).unwrap_or_else(|| "-".into());
    for op in script {
        let (c, rest) = op.split_at(1);
        out.push(match c {
            "n" => opt(it.next()),
            "b" => opt(it.next_back()),
            "t" => opt(it.nth(rest.parse().unwrap())),
            "u" => opt(it.nth_back(rest.parse().unwrap())),
            "l" => it.len().to_string(),
            "c" => it.clone().count().to_string(),
            "z" => opt(it.clone().last()),
            "h" => {
                let (lo, hi) = it.size_hint();
                format!("{lo}-{}", hi.unwrap())
            }
            "f" => it.clone().fold(String::new(), |a, c| a + &show_child(c) + "+"),
            "r" => it.clone().rfold(String::new(), |a, c| a + &show_child(c) + "+"),
            _ => "?".into(),
        });
    }
    out.join(" ")
}

fn b(x: bool) -> char {
    if x {
        '1'
    } else {
        '0'
    }
}

/// `G <events1> / <events2> | <iterator script>`
pub fn run_g(args: &[&str]) -> String {
    // optional first argument `m<hex>`: mask applied to every 32-bit child hash (forces collisions)
    let (mask, args) = match args.first() {
        Some(m) if m.starts_with('m') => (u32::from_str_radix(&m[1..], 16).unwrap_or(u32::MAX), &args[1..]),
        _ => (u32::MAX, args),
    };
    cstree::verif::set_hash_mask(mask);
    let out = run_g_inner(args);
    cstree::verif::set_hash_mask(u32::MAX);
    out
}

fn run_g_inner(args: &[&str]) -> String {
    let parts = split(args, "|");
    let builds = split(parts[0], "/");
    let script: &[&str] = if parts.len() > 1 { parts[1] } else { &[] };
    let ev1 = parse_ops(builds[0].iter().copied());
    let ev2 = parse_ops(builds.get(1).copied().unwrap_or(builds[0]).iter().copied());
    let mut interner: TokenInterner = new_interner();
    let (t1, t2) = {
        let mut cache = NodeCache::with_interner(&mut interner);
        let a = run_ops(&mut cache, &ev1, None).1;
        let c = run_ops(&mut cache, &ev2, None).1;
        (a, c)
    };
    let (Ok(t1), Ok(t2)) = (t1, t2) else { return "BUILD-PANIC".into() };
    // the first tree again through a FRESH cache over the same interner
    let t1f = {
        let mut cache = NodeCache::with_interner(&mut interner);
        run_ops(&mut cache, &ev1, None).1.unwrap()
    };
    let t1n = rebuild(&t1);
    let eq = t1 == t2;
    let heq = if eq { b(stream(&t1) == stream(&t2)) } else { '-' };
    let (_, lo1) = len_ok(&t1, &interner);
    let (_, lo2) = len_ok(&t2, &interner);
    format!(
        "eq={} heq={} sym={} new_eq={} new_heq={} fresh_eq={} fresh_heq={} len_ok={} | {}",
        b(eq),
        heq,
        b((t2 == t1) == eq),
        b(t1 == t1n && t1n == t1),
        b(stream(&t1) == stream(&t1n)),
        b(t1 == t1f),
        b(stream(&t1) == stream(&t1f)),
        b(lo1 && lo2),
        iter_script(&t1, script)
    )
}

fn text_cps(s: &str) -> String {
    show_text(s)
}

/// `Y <events> | <path: i.j.k or -> | <replacement events>`
pub fn run_y(args: &[&str]) -> String {
    // optional first argument `m<hex>`: mask applied to every 32-bit child hash (forces collisions)
    let (mask, args) = match args.first() {
        Some(m) if m.starts_with('m') => (u32::from_str_radix(&m[1..], 16).unwrap_or(u32::MAX), &args[1..]),
        _ => (u32::MAX, args),
    };
    cstree::verif::set_hash_mask(mask);
    let out = run_y_inner(args);
    cstree::verif::set_hash_mask(u32::MAX);
    out
}

fn run_y_inner(args: &[&str]) -> String {
    let parts = split(args, "|");
    let ev = parse_ops(parts[0].iter().copied());
    let path: Vec<usize> = parts[1].first().filter(|p| **p != "-").map(|p| p.split('.').map(|x| x.parse().unwrap()).collect()).unwrap_or_default();
    let rev: Vec<Op> = parse_ops(parts[2].iter().copied());
    let mut cache = NodeCache::new();
    let (Ok(t), Ok(r)) = (run_ops(&mut cache, &ev, None).1, run_ops(&mut cache, &rev, None).1) else {
        return "BUILD-PANIC".into();
    };
    let interner = cache.into_interner().unwrap();
    let before = {
        let mut s = String::new();
        dump_green(&t, &interner, &mut s);
        s
    };
    let root: SyntaxNode<K> = SyntaxNode::new_root(t.clone());
    // a red tree on the original that stays alive across the replacement
    let witness: SyntaxNode<K> = SyntaxNode::new_root(t.clone());
    let witness_before = dump_ranges(&witness);
    let mut cur: SyntaxElement<K> = NodeOrToken::Node(root.clone());
    for i in &path {
        let next = match &cur {
            NodeOrToken::Node(n) => n.children_with_tokens().nth(*i).map(|e| match e {
                NodeOrToken::Node(x) => NodeOrToken::Node(x.clone()),
                NodeOrToken::Token(x) => NodeOrToken::Token(x.clone()),
            }),
            NodeOrToken::Token(_) => None,
        };
        match next {
            Some(e) => cur = e,
            None => return "NO-SUCH-POSITION".into(),
        }
    }
    let result = match &cur {
        NodeOrToken::Node(n) => catch(|| n.replace_with(r.clone())),
        NodeOrToken::Token(tk) => {
            let Some(rt) = r.children().find_map(|c| c.as_token().map(|t| (*t).clone())) else {
                return "NO-REPLACEMENT-TOKEN".into();
            };
            catch(|| tk.replace_with(rt))
        }
    };
    let after_orig = {
        let mut s = String::new();
        dump_green(&t, &interner, &mut s);
        s
    };
    let unchanged = b(after_orig == before && dump_ranges(&witness) == witness_before);
    match result {
        Err(c) => format!("PANIC:{c} orig_unchanged={unchanged}"),
        Ok(new) => {
            let mut s = String::new();
            dump_green(&new, &interner, &mut s);
            let red: SyntaxNode<K> = SyntaxNode::new_root(new.clone());
            let text = red.resolve_text(&interner).to_string();
            // the result equals (and hashes like) the same tree constructed from scratch
            let fresh = rebuild(&new);
            let h = |g: &GreenNode| {
                use std::hash::{Hash, Hasher};
                let mut st = std::collections::hash_map::DefaultHasher::new();
                g.hash(&mut st);
                st.finish()
            };
            format!(
                "{s} text={} ranges={} orig_unchanged={unchanged} fresh={}{}",
                text_cps(&text),
                dump_ranges(&red),
                b(new == fresh && fresh == new),
                b(h(&new) == h(&fresh))
            )
        }
    }
}
