//! implrun: executes case files against the real cstree (path dependency on /repo/cstree).
//! One case per input line, one canonical result line per case on stdout.
mod builder_cases;
mod interners;
mod syn;

use std::io::{BufRead, Write};

fn run_line(line: &str) -> String {
    let mut it = line.split(' ').filter(|s| !s.is_empty());
    let Some(kind) = it.next() else { return String::new() };
    let args: Vec<&str> = it.collect();
    match kind {
        "B" => builder_cases::run_case(&args),
        "H" => builder_cases::run_history(&args),
        _ => format!("?unknown-case-kind {kind}"),
    }
}

fn main() {
    // panics are expected and caught; keep stderr quiet
    std::panic::set_hook(Box::new(|_| {}));
    let path = std::env::args().nth(1).expect("usage: implrun <casefile>");
    let f = std::io::BufReader::new(std::fs::File::open(path).expect("open case file"));
    let out = std::io::stdout();
    let mut out = std::io::BufWriter::new(out.lock());
    for line in f.lines() {
        let line = line.unwrap();
        let r = match syn::catch(|| run_line(&line)) {
            Ok(s) => s,
            Err(c) => format!("HARNESS-PANIC:{c}"),
        };
        writeln!(out, "{r}").unwrap();
    }
}
