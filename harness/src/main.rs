//! implrun: executes case files against the real cstree (path dependency on /repo/cstree).
//! One case per input line, one canonical result line per case on stdout.
mod builder_cases;
mod conc_cases;
mod example_cases;
mod fmt_cases;
mod green_cases;
mod intern_cases;
mod red_cases;
mod serde_cases;
mod interners;
mod syn;
mod text_cases;
mod token_cases;

use std::alloc::{GlobalAlloc, Layout, System};
use std::io::{BufRead, Write};
use std::sync::atomic::{AtomicIsize, Ordering};

/// Counting allocator: live bytes (allocated minus freed), for the leak / double-free checks.
struct Counting;
static LIVE: AtomicIsize = AtomicIsize::new(0);
unsafe impl GlobalAlloc for Counting {
    unsafe fn alloc(&self, l: Layout) -> *mut u8 {
        LIVE.fetch_add(l.size() as isize, Ordering::Relaxed);
        System.alloc(l)
    }
    unsafe fn dealloc(&self, p: *mut u8, l: Layout) {
        LIVE.fetch_sub(l.size() as isize, Ordering::Relaxed);
        System.dealloc(p, l)
    }
    unsafe fn realloc(&self, p: *mut u8, l: Layout, n: usize) -> *mut u8 {
        LIVE.fetch_add(n as isize - l.size() as isize, Ordering::Relaxed);
        System.realloc(p, l, n)
    }
}
#[global_allocator]
static ALLOC: Counting = Counting;
pub fn live_bytes() -> isize {
    LIVE.load(Ordering::Relaxed)
}

fn run_line(line: &str) -> String {
    let mut it = line.split(' ').filter(|s| !s.is_empty());
    let Some(kind) = it.next() else { return String::new() };
    let args: Vec<&str> = it.collect();
    match kind {
        "B" => builder_cases::run_case(&args),
        "H" => builder_cases::run_history(&args),
        "D" => fmt_cases::run_d(&args),
        "G" => green_cases::run_g(&args),
        "Y" => green_cases::run_y(&args),
        "I" => intern_cases::run_case(&args),
        "K" => conc_cases::run_k(&args),
        "U" => conc_cases::run_l(&args),
        "R" => conc_cases::run_r(&args),
        "E" => example_cases::run_e(&args),
        "Q" => token_cases::run_q(&args),
        "X" => text_cases::run_x(&args),
        "Z" => serde_cases::run_z(&args),
        "W" => serde_cases::run_w(&args),
        "N" => red_cases::run_case(&args),
        "P" => intern_cases::run_concurrent(&args),
        "L" => {
            // same as H, plus: all memory of the history (trees, cache, interner) is released exactly once
            let before = live_bytes();
            let s = builder_cases::run_history(&args);
            let delta = live_bytes() - before - s.capacity() as isize;
            format!("{s} || leak {delta}")
        }
        _ => format!("?unknown-case-kind {kind}"),
    }
}

fn main() {
    // panics are expected and caught; keep stderr quiet
    std::panic::set_hook(Box::new(|_| {}));
    // warm up lazily initialised runtime state (thread spawning, panic machinery) so that it is not counted as a leak
    let _ = std::thread::spawn(|| ()).join();
    let _ = syn::catch(|| panic!("warm-up"));
    let path = std::env::args().nth(1).expect("usage: implrun <casefile>");
    let f = std::io::BufReader::new(std::fs::File::open(path).expect("open case file"));
    let out = std::io::stdout();
    let mut out = std::io::BufWriter::new(out.lock());
    for line in f.lines() {
        let line = line.unwrap();
        let r = match syn::catch(|| run_line(&line)) {
            Ok(s) => s,
            Err(c) => format!("HARNESS-PANIC:{c}"),
        };
        writeln!(out, "{r}").unwrap();
        // every result reaches the file before the next case runs: if a case kills the process, the runner knows which
        out.flush().unwrap();
    }
}
