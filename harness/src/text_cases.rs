//! `X` cases (C12): the lazy text view (SyntaxText) against the string it denotes.
use crate::builder_cases::{parse_ops, run_ops};
use crate::syn::*;
use cstree::build::NodeCache;
use cstree::interning::TokenInterner;
use cstree::syntax::SyntaxNode;
use cstree::text::{SyntaxText, TextRange, TextSize};
use cstree::util::NodeOrToken;

#[derive(Clone)]
struct View {
    tree:   usize,
    path:   Vec<usize>,
    /// (start, end, given as an `ops` range rather than a `TextRange`); an open end is `None`
    slices: Vec<(Option<u32>, Option<u32>, bool)>,
}

fn node_at(root: &SyntaxNode<K>, path: &[usize]) -> Option<SyntaxNode<K>> {
    let mut cur = root.clone();
    for i in path {
        let next = cur.children_with_tokens().nth(*i)?;
        match next {
            NodeOrToken::Node(n) => {
                let n = n.clone();
                cur = n;
            }
            NodeOrToken::Token(_) => return None,
        }
    }
    Some(cur)
}

fn with_view<R>(
    roots: &[SyntaxNode<K>],
    interner: &TokenInterner,
    v: &View,
    f: impl FnOnce(SyntaxText<'_, '_, TokenInterner, K>) -> R,
) -> Result<R, String> {
    let node = node_at(&roots[v.tree], &v.path).ok_or_else(|| "NO-NODE".to_string())?;
    catch(|| {
        let mut t = node.resolve_text(interner);
        for (a, b, ops_range) in &v.slices {
            t = match (*a, *b, *ops_range) {
                (Some(a), Some(b), false) => t.slice(TextRange::new(TextSize::from(a), TextSize::from(b))),
                (Some(a), Some(b), true) => t.slice(TextSize::from(a)..TextSize::from(b)),
                (Some(a), None, _) => t.slice(TextSize::from(a)..),
                (None, Some(b), _) => t.slice(..TextSize::from(b)),
                (None, None, _) => t.slice(..),
            };
        }
        f(t)
    })
}

/// `X <events1> / <events2> | <ops>`
pub fn run_x(args: &[&str]) -> String {
    let bar = args.iter().position(|a| *a == "|").unwrap_or(args.len());
    let builds: Vec<&[&str]> = args[..bar].split(|a| *a == "/").collect();
    let mut cache = NodeCache::new();
    let mut roots = Vec::new();
    for b in &builds {
        match run_ops(&mut cache, &parse_ops(b.iter().copied()), None).1 {
            Ok(g) => roots.push(SyntaxNode::<K>::new_root(g)),
            Err(_) => return "BUILD-PANIC".into(),
        }
    }
    let interner = cache.into_interner().unwrap();
    let mut views: Vec<Option<View>> = (0..roots.len()).map(|i| Some(View { tree: i, path: vec![], slices: vec![] })).collect();
    let mut out = Vec::new();
    let ops: Vec<&str> = if bar < args.len() { args[bar + 1..].to_vec() } else { vec![] };
    for op in ops {
        let p: Vec<&str> = op.split(':').collect();
        let num = |i: usize| -> u32 { p[i].parse().unwrap() };
        let view = |i: usize| -> Option<View> { p.get(i).and_then(|s| s.parse::<usize>().ok()).and_then(|k| views.get(k).cloned().flatten()) };
        let fmt = |r: Result<String, String>| match r {
            Ok(s) => s,
            Err(c) if c == "NO-NODE" => "-".to_string(),
            Err(c) => format!("PANIC:{c}"),
        };
        match p[0] {
            "node" => {
                let tree = num(1) as usize;
                let path: Vec<usize> = if p[2] == "-" { vec![] } else { p[2].split('.').map(|x| x.parse().unwrap()).collect() };
                if tree < roots.len() && node_at(&roots[tree], &path).is_some() {
                    views.push(Some(View { tree, path, slices: vec![] }));
                    out.push("ok".to_string());
                } else {
                    views.push(None);
                    out.push("-".to_string());
                }
            }
            "slice" | "sliceo" => match view(1) {
                None => {
                    views.push(None);
                    out.push("-".into());
                }
                Some(mut v) => {
                    let end = |i: usize| -> Option<u32> { if p[i] == "_" { None } else { Some(num(i)) } };
                    v.slices.push((end(2), end(3), p[0] == "sliceo"));
                    match with_view(&roots, &interner, &v, |t| u32::from(t.len())) {
                        Ok(l) => {
                            out.push(format!("len={l}"));
                            views.push(Some(v));
                        }
                        Err(c) => {
                            out.push(format!("PANIC:{c}"));
                            views.push(None);
                        }
                    }
                }
            },
            _ => {
                let Some(v) = view(1) else {
                    out.push("-".into());
                    continue;
                };
                let r = match p[0] {
                    "len" => with_view(&roots, &interner, &v, |t| u32::from(t.len()).to_string()),
                    "empty" => with_view(&roots, &interner, &v, |t| (t.is_empty() as u8).to_string()),
                    "str" => with_view(&roots, &interner, &v, |t| {
                        let a = t.to_string();
                        let b: String = t.slice(..).into();
                        let c = format!("{t}");
                        if a != b || a != c { "STRING-FORMS-DIFFER".to_string() } else { show_text(&a) }
                    }),
                    "has" => with_view(&roots, &interner, &v, |t| (t.contains_char(char::from_u32(num(2)).unwrap()) as u8).to_string()),
                    "find" => with_view(&roots, &interner, &v, |t| {
                        t.find_char(char::from_u32(num(2)).unwrap()).map(|x| u32::from(x).to_string()).unwrap_or_else(|| "-".into())
                    }),
                    "at" => with_view(&roots, &interner, &v, |t| {
                        t.char_at(TextSize::from(num(2))).map(|c| (c as u32).to_string()).unwrap_or_else(|| "-".into())
                    }),
                    "eqs" => {
                        let s = parse_text(p.get(2).copied().unwrap_or(""));
                        with_view(&roots, &interner, &v, |t| {
                            // all four impls: text == &str, &str == text, text == str, str == text
                            let a = t == s.as_str();
                            let b = s.as_str() == t;
                            let c = t == *s.as_str();
                            let d = *s.as_str() == t;
                            if a != b || a != c || a != d { "ASYM".to_string() } else { (a as u8).to_string() }
                        })
                    }
                    "eqv" => match view(2) {
                        None => Ok("-".to_string()),
                        Some(w) => with_view(&roots, &interner, &v, |t| with_view(&roots, &interner, &w, |u| {
                            let a = t == u;
                            let b = u == t;
                            if a != b { "ASYM".to_string() } else { (a as u8).to_string() }
                        }))
                        .and_then(|x| x),
                    },
                    "chunks" => with_view(&roots, &interner, &v, |t| {
                        let mut cs = Vec::new();
                        t.for_each_chunk(|c| cs.push(show_text(c)));
                        let folded = t.fold_chunks(String::new(), |a, c| a + c);
                        if folded != t.to_string() { "FOLD-DIFFERS".to_string() } else { format!("[{}]", cs.join("|")) }
                    }),
                    "try" => with_view(&roots, &interner, &v, |t| {
                        let k = num(2) as usize;
                        let mut cs = Vec::new();
                        let r: Result<(), ()> = t.try_for_each_chunk(|c| {
                            if cs.len() == k { return Err(()); }
                            cs.push(show_text(c));
                            Ok(())
                        });
                        format!("{}[{}]", if r.is_ok() { "done" } else { "stopped" }, cs.join("|"))
                    }),
                    _ => Ok("?".to_string()),
                };
                out.push(fmt(r));
            }
        }
    }
    out.join(" ; ")
}
