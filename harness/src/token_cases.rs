//! `Q` cases (C11): token text, static text, text_eq over all ordered pairs of tokens of two trees that
//! share an interner.
use crate::builder_cases::{parse_ops, run_ops};
use crate::syn::*;
use cstree::build::NodeCache;
use cstree::interning::InternKey;
use cstree::syntax::{ResolvedNode, SyntaxNode, SyntaxToken};
use cstree::util::NodeOrToken;

fn tokens(root: &SyntaxNode<K>) -> Vec<SyntaxToken<K>> {
    root.descendants_with_tokens()
        .filter_map(|e| match e {
            NodeOrToken::Token(t) => Some(t.clone()),
            _ => None,
        })
        .collect()
}

/// `Q <events1> / <events2>`
pub fn run_q(args: &[&str]) -> String {
    let builds: Vec<&[&str]> = args.split(|a| *a == "/").collect();
    let mut cache = NodeCache::new();
    let mut greens = Vec::new();
    for b in &builds {
        match run_ops(&mut cache, &parse_ops(b.iter().copied()), None).1 {
            Ok(g) => greens.push(g),
            Err(_) => return "BUILD-PANIC".into(),
        }
    }
    let interner = std::sync::Arc::new(cache.into_interner().unwrap());
    let mut toks = Vec::new();
    let mut rtoks = Vec::new();
    let mut resolved_texts = Vec::new();
    for g in &greens {
        let root: SyntaxNode<K> = SyntaxNode::new_root(g.clone());
        toks.extend(tokens(&root));
        // the same tree through the resolved API (every tree gets its own handle to the shared interner)
        let rroot: ResolvedNode<K> = SyntaxNode::new_root_with_resolver(g.clone(), crate::interners::Shared(std::sync::Arc::clone(&interner)));
        for t in tokens(rroot.syntax()) {
            resolved_texts.push(show_text(t.resolved().text()));
            rtoks.push(t);
        }
    }
    let descr: Vec<String> = toks
        .iter()
        .enumerate()
        .map(|(i, t)| {
            format!(
                "{}:{}:{}:{}:{}",
                t.kind().0,
                show_text(t.resolve_text(&*interner)),
                t.text_key().map(|k| k.into_u32().to_string()).unwrap_or_else(|| "-".into()),
                t.static_text().map(show_text).unwrap_or_else(|| "-".into()),
                if resolved_texts[i] == show_text(t.resolve_text(&*interner)) { "r" } else { "R!" }
            )
        })
        .collect();
    let mut rows = Vec::new();
    for a in &toks {
        let row: String = toks
            .iter()
            .map(|b| match catch(|| a.text_eq(b)) {
                Ok(true) => "1".to_string(),
                Ok(false) => "0".to_string(),
                Err(c) => format!("P{c}"),
            })
            .collect();
        rows.push(row);
    }
    // the same comparisons between tokens of trees that carry a resolver (within and across trees), and mixed
    let cmp = |xs: &[SyntaxToken<K>], ys: &[SyntaxToken<K>]| -> Vec<String> {
        xs.iter()
            .map(|a| {
                ys.iter()
                    .map(|b| match catch(|| a.text_eq(b)) {
                        Ok(true) => "1".to_string(),
                        Ok(false) => "0".to_string(),
                        Err(c) => format!("P{c}"),
                    })
                    .collect::<String>()
            })
            .collect()
    };
    let resolved_rows = cmp(&rtoks, &rtoks);
    let mixed_rows = cmp(&toks, &rtoks);
    let differ = if resolved_rows != rows {
        format!(" | RESOLVED-TREES-DIFFER {}", resolved_rows.join(","))
    } else if mixed_rows != rows {
        format!(" | MIXED-TREES-DIFFER {}", mixed_rows.join(","))
    } else {
        String::new()
    };
    // "adding a static token by kind alone or together with its text gives the same tree": the trees themselves (kinds,
    // lengths, texts) and which tokens are one allocation
    let mut dumps = Vec::new();
    for g in &greens {
        let mut s = String::new();
        crate::builder_cases::dump_green(g, &*interner, &mut s);
        dumps.push(s);
    }
    let mut ids: Vec<usize> = Vec::new();
    let mut seen: Vec<usize> = Vec::new();
    for t in &toks {
        let a = t.green().verif_addr();
        let i = seen.iter().position(|x| *x == a).unwrap_or_else(|| {
            seen.push(a);
            seen.len() - 1
        });
        ids.push(i);
    }
    format!(
        "{} | {} | {} | same {}{}",
        descr.join(" "),
        rows.join(","),
        dumps.join(" / "),
        ids.iter().map(|i| i.to_string()).collect::<Vec<_>>().join(","),
        differ
    )
}
