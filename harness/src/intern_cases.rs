//! `I` cases: intern / resolve / raw-key sequences against every interner backend (C10);
//! `P` cases: concurrent interning.
use crate::interners::UserInterner;
use crate::syn::*;
use cstree::interning::{new_interner, InternKey, Interner, Resolver, TokenKey};

fn run_ops<I: Interner<TokenKey>>(i: &mut I, ops: &[&str]) -> String {
    let mut out = Vec::new();
    for op in ops {
        let (c, rest) = op.split_at(1);
        match c {
            "i" => match i.try_get_or_intern(&parse_text(rest)) {
                Ok(k) => out.push(k.into_u32().to_string()),
                Err(_) => out.push("E".to_string()),
            },
            // infallible entry point (panics on exhaustion)
            "j" => match catch(|| i.get_or_intern(&parse_text(rest))) {
                Ok(k) => out.push(k.into_u32().to_string()),
                Err(_) => out.push("E".to_string()),
            },
            "r" => {
                let raw: u32 = rest.parse().unwrap();
                match TokenKey::try_from_u32(raw) {
                    None => out.push("x".to_string()),
                    Some(k) => match i.try_resolve(k) {
                        Some(s) => out.push(format!("={}", show_text(s))),
                        None => out.push("-".to_string()),
                    },
                }
            }
            "k" => {
                let raw: u32 = rest.parse().unwrap();
                match TokenKey::try_from_u32(raw) {
                    None => out.push("x".to_string()),
                    Some(k) => out.push(format!("k{}", k.into_u32())),
                }
            }
            // the lasso view of a cstree key: usize -> TokenKey -> usize (64-bit raw values)
            #[cfg(feature = "lasso")]
            "u" => {
                let raw: u64 = rest.parse().unwrap();
                match <TokenKey as lasso::Key>::try_from_usize(raw as usize) {
                    None => out.push("x".to_string()),
                    Some(k) => out.push(format!("k{}", lasso::Key::into_usize(k))),
                }
            }
            _ => panic!("bad intern op {op}"),
        }
    }
    out.join(" ")
}

pub fn run_case(args: &[&str]) -> String {
    let backend = args[0];
    let ops = &args[1..];
    match backend {
        "d" => run_ops(&mut new_interner(), ops),
        "w" => {
            let mut i = new_interner();
            let mut fwd = &mut i;
            run_ops(&mut fwd, ops)
        }
        "u" => run_ops(&mut UserInterner::default(), ops),
        #[cfg(feature = "lasso")]
        "r" => run_ops(&mut lasso::Rodeo::<lasso::Spur>::new(), ops),
        #[cfg(feature = "lasso")]
        "k" => run_ops(&mut lasso::Rodeo::<TokenKey>::new(), ops),
        #[cfg(feature = "lasso")]
        "m" => run_ops(&mut lasso::Rodeo::<lasso::MiniSpur>::new(), ops),
        #[cfg(feature = "lasso")]
        "c" => run_ops(&mut lasso::Rodeo::<lasso::MicroSpur>::new(), ops),
        #[cfg(feature = "lasso")]
        "t" => run_ops(&mut cstree::interning::new_threaded_interner(), ops),
        #[cfg(feature = "lasso")]
        "h" => {
            let i = lasso::ThreadedRodeo::<lasso::Spur>::new();
            run_ops(&mut &i, ops)
        }
        #[cfg(feature = "lasso")]
        "a" => run_ops(&mut std::sync::Arc::new(cstree::interning::new_threaded_interner()), ops),
        _ => format!("?backend {backend}"),
    }
}

/// `P <backend> <threads> <strings> <seed>`: threads intern overlapping subsets of a string pool through a
/// shared thread-safe interner; afterwards every key any thread got must resolve to its string, equal strings
/// must have equal keys across threads, distinct strings distinct keys.
#[cfg(feature = "lasso")]
pub fn run_concurrent(args: &[&str]) -> String {
    use std::collections::HashMap;
    use std::sync::Arc;
    let backend = args[0];
    let threads: usize = args[1].parse().unwrap();
    let nstr: usize = args[2].parse().unwrap();
    let seed: u64 = args[3].parse().unwrap();
    let pool: Vec<String> = (0..nstr)
        .map(|i| match i % 4 {
            0 => format!("s{i}"),
            1 => format!("\u{e9}{i}"),
            2 => format!("{i}\u{1d11e}"),
            _ => "x".repeat(i % 7),
        })
        .collect();
    let pool = Arc::new(pool);
    let pool2 = Arc::clone(&pool);
    // every thread resolves a key as soon as it has got it (a key that was handed out must resolve at once, whatever the
    // other threads are doing), and also interns strings of its own that no other thread knows
    let fails = Arc::new(std::sync::atomic::AtomicUsize::new(0));
    let fails2 = Arc::clone(&fails);
    let work = move |t: usize, intern: &mut dyn FnMut(&str) -> (TokenKey, Option<String>)| -> Vec<(usize, u32)> {
        let pool = &pool2;
        let mut x = seed.wrapping_mul(6364136223846793005).wrapping_add(t as u64 * 1442695040888963407 + 1);
        let mut got = Vec::new();
        for j in 0..(nstr * 3) {
            x ^= x << 13;
            x ^= x >> 7;
            x ^= x << 17;
            let i = (x % nstr as u64) as usize;
            let (k, now) = intern(&pool[i]);
            if now.as_deref() != Some(pool[i].as_str()) {
                fails2.fetch_add(1, std::sync::atomic::Ordering::SeqCst);
            }
            got.push((i, k.into_u32()));
            let own = format!("own-{t}-{j}-{seed}");
            let (_, now) = intern(&own);
            if now.as_deref() != Some(own.as_str()) {
                fails2.fetch_add(1, std::sync::atomic::Ordering::SeqCst);
            }
        }
        got
    };
    let mut all: Vec<Vec<(usize, u32)>> = Vec::new();
    let resolve: Box<dyn Fn(u32) -> Option<String>>;
    match backend {
        "a" => {
            let shared = Arc::new(cstree::interning::new_threaded_interner());
            let hs: Vec<_> = (0..threads)
                .map(|t| {
                    let mut mine = Arc::clone(&shared);
                    let work = work.clone();
                    std::thread::spawn(move || {
                        work(t, &mut |s| {
                            let k = mine.get_or_intern(s);
                            (k, mine.try_resolve(k).map(|r| r.to_string()))
                        })
                    })
                })
                .collect();
            for h in hs {
                all.push(h.join().unwrap());
            }
            resolve = Box::new(move |raw| TokenKey::try_from_u32(raw).and_then(|k| shared.try_resolve(k).map(|s| s.to_string())));
        }
        "h" => {
            let shared = Arc::new(lasso::ThreadedRodeo::<lasso::Spur>::new());
            let hs: Vec<_> = (0..threads)
                .map(|t| {
                    let mine = Arc::clone(&shared);
                    let work = work.clone();
                    std::thread::spawn(move || {
                        work(t, &mut |s| {
                            let k = (&mut &*mine).get_or_intern(s);
                            (k, Resolver::<TokenKey>::try_resolve(&*mine, k).map(|r| r.to_string()))
                        })
                    })
                })
                .collect();
            for h in hs {
                all.push(h.join().unwrap());
            }
            resolve = Box::new(move |raw| {
                TokenKey::try_from_u32(raw).and_then(|k| Resolver::<TokenKey>::try_resolve(&*shared, k).map(|s| s.to_string()))
            });
        }
        _ => return format!("?backend {backend}"),
    }
    let mut by_str: HashMap<usize, u32> = HashMap::new();
    let mut by_key: HashMap<u32, String> = HashMap::new();
    for got in &all {
        for (i, k) in got {
            let s = &pool[*i];
            match resolve(*k) {
                Some(r) if &r == s => {}
                other => return format!("key {k} handed out for {:?} resolves to {:?}", s, other),
            }
            if let Some(prev) = by_key.insert(*k, s.clone()) {
                if &prev != s {
                    return format!("key {k} handed out for two strings {:?} and {:?}", prev, s);
                }
            }
            // equal strings (the pool may contain duplicates: compare by content)
            let canon = pool.iter().position(|p| p == s).unwrap();
            if let Some(prev) = by_str.insert(canon, *k) {
                if prev != *k {
                    return format!("string {:?} got two keys {prev} and {k}", s);
                }
            }
        }
    }
    let f = fails.load(std::sync::atomic::Ordering::SeqCst);
    if f > 0 {
        return format!("{f} keys did not resolve to their string right after they were handed out");
    }
    "ok".to_string()
}
#[cfg(not(feature = "lasso"))]
pub fn run_concurrent(_args: &[&str]) -> String {
    "ok".to_string()
}
