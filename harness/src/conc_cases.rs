//! `K` cases (C05, C06, C18): small multi-threaded programs over one shared tree, executed under a
//! deterministic scheduler at the granularity of the verification hooks (lock requests and read-modify-writes
//! on the tree's reference count).  Exactly one thread runs at a time; the schedule says which one goes next.
use crate::builder_cases::{parse_ops, run_ops};
use crate::syn::*;
use cstree::build::NodeCache;
use cstree::syntax::{SyntaxElement, SyntaxNode};
use cstree::util::NodeOrToken;
use cstree::verif::{self, Event};
use std::cell::Cell;
use std::collections::{HashMap, HashSet};
use std::sync::atomic::{AtomicUsize, Ordering};
use std::sync::{Arc, Condvar, Mutex};
use std::time::Duration;

pub static CREATED: AtomicUsize = AtomicUsize::new(0);
pub static DROPPED: AtomicUsize = AtomicUsize::new(0);

/// Node data payload that counts its creations and drops.
#[derive(Debug)]
pub struct Payload(pub u32);
impl Payload {
    fn new(v: u32) -> Self {
        CREATED.fetch_add(1, Ordering::SeqCst);
        Payload(v)
    }
}
impl Drop for Payload {
    fn drop(&mut self) {
        // user code runs here: in `U` cases the destructor of a payload is a scheduling point of its own
        if USER_YIELD.load(Ordering::SeqCst) {
            user_yield();
        }
        DROPPED.fetch_add(1, Ordering::SeqCst);
        if let Some(log) = DROP_LOG.lock().unwrap().as_mut() {
            log.push(self.0);
        }
    }
}

/// `R` cases: which payloads were dropped (= which trees were torn down), in order
static DROP_LOG: Mutex<Option<Vec<u32>>> = Mutex::new(None);

/// `R <n> | <ops>`: n trees, each with a payload on its root and one handle in register t; operations on the handle
/// registers: `c<r>` clone, `k<r>` a handle to another node of the same tree, `d<r>` drop, `f<a>:<b>` clone_from,
/// `s<a>:<b>` mem::swap.  Output: per operation the trees torn down by it; then the same for dropping all
/// remaining handles in register order; then the bytes still allocated.
pub fn run_r(args: &[&str]) -> String {
    let before = crate::live_bytes();
    let out = run_r_inner(args);
    let leak = crate::live_bytes() - before - out.capacity() as isize;
    out.replace("leak=?", &format!("leak={leak}"))
}

fn run_r_inner(args: &[&str]) -> String {
    let n: usize = args[0].parse().unwrap();
    let ops = &args[2..];
    let events = ["S1", "S2", "T5:97", "F", "T5:98", "F"];
    let mut regs: Vec<Option<Node>> = Vec::new();
    for t in 0..n {
        let mut cache = NodeCache::new();
        let Ok(green) = run_ops(&mut cache, &parse_ops(events.iter().copied()), None).1 else { return "BUILD-PANIC".into() };
        let root: Node = SyntaxNode::new_root(green);
        root.set_data(Payload::new(t as u32));
        regs.push(Some(root));
    }
    *DROP_LOG.lock().unwrap() = Some(Vec::new());
    let torn = || -> String {
        let l: Vec<u32> = std::mem::take(DROP_LOG.lock().unwrap().as_mut().unwrap());
        if l.is_empty() { "-".into() } else { l.iter().map(|t| format!("t{t}")).collect::<Vec<_>>().join("+") }
    };
    let mut out = Vec::new();
    for op in ops {
        let (c, rest) = op.split_at(1);
        let idx: Vec<usize> = rest.split(':').map(|x| x.parse().unwrap()).collect();
        match c {
            "c" => {
                let h = regs.get(idx[0]).cloned().flatten();
                regs.push(h);
            }
            "k" => {
                let h = regs.get(idx[0]).and_then(|x| x.as_ref()).map(|n| n.first_child().or(n.parent()).expect("another node of the tree").clone());
                regs.push(h);
            }
            "d" => {
                if let Some(r) = regs.get_mut(idx[0]) {
                    *r = None;
                }
            }
            "f" => {
                let (a, b) = (idx[0], idx[1]);
                if a != b && a < regs.len() && b < regs.len() {
                    // two distinct registers: borrow both
                    let (lo, hi) = regs.split_at_mut(a.max(b));
                    let (dst, src) = if a < b { (&mut lo[a], &hi[0]) } else { (&mut hi[0], &lo[b]) };
                    if let (Some(dst), Some(src)) = (dst.as_mut(), src.as_ref()) {
                        dst.clone_from(src);
                    }
                } else if a == b && a < regs.len() {
                    let src = regs[a].clone();
                    if let (Some(dst), Some(src)) = (regs[a].as_mut(), src.as_ref()) {
                        dst.clone_from(src);
                    }
                }
            }
            "s" => {
                if idx[0] < regs.len() && idx[1] < regs.len() {
                    regs.swap(idx[0], idx[1]);
                }
            }
            _ => return format!("BAD-OP {op}"),
        }
        out.push(torn());
    }
    let mut fin = Vec::new();
    for r in regs.iter_mut() {
        *r = None;
        fin.push(torn());
    }
    drop(regs);
    *DROP_LOG.lock().unwrap() = None;
    format!("RH {} || {} || leak=?", out.join(" "), fin.join(" "))
}

/// `U` cases: the destructor of a payload yields to the scheduler (a user destructor may take arbitrarily long)
pub static USER_YIELD: std::sync::atomic::AtomicBool = std::sync::atomic::AtomicBool::new(false);

fn user_yield() {
    let Some(s) = current() else { return };
    let Some(tid) = TID.with(|t| t.get()) else { return };
    let (m, cv) = &*s;
    let mut g = m.lock().unwrap();
    // parked like at a blocking point of the library, always runnable, nothing recorded in the trace
    g.waiting.insert(tid, Event::Load { order: Ordering::Relaxed });
    cv.notify_all();
    while g.granted != Some(tid) {
        let (ng, to) = cv.wait_timeout(g, Duration::from_secs(20)).unwrap();
        g = ng;
        if to.timed_out() {
            eprintln!("scheduled thread {tid} timed out in a payload destructor");
            std::process::exit(3);
        }
    }
    g.granted = None;
    g.waiting.remove(&tid);
}

type Node = SyntaxNode<K, Payload>;
type Elem = SyntaxElement<K, Payload>;

thread_local! { static TID: Cell<Option<usize>> = const { Cell::new(None) }; }

#[derive(Default)]
struct LockState {
    readers: HashSet<usize>,
    writer:  Option<usize>,
}

/// what the trace records: hook events and the boundaries of the program operations of each thread
#[derive(Clone, Copy)]
enum Tr {
    Ev(Event),
    Begin(usize),
    End(usize),
}

#[derive(Default)]
struct Sched {
    waiting:  HashMap<usize, Event>,
    granted:  Option<usize>,
    finished: HashSet<usize>,
    trace:    Vec<(usize, Tr)>,
    locks:    HashMap<usize, LockState>,
    /// the Alloc event of the root block (created before the threads start)
    root:     Option<Event>,
}

static SCHED: Mutex<Option<Arc<(Mutex<Sched>, Condvar)>>> = Mutex::new(None);

fn current() -> Option<Arc<(Mutex<Sched>, Condvar)>> {
    SCHED.lock().unwrap().clone()
}

fn is_blocking(e: &Event) -> bool {
    matches!(e, Event::Lock { .. } | Event::Rmw { .. } | Event::Load { .. })
}

impl Sched {
    fn runnable(&self, tid: usize, e: &Event) -> bool {
        match e {
            Event::Lock { addr, write: false } => self.locks.get(addr).map(|l| l.writer.is_none()).unwrap_or(true),
            Event::Lock { addr, write: true } => self
                .locks
                .get(addr)
                .map(|l| l.writer.is_none() && l.readers.iter().all(|r| *r == tid))
                .unwrap_or(true),
            _ => true,
        }
    }

    fn apply(&mut self, tid: usize, e: &Event) {
        match e {
            Event::Lock { addr, write: false } => {
                self.locks.entry(*addr).or_default().readers.insert(tid);
            }
            Event::Unlock { addr, write: false } => {
                self.locks.entry(*addr).or_default().readers.remove(&tid);
            }
            Event::Lock { addr, write: true } => self.locks.entry(*addr).or_default().writer = Some(tid),
            Event::Unlock { addr, write: true } => self.locks.entry(*addr).or_default().writer = None,
            _ => {}
        }
    }
}

fn observer(e: Event) {
    let Some(s) = current() else { return };
    let (m, cv) = &*s;
    let Some(tid) = TID.with(|t| t.get()) else {
        if matches!(e, Event::Alloc { .. }) {
            let mut g = m.lock().unwrap();
            if g.root.is_none() {
                g.root = Some(e);
            }
        }
        return;
    };
    let mut g = m.lock().unwrap();
    if is_blocking(&e) {
        g.waiting.insert(tid, e);
        cv.notify_all();
        while g.granted != Some(tid) {
            let (ng, to) = cv.wait_timeout(g, Duration::from_secs(20)).unwrap();
            g = ng;
            if to.timed_out() {
                eprintln!("scheduled thread {tid} timed out");
                std::process::exit(3);
            }
        }
        g.granted = None;
        g.waiting.remove(&tid);
    }
    g.apply(tid, &e);
    g.trace.push((tid, Tr::Ev(e)));
}

fn mark(tid: usize, m: Tr) {
    if let Some(s) = current() {
        s.0.lock().unwrap().trace.push((tid, m));
    }
}

fn finished(tid: usize) {
    if let Some(s) = current() {
        let (m, cv) = &*s;
        m.lock().unwrap().finished.insert(tid);
        cv.notify_all();
    }
}

fn own(e: cstree::syntax::SyntaxElementRef<'_, K, Payload>) -> Elem {
    match e {
        NodeOrToken::Node(n) => NodeOrToken::Node(n.clone()),
        NodeOrToken::Token(t) => NodeOrToken::Token(t.clone()),
    }
}

fn ident(e: &Elem) -> String {
    match e {
        NodeOrToken::Node(n) => {
            let mut p = Vec::new();
            let mut cur = n;
            while let Some(i) = cur.verif_index() {
                p.push(i);
                cur = cur.parent().unwrap();
            }
            p.reverse();
            let r = n.text_range();
            format!("n{}#{:x}@{}..{}", p.iter().map(|i| format!("/{i}")).collect::<String>(), n.verif_addr(), u32::from(r.start()), u32::from(r.end()))
        }
        NodeOrToken::Token(t) => {
            let mut p = vec![t.verif_index()];
            let mut cur = t.parent();
            while let Some(i) = cur.verif_index() {
                p.push(i);
                cur = cur.parent().unwrap();
            }
            p.reverse();
            let r = t.text_range();
            format!("t{}#{:x}@{}..{}", p.iter().map(|i| format!("/{i}")).collect::<String>(), t.parent().verif_addr(), u32::from(r.start()), u32::from(r.end()))
        }
    }
}

/// the program of one thread: operations over its handle registers (register 0 = its clone of the root).
/// Operations BORROW the source register (no hidden clone); navigation results are cloned into a new register.
fn run_program(tid: usize, root: Node, prog: Vec<String>) -> Vec<String> {
    TID.with(|t| t.set(Some(tid)));
    let mut regs: Vec<Option<Elem>> = vec![Some(NodeOrToken::Node(root))];
    let mut out = Vec::new();
    enum Res {
        NewReg(Option<Elem>),
        DropReg,
        Text(String),
    }
    for (opi, op) in prog.iter().enumerate() {
        mark(tid, Tr::Begin(opi));
        let (c, rest) = op.split_at(1);
        let mut parts = rest.split(':');
        let r: usize = parts.next().and_then(|x| x.parse().ok()).unwrap_or(0);
        let arg: Option<u32> = parts.next().and_then(|x| x.parse().ok());
        let res = {
            let src: Option<&Elem> = regs.get(r).and_then(|x| x.as_ref());
            match (c, src) {
                ("f", Some(NodeOrToken::Node(n))) => Res::NewReg(n.first_child_or_token().map(own)),
                ("l", Some(NodeOrToken::Node(n))) => Res::NewReg(n.last_child_or_token().map(own)),
                ("c", Some(NodeOrToken::Node(n))) => Res::NewReg(n.children_with_tokens().nth(arg.unwrap_or(0) as usize).map(own)),
                ("s", Some(NodeOrToken::Node(n))) => Res::NewReg(n.next_sibling_or_token().map(own)),
                ("s", Some(NodeOrToken::Token(t))) => Res::NewReg(t.next_sibling_or_token().map(own)),
                ("p", Some(NodeOrToken::Node(n))) => Res::NewReg(n.prev_sibling_or_token().map(own)),
                ("p", Some(NodeOrToken::Token(t))) => Res::NewReg(t.prev_sibling_or_token().map(own)),
                // the same hops through the NODE-ONLY routes (first_child, last_child, next_sibling, prev_sibling) whenever the
                // element they reach is a node: same position, same protocol, other code (get_or_add_node)
                ("a", Some(NodeOrToken::Node(n))) => Res::NewReg(if n.green().children().next().map_or(false, |c| c.as_node().is_some()) {
                    n.first_child().map(|c| NodeOrToken::Node(c.clone()))
                } else {
                    n.first_child_or_token().map(own)
                }),
                ("z", Some(NodeOrToken::Node(n))) => Res::NewReg(if n.green().children().next_back().map_or(false, |c| c.as_node().is_some()) {
                    n.last_child().map(|c| NodeOrToken::Node(c.clone()))
                } else {
                    n.last_child_or_token().map(own)
                }),
                ("n", Some(NodeOrToken::Node(n))) => {
                    let next_is_node = n.parent().zip(n.verif_index()).map_or(false, |(p, i)| p.green().children().nth(i as usize + 1).map_or(false, |c| c.as_node().is_some()));
                    Res::NewReg(if next_is_node { n.next_sibling().map(|c| NodeOrToken::Node(c.clone())) } else { n.next_sibling_or_token().map(own) })
                }
                ("n", Some(NodeOrToken::Token(t))) => Res::NewReg(t.next_sibling_or_token().map(own)),
                ("b", Some(NodeOrToken::Node(n))) => {
                    let prev_is_node = n.parent().zip(n.verif_index()).map_or(false, |(p, i)| i > 0 && p.green().children().nth(i as usize - 1).map_or(false, |c| c.as_node().is_some()));
                    Res::NewReg(if prev_is_node { n.prev_sibling().map(|c| NodeOrToken::Node(c.clone())) } else { n.prev_sibling_or_token().map(own) })
                }
                ("b", Some(NodeOrToken::Token(t))) => Res::NewReg(t.prev_sibling_or_token().map(own)),
                ("k", Some(e)) => Res::NewReg(Some(e.clone())),
                ("d", Some(_)) => Res::DropReg,
                ("S", Some(NodeOrToken::Node(n))) => Res::Text(format!("set={}", n.set_data(Payload::new(arg.unwrap_or(0))).0)),
                ("T", Some(NodeOrToken::Node(n))) => Res::Text(match n.try_set_data(Payload::new(arg.unwrap_or(0))) {
                    Ok(a) => format!("tryset=ok{}", a.0),
                    Err(back) => format!("tryset=err{}", back.0),
                }),
                ("G", Some(NodeOrToken::Node(n))) => Res::Text(match n.get_data() {
                    Some(a) => format!("get={}", a.0),
                    None => "get=-".into(),
                }),
                ("X", Some(NodeOrToken::Node(n))) => {
                    n.clear_data();
                    Res::Text("cleared".into())
                }
                (c, _) if "fcslpkaznb".contains(c) => Res::NewReg(None),
                _ => Res::Text("-".into()),
            }
        };
        out.push(match res {
            Res::NewReg(e) => push(&mut regs, e),
            Res::DropReg => {
                regs[r] = None;
                "dropped".into()
            }
            Res::Text(s) => s,
        });
        mark(tid, Tr::End(opi));
    }
    // the remaining handles are dropped in register order
    for r in regs.iter_mut() {
        *r = None;
    }
    drop(regs);
    TID.with(|t| t.set(None));
    finished(tid);
    out
}

fn push(regs: &mut Vec<Option<Elem>>, e: Option<Elem>) -> String {
    let s = e.as_ref().map(ident).unwrap_or_else(|| "-".into());
    regs.push(e);
    s
}

/// `K <events> | <prog thread 0> // <prog thread 1> ... | <schedule: thread ids>`
pub fn run_k(args: &[&str]) -> String {
    // everything the case allocates (tree, threads, scheduler, payloads) must be gone afterwards
    let before = crate::live_bytes();
    let out = run_k_inner(args);
    let leak = crate::live_bytes() - before - out.capacity() as isize;
    out.replace("leak=?", &format!("leak={leak}"))
}

/// `U ...`: a `K` case in which payload destructors are scheduling points; the output is marked `UY`
pub fn run_l(args: &[&str]) -> String {
    USER_YIELD.store(true, Ordering::SeqCst);
    let out = run_k(args);
    USER_YIELD.store(false, Ordering::SeqCst);
    format!("UY {out}")
}

fn run_k_inner(args: &[&str]) -> String {
    let parts: Vec<&[&str]> = args.split(|a| *a == "|").collect();
    if parts.len() != 3 {
        return "BAD-CASE".into();
    }
    let mut cache = NodeCache::new();
    let Ok(green) = run_ops(&mut cache, &parse_ops(parts[0].iter().copied()), None).1 else { return "BUILD-PANIC".into() };
    let progs: Vec<Vec<String>> = parts[1].split(|a| *a == "//").map(|p| p.iter().map(|s| s.to_string()).collect()).collect();
    let schedule: Vec<usize> = parts[2].iter().map(|s| s.parse().unwrap()).collect();
    let n = progs.len();
    CREATED.store(0, Ordering::SeqCst);
    DROPPED.store(0, Ordering::SeqCst);

    let sched = Arc::new((Mutex::new(Sched::default()), Condvar::new()));
    *SCHED.lock().unwrap() = Some(Arc::clone(&sched));
    verif::set_observer(Some(observer));
    let root: Node = SyntaxNode::new_root(green);
    let root_addr = root.verif_addr();
    let clones: Vec<Node> = (0..n).map(|_| root.clone()).collect();
    drop(root); // the handles of the threads are the only ones left
    let handles: Vec<_> = clones
        .into_iter()
        .zip(progs)
        .enumerate()
        .map(|(tid, (r, prog))| {
            std::thread::spawn(move || {
                // a panic inside an operation must not leave the scheduler waiting for this thread
                match std::panic::catch_unwind(std::panic::AssertUnwindSafe(|| run_program(tid, r, prog))) {
                    Ok(v) => v,
                    Err(_) => {
                        TID.with(|t| t.set(None));
                        finished(tid);
                        vec!["THREAD-PANIC".into()]
                    }
                }
            })
        })
        .collect();

    // the scheduler loop
    let (m, cv) = &*sched;
    let mut pos = 0usize;
    let mut rr = 0usize;
    let mut deadlock = false;
    loop {
        let mut g = m.lock().unwrap();
        // wait until every thread is parked at a blocking point or finished, and the last grant was consumed
        while g.granted.is_some() || g.waiting.len() + g.finished.len() < n {
            let (ng, to) = cv.wait_timeout(g, Duration::from_secs(20)).unwrap();
            g = ng;
            if to.timed_out() {
                eprintln!("scheduler timed out");
                std::process::exit(4);
            }
        }
        if g.finished.len() == n {
            break;
        }
        // the scheduled thread if it can run, otherwise the next runnable one in round-robin order
        let want = schedule.get(pos).copied().unwrap_or(rr % n);
        pos += 1;
        let mut chosen = None;
        for k in 0..n {
            let t = (want + k) % n;
            if let Some(e) = g.waiting.get(&t) {
                if g.runnable(t, e) {
                    chosen = Some(t);
                    break;
                }
            }
        }
        match chosen {
            Some(t) => {
                rr = t + 1;
                g.granted = Some(t);
                cv.notify_all();
            }
            None => {
                deadlock = true;
                break;
            }
        }
    }
    if deadlock {
        eprintln!("deadlock under the deterministic scheduler");
        return "DEADLOCK".into();
    }
    let results: Vec<Vec<String>> = handles.into_iter().map(|h| h.join().unwrap_or_else(|_| vec!["THREAD-PANIC".into()])).collect();
    verif::set_observer(None);
    *SCHED.lock().unwrap() = None;
    let trace = std::mem::take(&mut m.lock().unwrap().trace);

    // canonical rendering: blocks renumbered by allocation order (the root block is 0; an address may be re-used
    // after a block was freed: every Alloc starts a new identity); lock addresses are resolved, in trace order, to the
    // data lock or a slot lock of the block that contains them
    struct Block {
        id:         usize,
        data_lock:  usize,
        slot_locks: usize,
        slots:      usize,
        n_slots:    usize,
    }
    let stride = std::mem::size_of::<verif::RwLock<()>>().max(1);
    let cell_stride = std::mem::size_of::<verif::UnsafeCell<Option<Elem>>>().max(1);
    let mut ids: HashMap<usize, usize> = HashMap::new();
    let mut blocks: Vec<Block> = Vec::new();
    ids.insert(root_addr, 0);
    if let Some(Event::Alloc { data_lock, slot_locks, slots, n_slots, .. }) = m.lock().unwrap().root {
        blocks.push(Block { id: 0, data_lock, slot_locks, slots, n_slots });
    }
    let mut next_id = 1usize;
    let mut tr = Vec::new();
    for (t, e) in &trace {
        let e = match e {
            Tr::Begin(k) => {
                tr.push(format!("{t}:({k}"));
                continue;
            }
            Tr::End(k) => {
                tr.push(format!("{t}:){k}"));
                continue;
            }
            Tr::Ev(e) => e,
        };
        if let Event::Alloc { ptr, data_lock, slot_locks, slots, n_slots } = e {
            ids.insert(*ptr, next_id);
            blocks.push(Block { id: next_id, data_lock: *data_lock, slot_locks: *slot_locks, slots: *slots, n_slots: *n_slots });
            next_id += 1;
        }
        let id = |a: usize| -> usize { ids.get(&a).copied().unwrap_or(9999) };
        let lock = |addr: usize, write: bool, acquire: bool| -> String {
            for b in blocks.iter().rev() {
                if addr == b.data_lock {
                    let c = match (write, acquire) {
                        (true, true) => "D",
                        (true, false) => "d",
                        (false, true) => "E",
                        (false, false) => "e",
                    };
                    return format!("{c}{}", b.id);
                }
                if addr >= b.slot_locks && addr < b.slot_locks + b.n_slots * stride && (addr - b.slot_locks) % stride == 0 {
                    let c = match (write, acquire) {
                        (true, true) => "W",
                        (true, false) => "w",
                        (false, true) => "R",
                        (false, false) => "r",
                    };
                    return format!("{c}{}.{}", b.id, (addr - b.slot_locks) / stride);
                }
            }
            format!("L?{addr:x}")
        };
        let cell = |addr: usize| -> String {
            for b in blocks.iter().rev() {
                if addr >= b.slots && addr < b.slots + b.n_slots * cell_stride && (addr - b.slots) % cell_stride == 0 {
                    return format!("a{}.{}", b.id, (addr - b.slots) / cell_stride);
                }
            }
            format!("a?{addr:x}")
        };
        let s = match e {
            Event::Access { addr } => cell(*addr),
            Event::Lock { addr, write } => lock(*addr, *write, true),
            Event::Unlock { addr, write } => lock(*addr, *write, false),
            Event::Rmw { delta, order } => {
                let o = if *order == std::sync::atomic::Ordering::AcqRel { String::new() } else { format!("~{order:?}") };
                format!("{}{}{}", if *delta >= 0 { "+" } else { "" }, delta, o)
            }
            // a plain read of the reference count (the unchanged code has none: every decision is taken on the value a
            // read-modify-write returns)
            Event::Load { order } => format!("?{order:?}"),
            Event::Alloc { ptr, .. } => format!("A{}", id(*ptr)),
            Event::Free { ptr } => format!("F{}", id(*ptr)),
        };
        tr.push(format!("{t}:{s}"));
    }
    let res: Vec<String> = results
        .iter()
        .map(|r| {
            r.iter()
                .map(|s| {
                    // replace the raw address in a handle by its canonical id
                    if let Some(h) = s.find('#') {
                        let end = s[h..].find('@').map(|x| h + x).unwrap_or(s.len());
                        let addr = usize::from_str_radix(&s[h + 1..end], 16).unwrap_or(0);
                        format!("{}#{}{}", &s[..h], ids.get(&addr).copied().map(|x| x.to_string()).unwrap_or_else(|| "?".into()), &s[end..])
                    } else {
                        s.clone()
                    }
                })
                .collect::<Vec<_>>()
                .join(",")
        })
        .collect();
    format!(
        "{} || {} || leak=? payloads={}/{}",
        tr.join(" "),
        res.join(" // "),
        DROPPED.load(Ordering::SeqCst),
        CREATED.load(Ordering::SeqCst)
    )
}
