//! `B` cases: builder operation sequences (C01, C04, C09, C20).
use crate::interners::UserInterner;
use crate::syn::*;
use cstree::build::{Checkpoint, GreenNodeBuilder, NodeCache};
use cstree::green::GreenNode;
use cstree::interning::{Interner, Resolver, TokenKey};
use cstree::util::NodeOrToken;
use std::cell::Cell;
use std::rc::Rc;

#[derive(Debug, Clone)]
pub enum Op {
    Start(u32),
    Token(u32, String),
    TokenFail(u32, String),
    Static(u32),
    FinishNode,
    Checkpoint,
    StartAt(usize, u32),
    Revert(usize),
}

pub fn parse_ops<'a>(toks: impl Iterator<Item = &'a str>) -> Vec<Op> {
    toks.map(|t| {
        let (c, rest) = t.split_at(1);
        match c {
            "S" => Op::Start(rest.parse().unwrap()),
            "T" | "E" => {
                let (k, txt) = rest.split_once(':').unwrap();
                let (k, txt) = (k.parse().unwrap(), parse_text(txt));
                if c == "T" {
                    Op::Token(k, txt)
                } else {
                    Op::TokenFail(k, txt)
                }
            }
            "X" => Op::Static(rest.parse().unwrap()),
            "F" => Op::FinishNode,
            "C" => Op::Checkpoint,
            "A" => {
                let (s, k) = rest.split_once(':').unwrap();
                Op::StartAt(s.parse().unwrap(), k.parse().unwrap())
            }
            "R" => Op::Revert(rest.parse().unwrap()),
            _ => panic!("bad op {t}"),
        }
    })
    .collect()
}

/// Canonical dump of a green tree: `(k@len child ...)` / `[k@len:cps]`.
pub fn dump_green<R: Resolver<TokenKey> + ?Sized>(node: &GreenNode, r: &R, out: &mut String) {
    out.push_str(&format!("({}@{}", node.kind().0, u32::from(node.text_len())));
    for c in node.children() {
        out.push(' ');
        match c {
            NodeOrToken::Node(n) => dump_green(n, r, out),
            NodeOrToken::Token(t) => {
                let txt = match static_text_of(t.kind().0) {
                    Some(s) => s,
                    None => t.text(r).unwrap_or("<none>"),
                };
                out.push_str(&format!("[{}@{}:{}]", t.kind().0, u32::from(t.text_len()), show_text(txt)));
            }
        }
    }
    out.push(')');
}

/// Run the operations, catching every panic and continuing (a caught panic must leave the builder as it was).
/// Returns (trace, finished tree or panic code).
pub fn run_ops<I: Interner<TokenKey>>(
    cache: &mut NodeCache<'_, I>,
    ops: &[Op],
    fail: Option<&Rc<Cell<bool>>>,
) -> (String, Result<GreenNode, String>) {
    let b: GreenNodeBuilder<'_, '_, K, I> = GreenNodeBuilder::with_cache(cache);
    let (trace, fin) = run_ops_b(b, ops, fail);
    (trace, fin.map(|x| x.0))
}

/// The same over a builder made by any of the constructors; also returns what `finish` hands back (the cache, when the
/// builder owned it).
pub fn run_ops_b<'c, 'i, I: Interner<TokenKey>>(
    mut b: GreenNodeBuilder<'c, 'i, K, I>,
    ops: &[Op],
    fail: Option<&Rc<Cell<bool>>>,
) -> (String, Result<(GreenNode, Option<NodeCache<'i, I>>), String>) {
    let mut regs: Vec<Checkpoint> = Vec::new();
    let mut trace = String::new();
    for op in ops {
        let r = catch(|| match op {
            Op::Start(k) => b.start_node(K(*k)),
            Op::Token(k, t) => b.token(K(*k), t),
            Op::TokenFail(k, t) => {
                if let Some(f) = fail {
                    f.set(true);
                }
                b.token(K(*k), t);
                if let Some(f) = fail {
                    f.set(false);
                }
            }
            Op::Static(k) => b.static_token(K(*k)),
            Op::FinishNode => b.finish_node(),
            Op::Checkpoint => regs.push(b.checkpoint()),
            Op::StartAt(i, k) => {
                if let Some(cp) = regs.get(*i) {
                    b.start_node_at(*cp, K(*k))
                }
            }
            Op::Revert(i) => {
                if let Some(cp) = regs.get(*i) {
                    b.revert_to(*cp)
                }
            }
        });
        match r {
            Ok(()) => trace.push('.'),
            Err(c) => trace.push_str(&c),
        }
    }
    let fin = catch(move || b.finish());
    (trace, fin)
}

/// histories through a cache that is MOVED into every builder (`GreenNodeBuilder::from_cache`) and handed back by `finish`
fn history_owned<'i, I: Interner<TokenKey>>(cache: NodeCache<'i, I>, builds: &[Vec<Op>]) -> String {
    let mut cache = Some(cache);
    let mut results: Vec<(String, Result<GreenNode, String>)> = Vec::new();
    for ops in builds {
        let Some(c) = cache.take() else {
            results.push((String::new(), Err("CACHE-LOST".into())));
            continue;
        };
        let (trace, fin) = run_ops_b(GreenNodeBuilder::from_cache(c), ops, None);
        match fin {
            Ok((g, back)) => {
                cache = back;
                results.push((trace, Ok(g)));
            }
            Err(e) => results.push((trace, Err(e))),
        }
    }
    let Some(cache) = cache else { return "CACHE-LOST (finish did not hand the owned cache back)".into() };
    render_history(&results, cache.interner())
}

/// a single tree through a builder that owns its cache: `new`, `with_interner`, `from_interner`
fn single_owned<'c, 'i, I: Interner<TokenKey>>(b: GreenNodeBuilder<'c, 'i, K, I>, ops: &[Op]) -> String {
    let (trace, fin) = run_ops_b(b, ops, None);
    match fin {
        Ok((g, Some(cache))) => render_history(&[(trace, Ok(g))], cache.interner()),
        Ok((_, None)) => "NO-CACHE (finish of a builder that owns its cache returned none)".into(),
        Err(e) => format!("{trace} | PANIC:{e} || share "),
    }
}

fn render_history<I: Resolver<TokenKey> + ?Sized>(results: &[(String, Result<GreenNode, String>)], interner: &I) -> String {
    let mut out = String::new();
    let mut all = Vec::new();
    for (trace, t) in results {
        let mut s = String::new();
        match t {
            Ok(n) => {
                dump_green(n, interner, &mut s);
                addrs(n, &mut all);
            }
            Err(c) => s = format!("PANIC:{c}"),
        }
        out.push_str(&format!("{} | {} || ", trace, s));
    }
    let mut seen: Vec<usize> = Vec::new();
    let ids: Vec<String> = all
        .iter()
        .map(|a| {
            let i = match seen.iter().position(|x| x == a) {
                Some(i) => i,
                None => {
                    seen.push(*a);
                    seen.len() - 1
                }
            };
            i.to_string()
        })
        .collect();
    out.push_str(&format!("share {}", ids.join(",")));
    out
}

/// `B <backend> <ops...>`
pub fn run_case(args: &[&str]) -> String {
    let backend = args[0];
    let ops = parse_ops(args[1..].iter().copied());
    match backend {
        "d" => {
            let mut cache = NodeCache::new();
            let (trace, fin) = run_ops(&mut cache, &ops, None);
            finish_line(trace, fin, cache.interner())
        }
        "u" => {
            let mut interner = UserInterner::default();
            let flag = interner.fail_next.clone();
            let mut cache = NodeCache::with_interner(&mut interner);
            let (trace, fin) = run_ops(&mut cache, &ops, Some(&flag));
            drop(cache);
            finish_line(trace, fin, &interner)
        }
        _ => panic!("backend {backend}"),
    }
}

fn finish_line<R: Resolver<TokenKey> + ?Sized>(trace: String, fin: Result<GreenNode, String>, r: &R) -> String {
    match fin {
        Ok(n) => {
            let mut s = String::new();
            dump_green(&n, r, &mut s);
            format!("{trace} | {s}")
        }
        Err(c) => format!("{trace} | PANIC:{c}"),
    }
}

/// Pre-order list of allocation addresses of all elements of a green tree.
fn addrs(node: &GreenNode, out: &mut Vec<usize>) {
    out.push(node.verif_addr());
    for c in node.children() {
        match c {
            NodeOrToken::Node(n) => addrs(n, out),
            NodeOrToken::Token(t) => out.push(t.verif_addr()),
        }
    }
}

fn history<I: Interner<TokenKey>>(cache: &mut NodeCache<'_, I>, builds: &[Vec<Op>], fail: Option<&Rc<Cell<bool>>>) -> String {
    let mut trees: Vec<Result<GreenNode, String>> = Vec::new();
    let mut traces = Vec::new();
    let mut first_dumps = Vec::new();
    for ops in builds {
        let (trace, fin) = run_ops(cache, ops, fail);
        traces.push(trace);
        let mut s = String::new();
        match &fin {
            Ok(n) => dump_green(n, cache.interner(), &mut s),
            Err(c) => s = format!("PANIC:{c}"),
        }
        first_dumps.push(s);
        trees.push(fin);
    }
    // every earlier tree again, after all builds (must be unchanged), and the sharing partition
    let mut out = String::new();
    let mut all = Vec::new();
    for (i, t) in trees.iter().enumerate() {
        let mut s = String::new();
        match t {
            Ok(n) => {
                dump_green(n, cache.interner(), &mut s);
                addrs(n, &mut all);
            }
            Err(c) => s = format!("PANIC:{c}"),
        }
        if s != first_dumps[i] {
            s = format!("CHANGED<{}=>{}>", first_dumps[i], s);
        }
        out.push_str(&format!("{} | {} || ", traces[i], s));
    }
    let mut seen: Vec<usize> = Vec::new();
    let ids: Vec<String> = all
        .iter()
        .map(|a| {
            let i = match seen.iter().position(|x| x == a) {
                Some(i) => i,
                None => {
                    seen.push(*a);
                    seen.len() - 1
                }
            };
            i.to_string()
        })
        .collect();
    out.push_str(&format!("share {}", ids.join(",")));
    out
}

/// `H <backend> <mask> <ops...> [/ <ops...>]*` — a history of trees through one cache.
pub fn run_history(args: &[&str]) -> String {
    let backend = args[0];
    let mask = match args[1] {
        "f" => u32::MAX,
        m => u32::from_str_radix(m, 16).unwrap(),
    };
    cstree::verif::set_hash_mask(mask);
    let builds: Vec<Vec<Op>> = args[2..].split(|t| *t == "/").map(|ts| parse_ops(ts.iter().copied())).collect();
    let r = match backend {
        "d" => {
            let mut cache = NodeCache::new();
            history(&mut cache, &builds, None)
        }
        "u" => {
            let mut interner = UserInterner::default();
            let flag = interner.fail_next.clone();
            let mut cache = NodeCache::with_interner(&mut interner);
            history(&mut cache, &builds, Some(&flag))
        }
        // the other ways of making a builder: the cache moved into every builder and handed back by finish ...
        "o" => history_owned(NodeCache::new(), &builds),
        "i" => {
            let mut cache = NodeCache::from_interner(cstree::interning::new_interner());
            let _ = cache.interner_mut();
            history_owned(cache, &builds)
        }
        "q" => {
            let mut interner = UserInterner::default();
            history_owned(NodeCache::with_interner(&mut interner), &builds)
        }
        // ... and builders that own their cache (one tree)
        "z" => single_owned(GreenNodeBuilder::new(), &builds[0]),
        "w" => {
            let mut interner = cstree::interning::new_interner();
            single_owned(GreenNodeBuilder::with_interner(&mut interner), &builds[0])
        }
        "j" => single_owned(GreenNodeBuilder::from_interner(cstree::interning::new_interner()), &builds[0]),
        #[cfg(feature = "lasso")]
        "r" => {
            let mut interner: lasso::Rodeo<lasso::Spur> = lasso::Rodeo::new();
            let mut cache = NodeCache::with_interner(&mut interner);
            history(&mut cache, &builds, None)
        }
        #[cfg(feature = "lasso")]
        "m" => {
            let mut interner: lasso::Rodeo<lasso::MiniSpur> = lasso::Rodeo::new();
            let mut cache = NodeCache::with_interner(&mut interner);
            history(&mut cache, &builds, None)
        }
        #[cfg(feature = "lasso")]
        "t" => {
            let mut interner = cstree::interning::new_threaded_interner();
            let mut cache = NodeCache::with_interner(&mut interner);
            history(&mut cache, &builds, None)
        }
        #[cfg(feature = "lasso")]
        "h" => {
            let interner: lasso::ThreadedRodeo<lasso::Spur> = lasso::ThreadedRodeo::new();
            let mut shared = &interner;
            let mut cache = NodeCache::with_interner(&mut shared);
            history(&mut cache, &builds, None)
        }
        #[cfg(feature = "lasso")]
        "a" => {
            let mut interner = std::sync::Arc::new(cstree::interning::new_threaded_interner());
            let mut cache = NodeCache::with_interner(&mut interner);
            history(&mut cache, &builds, None)
        }
        _ => panic!("backend {backend}"),
    };
    cstree::verif::set_hash_mask(u32::MAX);
    r
}
