(* RedProofs.v — C02: every materialised position caches its true offset, whichever route reached
   it first; the invariant is preserved by every navigation primitive. *)
From CsModel Require Import Red.
From Coq Require Import ZifyN ZifyNat ZifyBool.

Lemma pos_eqb_eq a b : pos_eqb a b = true <-> a = b.
Proof.
  revert b; induction a as [|x a IH]; intros [|y b]; cbn; try (split; [discriminate|discriminate]).
  - split; reflexivity.
  - rewrite andb_true_iff, Nat.eqb_eq, IH. split; [intros [-> ->]; reflexivity|intros [= -> ->]; auto].
Qed.

Lemma pos_eqb_refl a : pos_eqb a a = true.
Proof. apply pos_eqb_eq; reflexivity. Qed.

Lemma nth_error_firstn_lt {A} (l : list A) : forall n i, (i < n)%nat -> nth_error (firstn n l) i = nth_error l i.
Proof.
  induction l as [|a r IH]; intros [|n] [|i] L; cbn; try reflexivity; try lia.
  apply IH. lia.
Qed.

Section RedProofs.
  Variable g : gelem.

  (* the true start offset of a position: the lengths of everything to its left *)
  Fixpoint true_off (p : pos) : N :=
    match p with
    | [] => 0
    | i :: q => true_off q + sumN (map glen (firstn i (kids g q)))
    end.

  Definition Le (rs rs' : rstate) : Prop := forall p o, lookup rs p = Some o -> lookup rs' p = Some o.
  Definition Known (rs : rstate) (p : pos) : Prop := p = [] \/ lookup rs p <> None.
  (* the invariant: every materialised position caches its TRUE offset, and a position is only
     materialised below a materialised parent (handles are reached through their parents) *)
  Definition Inv (rs : rstate) : Prop :=
    (forall p o, lookup rs p = Some o -> o = true_off p) /\
    (forall i q o, lookup rs (i :: q) = Some o -> Known rs q).

  Lemma Le_refl rs : Le rs rs. Proof. intros p o E; exact E. Qed.
  Lemma Le_trans a b c : Le a b -> Le b c -> Le a c.
  Proof. intros A B p o E. apply B, A, E. Qed.
  Lemma Known_le rs rs' p : Le rs rs' -> Known rs p -> Known rs' p.
  Proof.
    intros L [->|K]; [left; reflexivity|right].
    destruct (lookup rs p) as [o|] eqn:E; [|congruence]. rewrite (L _ _ E). discriminate.
  Qed.
  Lemma Inv_nil : Inv []. Proof. split; [intros p o E|intros i q o E]; discriminate. Qed.

  Lemma lookup_goa rs q off p :
    lookup (goa rs q off) p =
    match lookup rs p with Some o => Some o | None => if pos_eqb q p then Some off else None end.
  Proof.
    unfold goa. destruct (lookup rs q) as [oq|] eqn:Eq.
    - destruct (lookup rs p) as [o|] eqn:Ep; [reflexivity|].
      destruct (pos_eqb q p) eqn:E; [|reflexivity]. apply pos_eqb_eq in E. subst. congruence.
    - cbn [lookup]. destruct (pos_eqb q p) eqn:E.
      + apply pos_eqb_eq in E. subst. rewrite Eq. reflexivity.
      + destruct (lookup rs p); reflexivity.
  Qed.

  Lemma goa_le rs q off : Le rs (goa rs q off).
  Proof. intros p o E. rewrite lookup_goa, E. reflexivity. Qed.
  Lemma goa_inv rs i q off : Inv rs -> off = true_off (i :: q) -> Known rs q -> Inv (goa rs (i :: q) off).
  Proof.
    intros [I C] E K. split.
    - intros p o. rewrite lookup_goa. destruct (lookup rs p) as [o'|] eqn:Ep.
      + intros [= <-]. apply I; exact Ep.
      + destruct (pos_eqb (i :: q) p) eqn:Eqp; [|discriminate]. apply pos_eqb_eq in Eqp. subst. intros [= <-]. reflexivity.
    - intros j r o. rewrite lookup_goa. destruct (lookup rs (j :: r)) as [o'|] eqn:Ep.
      + intros _. eapply Known_le; [apply goa_le|]. eapply C; exact Ep.
      + destruct (pos_eqb (i :: q) (j :: r)) eqn:Eqp; [|discriminate]. apply pos_eqb_eq in Eqp.
        injection Eqp as -> ->. intros _. eapply Known_le; [apply goa_le|exact K].
  Qed.
  Lemma goa_known rs q off : Known (goa rs q off) q.
  Proof.
    right. rewrite lookup_goa. destruct (lookup rs q); [discriminate|]. rewrite pos_eqb_refl. discriminate.
  Qed.

  Lemma offset_known rs p : Inv rs -> Known rs p -> offset_of rs p = true_off p.
  Proof.
    intros I [->|K]; [reflexivity|]. unfold offset_of. destruct p as [|i q]; [reflexivity|].
    destruct (lookup rs (i :: q)) as [o|] eqn:E; [apply (proj1 I); exact E|congruence].
  Qed.

  (* ---- the candidate lists of children_from / children_to carry true offsets ---- *)
  Definition cand_ok (p : pos) (cands : list (gelem * nat * N)) : Prop :=
    Forall (fun x => snd x = true_off (snd (fst x) :: p) /\ nth_error (kids g p) (snd (fst x)) = Some (fst (fst x))) cands.

  Lemma kids_from_ok p : forall l pre off,
    kids g p = pre ++ l -> off = true_off p + sumN (map glen pre) ->
    cand_ok p (kids_from l (length pre) off).
  Proof.
    induction l as [|c r IH]; intros pre off E Eo; cbn [kids_from]; [constructor|].
    constructor.
    - cbn [fst snd true_off]. split.
      + rewrite E, firstn_app, Nat.sub_diag, firstn_all. cbn [firstn]. rewrite app_nil_r. exact Eo.
      + rewrite E, nth_error_app2, Nat.sub_diag; [reflexivity|lia].
    - replace (S (length pre)) with (length (pre ++ [c])) by (rewrite app_length; cbn; lia).
      apply IH.
      + rewrite <- app_assoc. exact E.
      + rewrite map_app, sumN_app. cbn [map sumN]. lia.
  Qed.

  Lemma children_from_ok p start off :
    off = true_off p + sumN (map glen (firstn start (kids g p))) ->
    cand_ok p (children_from (kids g p) start off).
  Proof.
    intros E. unfold children_from.
    destruct (Nat.le_gt_cases start (length (kids g p))) as [L|L].
    - replace start with (length (firstn start (kids g p))) at 2 by (apply firstn_length_le; exact L).
      apply kids_from_ok; [symmetry; apply firstn_skipn|exact E].
    - rewrite skipn_all2 by lia. constructor.
  Qed.

  Lemma kids_to_ok p : forall rl pre off,
    firstn (length pre + length rl) (kids g p) = pre ++ rev rl ->
    off = true_off p + sumN (map glen (pre ++ rev rl)) ->
    cand_ok p (kids_to rl (length pre + length rl) off).
  Proof.
    induction rl as [|c r IH]; intros pre off E Eo; cbn [kids_to]; [constructor|].
    cbn [length rev] in E, Eo |- *.
    replace (length pre + S (length r) - 1)%nat with (length pre + length r)%nat by lia.
    assert (E' : firstn (length pre + length r) (kids g p) = pre ++ rev r).
    { assert (X : firstn (length pre + length r) (firstn (length pre + S (length r)) (kids g p)) = pre ++ rev r).
      { rewrite E, app_assoc, firstn_app.
        replace (length pre + length r - length (pre ++ rev r))%nat with 0%nat by (rewrite app_length, rev_length; lia).
        rewrite firstn_all2 by (rewrite app_length, rev_length; lia). cbn. apply app_nil_r. }
      rewrite firstn_firstn in X. replace (Nat.min (length pre + length r) (length pre + S (length r))) with (length pre + length r)%nat in X by lia.
      exact X. }
    assert (So : off - glen c = true_off p + sumN (map glen (pre ++ rev r))).
    { rewrite Eo, app_assoc, map_app, sumN_app. cbn [map sumN]. lia. }
    constructor.
    - cbn [fst snd true_off]. split.
      + rewrite E'. exact So.
      + assert (N1 : nth_error (firstn (length pre + S (length r)) (kids g p)) (length pre + length r) = Some c).
        { rewrite E, app_assoc, nth_error_app2 by (rewrite app_length, rev_length; lia).
          rewrite app_length, rev_length, Nat.sub_diag. reflexivity. }
        rewrite nth_error_firstn_lt in N1 by lia. exact N1.
    - apply IH; [exact E'|exact So].
  Qed.

  Lemma children_to_ok p endi off :
    off = true_off p + sumN (map glen (firstn endi (kids g p))) ->
    cand_ok p (children_to (kids g p) endi off).
  Proof.
    intros E. unfold children_to.
    set (pre := firstn endi (kids g p)) in *.
    assert (Lp : length pre = Nat.min endi (length (kids g p))) by (apply firstn_length).
    rewrite <- Lp. replace (length pre) with (length (@nil gelem) + length (rev pre))%nat by (rewrite rev_length; reflexivity).
    apply kids_to_ok.
    - cbn [length app]. rewrite rev_length, rev_involutive, Lp. unfold pre.
      destruct (Nat.le_gt_cases endi (length (kids g p))) as [L|L].
      + rewrite Nat.min_l by exact L. reflexivity.
      + rewrite Nat.min_r by lia. cbn [Nat.add]. rewrite firstn_all. rewrite firstn_all2 by lia. reflexivity.
    - cbn [app]. rewrite rev_involutive. exact E.
  Qed.

  Lemma take_first_ok b rs p cands :
    Inv rs -> Known rs p -> cand_ok p cands ->
    Inv (snd (take_first b rs p cands)) /\ Le rs (snd (take_first b rs p cands)) /\
    forall q, fst (take_first b rs p cands) = Some q -> Known (snd (take_first b rs p cands)) q.
  Proof.
    intros I Kp C. unfold take_first. destruct (pick b cands) as [[[c i] o]|] eqn:Pk.
    - unfold pick in Pk. apply find_some in Pk. destruct Pk as [Hin _].
      unfold cand_ok in C. rewrite Forall_forall in C. destruct (C _ Hin) as [Eo _]. cbn [fst snd] in Eo |- *.
      split; [apply goa_inv; assumption|]. split; [apply goa_le|].
      intros q [= <-]. apply goa_known.
    - cbn [fst snd]. split; [exact I|]. split; [apply Le_refl|]. discriminate.
  Qed.

  (* ---- structure facts ---- *)
  Lemma sub_app : forall p q e, sub e (p ++ q) = match sub e p with Some x => sub x q | None => None end.
  Proof.
    induction p as [|i p IH]; intros q e; cbn [app sub]; [reflexivity|].
    destruct (nth_error (gchildren e) i); [apply IH|reflexivity].
  Qed.

  Lemma subr_cons i q :
    subr g (i :: q) = match subr g q with Some e => nth_error (gchildren e) i | None => None end.
  Proof.
    unfold subr. cbn [rev]. rewrite sub_app. destruct (sub g (rev q)) as [e|]; [|reflexivity].
    cbn [sub]. destruct (nth_error (gchildren e) i); reflexivity.
  Qed.

  Lemma kids_nth i q : subr g (i :: q) = nth_error (kids g q) i.
  Proof.
    rewrite subr_cons. unfold kids. destruct (subr g q); [reflexivity|]. destruct i; reflexivity.
  Qed.

  Lemma len_at_cons i q : len_at g (i :: q) = match nth_error (kids g q) i with Some c => glen c | None => 0 end.
  Proof. unfold len_at. rewrite kids_nth. reflexivity. Qed.

  Lemma firstn_S_nth {A} (l : list A) i x : nth_error l i = Some x -> firstn (S i) l = firstn i l ++ [x].
  Proof.
    revert i; induction l as [|a r IH]; intros [|i]; cbn; try discriminate.
    - intros [= ->]. reflexivity.
    - intros E. f_equal. apply IH; exact E.
  Qed.

  (* lengths are consistent: every node's length is the sum of its children's (part of WfGreen) *)
  Fixpoint LenOk (e : gelem) : Prop :=
    match e with
    | GTok _ _ _ _ => True
    | GNode _ _ len _ cs =>
        len = sumN (map glen cs) /\
        (fix all (l : list gelem) : Prop := match l with [] => True | c :: r => LenOk c /\ all r end) cs
    end.

  Lemma LenOk_children e : LenOk e -> Forall LenOk (gchildren e).
  Proof.
    destruct e as [|id k len h cs]; cbn; [constructor|]. intros [_ A].
    induction cs as [|c r IH]; [constructor|]. destruct A as [A1 A2]. constructor; [exact A1|apply IH; exact A2].
  Qed.

  Lemma LenOk_sub : forall p e x, LenOk e -> sub e p = Some x -> LenOk x.
  Proof.
    induction p as [|i p IH]; intros e x L; cbn [sub]; [intros [= <-]; exact L|].
    destruct (nth_error (gchildren e) i) as [c|] eqn:E; [|discriminate].
    apply IH. pose proof (LenOk_children e L) as F. rewrite Forall_forall in F. apply F. eapply nth_error_In; eauto.
  Qed.

  Hypothesis Hlen : LenOk g.

  Lemma len_at_sum p : is_node_at g p = true -> len_at g p = sumN (map glen (kids g p)).
  Proof.
    unfold is_node_at, len_at, kids, subr. destruct (sub g (rev p)) as [e|] eqn:E; [|discriminate].
    pose proof (LenOk_sub _ _ _ Hlen E) as L. destruct e as [|id k len h cs]; [discriminate|].
    intros _. cbn in L |- *. tauto.
  Qed.

  (* ---- one step of navigation: invariant kept, nothing forgotten, the result is materialised ---- *)
  Record Step (rs rs' : rstate) (r : option pos) : Prop := mkStep {
    st_inv : Inv rs';
    st_le : Le rs rs';
    st_known : forall q, r = Some q -> Known rs' q
  }.

  Lemma Known_parent rs i q : Inv rs -> Known rs (i :: q) -> Known rs q.
  Proof.
    intros [_ C] [E|K]; [discriminate|].
    destruct (lookup rs (i :: q)) as [o|] eqn:E; [|congruence]. eapply C; exact E.
  Qed.

  Lemma Step_take b rs p cands :
    Inv rs -> Known rs p -> cand_ok p cands -> Step rs (snd (take_first b rs p cands)) (fst (take_first b rs p cands)).
  Proof. intros I K C. destruct (take_first_ok b rs p cands I K C) as (A & B & D). constructor; assumption. Qed.

  Lemma first_child_ok b rs p :
    Inv rs -> Known rs p -> Step rs (snd (first_child_gen g b rs p)) (fst (first_child_gen g b rs p)).
  Proof.
    intros I K. unfold first_child_gen. apply Step_take; [exact I|exact K|]. apply children_from_ok.
    unfold start_of. rewrite (offset_known rs p I K). cbn [firstn map sumN]. lia.
  Qed.

  Lemma last_child_ok b rs p :
    Inv rs -> Known rs p -> is_node_at g p = true ->
    Step rs (snd (last_child_gen g b rs p)) (fst (last_child_gen g b rs p)).
  Proof.
    intros I K Nd. unfold last_child_gen. apply Step_take; [exact I|exact K|]. apply children_to_ok.
    unfold end_of. rewrite (offset_known rs p I K), firstn_all, (len_at_sum p Nd). reflexivity.
  Qed.

  Lemma next_sibling_ok b rs p :
    Inv rs -> Known rs p -> Step rs (snd (next_sibling_gen g b rs p)) (fst (next_sibling_gen g b rs p)).
  Proof.
    intros I K. unfold next_sibling_gen. destruct p as [|i q].
    - cbn [fst snd]. constructor; [exact I|apply Le_refl|discriminate].
    - apply Step_take; [exact I|apply (Known_parent rs i q I K)|].
      destruct (nth_error (kids g q) i) as [c|] eqn:E.
      + apply children_from_ok. unfold end_of. rewrite (offset_known rs _ I K), len_at_cons, E.
        cbn [true_off]. rewrite (firstn_S_nth _ _ _ E), map_app, sumN_app. cbn [map sumN]. lia.
      + unfold children_from. rewrite skipn_all2; [constructor|].
        apply nth_error_None in E. lia.
  Qed.

  Lemma prev_sibling_ok b rs p :
    Inv rs -> Known rs p -> Step rs (snd (prev_sibling_gen g b rs p)) (fst (prev_sibling_gen g b rs p)).
  Proof.
    intros I K. unfold prev_sibling_gen. destruct p as [|i q].
    - cbn [fst snd]. constructor; [exact I|apply Le_refl|discriminate].
    - apply Step_take; [exact I|apply (Known_parent rs i q I K)|]. apply children_to_ok.
      unfold start_of. rewrite (offset_known rs _ I K). reflexivity.
  Qed.

  (* the public indexed lookups, called with the index and offset the API handed out for child c *)
  Lemma next_child_after_ok b rs p i :
    Inv rs -> Known rs (i :: p) ->
    Step rs (snd (next_child_after_gen g b rs p i (end_of g rs (i :: p))))
            (fst (next_child_after_gen g b rs p i (end_of g rs (i :: p)))).
  Proof. intros I K. exact (next_sibling_ok b rs (i :: p) I K). Qed.

  Lemma prev_child_before_ok b rs p i :
    Inv rs -> Known rs (i :: p) ->
    Step rs (snd (prev_child_before_gen g b rs p i (start_of rs (i :: p))))
            (fst (prev_child_before_gen g b rs p i (start_of rs (i :: p)))).
  Proof. intros I K. exact (prev_sibling_ok b rs (i :: p) I K). Qed.

  Lemma Step_trans rs1 rs2 rs3 r1 r2 : Step rs1 rs2 r1 -> Step rs2 rs3 r2 -> Step rs1 rs3 r2.
  Proof. intros A B. constructor; [apply B|eapply Le_trans; [apply A|apply B]|apply B]. Qed.

  Lemma Step_refl rs r : Inv rs -> (forall q, r = Some q -> Known rs q) -> Step rs rs r.
  Proof. intros I K. constructor; [exact I|apply Le_refl|exact K]. Qed.

  (* ---- child iterators ---- *)
  Definition IterOk (it : iter) : Prop :=
    exists pre, kids g (it_parent it) = pre ++ it_rest it /\ it_index it = length pre /\
                it_offset it = true_off (it_parent it) + sumN (map glen pre).

  Lemma iter_new_ok rs p : Inv rs -> Known rs p -> IterOk (iter_new g rs p).
  Proof.
    intros I K. exists []. cbn. split; [reflexivity|]. split; [reflexivity|].
    unfold start_of. rewrite (offset_known rs p I K). lia.
  Qed.

  Lemma IterOk_child it c r :
    IterOk it -> it_rest it = c :: r ->
    it_offset it = true_off (it_index it :: it_parent it) /\
    IterOk (mkIter (it_parent it) r (S (it_index it)) (it_offset it + glen c)).
  Proof.
    intros (pre & E & Ei & Eo) Er. rewrite Er in E. split.
    - cbn [true_off]. rewrite E, Ei, firstn_app, Nat.sub_diag, firstn_all. cbn [firstn]. rewrite app_nil_r. exact Eo.
    - exists (pre ++ [c]). cbn [it_parent it_rest it_index it_offset].
      split; [rewrite <- app_assoc; exact E|]. split; [rewrite app_length; cbn; lia|].
      rewrite map_app, sumN_app. cbn [map sumN]. lia.
  Qed.

  Lemma elem_iter_next_ok rs it :
    Inv rs -> IterOk it -> Known rs (it_parent it) ->
    Step rs (snd (fst (elem_iter_next rs it))) (fst (fst (elem_iter_next rs it))) /\
    IterOk (snd (elem_iter_next rs it)).
  Proof.
    intros I Ok Kp. unfold elem_iter_next. destruct (it_rest it) as [|c r] eqn:Er; cbn [fst snd].
    - split; [apply Step_refl; [exact I|discriminate]|exact Ok].
    - destruct (IterOk_child it c r Ok Er) as [Eo Ok']. split; [|exact Ok'].
      constructor; [apply goa_inv; assumption|apply goa_le|]. intros q [= <-]. apply goa_known.
  Qed.

  Lemma node_iter_skip_ok : forall rest par idx off rs,
    Inv rs -> IterOk (mkIter par rest idx off) -> Known rs par ->
    Step rs (snd (fst (node_iter_skip par rest idx off rs))) (fst (fst (node_iter_skip par rest idx off rs))) /\
    IterOk (snd (node_iter_skip par rest idx off rs)).
  Proof.
    induction rest as [|c r IH]; intros par idx off rs I Ok Kp; cbn [node_iter_skip].
    - cbn [fst snd]. split; [apply Step_refl; [exact I|discriminate]|exact Ok].
    - destruct (IterOk_child _ c r Ok eq_refl) as [Eo Ok']. cbn [it_parent it_index it_offset] in Eo, Ok'.
      destruct (is_node c).
      + cbn [fst snd]. split; [|exact Ok'].
        constructor; [apply goa_inv; assumption|apply goa_le|]. intros q [= <-]. apply goa_known.
      + apply IH; assumption.
  Qed.

  Lemma node_iter_next_ok rs it :
    Inv rs -> IterOk it -> Known rs (it_parent it) ->
    Step rs (snd (fst (node_iter_next rs it))) (fst (fst (node_iter_next rs it))) /\
    IterOk (snd (node_iter_next rs it)).
  Proof. intros I Ok Kp. unfold node_iter_next. apply node_iter_skip_ok; [exact I| |exact Kp]. destruct it; exact Ok. Qed.

  Lemma iter_parent_elem rs it : it_parent (snd (elem_iter_next rs it)) = it_parent it.
  Proof. unfold elem_iter_next. destruct (it_rest it); reflexivity. Qed.
  Lemma iter_parent_skip : forall rest par idx off rs, it_parent (snd (node_iter_skip par rest idx off rs)) = par.
  Proof. induction rest as [|c r IH]; intros; cbn [node_iter_skip]; [reflexivity|]. destruct (is_node c); [reflexivity|apply IH]. Qed.
  Lemma iter_parent_node rs it : it_parent (snd (node_iter_next rs it)) = it_parent it.
  Proof. apply iter_parent_skip. Qed.

  Definition AllKnown (rs : rstate) (l : list pos) : Prop := Forall (Known rs) l.
  Lemma AllKnown_le rs rs' l : Le rs rs' -> AllKnown rs l -> AllKnown rs' l.
  Proof. intros L A. eapply Forall_impl; [|exact A]. intros q. apply Known_le; exact L. Qed.

  Lemma elem_iter_collect_ok fuel : forall rs it,
    Inv rs -> IterOk it -> Known rs (it_parent it) ->
    Inv (snd (elem_iter_collect fuel rs it)) /\ Le rs (snd (elem_iter_collect fuel rs it)) /\
    AllKnown (snd (elem_iter_collect fuel rs it)) (fst (elem_iter_collect fuel rs it)).
  Proof.
    induction fuel as [|f IH]; intros rs it I Ok Kp; cbn [elem_iter_collect].
    - cbn. split; [exact I|]. split; [apply Le_refl|constructor].
    - destruct (elem_iter_next_ok rs it I Ok Kp) as [St Ok'].
      pose proof (iter_parent_elem rs it) as Par.
      destruct (elem_iter_next rs it) as [[r rs'] it']. cbn [fst snd] in St, Ok', Par.
      destruct r as [q|].
      + assert (Kp' : Known rs' (it_parent it')) by (rewrite Par; eapply Known_le; [apply St|exact Kp]).
        destruct (IH rs' it' (st_inv _ _ _ St) Ok' Kp') as (A & B & C).
        destruct (elem_iter_collect f rs' it') as [l rs'']. cbn [fst snd] in *.
        split; [exact A|]. split; [eapply Le_trans; [apply St|exact B]|].
        constructor; [|exact C]. eapply Known_le; [exact B|]. apply St. reflexivity.
      + cbn. split; [apply St|]. split; [apply St|constructor].
  Qed.

  Lemma node_iter_collect_ok fuel : forall rs it,
    Inv rs -> IterOk it -> Known rs (it_parent it) ->
    Inv (snd (node_iter_collect fuel rs it)) /\ Le rs (snd (node_iter_collect fuel rs it)) /\
    AllKnown (snd (node_iter_collect fuel rs it)) (fst (node_iter_collect fuel rs it)).
  Proof.
    induction fuel as [|f IH]; intros rs it I Ok Kp; cbn [node_iter_collect].
    - cbn. split; [exact I|]. split; [apply Le_refl|constructor].
    - destruct (node_iter_next_ok rs it I Ok Kp) as [St Ok'].
      pose proof (iter_parent_node rs it) as Par.
      destruct (node_iter_next rs it) as [[r rs'] it']. cbn [fst snd] in St, Ok', Par.
      destruct r as [q|].
      + assert (Kp' : Known rs' (it_parent it')) by (rewrite Par; eapply Known_le; [apply St|exact Kp]).
        destruct (IH rs' it' (st_inv _ _ _ St) Ok' Kp') as (A & B & C).
        destruct (node_iter_collect f rs' it') as [l rs'']. cbn [fst snd] in *.
        split; [exact A|]. split; [eapply Le_trans; [apply St|exact B]|].
        constructor; [|exact C]. eapply Known_le; [exact B|]. apply St. reflexivity.
      + cbn. split; [apply St|]. split; [apply St|constructor].
  Qed.

  (* ---- first_token / last_token ---- *)
  Variable skip : bool.

  Definition RecOk (rec : gelem -> pos -> rstate -> option pos * rstate) (c : gelem) : Prop :=
    forall q rs, subr g q = Some c -> Inv rs -> Known rs q -> Step rs (snd (rec c q rs)) (fst (rec c q rs)).

  Lemma ft_loop_ok rec p : forall l pre rs,
    kids g p = pre ++ l -> Forall (RecOk rec) l -> Inv rs -> Known rs p ->
    Step rs (snd (ft_loop skip rec p l (length pre) (true_off p + sumN (map glen pre)) rs))
            (fst (ft_loop skip rec p l (length pre) (true_off p + sumN (map glen pre)) rs)).
  Proof.
    induction l as [|c r IH]; intros pre rs E F I Kp; cbn [ft_loop].
    - cbn. apply Step_refl; [exact I|discriminate].
    - inversion F as [|? ? Fc Fr]; subst.
      assert (Ec : nth_error (kids g p) (length pre) = Some c).
      { rewrite E, nth_error_app2, Nat.sub_diag; [reflexivity|lia]. }
      assert (Eo : true_off p + sumN (map glen pre) = true_off (length pre :: p)).
      { cbn [true_off]. rewrite E, firstn_app, Nat.sub_diag, firstn_all. cbn [firstn]. rewrite app_nil_r. reflexivity. }
      set (rs1 := goa rs (length pre :: p) (true_off p + sumN (map glen pre))).
      assert (I1 : Inv rs1) by (apply goa_inv; assumption).
      assert (K1 : Known rs1 (length pre :: p)) by apply goa_known.
      assert (S1 : subr g (length pre :: p) = Some c) by (rewrite kids_nth; exact Ec).
      pose proof (Fc _ rs1 S1 I1 K1) as St.
      assert (L1 : Le rs rs1) by apply goa_le.
      destruct (rec c (length pre :: p) rs1) as [[t|] rs2]; cbn [fst snd] in St |- *.
      + constructor; [apply St|eapply Le_trans; [exact L1|apply St]|apply St].
      + destruct skip.
        * assert (IH' := IH (pre ++ [c]) rs2). rewrite app_length, map_app, sumN_app in IH'. cbn [length map sumN] in IH'.
          replace (length pre + 1)%nat with (S (length pre)) in IH' by lia.
          replace (true_off p + (sumN (map glen pre) + (glen c + 0))) with (true_off p + sumN (map glen pre) + glen c) in IH' by lia.
          eapply Step_trans with (r1 := None); [|apply IH'; [rewrite <- app_assoc; exact E|exact Fr|apply St|]].
          2:{ eapply Known_le; [|exact Kp]. eapply Le_trans; [exact L1|apply St]. }
          constructor; [apply St|eapply Le_trans; [exact L1|apply St]|discriminate].
        * cbn. constructor; [apply St|eapply Le_trans; [exact L1|apply St]|discriminate].
  Qed.

  Lemma first_token_of_ok e : RecOk (first_token_of skip) e.
  Proof.
    induction e as [id k key len|id k len h cs IH] using gelem_ind'; intros p rs S I K; cbn [first_token_of].
    - cbn. apply Step_refl; [exact I|]. intros q [= <-]. exact K.
    - assert (Ek : kids g p = cs) by (unfold kids; rewrite S; reflexivity).
      pose proof (ft_loop_ok (first_token_of skip) p cs [] rs) as L. cbn [length map sumN app] in L.
      rewrite (offset_known rs p I K). replace (true_off p) with (true_off p + 0) at 1 2 by lia.
      apply L; [exact Ek|exact IH|exact I|exact K].
  Qed.

  Lemma first_token_ok rs p :
    Inv rs -> Known rs p -> Step rs (snd (first_token g skip rs p)) (fst (first_token g skip rs p)).
  Proof.
    intros I K. unfold first_token. destruct (subr g p) as [e|] eqn:S.
    - apply first_token_of_ok; assumption.
    - cbn. apply Step_refl; [exact I|discriminate].
  Qed.

  (* ---- last_token ---- *)
  Lemma lt_loop_ok rec p elen : forall l pre rs,
    kids g p = pre ++ l -> elen = sumN (map glen (kids g p)) -> Forall (RecOk rec) l -> Inv rs -> Known rs p ->
    Step rs (snd (lt_loop skip rec p elen l (length pre) rs)) (fst (lt_loop skip rec p elen l (length pre) rs)) /\
    (fst (lt_loop skip rec p elen l (length pre) rs) = None -> skip = true -> l <> [] ->
     Known (snd (lt_loop skip rec p elen l (length pre) rs)) (length pre :: p)).
  Proof.
    induction l as [|c r IH]; intros pre rs E El F I Kp; cbn [lt_loop].
    - cbn. split; [apply Step_refl; [exact I|discriminate]|]. intros _ _ NE; congruence.
    - inversion F as [|? ? Fc Fr]; subst.
      assert (Ec : nth_error (kids g p) (length pre) = Some c).
      { rewrite E, nth_error_app2, Nat.sub_diag; [reflexivity|lia]. }
      assert (S1 : subr g (length pre :: p) = Some c) by (rewrite kids_nth; exact Ec).
      assert (Et : true_off (length pre :: p) = true_off p + sumN (map glen pre)).
      { cbn [true_off]. rewrite E, firstn_app, Nat.sub_diag, firstn_all. cbn [firstn]. rewrite app_nil_r. reflexivity. }
      assert (E2 : kids g p = (pre ++ [c]) ++ r) by (rewrite <- app_assoc; exact E).
      destruct (IH (pre ++ [c]) rs E2 eq_refl Fr I Kp) as [St Kn].
      replace (length (pre ++ [c])) with (S (length pre)) in St, Kn by (rewrite app_length; cbn; lia).
      destruct (lt_loop skip rec p (sumN (map glen (kids g p))) r (S (length pre)) rs) as [[t|] rs2] eqn:ER; cbn [fst snd] in St, Kn |- *.
      + split; [exact St|discriminate].
      + assert (Kp2 : Known rs2 p) by (eapply Known_le; [apply St|exact Kp]).
        destruct r as [|c' r'].
        * (* the last child *)
          set (o := offset_of rs2 p + sumN (map glen (kids g p)) - glen c).
          assert (Eo : o = true_off (length pre :: p)).
          { unfold o. rewrite (offset_known rs2 p (st_inv _ _ _ St) Kp2), Et, E, map_app, sumN_app. cbn [map sumN]. lia. }
          assert (I3 : Inv (goa rs2 (length pre :: p) o)) by (apply goa_inv; [apply St|exact Eo|exact Kp2]).
          pose proof (Fc _ _ S1 I3 (goa_known _ _ _)) as St3.
          split.
          -- constructor; [apply St3|eapply Le_trans; [apply St|eapply Le_trans; [apply goa_le|apply St3]]|apply St3].
          -- intros _ _ _. eapply Known_le; [apply St3|apply goa_known].
        * destruct skip eqn:Sk.
          -- assert (Kn' : Known rs2 (S (length pre) :: p)) by (apply Kn; [reflexivity|reflexivity|discriminate]).
             set (o := offset_of rs2 (S (length pre) :: p) - glen c).
             assert (Eo : o = true_off (length pre :: p)).
             { unfold o. rewrite (offset_known rs2 _ (st_inv _ _ _ St) Kn'), Et. cbn [true_off].
               rewrite (firstn_S_nth _ _ _ Ec), map_app, sumN_app.
               rewrite E at 1. rewrite firstn_app, Nat.sub_diag, firstn_all. cbn [firstn map sumN]. rewrite app_nil_r. lia. }
             assert (I3 : Inv (goa rs2 (length pre :: p) o)) by (apply goa_inv; [apply St|exact Eo|exact Kp2]).
             pose proof (Fc _ _ S1 I3 (goa_known _ _ _)) as St3.
             split.
             ++ constructor; [apply St3|eapply Le_trans; [apply St|eapply Le_trans; [apply goa_le|apply St3]]|apply St3].
             ++ intros _ _ _. eapply Known_le; [apply St3|apply goa_known].
          -- cbn [fst snd]. split; [constructor; [apply St|apply St|discriminate]|]. intros _ X; discriminate.
  Qed.

  Lemma last_token_of_ok e : RecOk (last_token_of skip) e.
  Proof.
    induction e as [id k key len|id k len h cs IH] using gelem_ind'; intros p rs S I K; cbn [last_token_of].
    - cbn. apply Step_refl; [exact I|]. intros q [= <-]. exact K.
    - assert (Ek : kids g p = cs) by (unfold kids; rewrite S; reflexivity).
      assert (Nd : is_node_at g p = true) by (unfold is_node_at; rewrite S; reflexivity).
      assert (El : len = sumN (map glen (kids g p))).
      { rewrite <- (len_at_sum p Nd). unfold len_at. rewrite S. reflexivity. }
      exact (proj1 (lt_loop_ok (last_token_of skip) p len cs [] rs Ek El IH I K)).
  Qed.

  Lemma last_token_ok rs p :
    Inv rs -> Known rs p -> Step rs (snd (last_token g skip rs p)) (fst (last_token g skip rs p)).
  Proof.
    intros I K. unfold last_token. destruct (subr g p) as [e|] eqn:S.
    - apply last_token_of_ok; assumption.
    - cbn. apply Step_refl; [exact I|discriminate].
  Qed.

  (* ---- next_token / prev_token ---- *)
  Lemma ancestors_node_known rs : forall p, Inv rs -> Known rs p -> AllKnown rs (ancestors_node p).
  Proof.
    induction p as [|i q IH]; intros I K; cbn [ancestors_node]; [constructor; [left; reflexivity|constructor]|].
    constructor; [exact K|]. apply IH; [exact I|]. eapply Known_parent; eauto.
  Qed.

  Lemma sibling_ok (next : bool) rs p :
    Inv rs -> Known rs p ->
    Step rs (snd (if next then next_sibling_gen g false rs p else prev_sibling_gen g false rs p))
            (fst (if next then next_sibling_gen g false rs p else prev_sibling_gen g false rs p)).
  Proof. intros I K. destruct next; [apply next_sibling_ok|apply prev_sibling_ok]; assumption. Qed.

  Lemma climb_ok next : forall chain rs,
    Inv rs -> AllKnown rs chain -> Step rs (snd (climb g next rs chain)) (fst (climb g next rs chain)).
  Proof.
    induction chain as [|a r IH]; intros rs I A; cbn [climb].
    - cbn. apply Step_refl; [exact I|discriminate].
    - inversion A as [|? ? Ka Kr]; subst.
      pose proof (sibling_ok next rs a I Ka) as St.
      destruct (if next then next_sibling_gen g false rs a else prev_sibling_gen g false rs a) as [[s|] rs']; cbn [fst snd] in St |- *.
      + exact St.
      + eapply Step_trans with (r1 := None); [exact St|]. apply IH; [apply St|]. eapply AllKnown_le; [apply St|exact Kr].
  Qed.

  Lemma token_walk_ok next : forall fuel rs cur,
    Inv rs -> Known rs cur ->
    Step rs (snd (token_walk g skip next fuel rs cur)) (fst (token_walk g skip next fuel rs cur)).
  Proof.
    induction fuel as [|f IH]; intros rs cur I K; cbn [token_walk].
    - cbn. apply Step_refl; [exact I|discriminate].
    - pose proof (sibling_ok next rs cur I K) as St.
      destruct (if next then next_sibling_gen g false rs cur else prev_sibling_gen g false rs cur) as [[s|] rs'] eqn:ES; cbn [fst snd] in St.
      + (* a sibling *)
        assert (Ks : Known rs' s) by (apply St; reflexivity).
        assert (St2 : Step rs' (snd (if next then first_token g skip rs' s else last_token g skip rs' s))
                                (fst (if next then first_token g skip rs' s else last_token g skip rs' s))).
        { destruct next; [apply first_token_ok|apply last_token_ok]; [apply St|exact Ks|apply St|exact Ks]. }
        destruct (if next then first_token g skip rs' s else last_token g skip rs' s) as [[t|] rs2]; cbn [fst snd] in St2 |- *.
        * eapply Step_trans; [exact St|exact St2].
        * destruct skip.
          -- eapply Step_trans with (r1 := None); [eapply Step_trans; [exact St|exact St2]|].
             apply IH; [apply St2|]. eapply Known_le; [apply St2|exact Ks].
          -- cbn. eapply Step_trans; [exact St|exact St2].
      + (* climb *)
        assert (Ac : AllKnown rs' (match cur with [] => [] | _ :: q => ancestors_node q end)).
        { destruct cur as [|i q]; [constructor|]. apply ancestors_node_known; [apply St|].
          eapply Known_le; [apply St|]. eapply Known_parent; eauto. }
        pose proof (climb_ok next _ rs' (st_inv _ _ _ St) Ac) as Sc.
        destruct (climb g next rs' (match cur with [] => [] | _ :: q => ancestors_node q end)) as [[e|] rs1]; cbn [fst snd] in Sc |- *.
        * assert (Ke : Known rs1 e) by (apply Sc; reflexivity).
          assert (St2 : Step rs1 (snd (if next then first_token g skip rs1 e else last_token g skip rs1 e))
                                  (fst (if next then first_token g skip rs1 e else last_token g skip rs1 e))).
          { destruct next; [apply first_token_ok|apply last_token_ok]; [apply Sc|exact Ke|apply Sc|exact Ke]. }
          destruct (if next then first_token g skip rs1 e else last_token g skip rs1 e) as [[t|] rs2]; cbn [fst snd] in St2 |- *.
          -- eapply Step_trans; [eapply Step_trans; [exact St|exact Sc]|exact St2].
          -- destruct skip.
             ++ eapply Step_trans with (r1 := None); [eapply Step_trans; [eapply Step_trans; [exact St|exact Sc]|exact St2]|].
                apply IH; [apply St2|]. eapply Known_le; [apply St2|exact Ke].
             ++ cbn. eapply Step_trans; [eapply Step_trans; [exact St|exact Sc]|exact St2].
        * eapply Step_trans; [exact St|exact Sc].
  Qed.

  (* ---- walks built with iter::successors ---- *)
  Lemma successors_ok {A} (K : rstate -> A -> Prop) (step : rstate -> A -> option A * rstate) :
    (forall rs rs' a, Le rs rs' -> K rs a -> K rs' a) ->
    (forall rs a, Inv rs -> K rs a ->
       Inv (snd (step rs a)) /\ Le rs (snd (step rs a)) /\ forall b, fst (step rs a) = Some b -> K (snd (step rs a)) b) ->
    forall fuel rs a, Inv rs -> K rs a ->
      Inv (snd (successors fuel step rs a)) /\ Le rs (snd (successors fuel step rs a)) /\
      Forall (K (snd (successors fuel step rs a))) (fst (successors fuel step rs a)).
  Proof.
    intros Mono Hs. induction fuel as [|f IH]; intros rs a I Ka; cbn [successors].
    - cbn. split; [exact I|]. split; [apply Le_refl|]. constructor; [exact Ka|constructor].
    - destruct (Hs rs a I Ka) as (I1 & L1 & K1). destruct (step rs a) as [[b|] rs']; cbn [fst snd] in *.
      + destruct (IH rs' b I1 (K1 b eq_refl)) as (I2 & L2 & F2).
        destruct (successors f step rs' b) as [l rs'']. cbn [fst snd] in *.
        split; [exact I2|]. split; [eapply Le_trans; eauto|].
        constructor; [|exact F2]. eapply Mono; [|exact Ka]. eapply Le_trans; eauto.
      + cbn. split; [exact I1|]. split; [exact L1|]. constructor; [|constructor]. eapply Mono; eauto.
  Qed.

  Definition ev_known (rs : rstate) (ev : wev) : Prop := match ev with Enter p | Leave p => Known rs p end.

  Lemma preorder_step_ok b root rs ev :
    Inv rs -> ev_known rs ev ->
    Inv (snd (preorder_step g b root rs ev)) /\ Le rs (snd (preorder_step g b root rs ev)) /\
    forall e, fst (preorder_step g b root rs ev) = Some e -> ev_known (snd (preorder_step g b root rs ev)) e.
  Proof.
    intros I K. destruct ev as [p|p]; cbn [preorder_step ev_known] in *.
    - destruct (is_node_at g p).
      + pose proof (first_child_ok b rs p I K) as St.
        destruct (first_child_gen g b rs p) as [[c|] rs']; cbn [fst snd] in *.
        * split; [apply St|]. split; [apply St|]. intros e [= <-]. cbn. apply St. reflexivity.
        * split; [apply St|]. split; [apply St|]. intros e [= <-]. cbn. eapply Known_le; [apply St|exact K].
      + cbn. split; [exact I|]. split; [apply Le_refl|]. intros e [= <-]. exact K.
    - destruct (pos_eqb p root); [cbn; split; [exact I|split; [apply Le_refl|discriminate]]|].
      pose proof (next_sibling_ok b rs p I K) as St.
      destruct (next_sibling_gen g b rs p) as [[c|] rs']; cbn [fst snd] in *.
      + split; [apply St|]. split; [apply St|]. intros e [= <-]. cbn. apply St. reflexivity.
      + destruct p as [|i q]; cbn [parent_of fst snd].
        * split; [apply St|]. split; [apply St|discriminate].
        * split; [apply St|]. split; [apply St|]. intros e [= <-]. cbn.
          eapply Known_le; [apply St|]. eapply Known_parent; eauto.
  Qed.

  Lemma ev_known_le rs rs' ev : Le rs rs' -> ev_known rs ev -> ev_known rs' ev.
  Proof. intros L. destruct ev; cbn; apply Known_le; exact L. Qed.

  Lemma preorder_ok b rs p :
    Inv rs -> Known rs p ->
    Inv (snd (preorder g b rs p)) /\ Le rs (snd (preorder g b rs p)) /\
    Forall (ev_known (snd (preorder g b rs p))) (fst (preorder g b rs p)).
  Proof.
    intros I K. unfold preorder.
    apply (successors_ok ev_known (preorder_step g b p) ev_known_le); [|exact I|exact K].
    intros rs0 a I0 K0. apply preorder_step_ok; assumption.
  Qed.

  Lemma siblings_ok b next rs p :
    Inv rs -> Known rs p ->
    Inv (snd (siblings g b next rs p)) /\ Le rs (snd (siblings g b next rs p)) /\
    AllKnown (snd (siblings g b next rs p)) (fst (siblings g b next rs p)).
  Proof.
    intros I K. unfold siblings.
    apply (successors_ok Known _ (fun rs rs' a L => Known_le rs rs' a L)); [|exact I|exact K].
    intros rs0 a I0 K0.
    assert (St : Step rs0 (snd (if next then next_sibling_gen g b rs0 a else prev_sibling_gen g b rs0 a))
                          (fst (if next then next_sibling_gen g b rs0 a else prev_sibling_gen g b rs0 a))).
    { destruct next; [apply next_sibling_ok|apply prev_sibling_ok]; assumption. }
    split; [apply St|]. split; [apply St|apply St].
  Qed.

  (* ---- offset and range queries keep the invariant as well ---- *)
  Lemma goa_all_ok p : forall cs pre rs,
    kids g p = pre ++ cs -> Inv rs -> Known rs p ->
    Inv (goa_all cs p (length pre) (true_off p + sumN (map glen pre)) rs) /\
    Le rs (goa_all cs p (length pre) (true_off p + sumN (map glen pre)) rs) /\
    forall k c, nth_error cs k = Some c ->
      Known (goa_all cs p (length pre) (true_off p + sumN (map glen pre)) rs) ((length pre + k)%nat :: p).
  Proof.
    induction cs as [|c r IH]; intros pre rs E I Kp; cbn [goa_all].
    - split; [exact I|]. split; [apply Le_refl|]. intros [|k] c0; discriminate.
    - assert (Eo : true_off p + sumN (map glen pre) = true_off (length pre :: p)).
      { cbn [true_off]. rewrite E, firstn_app, Nat.sub_diag, firstn_all. cbn [firstn]. rewrite app_nil_r. reflexivity. }
      set (rs1 := goa rs (length pre :: p) (true_off p + sumN (map glen pre))).
      assert (I1 : Inv rs1) by (apply goa_inv; assumption).
      assert (L1 : Le rs rs1) by apply goa_le.
      assert (IH' := IH (pre ++ [c]) rs1). rewrite app_length, map_app, sumN_app in IH'. cbn [length map sumN] in IH'.
      replace (length pre + 1)%nat with (S (length pre)) in IH' by lia.
      replace (true_off p + (sumN (map glen pre) + (glen c + 0))) with (true_off p + sumN (map glen pre) + glen c) in IH' by lia.
      destruct IH' as (I2 & L2 & K2); [rewrite <- app_assoc; exact E|exact I1|eapply Known_le; [exact L1|exact Kp]|].
      split; [exact I2|]. split; [eapply Le_trans; eauto|].
      intros [|k] c0 Ek.
      + rewrite Nat.add_0_r. eapply Known_le; [exact L2|apply goa_known].
      + replace (length pre + S k)%nat with (S (length pre) + k)%nat by lia. apply (K2 k c0). exact Ek.
  Qed.

  Definition tao_known (rs : rstate) (r : res tao_res) : Prop :=
    match r with
    | Ok (TSingle t) => Known rs t
    | Ok (TBetween l r) => Known rs l /\ Known rs r
    | _ => True
    end.
  Lemma tao_known_le rs rs' r : Le rs rs' -> tao_known rs r -> tao_known rs' r.
  Proof.
    intros L. destruct r as [[|t|l r]|q]; cbn; auto.
    - apply Known_le; exact L.
    - intros [A B]; split; eapply Known_le; eauto.
  Qed.

  Definition TaoOk (rec : gelem -> pos -> N -> rstate -> res tao_res * rstate) (c : gelem) : Prop :=
    forall q off rs, subr g q = Some c -> Inv rs -> Known rs q ->
      Inv (snd (rec c q off rs)) /\ Le rs (snd (rec c q off rs)) /\ tao_known (snd (rec c q off rs)) (fst (rec c q off rs)).

  Lemma tao_loop_ok rec p off rs1 : forall l pre rs,
    kids g p = pre ++ l -> Forall (TaoOk rec) l -> Inv rs ->
    (forall k c, nth_error l k = Some c -> Known rs ((length pre + k)%nat :: p)) ->
    Inv (snd (tao_loop rec p off rs1 l (length pre) rs)) /\ Le rs (snd (tao_loop rec p off rs1 l (length pre) rs)) /\
    Forall (tao_known (snd (tao_loop rec p off rs1 l (length pre) rs))) (fst (tao_loop rec p off rs1 l (length pre) rs)).
  Proof.
    induction l as [|c r IH]; intros pre rs E F I Kn; cbn [tao_loop].
    - cbn. split; [exact I|]. split; [apply Le_refl|constructor].
    - inversion F as [|? ? Fc Fr]; subst.
      assert (E2 : kids g p = (pre ++ [c]) ++ r) by (rewrite <- app_assoc; exact E).
      assert (Kn2 : forall rs', Le rs rs' -> forall k c0, nth_error r k = Some c0 -> Known rs' ((length (pre ++ [c]) + k)%nat :: p)).
      { intros rs' L k c0 Ek. rewrite app_length. cbn [length].
        replace (length pre + 1 + k)%nat with (length pre + S k)%nat by lia.
        eapply Known_le; [exact L|]. apply (Kn (S k) c0). exact Ek. }
      destruct (tao_hit rs1 p off c (length pre)).
      + assert (S1 : subr g (length pre :: p) = Some c).
        { rewrite kids_nth, E, nth_error_app2, Nat.sub_diag; [reflexivity|lia]. }
        assert (K1 : Known rs (length pre :: p)).
        { specialize (Kn 0%nat c eq_refl). rewrite Nat.add_0_r in Kn. exact Kn. }
        destruct (Fc _ off rs S1 I K1) as (I1 & L1 & T1).
        destruct (rec c (length pre :: p) off rs) as [x rs']. cbn [fst snd] in *.
        destruct (IH (pre ++ [c]) rs' E2 Fr I1 (Kn2 rs' L1)) as (I2 & L2 & F2).
        replace (length (pre ++ [c])) with (S (length pre)) in I2, L2, F2 by (rewrite app_length; cbn; lia).
        destruct (tao_loop rec p off rs1 r (S (length pre)) rs') as [xs rs'']. cbn [fst snd] in *.
        split; [exact I2|]. split; [eapply Le_trans; eauto|].
        constructor; [eapply tao_known_le; eauto|exact F2].
      + destruct (IH (pre ++ [c]) rs E2 Fr I (Kn2 rs (Le_refl rs))) as (I2 & L2 & F2).
        replace (length (pre ++ [c])) with (S (length pre)) in I2, L2, F2 by (rewrite app_length; cbn; lia).
        auto.
  Qed.

  Lemma tao_combine_known rs l : Forall (tao_known rs) l -> tao_known rs (tao_combine l).
  Proof.
    intros F. destruct l as [|x [|y [|z r]]].
    - exact Logic.I.
    - inversion F as [|? ? Fx _]; subst. destruct x as [[|t|l r]|q]; exact Fx.
    - inversion F as [|? ? Fx F']; subst. inversion F' as [|? ? Fy _]; subst.
      destruct x as [[|t|l r]|q]; destruct y as [[|t'|l' r']|q']; cbn in *; auto.
    - destruct x as [[|t|l0 r0]|q]; destruct y as [[|t'|l' r']|q']; cbn; auto.
  Qed.

  Lemma tao_of_ok e : TaoOk tao_of e.
  Proof.
    induction e as [id k key len|id k len h cs IH] using gelem_ind'; intros p off rs S I K; cbn [tao_of].
    - destruct (_ && _); cbn; (split; [exact I|split; [apply Le_refl|auto]]).
    - destruct (negb _); [cbn; split; [exact I|split; [apply Le_refl|exact Logic.I]]|].
      destruct (glen _ =? 0); [cbn; split; [exact I|split; [apply Le_refl|exact Logic.I]]|].
      assert (Ek : kids g p = cs) by (unfold kids; rewrite S; reflexivity).
      pose proof (goa_all_ok p cs [] rs Ek I K) as G. cbn [length map sumN app Nat.add] in G.
      rewrite N.add_0_r in G.
      rewrite (offset_known rs p I K).
      set (rs1 := goa_all cs p 0 (true_off p) rs) in *. destruct G as (I1 & L1 & K1).
      destruct (count_hits rs1 p off cs 0) as [|[|[|n]]]; cbn [fst snd].
      + split; [exact I1|split; [exact L1|exact Logic.I]].
      + pose proof (tao_loop_ok tao_of p off rs1 cs [] rs1 Ek IH I1 K1) as T. cbn [length] in T.
        destruct (tao_loop tao_of p off rs1 cs 0 rs1) as [results rs2]. cbn [fst snd] in *.
        destruct T as (I2 & L2 & F2). split; [exact I2|]. split; [eapply Le_trans; eauto|apply tao_combine_known; exact F2].
      + pose proof (tao_loop_ok tao_of p off rs1 cs [] rs1 Ek IH I1 K1) as T. cbn [length] in T.
        destruct (tao_loop tao_of p off rs1 cs 0 rs1) as [results rs2]. cbn [fst snd] in *.
        destruct T as (I2 & L2 & F2). split; [exact I2|]. split; [eapply Le_trans; eauto|apply tao_combine_known; exact F2].
      + split; [exact I1|split; [exact L1|exact Logic.I]].
  Qed.

  Lemma token_at_offset_ok rs p off :
    Inv rs -> Known rs p ->
    Inv (snd (token_at_offset g rs p off)) /\ Le rs (snd (token_at_offset g rs p off)) /\
    tao_known (snd (token_at_offset g rs p off)) (fst (token_at_offset g rs p off)).
  Proof.
    intros I K. unfold token_at_offset. destruct (subr g p) as [e|] eqn:S.
    - apply tao_of_ok; assumption.
    - cbn. split; [exact I|split; [apply Le_refl|exact Logic.I]].
  Qed.

  Definition cov_known (rs : rstate) (r : res pos) : Prop := match r with Ok q => Known rs q | Panic _ => True end.
  Definition CovOk (rec : gelem -> pos -> N -> N -> rstate -> res pos * rstate) (c : gelem) : Prop :=
    forall q a b rs, subr g q = Some c -> Inv rs -> Known rs q ->
      Inv (snd (rec c q a b rs)) /\ Le rs (snd (rec c q a b rs)) /\ cov_known (snd (rec c q a b rs)) (fst (rec c q a b rs)).

  Lemma cov_loop_ok rec p a b : forall l pre rs,
    kids g p = pre ++ l -> Forall (CovOk rec) l -> Inv rs -> Known rs p ->
    Inv (snd (cov_loop rec p a b l (length pre) (true_off p + sumN (map glen pre)) rs)) /\
    Le rs (snd (cov_loop rec p a b l (length pre) (true_off p + sumN (map glen pre)) rs)) /\
    cov_known (snd (cov_loop rec p a b l (length pre) (true_off p + sumN (map glen pre)) rs))
              (fst (cov_loop rec p a b l (length pre) (true_off p + sumN (map glen pre)) rs)).
  Proof.
    induction l as [|c r IH]; intros pre rs E F I Kp; cbn [cov_loop].
    - cbn. split; [exact I|]. split; [apply Le_refl|exact Kp].
    - inversion F as [|? ? Fc Fr]; subst.
      assert (Eo : true_off p + sumN (map glen pre) = true_off (length pre :: p)).
      { cbn [true_off]. rewrite E, firstn_app, Nat.sub_diag, firstn_all. cbn [firstn]. rewrite app_nil_r. reflexivity. }
      set (rs1 := goa rs (length pre :: p) (true_off p + sumN (map glen pre))).
      assert (I1 : Inv rs1) by (apply goa_inv; assumption).
      assert (L1 : Le rs rs1) by apply goa_le.
      assert (K1 : Known rs1 (length pre :: p)) by apply goa_known.
      destruct (contains_range _ _ a b).
      + assert (S1 : subr g (length pre :: p) = Some c).
        { rewrite kids_nth, E, nth_error_app2, Nat.sub_diag; [reflexivity|lia]. }
        destruct (Fc _ a b rs1 S1 I1 K1) as (I2 & L2 & C2).
        split; [exact I2|]. split; [eapply Le_trans; eauto|exact C2].
      + assert (IH' := IH (pre ++ [c]) rs1). rewrite app_length, map_app, sumN_app in IH'. cbn [length map sumN] in IH'.
        replace (length pre + 1)%nat with (S (length pre)) in IH' by lia.
        replace (true_off p + (sumN (map glen pre) + (glen c + 0))) with (true_off p + sumN (map glen pre) + glen c) in IH' by lia.
        destruct IH' as (I2 & L2 & C2); [rewrite <- app_assoc; exact E|exact Fr|exact I1|eapply Known_le; [exact L1|exact Kp]|].
        split; [exact I2|]. split; [eapply Le_trans; eauto|exact C2].
  Qed.

  Lemma cov_of_ok e : CovOk cov_of e.
  Proof.
    induction e as [id k key len|id k len h cs IH] using gelem_ind'; intros p a b rs S I K; cbn [cov_of].
    - destruct (negb _); cbn; (split; [exact I|split; [apply Le_refl|auto]]).
    - destruct (negb _); [cbn; split; [exact I|split; [apply Le_refl|exact Logic.I]]|].
      assert (Ek : kids g p = cs) by (unfold kids; rewrite S; reflexivity).
      pose proof (cov_loop_ok cov_of p a b cs [] rs Ek IH I K) as C. cbn [length map sumN] in C.
      rewrite N.add_0_r in C. rewrite (offset_known rs p I K). exact C.
  Qed.

  Lemma covering_element_ok rs p a b :
    Inv rs -> Known rs p ->
    Inv (snd (covering_element g rs p a b)) /\ Le rs (snd (covering_element g rs p a b)) /\
    cov_known (snd (covering_element g rs p a b)) (fst (covering_element g rs p a b)).
  Proof.
    intros I K. unfold covering_element. destruct (subr g p) as [e|] eqn:S.
    - apply cov_of_ok; assumption.
    - cbn. split; [exact I|split; [apply Le_refl|exact Logic.I]].
  Qed.
End RedProofs.
