(* SerdeExact.v — C16: the deserializer rejects EXACTLY the event streams that do not describe one
   well-nested tree rooted in a node (with the current type of the token text field): the nesting
   check is complete as well as sound. *)
From CsModel Require Import Base Green Builder BuilderSpec BuilderProofs Serde.

Section SerdeExact.
  Variable static_text : kind -> option text.
  Variable H : list hw -> N.
  Variable threshold : nat.
  Variable debug : bool.

  (* what is outside every open node only grows, and closing the open nodes adds to it *)
  Lemma p_run_base : forall ops frames base base',
    p_run static_text (frames, base) ops = Some ([], base') ->
    exists pre, base' = pre ++ base /\ (frames <> [] -> pre <> []).
  Proof.
    induction ops as [|o r IH]; intros frames base base' R; cbn [p_run] in R.
    - injection R as -> ->. exists []. split; [reflexivity|]. intros C; contradiction C; reflexivity.
    - destruct (p_step static_text (frames, base) o) as [[fr1 b1]|] eqn:S; [|discriminate].
      destruct (IH fr1 b1 base' R) as (pre & E & Hne).
      destruct o; cbn [p_step] in S; try discriminate.
      + (* start *) injection S as <- <-. cbn [fst snd] in *. exists pre. split; [exact E|]. intros _. apply Hne. discriminate.
      + (* token *)
        unfold p_push in S. destruct frames as [|[kf cs] fr]; injection S as <- <-.
        * exists (pre ++ [STok k (match static_text k with Some s => s | None => t end)]). rewrite <- app_assoc. split; [exact E|]. intros C; contradiction C; reflexivity.
        * exists pre. split; [exact E|]. intros _. apply Hne. discriminate.
      + (* static token *)
        destruct (static_text k) as [s|]; [|discriminate]. unfold p_push in S. destruct frames as [|[kf cs] fr]; injection S as <- <-.
        * exists (pre ++ [STok k s]). rewrite <- app_assoc. split; [exact E|]. intros C; contradiction C; reflexivity.
        * exists pre. split; [exact E|]. intros _. apply Hne. discriminate.
      + (* finish *)
        destruct frames as [|[kf cs] fr]; [discriminate|]. unfold p_push in S. destruct fr as [|[k2 cs2] fr2]; injection S as <- <-.
        * exists (pre ++ [SNode kf (rev cs)]). rewrite <- app_assoc. split; [exact E|]. intros _. destruct pre; discriminate.
        * exists pre. split; [exact E|]. intros _. apply Hne. discriminate.
  Qed.

  Lemma nest_ok_complete_run : forall evs frames base roots k cs,
    p_run static_text (frames, base) (map to_bop evs) = Some ([], [SNode k cs]) ->
    ((frames = [] /\ roots = length base) \/ (frames <> [] /\ roots = 1%nat /\ base = [])) ->
    nest_ok evs (length frames) roots = true.
  Proof.
    induction evs as [|e r IH]; intros frames base roots k cs R Inv; cbn [map p_run nest_ok] in *.
    - injection R as -> ->. destruct Inv as [(_ & ->)|(C & _)]; [reflexivity|contradiction C; reflexivity].
    - destruct (p_step static_text (frames, base) (to_bop e)) as [[fr1 b1]|] eqn:S; [|discriminate].
      destruct e as [ke f|kt t|]; cbn [to_bop p_step] in S.
      + (* EnterNode *)
        injection S as <- <-. cbn [fst snd] in R.
        destruct Inv as [(-> & ->)|(Hne & -> & ->)]; cbn [length Nat.eqb].
        * (* at the top level: only if no root has been seen yet *)
          destruct (p_run_base _ _ _ _ R) as (pre & E & Hp). specialize (Hp ltac:(discriminate)).
          destruct base as [|x base0]; [cbn [length Nat.eqb andb]; apply (IH [(ke, [])] [] 1%nat k cs R); right; auto using nil_cons|].
          exfalso. destruct pre as [|y pre]; [contradiction Hp; reflexivity|]. cbn [app] in E. injection E as _ E.
          destruct pre; discriminate.
        * destruct frames as [|fr0 frs]; [contradiction Hne; reflexivity|]. cbn [length Nat.eqb].
          apply (IH ((ke, []) :: fr0 :: frs) [] 1%nat k cs R). right. split; [discriminate|auto].
      + (* Token *)
        unfold p_push in S. destruct frames as [|[kf cs0] fr]; injection S as <- <-.
        * (* a token outside every node can never become part of a single node root *)
          exfalso. destruct (p_run_base _ _ _ _ R) as (pre & E & _).
          destruct pre as [|y pre]; cbn [app] in E; [injection E as E _; discriminate|]. injection E as _ E. destruct pre; discriminate.
        * destruct Inv as [(C & _)|(_ & -> & ->)]; [discriminate|]. cbn [length Nat.eqb negb andb].
          apply (IH ((kf, STok kt (match static_text kt with Some s => s | None => t end) :: cs0) :: fr) [] 1%nat k cs R). right. split; [discriminate|auto].
      + (* LeaveNode *)
        destruct frames as [|[kf cs0] fr]; [discriminate|]. destruct Inv as [(C & _)|(_ & -> & ->)]; [discriminate|].
        cbn [length Nat.eqb negb andb Nat.pred]. unfold p_push in S. destruct fr as [|[k2 cs2] fr2]; injection S as <- <-.
        * apply (IH [] [SNode kf (rev cs0)] 1%nat k cs R). left. auto.
        * apply (IH ((k2, SNode kf (rev cs0) :: cs2) :: fr2) [] 1%nat k cs R). right. split; [discriminate|auto].
  Qed.

  Theorem nest_ok_complete evs t : parse static_text (map to_bop evs) = Some t -> nest_ok evs 0 0 = true.
  Proof.
    unfold parse, p_init. destruct (p_run static_text ([], []) (map to_bop evs)) as [[[|f fr] [|[|k cs] [|y l]]]|] eqn:R; try discriminate.
    intros _. apply (nest_ok_complete_run evs [] [] 0%nat k cs R). left. auto.
  Qed.

  (* the nesting check decides exactly "one well-nested tree rooted in a node" *)
  Theorem nest_ok_iff_parse evs : nest_ok evs 0 0 = true <-> exists t, parse static_text (map to_bop evs) = Some t.
  Proof. split; [apply nest_ok_parse|intros (t & P); eapply nest_ok_complete; eauto]. Qed.

  (* with the token text field as it is typed now (readable from every kind of input), the
     deserializer reports an error exactly for the streams that are not one well-nested tree *)
  Theorem deser_rejects_exactly ty m evs :
    (forall m', deser_str ty m' = true) ->
    (deser_tree static_text H threshold debug true ty m evs = DErr <-> parse static_text (map to_bop evs) = None).
  Proof.
    intros Hty. unfold deser_tree. rewrite (Hty m). cbn [negb]. rewrite andb_false_r. cbn [andb].
    destruct (nest_ok evs 0 0) eqn:N; cbn [negb].
    - destruct (nest_ok_parse static_text evs N) as (t & P). split; [|rewrite P; discriminate].
      destruct (b_run_strict static_text H threshold HeadAndChildren debug true (new_builder empty_cache) (map to_bop evs)) as [s|p]; [|discriminate].
      destruct (b_finish s) as [[g c]|p]; discriminate.
    - split; [intros _|reflexivity]. destruct (parse static_text (map to_bop evs)) as [t|] eqn:P; [|reflexivity].
      rewrite (nest_ok_complete evs t P) in N. discriminate.
  Qed.
End SerdeExact.
