(* CacheShare.v — C04, effectiveness: within one cache, tokens with equal kind and text and small
   nodes with equal kind and equal children are stored once: asking again — at any later time, after
   any number of other tokens and nodes went through the cache — returns the very same element (same
   allocation), and allocates nothing. *)
From CsModel Require Import Base Green Builder GreenEq.

Section CacheShare.
  Variable H : list hw -> N.
  Variable threshold : nat.

  Notation cache_token := (cache_token).
  Notation cache_node := (cache_node H threshold HeadAndChildren).

  (* a cache only grows *)
  Definition CacheExt (c c' : cache) : Prop :=
    (exists t, c_tokens c' = c_tokens c ++ t) /\ (exists n, c_nodes c' = c_nodes c ++ n).

  Lemma CacheExt_refl c : CacheExt c c.
  Proof. split; exists []; rewrite app_nil_r; reflexivity. Qed.

  Lemma CacheExt_trans a b c : CacheExt a b -> CacheExt b c -> CacheExt a c.
  Proof.
    intros ((t1 & T1) & (n1 & N1)) ((t2 & T2) & (n2 & N2)). split.
    - exists (t1 ++ t2). rewrite T2, T1, app_assoc. reflexivity.
    - exists (n1 ++ n2). rewrite N2, N1, app_assoc. reflexivity.
  Qed.

  Lemma cache_token_ext c k key len : CacheExt c (snd (cache_token c k key len)).
  Proof.
    unfold Builder.cache_token. destruct (find _ (c_tokens c)); cbn [snd]; [apply CacheExt_refl|].
    split; cbn [c_tokens c_nodes]; [eexists; reflexivity|exists []; rewrite app_nil_r; reflexivity].
  Qed.

  Lemma cache_node_ext c k cs : CacheExt c (snd (cache_node c k cs)).
  Proof.
    unfold Builder.cache_node. destruct (length cs <=? threshold)%nat.
    - destruct (find _ (c_nodes c)); cbn [snd]; [apply CacheExt_refl|].
      split; cbn [c_tokens c_nodes]; [exists []; rewrite app_nil_r; reflexivity|eexists; reflexivity].
    - cbn [snd]. split; cbn [c_tokens c_nodes]; exists []; rewrite app_nil_r; reflexivity.
  Qed.

  Lemma find_app_found {A} (p : A -> bool) l l' x : find p l = Some x -> find p (l ++ l') = Some x.
  Proof. induction l as [|a l IH]; cbn [find app]; [discriminate|]. destruct (p a); auto. Qed.

  Lemma find_app_new {A} (p : A -> bool) l x l' : find p l = None -> p x = true -> find p (l ++ x :: l') = Some x.
  Proof. induction l as [|a l IH]; cbn [find app]; intros N P; [rewrite P; reflexivity|]. destruct (p a); [discriminate|auto]. Qed.

  Lemma tokdata_eqb_refl d : tokdata_eqb d d = true.
  Proof.
    destruct d as [[k key] len]. unfold tokdata_eqb. rewrite !N.eqb_refl.
    destruct key as [x|]; cbn [optN_eqb]; [rewrite N.eqb_refl|]; reflexivity.
  Qed.

  (* ---- tokens ---- *)
  Theorem tokens_shared c k key len c2 :
    CacheExt (snd (cache_token c k key len)) c2 ->
    cache_token c2 k key len = (fst (cache_token c k key len), c2).
  Proof.
    unfold Builder.cache_token. intros ((t & T) & _).
    destruct (find (fun e => tokdata_eqb (fst e) (k, key, len)) (c_tokens c)) as [e|] eqn:F; cbn [fst snd] in *.
    - rewrite T, (find_app_found _ _ t e F). reflexivity.
    - cbn [c_tokens] in T. rewrite T, <- app_assoc. cbn [app].
      rewrite (find_app_new (fun e => tokdata_eqb (fst e) (k, key, len)) (c_tokens c) ((k, key, len), GTok (c_next c) k key len) t F);
        [reflexivity|apply tokdata_eqb_refl].
  Qed.

  (* ---- small nodes ---- *)
  Lemma node_matches_self id k cs :
    node_matches HeadAndChildren k (sumN (map glen cs)) (H (map hw_of cs)) cs (GNode id k (sumN (map glen cs)) (H (map hw_of cs)) cs) = true.
  Proof. cbn [node_matches]. rewrite !N.eqb_refl, geq_list_refl. reflexivity. Qed.

  Theorem small_nodes_shared c k cs c2 :
    (length cs <= threshold)%nat ->
    CacheExt (snd (cache_node c k cs)) c2 ->
    cache_node c2 k cs = (fst (cache_node c k cs), c2).
  Proof.
    unfold Builder.cache_node. intros L (_ & (n & Nn)). apply Nat.leb_le in L. rewrite L in *.
    destruct (find (node_matches HeadAndChildren k (sumN (map glen cs)) (H (map hw_of cs)) cs) (c_nodes c)) as [g|] eqn:F; cbn [fst snd] in *.
    - rewrite Nn, (find_app_found _ _ n g F). reflexivity.
    - cbn [c_nodes] in Nn. rewrite Nn, <- app_assoc. cbn [app].
      rewrite (find_app_new _ (c_nodes c) (GNode (c_next c) k (sumN (map glen cs)) (H (map hw_of cs)) cs) n F); [reflexivity|apply node_matches_self].
  Qed.


  (* ---- the interner hands out the same key again, whatever was interned in between ---- *)
  Lemma find_index_app_found {A} (p : A -> bool) l l' i : find_index p l = Some i -> find_index p (l ++ l') = Some i.
  Proof.
    revert i. induction l as [|a l IH]; intros i; cbn [find_index app]; [discriminate|].
    destruct (p a); [auto|]. destruct (find_index p l) as [j|]; cbn [option_map]; [|discriminate].
    intros [= <-]. rewrite (IH j eq_refl). reflexivity.
  Qed.

  Lemma find_index_app_new {A} (p : A -> bool) l x l' : find_index p l = None -> p x = true -> find_index p (l ++ x :: l') = Some (length l).
  Proof.
    induction l as [|a l IH]; cbn [find_index app length]; intros N P; [rewrite P; reflexivity|].
    destruct (p a); [discriminate|]. destruct (find_index p l) as [j|]; [discriminate|]. rewrite (IH eq_refl P). reflexivity.
  Qed.

  Theorem intern_stable strs t ext :
    intern (snd (intern strs t) ++ ext) t = (fst (intern strs t), snd (intern strs t) ++ ext).
  Proof.
    unfold intern. destruct (find_index (text_eqb t) strs) as [i|] eqn:F; cbn [fst snd].
    - rewrite (find_index_app_found _ _ ext i F). reflexivity.
    - rewrite <- app_assoc. cbn [app]. rewrite (find_index_app_new _ strs t ext F (text_eqb_refl t)). reflexivity.
  Qed.
End CacheShare.

(* ---- at the level of the builder API ---- *)
Section BuilderShare.
  Variable static_text : kind -> option text.
  Variable H : list hw -> N.
  Variable threshold : nat.
  Variable debug : bool.
  Variable revert_fixed : bool.

  Notation b_token := (b_token static_text debug).

  (* the cache of s2 is a later stage of the cache of s1: more tokens, more nodes, more strings *)
  Definition Later (c1 c2 : cache) : Prop := CacheExt c1 c2 /\ exists ext, c_strs c2 = c_strs c1 ++ ext.

  (* feeding the same (kind, text) to the builder again, at any later stage of the same cache, pushes
     the very same token element and leaves the cache as it is *)
  Theorem token_shared s k t s1 s2 :
    b_token s k t = Ok s1 -> Later (b_cache s1) (b_cache s2) ->
    exists s3, b_token s2 k t = Ok s3 /\ hd_error (b_children s3) = hd_error (b_children s1) /\ b_cache s3 = b_cache s2.
  Proof.
    unfold Builder.b_token. intros E (X & (ext & S)).
    destruct (static_text k) as [st|].
    - destruct (debug && negb (text_eqb st t)); [discriminate|].
      destruct (cache_token (b_cache s) k None (byte_len st)) as [g c] eqn:Ct. injection E as <-. cbn [b_cache b_children push_child] in *.
      assert (T := tokens_shared (b_cache s) k None (byte_len st) (b_cache s2)). rewrite Ct in T. cbn [fst snd] in T.
      rewrite (T X). eexists. split; [reflexivity|]. cbn [b_cache b_children push_child hd_error]. auto.
    - destruct (intern (c_strs (b_cache s)) t) as [key strs] eqn:I.
      destruct (cache_token (mkCache (c_next (b_cache s)) (c_tokens (b_cache s)) (c_nodes (b_cache s)) strs) k (Some key) (byte_len t)) as [g c] eqn:Ct.
      injection E as <-. cbn [b_cache b_children push_child] in *.
      (* the strings of c are strs: cache_token does not touch them *)
      assert (Cs : c_strs c = strs).
      { unfold cache_token in Ct. destruct (find _ _) in Ct; injection Ct as _ <-; reflexivity. }
      assert (Is := intern_stable (c_strs (b_cache s)) t ext). rewrite I in Is. cbn [fst snd] in Is.
      rewrite S, Cs, Is.
      assert (T := tokens_shared (mkCache (c_next (b_cache s)) (c_tokens (b_cache s)) (c_nodes (b_cache s)) strs) k (Some key) (byte_len t)
                                 (mkCache (c_next (b_cache s2)) (c_tokens (b_cache s2)) (c_nodes (b_cache s2)) (strs ++ ext))).
      rewrite Ct in T. cbn [fst snd] in T. rewrite T; [|exact X].
      eexists. split; [reflexivity|]. cbn [b_cache b_children push_child hd_error]. split; [reflexivity|].
      destruct (b_cache s2) as [n2 t2 nd2 st2]. cbn [c_next c_tokens c_nodes c_strs] in *. rewrite S, Cs. reflexivity.
  Qed.

  Notation b_finish_node := (b_finish_node H threshold HeadAndChildren).

  (* the children a finish_node call wraps *)
  Definition pending_children (s : bstate) : list gelem :=
    match b_parents s with
    | [] => []
    | (_, first) :: _ => rev (firstn (length (b_children s) - first) (b_children s))
    end.
  Definition pending_kind (s : bstate) : option kind := match b_parents s with [] => None | (k, _) :: _ => Some k end.

  (* finishing a small node with the same kind over the same children again, at any later stage of
     the same cache, yields the very same node element and leaves the cache as it is *)
  Theorem node_shared s s1 s2 :
    b_finish_node s = Ok s1 -> (length (pending_children s) <= threshold)%nat ->
    pending_kind s2 = pending_kind s -> pending_children s2 = pending_children s ->
    (match b_parents s2 with (_, first) :: _ => (first <= length (b_children s2))%nat | [] => True end) ->
    CacheExt (b_cache s1) (b_cache s2) ->
    exists s3, b_finish_node s2 = Ok s3 /\ hd_error (b_children s3) = hd_error (b_children s1) /\ b_cache s3 = b_cache s2.
  Proof.
    unfold Builder.b_finish_node, pending_children, pending_kind.
    destruct (b_parents s) as [|[k first] ps]; [discriminate|].
    destruct (first <=? length (b_children s))%nat; [|discriminate].
    set (cs := rev (firstn (length (b_children s) - first) (b_children s))).
    destruct (cache_node H threshold HeadAndChildren (b_cache s) k cs) as [g c] eqn:Cn.
    intros [= <-] L Kk Cc Fit X. cbn [b_cache b_children] in *.
    destruct (b_parents s2) as [|[k2 first2] ps2]; [discriminate|]. injection Kk as ->.
    apply Nat.leb_le in Fit. rewrite Fit. rewrite Cc.
    assert (T := small_nodes_shared H threshold (b_cache s) k cs (b_cache s2) L). rewrite Cn in T. cbn [fst snd] in T.
    rewrite (T X). eexists. split; [reflexivity|]. cbn [b_cache b_children hd_error]. auto.
  Qed.
End BuilderShare.

(* ---- concrete instances: with a hash function under which EVERYTHING collides, two different small
   nodes stay two nodes, and the same node built twice is one allocation; with the pre-fix lookup
   (head only) the second node is replaced by the first ---- *)
Definition ex_H (_ : list hw) : N := 0.
Definition ex_static (_ : kind) : option text := None.
Definition ex_ops : list bop :=
  [OStart 1; OStart 2; OToken 5 [97]; OFinishNode; OStart 2; OToken 5 [98]; OFinishNode; OStart 2; OToken 5 [97]; OFinishNode; OFinishNode].

Definition ex_ids (mode : lookup_mode) : option (list (N * list N)) :=
  match build ex_static ex_H 3 mode true true empty_cache ex_ops with
  | Ok (GNode _ _ _ _ cs, c) =>
      Some (map (fun g => match g with
                          | GNode id _ _ _ [GTok _ _ (Some key) _] => (id, nth (N.to_nat key) (c_strs c) [])
                          | _ => (0, [])
                          end) cs)
  | _ => None
  end.

(* children: "a" (a node), "b" (a different node although its head collides), "a" again (the first node, shared) *)
Example ex_colliding_nodes_kept_apart :
  exists ida idb, ida <> idb /\ ex_ids HeadAndChildren = Some [(ida, [97]); (idb, [98]); (ida, [97])].
Proof. vm_compute. eexists _, _. split; [|reflexivity]. discriminate. Qed.

(* the lookup before the repair of F1: the node over "b" is lost *)
Example ex_head_only_merges :
  exists ida, ex_ids HeadOnly = Some [(ida, [97]); (ida, [97]); (ida, [97])].
Proof. vm_compute. eexists. reflexivity. Qed.
