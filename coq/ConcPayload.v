(* ConcPayload.v — C18: every payload value that was created (by a set or a conditional set) is either
   still stored in the data of some node or has been dropped, exactly once; when every thread is done
   all of them have been dropped. *)
From CsModel Require Import Red RedProofs Conc ConcProofs ConcHandles ConcData ConcReclaim ConcWf ConcTear.
From Coq Require Import ZArith Lia.
Open Scope Z_scope.

Section ConcPayload.
  Variable g : gelem.

  Definition created_res (r : cres) : Z := match r with RSet _ | RTrySet _ _ => 1 | _ => 0 end.
  Fixpoint created_out (o : list cres) : Z := match o with [] => 0 | r :: o' => created_res r + created_out o' end.
  Definition createdT (t : thread) : Z := created_out (t_out t).

  Definition DataCount (s : cstate) : Prop :=
    Z.of_nat (c_payload_drops s) + Z.of_nat (length (c_data s)) = sumT createdT (c_threads s) /\
    NoDup (map fst (c_data s)).

  Lemma created_out_app a b : created_out (a ++ b) = created_out a + created_out b.
  Proof. induction a as [|r a IH]; cbn [app created_out]; [lia|]. rewrite IH. lia. Qed.

  Lemma data_lookup_none_keys d p : data_lookup d p = None <-> ~ In p (map fst d).
  Proof.
    induction d as [|[q v] r IH]; cbn [data_lookup map fst In]; [tauto|].
    destruct (pos_eqb q p) eqn:E.
    - apply pos_eqb_eq in E. subst q. split; [discriminate|intros H; contradiction H; left; reflexivity].
    - rewrite IH. split; [intros H [->|H2]; [rewrite pos_eqb_refl in E; discriminate|auto]|intros H H2; apply H; right; exact H2].
  Qed.

  Lemma data_remove_keys d x p : In p (map fst (data_remove d x)) -> In p (map fst d) /\ p <> x.
  Proof.
    induction d as [|[q v] r IH]; cbn [data_remove map fst In]; [tauto|].
    destruct (pos_eqb q x) eqn:E.
    - intros H. destruct (IH H). tauto.
    - cbn [map fst In]. intros [->|H]; [split; [left; reflexivity|intros ->; rewrite pos_eqb_refl in E; discriminate]|destruct (IH H); tauto].
  Qed.

  Lemma data_remove_nodup d x : NoDup (map fst d) -> NoDup (map fst (data_remove d x)).
  Proof.
    induction d as [|[q v] r IH]; cbn [data_remove map fst]; [auto|]. intros N. inversion N as [|? ? Hq Nr]; subst.
    destruct (pos_eqb q x); [auto|]. cbn [map fst]. constructor; [|auto]. intros H. apply data_remove_keys in H. tauto.
  Qed.

  Lemma data_remove_absent d x : data_lookup d x = None -> data_remove d x = d.
  Proof.
    induction d as [|[q v] r IH]; cbn [data_lookup data_remove]; [reflexivity|].
    destruct (pos_eqb q x); [discriminate|]. intros H. rewrite (IH H). reflexivity.
  Qed.

  Definition present (o : option N) : Z := match o with Some _ => 1 | None => 0 end.

  Lemma data_remove_length d x : NoDup (map fst d) ->
    Z.of_nat (length (data_remove d x)) = Z.of_nat (length d) - present (data_lookup d x).
  Proof.
    induction d as [|[q v] r IH]; cbn [data_remove data_lookup map fst length]; intros N; [cbn; lia|].
    inversion N as [|? ? Hq Nr]; subst. destruct (pos_eqb q x) eqn:E.
    - apply pos_eqb_eq in E. subst q. rewrite (data_remove_absent r x); [cbn [present]; lia|]. apply data_lookup_none_keys. exact Hq.
    - cbn [length]. rewrite Nat2Z.inj_succ, (IH Nr). lia.
  Qed.

  Lemma set_nodup d p v : NoDup (map fst d) -> NoDup (map fst ((p, v) :: data_remove d p)).
  Proof.
    intros N. cbn [map fst]. constructor; [|apply data_remove_nodup; exact N].
    intros H. apply data_remove_keys in H. tauto.
  Qed.

  Lemma sumT_upd f ths tid t t' : nth_error ths tid = Some t -> sumT f (set_nth ths tid t') = sumT f ths - f t + f t'.
  Proof. apply sumT_set_nth. Qed.

  Theorem exec_DataCount s tid t m rest :
    nth_error (c_threads s) tid = Some t -> t_cont t = m :: rest -> DataCount s -> DataCount (fst (exec_mop g s tid t m rest)).
  Proof.
    intros Ht Hc (E & N). unfold DataCount.
    destruct t as [regs prog cont out]. cbn [t_cont] in Hc. subst cont.
    assert (U : forall t', sumT createdT (set_nth (c_threads s) tid t') = sumT createdT (c_threads s) - created_out out + created_out (t_out t')).
    { intros t'. rewrite (sumT_upd createdT _ tid _ t' Ht). reflexivity. }
    destruct m as [p i rt first keep|p i off cand keep|delta after|h|r|r report|tb p i|p o]; cbn [exec_mop].
    - destruct (slot_lookup (c_slots s) (i :: p)); [|destruct (child_is_node g p i)];
        cbn [fst upd_thread c_payload_drops c_data c_threads]; rewrite U; cbn [t_out]; split; [lia|exact N|lia|exact N|lia|exact N].
    - destruct (slot_lookup (c_slots s) (i :: p)); cbn [fst upd_thread c_payload_drops c_data c_threads]; rewrite U; cbn [t_out];
        split; [lia|exact N|lia|exact N].
    - cbn [fst upd_thread c_payload_drops c_data c_threads]; rewrite U; cbn [t_out]; split; [lia|exact N].
    - cbn [fst upd_thread c_payload_drops c_data c_threads]; rewrite U; cbn [t_out].
      rewrite created_out_app. cbn [created_out created_res]. split; [lia|exact N].
    - destruct (reg_of _ r); cbn [fst upd_thread c_payload_drops c_data c_threads]; rewrite U; cbn [t_out];
        rewrite ?created_out_app; cbn [created_out created_res]; split; [lia|exact N|lia|exact N].
    - destruct (reg_of _ r); [destruct (Z.eqb (c_rc s) 1)|]; cbn [fst upd_thread c_payload_drops c_data c_threads t_out]; rewrite U; cbn [t_out].
      + assert (L := data_remove_length (c_data s) [] N).
        split; [|apply data_remove_nodup; exact N].
        destruct report; rewrite ?created_out_app; cbn [created_out created_res]; destruct (data_lookup (c_data s) []); cbn [present] in L; lia.
      + split; [|exact N]. destruct report; rewrite ?created_out_app; cbn [created_out created_res]; lia.
      + split; [lia|exact N].
    - destruct (negb (c_torn s)); [cbn [fst upd_thread c_payload_drops c_data c_threads]; rewrite U; cbn [t_out]; split; [lia|exact N]|].
      destruct (tear_slot_events g s tb p i) as [more evs].
      cbn [fst upd_thread c_payload_drops c_data c_threads]; rewrite U; cbn [t_out].
      assert (L := data_remove_length (c_data s) (i :: p) N).
      split; [|apply data_remove_nodup; exact N].
      destruct (data_lookup (c_data s) (i :: p)); cbn [present] in L; lia.
    - assert (L := data_remove_length (c_data s) p N).
      destruct o as [r|r|r i|r|r|r|r|r v|r v|r|r];
        try (cbn [fst upd_thread c_payload_drops c_data c_threads]; rewrite U; cbn [t_out];
             rewrite created_out_app; cbn [created_out created_res]; split; [lia|exact N]; fail).
      + cbn [fst upd_thread c_payload_drops c_data c_threads]; rewrite U; cbn [t_out].
        rewrite created_out_app. cbn [created_out created_res length]. split; [|apply set_nodup; exact N].
        rewrite Nat2Z.inj_succ. destruct (data_lookup (c_data s) p); cbn [present] in L; lia.
      + destruct (data_lookup (c_data s) p) eqn:Lp; cbn [fst upd_thread c_payload_drops c_data c_threads]; rewrite U; cbn [t_out];
          rewrite created_out_app; cbn [created_out created_res length].
        * split; [lia|exact N].
        * split; [|apply set_nodup; exact N]. rewrite Nat2Z.inj_succ. cbn [present] in L. lia.
      + cbn [fst upd_thread c_payload_drops c_data c_threads]; rewrite U; cbn [t_out].
        rewrite created_out_app. cbn [created_out created_res]. split; [|apply data_remove_nodup; exact N].
        destruct (data_lookup (c_data s) p); cbn [present] in L; lia.
  Qed.

  Lemma expand_created t o : match snd (expand g t o) with Some r => created_res r = 0 | None => True end.
  Proof.
    destruct o as [r|r|r i|r|r|r|r|r v|r v|r|r]; unfold expand;
      destruct (reg_of t r) as [[p e]|] eqn:Er; cbn [snd created_res]; auto.
    - destruct e; [destruct (Nat.ltb 0 (length (kids g p)))|]; cbn [snd created_res]; auto.
    - destruct e; [destruct (Nat.ltb 0 (length (kids g p)))|]; cbn [snd created_res]; auto.
    - destruct e; [destruct (Nat.ltb i (length (kids g p)))|]; cbn [snd created_res]; auto.
    - destruct p as [|i q]; cbn [snd created_res]; auto. destruct (Nat.ltb (S i) (length (kids g q))); cbn [snd created_res]; auto.
    - destruct p as [|i q]; cbn [snd created_res]; auto. destruct i; cbn [snd created_res]; auto.
    - destruct e; cbn [snd created_res]; auto.
    - destruct e; cbn [snd created_res]; auto.
    - destruct e; cbn [snd created_res]; auto.
    - destruct e; cbn [snd created_res]; auto.
  Qed.

  Lemma refill_created : forall fuel t, createdT (refill g fuel t) = createdT t.
  Proof.
    induction fuel as [|f IH]; intros t; cbn [refill]; [reflexivity|].
    destruct t as [regs prog cont out]. cbn [t_cont t_prog t_regs t_out].
    destruct cont as [|m c]; [|reflexivity].
    destruct prog as [|o r].
    - destruct (first_owned regs 0); reflexivity.
    - assert (Er := expand_created (mkThread regs (o :: r) [] out) o).
      destruct (expand g (mkThread regs (o :: r) [] out) o) as [ms res]. cbn [snd] in Er.
      rewrite IH. unfold createdT. cbn [t_out]. destruct res as [x|]; [|reflexivity].
      rewrite created_out_app. cbn [created_out]. lia.
  Qed.

  Lemma normalize_DataCount s : DataCount s -> DataCount (normalize g s).
  Proof.
    unfold DataCount, normalize. cbn [c_payload_drops c_data c_threads]. intros (E & N). split; [|exact N].
    rewrite E. symmetry. apply sumT_map_eq. apply Forall_forall. intros t _. apply refill_created.
  Qed.

  Theorem reach_DataCount progs s : Reach g progs s -> DataCount s.
  Proof.
    induction 1 as [|s want s' tid evs _ IH C].
    - unfold cinit. apply normalize_DataCount. unfold DataCount. cbn [c_payload_drops c_data c_threads]. split; [|constructor].
      rewrite (sumT_const_map createdT _ 0); [cbn; lia|]. intros a. reflexivity.
    - destruct (cstep_inv g _ _ _ _ _ C) as (t & m & rest & Ht & Hc & -> & _).
      apply normalize_DataCount. apply exec_DataCount; auto.
  Qed.

  (* exactly once: at every moment created = dropped + stored; at the end nothing is stored *)
  Theorem payloads_dropped_once progs s :
    Reach g progs s ->
    Z.of_nat (c_payload_drops s) + Z.of_nat (length (c_data s)) = sumT createdT (c_threads s) /\
    (progs <> [] -> all_done s = true -> Z.of_nat (c_payload_drops s) = sumT createdT (c_threads s)).
  Proof.
    intros R. destruct (reach_DataCount _ _ R) as (E & _). split; [exact E|].
    intros Hp D. destruct (no_leak g progs s Hp R D) as (_ & _ & Ed & _). rewrite Ed in E. cbn [length] in E. lia.
  Qed.
End ConcPayload.
