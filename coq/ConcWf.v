(* ConcWf.v — structural invariants of the concurrent machine before the teardown: every initialised
   slot, every pending micro-operation and every node datum sits at a position whose parent is the
   root or an initialised node slot, and a slot holds a node exactly where the green tree has one. *)
From CsModel Require Import Red RedProofs Conc ConcProofs ConcHandles.
From Coq Require Import ZArith Lia.

Section ConcWf.
  Variable g : gelem.

  Definition NodePos (sl : list (pos * selem)) (p : pos) : Prop :=
    p = [] \/ exists b, slot_lookup sl p = Some (ENode b).

  Definition is_enode (e : selem) : bool := match e with ENode _ => true | EToken _ => false end.
  Definition is_some {A} (o : option A) : bool := match o with Some _ => true | None => false end.

  Definition SlotsOk (sl : list (pos * selem)) : Prop :=
    forall q e, slot_lookup sl q = Some e ->
      exists k q', q = k :: q' /\ NodePos sl q' /\ is_enode e = child_is_node g q' k.

  Definition MOk (sl : list (pos * selem)) (m : mop) : Prop :=
    match m with
    | MRead p _ _ _ => NodePos sl p
    | MWrite p i cand _ => NodePos sl p /\ is_some cand = child_is_node g p i
    | MData p _ => NodePos sl p
    | MTearSlot _ _ _ => False
    | _ => True
    end.

  Definition DataOk (sl : list (pos * selem)) (d : list (pos * N)) : Prop :=
    forall p v, data_lookup d p = Some v -> NodePos sl p.

  Definition Wf (s : cstate) : Prop :=
    c_torn s = false ->
    SlotsOk (c_slots s) /\ Forall (fun t => Forall (MOk (c_slots s)) (t_cont t)) (c_threads s) /\ DataOk (c_slots s) (c_data s).

  Definition Mono (sl sl' : list (pos * selem)) : Prop := forall p e, slot_lookup sl p = Some e -> slot_lookup sl' p = Some e.

  Lemma NodePos_mono sl sl' p : Mono sl sl' -> NodePos sl p -> NodePos sl' p.
  Proof. intros M [->|(b & L)]; [left; reflexivity|right; exists b; apply M; exact L]. Qed.

  Lemma MOk_mono sl sl' m : Mono sl sl' -> MOk sl m -> MOk sl' m.
  Proof.
    intros M. destruct m; cbn [MOk]; auto; try (apply NodePos_mono; exact M).
    intros [A B]. split; [eapply NodePos_mono; eauto|exact B].
  Qed.

  Lemma Mono_refl sl : Mono sl sl.
  Proof. intros p e L; exact L. Qed.

  Lemma Mono_cons sl q e : slot_lookup sl q = None -> Mono sl ((q, e) :: sl).
  Proof.
    intros L p e' L'. rewrite slot_lookup_cons. destruct (pos_eqb q p) eqn:E; [|exact L'].
    apply pos_eqb_eq in E. subst. congruence.
  Qed.

  (* ---- handles give node positions ---- *)
  Lemma HOk_node sl p b : HOk sl (p, ENode b) -> NodePos sl p.
  Proof. unfold HOk. cbn [fst snd]. destruct p; [left; reflexivity|intros L; right; exists b; exact L]. Qed.

  Lemma HOk_parent sl i q e : SlotsOk sl -> HOk sl (i :: q, e) -> NodePos sl q.
  Proof.
    unfold HOk. cbn [fst snd]. intros S L. destruct (S _ _ L) as (k & q' & [= -> ->] & NP & _). exact NP.
  Qed.

  Lemma reg_HOk sl t r h : THOk sl t -> reg_of t r = Some h -> HOk sl h.
  Proof.
    intros T E. unfold THOk, thread_handles in T. rewrite Forall_app in T. destruct T as (Tr & _).
    rewrite Forall_forall in Tr. apply Tr. eapply reg_of_in; eauto.
  Qed.

  Lemma MOk_iter_to sl p : NodePos sl p -> forall n j, Forall (MOk sl) (iter_to p j n).
  Proof.
    intros NP. induction n as [|n IH]; intros j; cbn [iter_to get_or_add app]; constructor; auto; try exact NP.
    apply IH.
  Qed.

  Lemma MOk_flat sl p l : NodePos sl p -> Forall (MOk sl) (flat_map (fun j => get_or_add p j false) l).
  Proof. intros NP. induction l as [|a l IH]; cbn [flat_map get_or_add app]; constructor; auto. Qed.

  Lemma expand_MOk sl t o : SlotsOk sl -> THOk sl t -> Forall (MOk sl) (fst (expand g t o)).
  Proof.
    intros S T.
    destruct o as [r|r|r i|r|r|r|r|r v|r v|r|r]; unfold expand;
      destruct (reg_of t r) as [[p e]|] eqn:Er; cbn [fst]; try constructor;
      try (assert (Hh := reg_HOk _ _ _ _ T Er)).
    - destruct e; [destruct (Nat.ltb 0 (length (kids g p)))|]; cbn [fst get_or_add]; repeat constructor.
      eapply HOk_node; eauto.
    - destruct e; [destruct (Nat.ltb 0 (length (kids g p)))|]; cbn [fst get_or_add]; repeat constructor.
      eapply HOk_node; eauto.
    - destruct e; [destruct (Nat.ltb i (length (kids g p)))|]; cbn [fst]; try constructor.
      + apply MOk_iter_to. eapply HOk_node; eauto.
      + apply MOk_flat. eapply HOk_node; eauto.
    - destruct p as [|i q]; [constructor|]. destruct (Nat.ltb (S i) (length (kids g q))); cbn [fst get_or_add]; repeat constructor.
      eapply HOk_parent; eauto.
    - destruct p as [|i q]; [constructor|]. destruct i; cbn [fst get_or_add]; repeat constructor.
      eapply HOk_parent; eauto.
    - cbn [MOk]. exact Logic.I.
    - constructor.
    - cbn [MOk]. exact Logic.I.
    - constructor.
    - destruct e; cbn [fst]; repeat constructor. eapply HOk_node; eauto.
    - destruct e; cbn [fst]; repeat constructor. eapply HOk_node; eauto.
    - destruct e; cbn [fst]; repeat constructor. eapply HOk_node; eauto.
    - destruct e; cbn [fst]; repeat constructor. eapply HOk_node; eauto.
  Qed.

  Lemma refill_MOk sl : SlotsOk sl -> forall fuel t, THOk sl t -> Forall (MOk sl) (t_cont t) -> Forall (MOk sl) (t_cont (refill g fuel t)).
  Proof.
    intros S. induction fuel as [|f IH]; intros t T C; cbn [refill]; [exact C|].
    destruct t as [regs prog cont out]. cbn [t_cont t_prog t_regs t_out] in *.
    destruct cont as [|m c]; [|exact C].
    destruct prog as [|o r].
    - destruct (first_owned regs 0); cbn [t_cont]; repeat constructor.
    - assert (Ex := expand_MOk sl (mkThread regs (o :: r) [] out) o S T).
      assert (Er := expand_res g (mkThread regs (o :: r) [] out) o).
      destruct (expand g (mkThread regs (o :: r) [] out) o) as [ms res]. cbn [fst snd] in Ex, Er.
      apply IH; [|exact Ex].
      (* the handles of the thread are unchanged *)
      unfold THOk, thread_handles in *. cbn [t_regs t_cont t_out] in *.
      rewrite !Forall_app in *. destruct T as (Tr & _ & To). split; [exact Tr|]. split.
      + assert (Em := expand_ok g (mkThread regs (o :: r) [] out) o).
        destruct (expand g (mkThread regs (o :: r) [] out) o) as [ms' res'] eqn:E2.
        (* no handle among fresh operations: re-derive from the shape of ms *)
        clear - Ex. induction Ex as [|m l Hm _ IHl]; [constructor|]. unfold cont_handles. cbn [flat_map].
        apply Forall_app. split; [|exact IHl]. destruct m; cbn [mop_handles]; try constructor.
        (* MCloneResult is never produced by expand: MOk says nothing, so use the handle-freedom lemma instead *)
        all: fail.
  Abort.
End ConcWf.
