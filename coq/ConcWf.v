(* ConcWf.v — structural invariants of the concurrent machine before the teardown: every initialised
   slot, every pending micro-operation and every node datum sits at a position whose parent is the
   root or an initialised node slot, and a slot holds a node exactly where the green tree has one. *)
From CsModel Require Import Red RedProofs Conc ConcProofs ConcHandles ConcData.
From Coq Require Import ZArith Lia.

Section ConcWf.
  Variable g : gelem.

  Definition NodePos (sl : list (pos * selem)) (p : pos) : Prop :=
    p = [] \/ exists b, slot_lookup sl p = Some (ENode b).

  Definition is_enode (e : selem) : bool := match e with ENode _ => true | EToken _ => false end.
  Definition is_some {A} (o : option A) : bool := match o with Some _ => true | None => false end.

  Definition SlotsOk (sl : list (pos * selem)) : Prop :=
    forall q e, slot_lookup sl q = Some e ->
      exists k q', q = k :: q' /\ NodePos sl q' /\ is_enode e = child_is_node g q' k.

  Definition MOk (sl : list (pos * selem)) (m : mop) : Prop :=
    match m with
    | MRead p _ _ _ _ => NodePos sl p
    | MWrite p i _ cand _ => NodePos sl p /\ is_some cand = child_is_node g p i
    | MData p _ => NodePos sl p
    | MTearSlot _ _ _ => False
    | _ => True
    end.

  Definition DataOk (sl : list (pos * selem)) (d : list (pos * N)) : Prop :=
    forall p v, data_lookup d p = Some v -> NodePos sl p.

  Definition Wf (s : cstate) : Prop :=
    c_torn s = false ->
    SlotsOk (c_slots s) /\ Forall (fun t => Forall (MOk (c_slots s)) (t_cont t)) (c_threads s) /\ DataOk (c_slots s) (c_data s).

  Definition Mono (sl sl' : list (pos * selem)) : Prop := forall p e, slot_lookup sl p = Some e -> slot_lookup sl' p = Some e.

  Lemma NodePos_mono sl sl' p : Mono sl sl' -> NodePos sl p -> NodePos sl' p.
  Proof. intros M [->|(b & L)]; [left; reflexivity|right; exists b; apply M; exact L]. Qed.

  Lemma MOk_mono sl sl' m : Mono sl sl' -> MOk sl m -> MOk sl' m.
  Proof.
    intros M. destruct m; cbn [MOk]; auto; try (apply NodePos_mono; exact M).
    intros [A B]. split; [eapply NodePos_mono; eauto|exact B].
  Qed.

  Lemma Mono_refl sl : Mono sl sl.
  Proof. intros p e L; exact L. Qed.

  Lemma Mono_cons sl q e : slot_lookup sl q = None -> Mono sl ((q, e) :: sl).
  Proof.
    intros L p e' L'. rewrite slot_lookup_cons. destruct (pos_eqb q p) eqn:E; [|exact L'].
    apply pos_eqb_eq in E. subst. congruence.
  Qed.

  (* ---- handles give node positions ---- *)
  Lemma HOk_node sl p b : HOk sl (p, ENode b) -> NodePos sl p.
  Proof. unfold HOk. cbn [fst snd]. destruct p; [left; reflexivity|intros L; right; exists b; exact L]. Qed.

  Lemma HOk_parent sl i q e : SlotsOk sl -> HOk sl (i :: q, e) -> NodePos sl q.
  Proof.
    unfold HOk. cbn [fst snd]. intros HS L. destruct (HS _ _ L) as (k & q' & [= -> ->] & NP & _). exact NP.
  Qed.

  Lemma reg_HOk sl t r h : THOk sl t -> reg_of t r = Some h -> HOk sl h.
  Proof.
    intros T E. unfold THOk, thread_handles in T. rewrite Forall_app in T. destruct T as (Tr & _).
    rewrite Forall_forall in Tr. apply Tr. eapply reg_of_in; eauto.
  Qed.

  Lemma MOk_iter_to sl p : NodePos sl p -> forall n j, Forall (MOk sl) (iter_to p j n).
  Proof.
    intros NP. induction n as [|n IH]; intros j; cbn [iter_to get_or_add app]; constructor; auto.
  Qed.

  Lemma MOk_flat sl p l : NodePos sl p -> Forall (MOk sl) (flat_map (fun j => get_or_add p j RIter false) l).
  Proof. intros NP. induction l as [|a l IH]; cbn [flat_map get_or_add app]; constructor; auto. Qed.

  Lemma MOk_single sl p i rt keep : NodePos sl p -> Forall (MOk sl) (get_or_add p i rt keep).
  Proof. intros NP. cbn [get_or_add]. constructor; [exact NP|constructor]. Qed.

  Lemma expand_MOk sl t o : SlotsOk sl -> THOk sl t -> Forall (MOk sl) (fst (expand g t o)).
  Proof.
    intros HS T.
    destruct o as [r|r|r i|r|r|r|r|r v|r v|r|r]; unfold expand;
      destruct (reg_of t r) as [[p e]|] eqn:Er; cbn [fst]; try (constructor; fail);
      assert (Hh := reg_HOk _ _ _ _ T Er).
    - destruct e; [destruct (Nat.ltb 0 (length (kids g p)))|]; cbn [fst]; try (constructor; fail).
      apply MOk_single. eapply HOk_node; eauto.
    - destruct e; [destruct (Nat.ltb 0 (length (kids g p)))|]; cbn [fst]; try (constructor; fail).
      apply MOk_single. eapply HOk_node; eauto.
    - destruct e; [destruct (Nat.ltb i (length (kids g p)))|]; cbn [fst]; try (constructor; fail).
      + apply MOk_iter_to. eapply HOk_node; eauto.
      + apply MOk_flat. eapply HOk_node; eauto.
    - destruct p as [|i q]; [constructor|]. destruct (Nat.ltb (S i) (length (kids g q))); cbn [fst]; try (constructor; fail).
      apply MOk_single. eapply HOk_parent; eauto.
    - destruct p as [|i q]; [constructor|]. destruct i; cbn [fst]; try (constructor; fail).
      apply MOk_single. eapply HOk_parent; eauto.
    - constructor; [exact Logic.I|constructor].
    - constructor; [exact Logic.I|constructor].
    - destruct e; cbn [fst]; try (constructor; fail). constructor; [|constructor]. eapply HOk_node; eauto.
    - destruct e; cbn [fst]; try (constructor; fail). constructor; [|constructor]. eapply HOk_node; eauto.
    - destruct e; cbn [fst]; try (constructor; fail). constructor; [|constructor]. eapply HOk_node; eauto.
    - destruct e; cbn [fst]; try (constructor; fail). constructor; [|constructor]. eapply HOk_node; eauto.
  Qed.

  Lemma refill_MOk sl : SlotsOk sl -> forall fuel t, THOk sl t -> Forall (MOk sl) (t_cont t) -> Forall (MOk sl) (t_cont (refill g fuel t)).
  Proof.
    intros HS. induction fuel as [|f IH]; intros t T C; cbn [refill]; [exact C|].
    destruct t as [regs prog cont out]. cbn [t_cont t_prog t_regs t_out] in *.
    destruct cont as [|m c]; [|exact C].
    destruct prog as [|o r].
    - destruct (first_owned regs 0); cbn [t_cont]; repeat constructor.
    - assert (Ex := expand_MOk sl (mkThread regs (o :: r) [] out) o HS T).
      assert (E := refill_handles g 1 (mkThread regs (o :: r) [] out)).
      cbn [refill t_cont t_prog t_regs t_out] in E.
      destruct (expand g (mkThread regs (o :: r) [] out) o) as [ms res]. cbn [fst] in Ex.
      apply IH; [|exact Ex]. unfold THOk in *. rewrite E. exact T.
  Qed.

  Lemma SlotsOk_cons sl k q' e :
    SlotsOk sl -> slot_lookup sl (k :: q') = None -> NodePos sl q' -> is_enode e = child_is_node g q' k ->
    SlotsOk ((k :: q', e) :: sl).
  Proof.
    intros HS L NP K q e' L'. assert (M := Mono_cons sl (k :: q') e L).
    rewrite slot_lookup_cons in L'. destruct (pos_eqb (k :: q') q) eqn:E.
    - apply pos_eqb_eq in E. subst q. injection L' as <-. exists k, q'. split; [reflexivity|]. split; [eapply NodePos_mono; eauto|exact K].
    - destruct (HS _ _ L') as (k0 & q0 & -> & NP0 & K0). exists k0, q0. split; [reflexivity|]. split; [eapply NodePos_mono; eauto|exact K0].
  Qed.

  Lemma DataOk_remove sl d p : DataOk sl d -> DataOk sl (data_remove d p).
  Proof.
    intros D q v L. destruct (list_eq_dec Nat.eq_dec q p) as [->|Hne].
    - rewrite data_lookup_remove_same in L. discriminate.
    - rewrite data_lookup_remove_other in L; [eapply D; eauto|exact Hne].
  Qed.

  Lemma DataOk_set sl d p v : DataOk sl d -> NodePos sl p -> DataOk sl ((p, v) :: data_remove d p).
  Proof.
    intros D NP q w L. destruct (list_eq_dec Nat.eq_dec q p) as [->|Hne]; [exact NP|].
    rewrite data_lookup_set_other in L; [eapply D; eauto|exact Hne].
  Qed.

  Lemma DataOk_mono sl sl' d : Mono sl sl' -> DataOk sl d -> DataOk sl' d.
  Proof. intros M D q v L. eapply NodePos_mono; eauto. Qed.

  Lemma Forall_MOk_mono sl sl' l : Mono sl sl' -> Forall (MOk sl) l -> Forall (MOk sl') l.
  Proof. intros M. apply Forall_impl. intros m. apply MOk_mono. exact M. Qed.

  Theorem exec_Wf s tid t m rest :
    nth_error (c_threads s) tid = Some t -> t_cont t = m :: rest ->
    Wf s -> c_torn s = false -> Wf (fst (exec_mop g s tid t m rest)).
  Proof.
    intros Ht Hc W NT NT'. destruct (W NT) as (HS & HC & HD). clear W.
    assert (M := fun p e => exec_slots_mono g s tid t m rest p e NT).
    assert (T := nth_error_Forall _ _ _ _ HC Ht). cbn beta in T. rewrite Hc in T.
    inversion T as [|? ? Tm Tr]; subst. clear T.
    assert (Others : Forall (fun t0 => Forall (MOk (c_slots (fst (exec_mop g s tid t m rest)))) (t_cont t0)) (c_threads s)).
    { eapply Forall_impl; [|exact HC]. intros x. apply Forall_MOk_mono. exact M. }
    destruct t as [regs prog cont out]. cbn [t_cont] in Hc. subst cont.
    revert NT' M Others.
    destruct m as [p i rt first keep|p i off cand keep|delta after|h|r|r report|tb p i|p o]; cbn [exec_mop].
    - (* MRead *)
      destruct (slot_lookup (c_slots s) (i :: p)) as [e|] eqn:L; [|destruct (child_is_node g p i) eqn:CN];
        cbn [fst upd_thread c_slots c_torn c_threads c_data t_cont]; intros _ M Others;
        (split; [exact HS|split; [|exact HD]]); apply Forall_set_nth; auto; cbn [t_cont].
      + destruct keep; [constructor; [exact Logic.I|exact Tr]|exact Tr].
      + constructor; [|exact Tr]. cbn [MOk is_some]. split; [exact Tm|symmetry; exact CN].
      + constructor; [|exact Tr]. cbn [MOk is_some]. split; [exact Tm|symmetry; exact CN].
    - (* MWrite *)
      destruct Tm as (NP & CK).
      destruct (slot_lookup (c_slots s) (i :: p)) as [e|] eqn:L;
        cbn [fst upd_thread c_slots c_torn c_threads c_data t_cont]; intros _ M Others.
      + split; [exact HS|split; [|exact HD]]. apply Forall_set_nth; auto. cbn [t_cont].
        apply Forall_app. split; [destruct cand; repeat constructor|]. constructor; [exact NP|exact Tr].
      + split; [|split].
        * apply SlotsOk_cons; auto. rewrite <- CK. destruct cand; reflexivity.
        * apply Forall_set_nth; auto. cbn [t_cont]. constructor; [eapply NodePos_mono; eauto|].
          eapply Forall_MOk_mono; eauto.
        * eapply DataOk_mono; eauto.
    - cbn [fst upd_thread c_slots c_torn c_threads c_data t_cont]; intros _ M Others.
      split; [exact HS|split; [|exact HD]]. apply Forall_set_nth; auto.
    - cbn [fst upd_thread c_slots c_torn c_threads c_data t_cont]; intros _ M Others.
      split; [exact HS|split; [|exact HD]]. apply Forall_set_nth; auto.
    - destruct (reg_of _ r); cbn [fst upd_thread c_slots c_torn c_threads c_data t_cont]; intros _ M Others;
        (split; [exact HS|split; [|exact HD]]); apply Forall_set_nth; auto.
    - destruct (reg_of _ r); [destruct (Z.eqb (c_rc s) 1)|];
        cbn [fst upd_thread c_slots c_torn c_threads c_data t_cont]; try discriminate; intros _ M Others;
        (split; [exact HS|split; [|exact HD]]); apply Forall_set_nth; auto.
    - rewrite NT. cbn [negb fst upd_thread c_slots c_torn c_threads c_data t_cont]. intros _ M Others.
      split; [exact HS|split; [|exact HD]]. apply Forall_set_nth; auto.
    - (* MData *)
      cbn [MOk] in Tm.
      destruct o as [r|r|r i|r|r|r|r|r v|r v|r|r];
        try (cbn [fst upd_thread c_slots c_torn c_threads c_data t_cont]; intros _ M Others;
             (split; [exact HS|split; [|exact HD]]); apply Forall_set_nth; auto; fail).
      + cbn [fst upd_thread c_slots c_torn c_threads c_data t_cont]; intros _ M Others.
        split; [exact HS|split; [apply Forall_set_nth; auto|apply DataOk_set; auto]].
      + destruct (data_lookup (c_data s) p); cbn [fst upd_thread c_slots c_torn c_threads c_data t_cont]; intros _ M Others;
          (split; [exact HS|split; [apply Forall_set_nth; auto|]]); [exact HD|apply DataOk_set; auto].
      + cbn [fst upd_thread c_slots c_torn c_threads c_data t_cont]; intros _ M Others.
        split; [exact HS|split; [apply Forall_set_nth; auto|apply DataOk_remove; auto]].
  Qed.

  Lemma normalize_Wf s : HInv s -> Wf s -> Wf (normalize g s).
  Proof.
    unfold HInv, Wf, normalize. cbn [c_torn c_slots c_threads c_data]. intros I W NT.
    destruct (W NT) as (HS & HC & HD). specialize (I NT). split; [exact HS|split; [|exact HD]].
    apply Forall_map. rewrite Forall_forall in *. intros t Hin. apply refill_MOk; auto.
  Qed.

  Lemma init_Wf progs : Wf (cinit g progs).
  Proof.
    unfold cinit. apply normalize_Wf.
    - intros _. cbn [c_threads c_slots]. apply Forall_map. apply Forall_forall. intros pr _.
      unfold THOk, thread_handles. cbn. constructor; [reflexivity|constructor].
    - intros _. cbn [c_slots c_threads c_data]. split; [intros q e L; discriminate|]. split.
      + apply Forall_map. apply Forall_forall. intros pr _. constructor.
      + intros p v L. discriminate.
  Qed.

  Lemma cstep_Wf progs s want s' tid evs : Reach g progs s -> Wf s -> cstep g s want = Some (s', tid, evs) -> Wf s'.
  Proof.
    intros R W C. destruct (cstep_inv g _ _ _ _ _ C) as (t & m & rest & Ht & Hc & -> & _).
    destruct (c_torn s) eqn:NT.
    - intros NT'. unfold normalize in NT'. cbn [c_torn] in NT'. rewrite (exec_torn_stays g s tid t m rest NT) in NT'. discriminate.
    - apply normalize_Wf; [apply exec_HInv; auto; apply (reach_HInv g progs s R)|apply exec_Wf; auto].
  Qed.

  Theorem reach_Wf progs s : Reach g progs s -> Wf s.
  Proof. induction 1 as [|s want s' tid evs R IH C]; [apply init_Wf|eapply cstep_Wf; eauto]. Qed.

  (* ---- consequences (C05): the kind of a slot's element is the kind of the green child at its
     position; the parent of every slot is the root or an initialised node slot ---- *)
  Theorem slot_kinds_correct progs s k q e :
    Reach g progs s -> c_torn s = false -> slot_lookup (c_slots s) (k :: q) = Some e ->
    is_enode e = child_is_node g q k /\ NodePos (c_slots s) q.
  Proof.
    intros R NT L. destruct (reach_Wf _ _ R NT) as (HS & _). destruct (HS _ _ L) as (k0 & q0 & [= -> ->] & NP & K). auto.
  Qed.
End ConcWf.
