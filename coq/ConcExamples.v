(* ConcExamples.v — the hypotheses of the concurrency theorems are met by concrete runs: a lost
   creation race, a teardown started by a thread other than the first, concurrent data operations. *)
From CsModel Require Import Red RedProofs Conc ConcProofs ConcHandles ConcData.
From Coq Require Import ZArith Lia.
Open Scope N_scope.

Definition ex_tree : gelem :=
  GNode 1 1 2 0 [GNode 2 2 1 0 [GTok 3 5 (Some 0) 1]; GTok 4 5 (Some 1) 1].

Definition ex_progs : list (list cop) := [[KFirst 0; KDrop 0]; [KFirst 0; KFirst 1]].
(* thread 0 reads the empty slot and allocates; thread 1 does the same and installs first; thread 0 loses *)
Definition ex_sched : list nat := [0; 1; 1; 0]%nat.

Definition ex_final := fst (crun ex_tree 200%nat (cinit ex_tree ex_progs) ex_sched 0).
Definition ex_trace := snd (crun ex_tree 200%nat (cinit ex_tree ex_progs) ex_sched 0).

(* the run loses a race (a +2 compensation appears), every thread finishes, the tree is torn down,
   every block is freed *)
Example ex_run_facts :
  existsb (fun e => match snd e with CRmw 2%Z => true | _ => false end) ex_trace = true /\
  all_done ex_final = true /\ c_torn ex_final = true /\ c_live ex_final = [] /\ (c_rc ex_final < 0)%Z.
Proof. vm_compute. repeat split; reflexivity. Qed.

Example ex_reachable : Reach ex_tree ex_progs ex_final.
Proof. apply crun_reach. apply Reach_init. Qed.

(* a reachable, not yet torn state in which two threads hold handles to the same position *)
Definition ex_mid := fst (crun ex_tree 12%nat (cinit ex_tree ex_progs) ex_sched 0).
Example ex_mid_facts :
  c_torn ex_mid = false /\
  map (fun t => out_handles (t_out t)) (c_threads ex_mid) = [[([0%nat], ENode 2%nat)]; [([0%nat], ENode 2%nat)]].
Proof. vm_compute. split; reflexivity. Qed.
