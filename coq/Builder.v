(* Builder.v — the green-tree builder and its node cache, transcribed from green/builder.rs.
   Vec `children` is kept REVERSED (push = cons); `parents` has the innermost open node at the head.
   Definitions only. *)
From CsModel Require Export Green.

Record head := mkHead { h_kind : kind; h_len : N; h_hash : N }.
Definition head_eqb (a b : head) : bool :=
  (h_kind a =? h_kind b) && (h_len a =? h_len b) && (h_hash a =? h_hash b).
Definition head_of (g : gelem) : head := mkHead (gkind g) (glen g) (match g with GNode _ _ _ h _ => h | _ => 0 end).

Definition tokdata := (kind * option N * N)%type.
Definition tokdata_eqb (a b : tokdata) : bool :=
  let '(k, key, l) := a in let '(k', key', l') := b in (k =? k') && optN_eqb key key' && (l =? l').

(* NodeCache: nodes, tokens, interner.  [c_next] is the allocation counter (ghost: the address of
   the next Arc allocation).  The interner is an append-only duplicate-free table; key = index. *)
Record cache := mkCache {
  c_next   : N;
  c_tokens : list (tokdata * gelem);
  c_nodes  : list gelem;             (* every cached node, oldest first *)
  c_strs   : list text
}.
Definition empty_cache : cache := mkCache 0 [] [] [].

(* how a cached node is looked up: by head only (the code before the fix of F1) or by head and
   children (== on the candidate) *)
Inductive lookup_mode := HeadOnly | HeadAndChildren.

Definition intern (strs : list text) (t : text) : N * list text :=
  match find_index (text_eqb t) strs with
  | Some i => (N.of_nat i, strs)
  | None => (N.of_nat (length strs), strs ++ [t])
  end.

Record checkpoint := mkCp { cp_parent_idx : nat; cp_child_idx : nat }.

Record bstate := mkB {
  b_cache    : cache;
  b_parents  : list (kind * nat);    (* innermost first; (kind, first_child) *)
  b_children : list gelem            (* newest first *)
}.

Definition new_builder (c : cache) : bstate := mkB c [] [].

Section Builder.
  Variable static_text : kind -> option text.
  Variable H : list hw -> N.
  Variable threshold : nat.          (* CHILDREN_CACHE_THRESHOLD *)
  Variable mode : lookup_mode.
  Variable debug : bool.             (* debug assertions compiled in? *)
  Variable revert_fixed : bool.      (* revert_to tests the SURVIVING parent (after the fix of F5) *)

  (* NodeCache::token *)
  Definition cache_token (c : cache) (k : kind) (key : option N) (len : N) : gelem * cache :=
    match find (fun e => tokdata_eqb (fst e) (k, key, len)) (c_tokens c) with
    | Some e => (snd e, c)
    | None =>
        let g := GTok (c_next c) k key len in
        (g, mkCache (c_next c + 1) (c_tokens c ++ [((k, key, len), g)]) (c_nodes c) (c_strs c))
    end.

  Definition node_matches (k : kind) (len h : N) (cs : list gelem) (g : gelem) : bool :=
    match g with
    | GNode _ k' len' h' cs' =>
        (k' =? k) && (len' =? len) && (h' =? h) &&
        match mode with HeadOnly => true | HeadAndChildren => geq_list cs' cs end
    | GTok _ _ _ _ => false
    end.

  (* NodeCache::node + get_cached_node *)
  Definition cache_node (c : cache) (k : kind) (cs : list gelem) : gelem * cache :=
    let len := sumN (map glen cs) in
    let h := H (map hw_of cs) in
    if (length cs <=? threshold)%nat then
      match find (node_matches k len h cs) (c_nodes c) with
      | Some g => (g, c)
      | None =>
          let g := GNode (c_next c) k len h cs in
          (g, mkCache (c_next c + 1) (c_tokens c) (c_nodes c ++ [g]) (c_strs c))
      end
    else
      (GNode (c_next c) k len h cs, mkCache (c_next c + 1) (c_tokens c) (c_nodes c) (c_strs c)).

  Definition push_child (s : bstate) (c : cache) (g : gelem) : bstate :=
    mkB c (b_parents s) (g :: b_children s).

  (* GreenNodeBuilder::token *)
  Definition b_token (s : bstate) (k : kind) (t : text) : res bstate :=
    match static_text k with
    | Some st =>
        if debug && negb (text_eqb st t) then Panic PStaticMismatch
        else let (g, c) := cache_token (b_cache s) k None (byte_len st) in Ok (push_child s c g)
    | None =>
        let c0 := b_cache s in
        let (key, strs) := intern (c_strs c0) t in
        let c1 := mkCache (c_next c0) (c_tokens c0) (c_nodes c0) strs in
        let (g, c) := cache_token c1 k (Some key) (byte_len t) in
        Ok (push_child s c g)
    end.

  (* GreenNodeBuilder::static_token *)
  Definition b_static_token (s : bstate) (k : kind) : res bstate :=
    match static_text k with
    | Some st => let (g, c) := cache_token (b_cache s) k None (byte_len st) in Ok (push_child s c g)
    | None => Panic PStaticMissing
    end.

  Definition b_start_node (s : bstate) (k : kind) : bstate :=
    mkB (b_cache s) ((k, length (b_children s)) :: b_parents s) (b_children s).

  (* GreenNodeBuilder::finish_node.  `all_children[first..]` of the Vec = the newest
     (len - first) entries, in push order.  A first_child beyond the Vec would panic in the slice
     index; the theorems show it cannot happen (WF). *)
  Definition b_finish_node (s : bstate) : res bstate :=
    match b_parents s with
    | [] => Panic PFinishNodeNoParent
    | (k, first) :: ps =>
        if (first <=? length (b_children s))%nat then
          let n := (length (b_children s) - first)%nat in
          let cs := rev (firstn n (b_children s)) in
          let (g, c) := cache_node (b_cache s) k cs in
          Ok (mkB c ps (g :: skipn n (b_children s)))
        else Panic PUnreachable
    end.

  Definition b_checkpoint (s : bstate) : checkpoint :=
    mkCp (length (b_parents s)) (length (b_children s)).

  (* Vec::truncate(n) on a reversed list *)
  Definition truncate {A} (n : nat) (l : list A) : list A := skipn (length l - n) l.

  Definition first_le (o : option (kind * nat)) (ci : nat) : bool :=
    match o with Some (_, first) => (first <=? ci)%nat | None => true end.

  Definition b_revert_to (s : bstate) (cp : checkpoint) : res bstate :=
    let pi := cp_parent_idx cp in let ci := cp_child_idx cp in
    if negb (pi <=? length (b_parents s))%nat then Panic PCheckpointParents else
    if negb (ci <=? length (b_children s))%nat then Panic PCheckpointChildren else
    let guard := if revert_fixed then hd_error (truncate pi (b_parents s)) else hd_error (b_parents s) in
    if first_le guard ci then Ok (mkB (b_cache s) (truncate pi (b_parents s)) (truncate ci (b_children s)))
    else Panic PCheckpointFirstChild.

  Definition b_start_node_at (s : bstate) (cp : checkpoint) (k : kind) : res bstate :=
    let pi := cp_parent_idx cp in let ci := cp_child_idx cp in
    if negb (pi <=? length (b_parents s))%nat then Panic PCheckpointParents else
    if negb (length (b_parents s) <=? pi)%nat then Panic PCheckpointUnfinished else
    if negb (ci <=? length (b_children s))%nat then Panic PCheckpointChildren else
    if first_le (hd_error (b_parents s)) ci then Ok (mkB (b_cache s) ((k, ci) :: b_parents s) (b_children s))
    else Panic PCheckpointFirstChild.

  (* GreenNodeBuilder::finish *)
  Definition b_finish (s : bstate) : res (gelem * cache) :=
    match b_children s with
    | [g] => if is_node g then Ok (g, b_cache s) else Panic PFinishToken
    | _ => Panic PFinishNotOne
    end.

  (* ------------------------------------------------------------------------------------ *)
  (* operation sequences (the histories of C01, C04, C09, C20) *)
  Inductive bop :=
  | OStart (k : kind)
  | OToken (k : kind) (t : text)
  | OTokenFail (k : kind) (t : text)     (* the interner reports an error for this token (C20) *)
  | OStatic (k : kind)
  | OFinishNode
  | OCheckpoint                          (* appended to the register file *)
  | OStartAt (slot : nat) (k : kind)
  | ORevert (slot : nat).

  (* one operation; a panic leaves the builder as it was (all panics above are raised before any
     mutation — finish_node's pop of an empty Vec, the asserts, the interner error) *)
  Definition b_step (s : bstate) (regs : list checkpoint) (o : bop) : res bstate * list checkpoint :=
    match o with
    | OStart k => (Ok (b_start_node s k), regs)
    | OToken k t => (b_token s k t, regs)
    | OTokenFail k t =>
        (match static_text k with
         | Some st => b_token s k t            (* static kinds never reach the interner *)
         | None => Panic PIntern
         end, regs)
    | OStatic k => (b_static_token s k, regs)
    | OFinishNode => (b_finish_node s, regs)
    | OCheckpoint => (Ok s, regs ++ [b_checkpoint s])
    | OStartAt i k =>
        (match nth_error regs i with Some cp => b_start_node_at s cp k | None => Ok s end, regs)
    | ORevert i =>
        (match nth_error regs i with Some cp => b_revert_to s cp | None => Ok s end, regs)
    end.

  Fixpoint b_run (s : bstate) (regs : list checkpoint) (ops : list bop)
    : bstate * list (option panic) :=
    match ops with
    | [] => (s, [])
    | o :: r =>
        let (rs, regs') := b_step s regs o in
        match rs with
        | Ok s' => let (sf, tr) := b_run s' regs' r in (sf, None :: tr)
        | Panic p => let (sf, tr) := b_run s regs' r in (sf, Some p :: tr)
        end
    end.

  (* strict variant used by C01: the first panic aborts *)
  Fixpoint b_run_strict (s : bstate) (ops : list bop) : res bstate :=
    match ops with
    | [] => Ok s
    | o :: r =>
        match fst (b_step s [] o) with
        | Ok s' => b_run_strict s' r
        | Panic p => Panic p
        end
    end.

  Definition build (c : cache) (ops : list bop) : res (gelem * cache) :=
    res_bind (b_run_strict (new_builder c) ops) b_finish.

  (* GreenNode::new (green/node.rs): direct construction, no cache *)
  Definition green_node_new (id : N) (k : kind) (cs : list gelem) : gelem :=
    GNode id k (sumN (map glen cs)) (H (map hw_of cs)) cs.
End Builder.
