(* ConcLocks.v — C07 on the machine: the write locks that are held ACROSS steps (the loser of a creation race keeps its slot's
   write lock while it disposes of its candidate; the teardown keeps a slot's lock while it tears the child down) exclude each
   other: in every reachable state no slot is write-locked twice, because a step that takes a slot's lock is only scheduled
   when that lock is free, and a release removes exactly one entry. *)
From CsModel Require Import Red RedProofs Conc ConcProofs.
From Coq Require Import ZArith Lia List.
Import ListNotations.
Open Scope nat_scope.

Section ConcLocks.
  Variable g : gelem.

  Definition held (x : pos * nat) (l : list (pos * nat)) : bool :=
    existsb (fun y => pos_eqb (fst y) (fst x) && Nat.eqb (snd y) (snd x)) l.

  (* no slot occurs twice among the write locks held *)
  Fixpoint WlOk (l : list (pos * nat)) : Prop :=
    match l with [] => True | x :: r => held x r = false /\ WlOk r end.

  Lemma held_release sl : forall l b i x, held x (wl_release sl l b i) = true -> held x l = true.
  Proof.
    induction l as [|y r IH]; intros b i x H; cbn [wl_release] in H; [exact H|].
    cbn [held existsb]. destruct (Nat.eqb (block_of sl (fst y)) b && Nat.eqb (snd y) i).
    - apply orb_true_iff. right. exact H.
    - cbn [held existsb] in H. apply orb_true_iff in H. apply orb_true_iff. destruct H as [H|H]; [left; exact H|right; apply (IH b i x H)].
  Qed.

  Lemma WlOk_release sl : forall l b i, WlOk l -> WlOk (wl_release sl l b i).
  Proof.
    induction l as [|y r IH]; intros b i W; cbn [wl_release]; [exact I|].
    destruct W as [Hy Wr]. destruct (Nat.eqb (block_of sl (fst y)) b && Nat.eqb (snd y) i); [exact Wr|].
    cbn [WlOk]. split; [|apply IH; exact Wr].
    destruct (held y (wl_release sl r b i)) eqn:E; [|reflexivity]. apply held_release in E. congruence.
  Qed.

  Lemma WlOk_releases sl : forall after l,
    WlOk l -> WlOk (fold_left (fun l e => match e with CWriteUnlock b i => wl_release sl l b i | _ => l end) after l).
  Proof.
    induction after as [|e a IH]; intros l W; cbn [fold_left]; [exact W|].
    apply IH. destruct e; try exact W. apply WlOk_release. exact W.
  Qed.

  Lemma wlocked_held s p i : wlocked s p i = held (p, i) (c_wlock s).
  Proof. reflexivity. Qed.

  (* one step of a RUNNABLE micro-operation keeps the invariant *)
  Lemma exec_WlOk s tid t m rest :
    mop_runnable s m = true -> WlOk (c_wlock s) -> WlOk (c_wlock (fst (exec_mop g s tid t m rest))).
  Proof.
    intros Run W. destruct m as [q i rt first keep|q i off cand keep|delta after|hh|r|r report|tb q i|q o]; cbn [exec_mop].
    - destruct (slot_lookup (c_slots s) (i :: q)); [|destruct (child_is_node g q i)]; cbn [fst upd_thread c_wlock]; exact W.
    - cbn [mop_runnable] in Run. apply Bool.negb_true_iff in Run. rewrite wlocked_held in Run.
      destruct (slot_lookup (c_slots s) (i :: q)); cbn [fst upd_thread c_wlock]; [|exact W].
      cbn [WlOk]. split; [exact Run|exact W].
    - cbn [fst upd_thread c_wlock]. apply WlOk_releases. exact W.
    - cbn [fst upd_thread c_wlock]. exact W.
    - destruct (reg_of t r); cbn [fst upd_thread c_wlock]; exact W.
    - destruct (reg_of t r); [destruct (Z.eqb (c_rc s) 1)|]; cbn [fst upd_thread c_wlock]; exact W.
    - cbn [mop_runnable] in Run. apply Bool.negb_true_iff in Run. rewrite wlocked_held in Run.
      destruct (negb (c_torn s)); [cbn [fst upd_thread c_wlock]; exact W|].
      destruct (tear_slot_events g s tb q i) as [more evs]. cbn [fst upd_thread c_wlock].
      destruct more; [exact W|]. cbn [WlOk]. split; [exact Run|exact W].
    - destruct o; try destruct (data_lookup (c_data s) q); cbn [fst upd_thread c_wlock]; exact W.
  Qed.

  Lemma pick_runnable s : forall k want n tid, pick s want n k = Some tid -> runnable s tid = true.
  Proof.
    induction k as [|k IH]; intros want n tid H; cbn [pick] in H; [discriminate|].
    destruct (runnable s (Nat.modulo want n)) eqn:R; [injection H as <-; exact R|]. eapply IH. exact H.
  Qed.

  Theorem write_locks_exclusive progs s : Reach g progs s -> WlOk (c_wlock s).
  Proof.
    induction 1 as [|s want s' tid evs R IH C].
    - unfold cinit, normalize. cbn [c_wlock WlOk]. exact I.
    - unfold cstep in C. destruct (pick s want _ _) as [tid'|] eqn:P; [|discriminate].
      apply pick_runnable in P. unfold runnable in P.
      destruct (nth_error (c_threads s) tid') as [t|] eqn:Et; [|discriminate].
      destruct (t_cont t) as [|m rest] eqn:Ec; [discriminate|].
      pose proof (exec_WlOk s tid' t m rest P IH) as W.
      destruct (exec_mop g s tid' t m rest) as [s1 evs1]. injection C as <- <- <-.
      unfold normalize. cbn [c_wlock]. exact W.
  Qed.
End ConcLocks.
