(* TaoHelper.v — C13: the TokenAtOffset helper (utility_types.rs): left / right bias and its iterator with
   exact size hint, against the plain list of the tokens found. *)
From CsModel Require Import Red RedProofs OffsetSpec.
From Coq Require Import Lia.
Local Open Scope nat_scope.

Definition last_error {A} (l : list A) : option A := match rev l with [] => None | x :: _ => Some x end.

Theorem tao_left_spec x : tao_left x = hd_error (tao_list x).
Proof. destruct x; reflexivity. Qed.
Theorem tao_right_spec x : tao_right x = last_error (tao_list x).
Proof. destruct x; reflexivity. Qed.
Theorem tao_size_exact x : tao_size x = length (tao_list x).
Proof. destruct x; reflexivity. Qed.
Theorem tao_next_spec x :
  fst (tao_next x) = hd_error (tao_list x) /\ tao_list (snd (tao_next x)) = tl (tao_list x).
Proof. destruct x; split; reflexivity. Qed.
(* the iterator yields exactly the tokens found, left to right, stays exhausted, and reports the exact
   number of remaining items before every call *)
Theorem tao_drain_spec x n :
  fst (tao_drain (3 + n) x) = tao_list x /\
  snd (tao_drain (3 + n) x) = map (fun k => length (skipn k (tao_list x))) (seq 0 (3 + n)).
Proof.
  assert (Z : forall m k, tao_drain m TNone = ([], map (fun _ => 0) (seq k m))).
  { induction m as [|m IH]; intros k; cbn [tao_drain tao_next seq map]; [reflexivity|]. rewrite (IH (S k)). reflexivity. }
  assert (Z0 : forall m k, map (fun j => length (skipn j (@nil pos))) (seq k m) = map (fun _ => 0) (seq k m)).
  { intros m k. apply map_ext. intros j. destruct j; reflexivity. }
  destruct x as [|t|l r]; cbn [Nat.add tao_drain tao_next tao_size tao_list seq map skipn length];
    rewrite (Z n 3), <- (Z0 n 3); cbn [fst snd]; (split; [reflexivity|]).
  - reflexivity.
  - do 3 f_equal. apply map_ext_in. intros j Hj. apply in_seq in Hj.
    do 3 (destruct j as [|j]; [lia|]). reflexivity.
  - do 3 f_equal. apply map_ext_in. intros j Hj. apply in_seq in Hj.
    do 3 (destruct j as [|j]; [lia|]). reflexivity.
Qed.

(* what the biases mean on a tie: the left answer ends at the offset, the right answer starts there *)
Theorem tao_bias_meaning g q off l r :
  TaoGood g q off (TBetween l r) ->
  tao_left (TBetween l r) = Some l /\ (true_off g l + len_at g l = off)%N /\
  tao_right (TBetween l r) = Some r /\ true_off g r = off.
Proof. cbn. intros (_ & _ & A & B). auto. Qed.
