(* Nav.v — the traversal register machine: programs of navigation operations over handles held in
   registers (the histories C02/C03/C13 quantify over), and the theorem that EVERY program keeps
   the offset invariant — whichever route reaches an element first. *)
From CsModel Require Import Red RedProofs.

Inductive nop :=
| NPar (r : nat)
| NFirstChild (nodes_only : bool) (r : nat)
| NLastChild (nodes_only : bool) (r : nat)
| NNextSib (nodes_only : bool) (r : nat)
| NPrevSib (nodes_only : bool) (r : nat)
| NFirstTok (r : nat) | NLastTok (r : nat) | NNextTok (r : nat) | NPrevTok (r : nat)
| NChildNth (nodes_only : bool) (r k : nat)
| NChildAfter (nodes_only : bool) (r rc : nat)        (* next_child[_or_token]_after(index of rc, end of rc) *)
| NChildBefore (nodes_only : bool) (r rc : nat)       (* prev_child[_or_token]_before(index of rc, start of rc) *)
| NTao (r : nat) (off : N)
| NCov (r : nat) (a b : N)
| NAnc (r : nat)
| NSibs (nodes_only next : bool) (r : nat)
| NChildren (nodes_only : bool) (r : nat)
| NDesc (nodes_only : bool) (r : nat)
| NPre (nodes_only : bool) (r : nat)
| NSizes (nodes_only : bool) (r : nat)
| NArity (r : nat)
| NIterScript (nodes_only : bool) (r : nat) (script : list nat).   (* one iterator; each entry k is it.nth(k) (0 = next) *)

Inductive nres :=
| ROne (o : option pos)
| RList (l : list pos)
| REvs (l : list wev)
| RTao (t : res tao_res)
| RCov (c : res pos)
| RSizes (len0 n0 len1 n1 : nat)
| RArity (a b : nat)
| RSkip.

Section Nav.
  Variable g : gelem.
  Variable len_counts_nodes : bool.
  Variable tokens_skip_empty : bool.

  Definition reg (regs : list (option pos)) (r : nat) : option pos :=
    match nth_error regs r with Some (Some p) => Some p | _ => None end.

  (* children().nth(k) / children_with_tokens().nth(k) *)
  Fixpoint iter_nth (nodes_only : bool) (fuel : nat) (rs : rstate) (it : iter) (k : nat) : option pos * rstate :=
    match fuel with
    | O => (None, rs)
    | S f =>
        match (if nodes_only then node_iter_next rs it else elem_iter_next rs it) with
        | (Some q, rs', it') => match k with O => (Some q, rs') | S k' => iter_nth nodes_only f rs' it' k' end
        | (None, rs', _) => (None, rs')
        end
    end.

  (* it.nth(k) on an iterator that is kept *)
  Fixpoint iter_adv (nodes_only : bool) (fuel : nat) (rs : rstate) (it : iter) (k : nat) : option pos * rstate * iter :=
    match fuel with
    | O => (None, rs, it)
    | S f =>
        match (if nodes_only then node_iter_next rs it else elem_iter_next rs it) with
        | (Some q, rs', it') => match k with O => (Some q, rs', it') | S k' => iter_adv nodes_only f rs' it' k' end
        | (None, rs', it') => (None, rs', it')
        end
    end.

  (* a sequence of nth calls on ONE iterator: the elements it yields (exhausted calls yield nothing) *)
  Fixpoint iter_script (nodes_only : bool) (fuel : nat) (rs : rstate) (it : iter) (script : list nat) : list pos * rstate :=
    match script with
    | [] => ([], rs)
    | k :: sc =>
        match iter_adv nodes_only fuel rs it k with
        | (Some q, rs', it') => let x := iter_script nodes_only fuel rs' it' sc in (q :: fst x, snd x)
        | (None, rs', it') => iter_script nodes_only fuel rs' it' sc
        end
    end.

  Definition one (x : option pos * rstate) : nres * option pos * rstate := (ROne (fst x), fst x, snd x).
  Definition lst (x : list pos * rstate) : nres * option pos * rstate := (RList (fst x), None, snd x).
  Definition skip_op (rs : rstate) : nres * option pos * rstate := (RSkip, None, rs).

  Definition nav_exec (regs : list (option pos)) (rs : rstate) (op : nop) : nres * option pos * rstate :=
    let on (r : nat) (node_f tok_f : pos -> nres * option pos * rstate) :=
      match reg regs r with
      | None => skip_op rs
      | Some p => if is_node_at g p then node_f p else tok_f p
      end in
    let no := fun _ : pos => skip_op rs in
    match op with
    | NPar r => on r (fun p => one (parent_of p, rs)) (fun p => one (parent_of p, rs))
    | NFirstChild b r => on r (fun p => one (first_child_gen g b rs p)) no
    | NLastChild b r => on r (fun p => one (last_child_gen g b rs p)) no
    | NNextSib b r => on r (fun p => one (next_sibling_gen g b rs p))
                           (fun p => if b then skip_op rs else one (next_sibling_gen g false rs p))
    | NPrevSib b r => on r (fun p => one (prev_sibling_gen g b rs p))
                           (fun p => if b then skip_op rs else one (prev_sibling_gen g false rs p))
    | NFirstTok r => on r (fun p => one (first_token g tokens_skip_empty rs p)) (fun p => one (Some p, rs))
    | NLastTok r => on r (fun p => one (last_token g tokens_skip_empty rs p)) (fun p => one (Some p, rs))
    | NNextTok r => on r no (fun p => one (next_token g tokens_skip_empty rs p))
    | NPrevTok r => on r no (fun p => one (prev_token g tokens_skip_empty rs p))
    | NChildNth b r k => on r (fun p => one (iter_nth b (S (length (kids g p))) rs (iter_new g rs p) k)) no
    | NChildAfter b r rc =>
        on r (fun p => match reg regs rc with
                       | Some (i :: q) => if pos_eqb q p
                                          then one (next_child_after_gen g b rs p i (end_of g rs (i :: q)))
                                          else skip_op rs
                       | _ => skip_op rs
                       end) no
    | NChildBefore b r rc =>
        on r (fun p => match reg regs rc with
                       | Some (i :: q) => if pos_eqb q p
                                          then one (prev_child_before_gen g b rs p i (start_of rs (i :: q)))
                                          else skip_op rs
                       | _ => skip_op rs
                       end) no
    | NTao r off =>
        on r (fun p => let x := token_at_offset g rs p off in
                       (RTao (fst x),
                        match fst x with Ok (TSingle t) => Some t | Ok (TBetween _ t) => Some t | _ => None end,
                        snd x)) no
    | NCov r a b =>
        on r (fun p => let x := covering_element g rs p a b in
                       (RCov (fst x), match fst x with Ok e => Some e | Panic _ => None end, snd x)) no
    | NAnc r => on r (fun p => lst (ancestors g p, rs)) (fun p => lst (ancestors g p, rs))
    | NSibs b next r => on r (fun p => lst (siblings g b next rs p))
                             (fun p => if b then skip_op rs else lst (siblings g false next rs p))
    | NChildren b r => on r (fun p => lst (if b then children_nodes g rs p else children_elems g rs p)) no
    | NDesc b r => on r (fun p => lst (descendants g b rs p)) no
    | NPre b r => on r (fun p => let x := preorder g b rs p in (REvs (fst x), None, snd x)) no
    | NSizes b r =>
        on r (fun p =>
                let it0 := iter_new g rs p in
                let fuel := S (length (kids g p)) in
                let len_of := fun it => if b then node_iter_len len_counts_nodes it else elem_iter_len it in
                let collect := fun rs it => if b then node_iter_collect fuel rs it else elem_iter_collect fuel rs it in
                let all0 := collect rs it0 in
                let nx := if b then node_iter_next rs it0 else elem_iter_next rs it0 in
                let all1 := collect (snd (fst nx)) (snd nx) in
                (RSizes (len_of it0) (length (fst all0)) (len_of (snd nx)) (length (fst all1)), None, snd all0)) no
    | NArity r => on r (fun p => (RArity (length (filter is_node (kids g p))) (length (kids g p)), None, rs)) no
    | NIterScript b r script => on r (fun p => lst (iter_script b (S (length (kids g p))) rs (iter_new g rs p) script)) no
    end.

  Fixpoint nav_run (regs : list (option pos)) (rs : rstate) (ops : list nop)
    : list nres * list (option pos) * rstate :=
    match ops with
    | [] => ([], regs, rs)
    | o :: r =>
        let '(res, nr, rs') := nav_exec regs rs o in
        let '(outs, regs', rs'') := nav_run (regs ++ [nr]) rs' r in
        (res :: outs, regs', rs'')
    end.
End Nav.
