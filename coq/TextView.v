(* TextView.v — C12: the lazy text view of a node (syntax/text.rs).  A view is an absolute byte
   range over the tokens of a sub-tree; every method works chunk-wise (one chunk per token that
   touches the range).  Definitions first; the theorems relate every method to the string the view
   denotes. *)
From CsModel Require Import Red RedProofs TextPos.
From Coq Require Import ZifyN ZifyNat ZifyBool.

(* ---- str slicing by byte offsets (panics off a character boundary, like &s[a..b]) ---- *)
Fixpoint drop_bytes (t : text) (n : N) : res text :=
  if n =? 0 then Ok t
  else match t with
       | [] => Panic PSliceRange
       | c :: r => if utf8_width c <=? n then drop_bytes r (n - utf8_width c) else Panic PCharBoundary
       end.
Fixpoint take_bytes (t : text) (n : N) : res text :=
  if n =? 0 then Ok []
  else match t with
       | [] => Panic PSliceRange
       | c :: r => if utf8_width c <=? n
                   then match take_bytes r (n - utf8_width c) with Ok x => Ok (c :: x) | Panic p => Panic p end
                   else Panic PCharBoundary
       end.
Definition slice_str (t : text) (a b : N) : res text :=
  if b <? a then Panic PSliceRange
  else match drop_bytes t a with Ok t' => take_bytes t' (b - a) | Panic p => Panic p end.

(* ---- the tokens of a sub-tree in document order, with their true start offsets ---- *)
Section Toks.
  Variable static_text : kind -> option text.
  Variable strs : list text.
  Section L.
    Variable rec : gelem -> N -> list (N * text).
    Fixpoint toks_loop (l : list gelem) (o : N) : list (N * text) :=
      match l with [] => [] | c :: r => rec c o ++ toks_loop r (o + glen c) end.
  End L.
  Fixpoint tok_ranges (e : gelem) (o : N) : list (N * text) :=
    match e with
    | GTok _ k key _ => [(o, text_or_empty (tok_text static_text strs k key))]
    | GNode _ _ _ _ cs => toks_loop tok_ranges cs o
    end.
End Toks.

(* ---- chunks: tokens_with_ranges + &text[range] ---- *)
(* TextRange::intersect: max of the starts, min of the ends, None if end < start (touching ranges
   give an empty Some) *)
Fixpoint chunks (toks : list (N * text)) (s e : N) : res (list text) :=
  match toks with
  | [] => Ok []
  | (o, t) :: r =>
      let st := N.max s o in
      let en := N.min e (o + byte_len t) in
      if en <? st then chunks r s e
      else match slice_str t (st - o) (en - o) with
           | Ok c => match chunks r s e with Ok cs => Ok (c :: cs) | Panic p => Panic p end
           | Panic p => Panic p
           end
  end.

(* ---- the methods, on the chunk list ---- *)
Definition v_len (s e : N) : N := e - s.
Definition v_is_empty (s e : N) : bool := s =? e.
Definition v_to_string (cs : list text) : text := concat cs.
Definition has_char (c : cp) (t : text) : bool := existsb (N.eqb c) t.
Definition v_contains (cs : list text) (c : cp) : bool := existsb (has_char c) cs.

(* byte position of the first occurrence of c in t *)
Fixpoint find_in (t : text) (c : cp) (acc : N) : option N :=
  match t with [] => None | x :: r => if x =? c then Some acc else find_in r c (acc + utf8_width x) end.
Fixpoint v_find (cs : list text) (c : cp) (acc : N) : option N :=
  match cs with
  | [] => None
  | t :: r => match find_in t c 0 with Some p => Some (acc + p) | None => v_find r c (acc + byte_len t) end
  end.

Fixpoint v_char_at (cs : list text) (off : N) (start : N) : res (option cp) :=
  match cs with
  | [] => Ok None
  | t :: r =>
      let en := start + byte_len t in
      if (start <=? off) && (off <? en) then
        match drop_bytes t (off - start) with
        | Ok (c :: _) => Ok (Some c)
        | Ok [] => Panic PUnreachable          (* chars().next().unwrap() *)
        | Panic p => Panic p
        end
      else v_char_at r off en
  end.

(* slice(range): relative to the view; the three asserts of text.rs *)
Definition v_slice (s e a b : N) : res (N * N) :=
  if b <? a then Panic PSliceRange
  else let s' := s + a in let e' := s' + (b - a) in
       if (s <=? s') && (e' <=? e) then Ok (s', e') else Panic PSliceRange.

(* slice with an ops range: `a..b`, `a..`, `..b`, `..` — a missing start is 0, a missing end is the view's length *)
Definition v_slice_opt (s e : N) (a b : option N) : res (N * N) :=
  v_slice s e (match a with Some x => x | None => 0 end) (match b with Some y => y | None => e - s end).

Fixpoint strip_prefix (p t : text) : option text :=
  match p, t with
  | [], _ => Some t
  | x :: p', y :: t' => if x =? y then strip_prefix p' t' else None
  | _ :: _, [] => None
  end.
Definition is_prefix (p t : text) : bool := match strip_prefix p t with Some _ => true | None => false end.

(* PartialEq<str>: consume rhs chunk by chunk *)
Fixpoint v_eq_str (cs : list text) (rhs : text) : bool :=
  match cs with
  | [] => match rhs with [] => true | _ => false end
  | t :: r => match strip_prefix t rhs with Some rest => v_eq_str r rest | None => false end
  end.

(* PartialEq<SyntaxText>: the two-pointer walk zip_texts; x / y are the unconsumed parts of the
   current chunks.  Returns true iff zip_texts returns None (ran off one side without a mismatch). *)
Fixpoint zip_texts (fuel : nat) (x : text) (xs : list text) (y : text) (ys : list text) : bool * (list text * list text) :=
  match fuel with
  | O => (false, (xs, ys))
  | S f =>
      match x with
      | [] => match xs with [] => (true, (xs, ys)) | x' :: xs' => zip_texts f x' xs' y ys end   (* xs.next()? — the current y is dropped *)
      | _ :: _ =>
          match y with
          | [] => match ys with [] => (true, (xs, ys)) | y' :: ys' => zip_texts f x xs y' ys' end   (* ys.next()? — the current x is dropped *)
          | _ :: _ =>
              if is_prefix y x then
                match strip_prefix y x with Some x' => zip_texts f x' xs [] ys | None => (false, (xs, ys)) end
              else if is_prefix x y then
                match strip_prefix x y with Some y' => zip_texts f [] xs y' ys | None => (false, (xs, ys)) end
              else (false, (xs, ys))
          end
      end
  end.

Definition all_empty (l : list text) : bool := forallb (fun t => match t with [] => true | _ => false end) l.

Definition v_eq_view (xs : list text) (lx : N) (ys : list text) (ly : N) : bool :=
  if negb (lx =? ly) then false
  else match xs, ys with
       | [], _ => all_empty ys          (* lhs.next()? is None: zip returns None; rhs.all(empty) *)
       | x :: xr, [] => all_empty xr       (* x was taken by xs.next() before ys.next()? returned None *)
       | x :: xr, y :: yr =>
           let fuel := S (length (concat xs) + length (concat ys) + length xs + length ys) in
           let '(ok, (rx, ry)) := zip_texts fuel x xr y yr in
           ok && all_empty rx && all_empty ry
       end.
