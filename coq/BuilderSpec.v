(* BuilderSpec.v — the reference semantics of builder event sequences: a stack parser over spec
   trees.  Obviously-correct-by-reading; independent of caches, hashes, ids, indices. *)
From CsModel Require Export Builder.

Section Spec.
  Variable static_text : kind -> option text.

  (* open nodes innermost first, each with its finished children newest first; then the elements
     outside any open node (newest first) *)
  Definition pstate := (list (kind * list stree) * list stree)%type.
  Definition p_init : pstate := ([], []).

  Definition p_push (ps : pstate) (x : stree) : pstate :=
    match ps with
    | ([], base) => ([], x :: base)
    | ((k, cs) :: fr, base) => ((k, x :: cs) :: fr, base)
    end.

  (* events: start, token, static token, finish node.  Other builder operations are not events. *)
  Definition p_step (ps : pstate) (o : bop) : option pstate :=
    match o with
    | OStart k => Some ((k, []) :: fst ps, snd ps)
    | OToken k t => Some (p_push ps (STok k (match static_text k with Some s => s | None => t end)))
    | OStatic k => match static_text k with Some s => Some (p_push ps (STok k s)) | None => None end
    | OFinishNode =>
        match ps with
        | ([], _) => None
        | ((k, cs) :: fr, base) => Some (p_push (fr, base) (SNode k (rev cs)))
        end
    | _ => None
    end.

  Fixpoint p_run (ps : pstate) (ops : list bop) : option pstate :=
    match ops with
    | [] => Some ps
    | o :: r => match p_step ps o with Some ps' => p_run ps' r | None => None end
    end.

  (* a balanced event sequence denotes exactly one tree whose root is a node *)
  Definition parse (ops : list bop) : option stree :=
    match p_run p_init ops with
    | Some ([], [SNode k cs]) => Some (SNode k cs)
    | _ => None
    end.

  (* the texts fed in, in order *)
  Fixpoint fed_text (ops : list bop) : text :=
    match ops with
    | [] => []
    | OToken k t :: r => t ++ fed_text r
    | OStatic k :: r => text_or_empty (static_text k) ++ fed_text r
    | _ :: r => fed_text r
    end.

  (* documented precondition of token(): for a kind with static text the given text IS that text *)
  Definition WfEvent (o : bop) : Prop :=
    match o with
    | OToken k t => match static_text k with Some s => t = s | None => True end
    | OStart _ | OStatic _ | OFinishNode => True
    | _ => False
    end.

  Definition is_event (o : bop) : bool :=
    match o with OStart _ | OToken _ _ | OStatic _ | OFinishNode => true | _ => false end.
End Spec.
Arguments p_push : simpl never.
