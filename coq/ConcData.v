(* ConcData.v — C18 on the concurrent machine: every data operation is one machine step (it runs
   under the node's data lock), and that step is exactly the sequential optional-slot operation on
   the data of its tree position; no other step touches the data before the teardown. *)
From CsModel Require Import Red RedProofs Conc ConcProofs.
From Coq Require Import ZArith Lia.

Section ConcData.
  Variable g : gelem.

  (* the sequential specification of an optional slot *)
  Definition dspec (cur : option N) (o : cop) : option N * cres :=
    match o with
    | KSet _ v => (Some v, RSet v)
    | KTrySet _ v => match cur with Some _ => (cur, RTrySet false v) | None => (Some v, RTrySet true v) end
    | KGet _ => (cur, RGet cur)
    | KClear _ => (None, RCleared)
    | _ => (cur, RNone)
    end.

  Lemma data_lookup_remove_same d p : data_lookup (data_remove d p) p = None.
  Proof.
    induction d as [|[q v] r IH]; cbn [data_remove data_lookup]; [reflexivity|].
    destruct (pos_eqb q p) eqn:E; [exact IH|]. cbn [data_lookup]. rewrite E. exact IH.
  Qed.

  Lemma data_lookup_remove_other d p q : q <> p -> data_lookup (data_remove d p) q = data_lookup d q.
  Proof.
    intros Hne. induction d as [|[x v] r IH]; cbn [data_remove data_lookup]; [reflexivity|].
    destruct (pos_eqb x p) eqn:E.
    - apply pos_eqb_eq in E. subst x. destruct (pos_eqb p q) eqn:E2; [apply pos_eqb_eq in E2; congruence|exact IH].
    - cbn [data_lookup]. rewrite IH. reflexivity.
  Qed.

  Lemma data_lookup_set_same d p v : data_lookup ((p, v) :: data_remove d p) p = Some v.
  Proof. cbn [data_lookup]. rewrite pos_eqb_refl. reflexivity. Qed.

  Lemma data_lookup_set_other d p q v : q <> p -> data_lookup ((p, v) :: data_remove d p) q = data_lookup d q.
  Proof.
    intros Hne. cbn [data_lookup]. destruct (pos_eqb p q) eqn:E; [apply pos_eqb_eq in E; congruence|].
    apply data_lookup_remove_other. exact Hne.
  Qed.

  (* the step of a data operation = the sequential operation on the slot of position p, atomically:
     new content and result as the specification says, every other position untouched, the result
     appended to the thread's results, one lock/unlock pair on the node's data lock *)
  Theorem data_step_atomic s tid t p o rest :
    let s' := fst (exec_mop g s tid t (MData p o) rest) in
    let cur := data_lookup (c_data s) p in
    data_lookup (c_data s') p = fst (dspec cur o) /\
    (forall q, q <> p -> data_lookup (c_data s') q = data_lookup (c_data s) q) /\
    nth_error (c_threads s') tid = (match nth_error (c_threads s) tid with
                                    | Some _ => Some (mkThread (t_regs t) (t_prog t) rest (t_out t ++ [snd (dspec cur o)]))
                                    | None => None end) /\
    c_slots s' = c_slots s /\ c_rc s' = c_rc s /\ c_live s' = c_live s /\ c_torn s' = c_torn s /\
    exists b w, snd (exec_mop g s tid t (MData p o) rest) = [CDataLock b w; CDataUnlock b w].
  Proof.
    cbn zeta. cbn [exec_mop].
    assert (NthSet : forall (l : list thread) i x, nth_error (set_nth l i x) i = match nth_error l i with Some _ => Some x | None => None end).
    { induction l as [|a l IH]; intros [|i] x; cbn [set_nth nth_error]; auto. }
    destruct o as [r|r|r i|r|r|r|r|r v|r v|r|r];
      try (cbn [fst snd upd_thread c_data c_threads c_slots c_rc c_live c_torn dspec]; rewrite NthSet;
           repeat split; try reflexivity; try (do 2 eexists; reflexivity); fail).
    - (* set *)
      cbn [fst snd upd_thread c_data c_threads c_slots c_rc c_live c_torn dspec]. rewrite NthSet.
      split; [apply data_lookup_set_same|]. split; [intros q Hq; apply data_lookup_set_other; exact Hq|]. repeat split; try reflexivity; try (do 2 eexists; reflexivity).
    - (* try_set *)
      destruct (data_lookup (c_data s) p) as [cur|] eqn:L;
        cbn [fst snd upd_thread c_data c_threads c_slots c_rc c_live c_torn dspec]; rewrite NthSet.
      + repeat split; try reflexivity; try exact L; try (do 2 eexists; reflexivity).
      + split; [apply data_lookup_set_same|]. split; [intros q Hq; apply data_lookup_set_other; exact Hq|]. repeat split; try reflexivity; try (do 2 eexists; reflexivity).
    - (* clear *)
      cbn [fst snd upd_thread c_data c_threads c_slots c_rc c_live c_torn dspec]. rewrite NthSet.
      split; [apply data_lookup_remove_same|]. split; [intros q Hq; apply data_lookup_remove_other; exact Hq|]. repeat split; try reflexivity; try (do 2 eexists; reflexivity).
  Qed.

  (* no other step touches the data while the tree is alive *)
  Theorem other_steps_keep_data s tid t m rest :
    (forall p o, m <> MData p o) -> c_torn (fst (exec_mop g s tid t m rest)) = false ->
    c_data (fst (exec_mop g s tid t m rest)) = c_data s.
  Proof.
    intros Hm. destruct t as [regs prog cont out].
    destruct m as [q i rt first keep|q i off cand keep|delta after|h|r|r report|tb q i|q o]; cbn [exec_mop].
    - destruct (slot_lookup (c_slots s) (i :: q)); [|destruct (child_is_node g q i)]; reflexivity.
    - destruct (slot_lookup (c_slots s) (i :: q)); reflexivity.
    - reflexivity.
    - reflexivity.
    - destruct (reg_of _ r); reflexivity.
    - destruct (reg_of _ r); [destruct (Z.eqb (c_rc s) 1)|]; cbn [fst upd_thread c_torn c_data]; try reflexivity. discriminate.
    - destruct (negb (c_torn s)) eqn:NT; [reflexivity|]. destruct (tear_slot_events g s tb q i) as [more evs].
      cbn [fst upd_thread c_torn c_data]. intros T. rewrite T in NT. discriminate.
    - contradiction (Hm q o). reflexivity.
  Qed.

  (* of several conditional sets exactly the one that finds the slot empty succeeds, and it fills it *)
  Corollary try_set_exclusive cur r v :
    (cur = None -> dspec cur (KTrySet r v) = (Some v, RTrySet true v)) /\
    (forall x, cur = Some x -> dspec cur (KTrySet r v) = (Some x, RTrySet false v)).
  Proof. split; [intros ->; reflexivity|intros x ->; reflexivity]. Qed.
End ConcData.
