(* RaceConc.v — C07: the machine of Conc.v keeps the lock discipline of Race.v, and the source
   orderings extracted by the translator map to the orderings of Race.v. *)
From CsModel Require Extracted.
From CsModel Require Import Red Conc ConcProofs Race.
From Coq Require Import ZArith.

Definition ordering_of (o : Extracted.ordering_name) : ordering :=
  match o with
  | Extracted.ORelaxed => Relaxed | Extracted.OAcquire => Acquire | Extracted.ORelease => Release
  | Extracted.OAcqRel => AcqRel | Extracted.OSeqCst => SeqCst
  end.

(* in the event list of one step: every slot access comes directly after the lock request for
   exactly that slot *)
Fixpoint acc_ok_from (prev : option (nat * nat)) (l : list cev) : bool :=
  match l with
  | [] => true
  | CAccess b i :: r =>
      match prev with
      | Some (b', i') => Nat.eqb b b' && Nat.eqb i i' && acc_ok_from None r
      | None => false
      end
  | CReadLock b i :: r | CWriteLock b i :: r => acc_ok_from (Some (b, i)) r
  | _ :: r => acc_ok_from None r
  end.
Definition acc_ok (l : list cev) : bool := acc_ok_from None l.

Lemma acc_ok_no_access l prev : (forall b i, ~ In (CAccess b i) l) -> acc_ok_from prev l = true.
Proof.
  revert prev. induction l as [|e r IH]; intros prev H; [reflexivity|].
  assert (Hr : forall b i, ~ In (CAccess b i) r) by (intros b i Hin; apply (H b i); right; exact Hin).
  destruct e; cbn [acc_ok_from]; try (apply IH; exact Hr).
  exfalso. apply (H block slot). left. reflexivity.
Qed.

Definition is_access (e : cev) : bool := match e with CAccess _ _ => true | _ => false end.
(* internal read-modify-writes are followed by frees and unlocks only *)
Definition mop_clean (m : mop) : bool :=
  match m with MRmwInternal _ a => forallb (fun e => negb (is_access e)) a | _ => true end.

Section RaceConc.
  Variable g : gelem.

  Theorem step_accesses_under_lock s tid t m rest :
    mop_clean m = true -> acc_ok (snd (exec_mop g s tid t m rest)) = true.
  Proof.
    intros Hc. unfold acc_ok. destruct t as [regs prog cont out].
    destruct m as [p i rt first keep|p i off cand keep|delta after|h|r|r report|tb p i|p o]; cbn [exec_mop].
    - destruct (slot_lookup (c_slots s) (i :: p)); [|destruct (child_is_node g p i)]; cbn [snd acc_ok_from]; rewrite !Nat.eqb_refl; reflexivity.
    - destruct (slot_lookup (c_slots s) (i :: p)); cbn [snd acc_ok_from]; rewrite !Nat.eqb_refl; reflexivity.
    - cbn [snd acc_ok_from]. apply acc_ok_no_access. intros b i Hin. cbn [mop_clean] in Hc.
      rewrite forallb_forall in Hc. specialize (Hc _ Hin). discriminate.
    - reflexivity.
    - destruct (reg_of _ r); reflexivity.
    - destruct (reg_of _ r); [destruct (Z.eqb (c_rc s) 1)|]; reflexivity.
    - destruct (negb (c_torn s)); [reflexivity|]. unfold tear_slot_events.
      destruct (slot_lookup (c_slots s) (i :: p)) as [[b|pb]|]; cbn [snd acc_ok_from]; rewrite !Nat.eqb_refl; reflexivity.
    - destruct (match o with KSet _ v => _ | KTrySet _ v => _ | KGet _ => _ | KClear _ => _ | _ => _ end) as [[[d' dr] res] w].
      reflexivity.
  Qed.

  (* the pending operations of all threads stay clean *)
  Definition CleanInv (s : cstate) : Prop := Forall (fun t => forallb mop_clean (t_cont t) = true) (c_threads s).

  Lemma clean_tear_node b p : forallb mop_clean (tear_node g b p) = true.
  Proof. unfold tear_node. induction (seq 0 (length (kids g p))) as [|i r IH]; cbn; auto. Qed.

  Lemma fresh_clean ms : forallb fresh_op ms = true -> forallb mop_clean ms = true.
  Proof.
    rewrite !forallb_forall. intros F x Hin. specialize (F x Hin). destruct x; cbn in *; congruence.
  Qed.

  Lemma exec_clean s tid t m rest :
    nth_error (c_threads s) tid = Some t -> t_cont t = m :: rest ->
    CleanInv s -> CleanInv (fst (exec_mop g s tid t m rest)).
  Proof.
    intros Ht Hc F. unfold CleanInv in *.
    assert (T := nth_error_Forall _ _ _ _ F Ht). cbn beta in T. rewrite Hc in T. cbn [forallb] in T.
    apply andb_true_iff in T as [Tm Tr].
    destruct t as [regs prog cont out]. cbn [t_cont] in Hc. subst cont.
    destruct m as [p i rt first keep|p i off cand keep|delta after|h|r|r report|tb p i|p o]; cbn [exec_mop].
    - destruct (slot_lookup (c_slots s) (i :: p)); [|destruct (child_is_node g p i)];
        cbn [fst upd_thread c_threads]; apply Forall_set_nth; auto; cbn [t_cont]; [destruct keep|..]; cbn [forallb mop_clean]; auto.
    - destruct (slot_lookup (c_slots s) (i :: p)); cbn [fst upd_thread c_threads]; apply Forall_set_nth; auto; cbn [t_cont];
        rewrite ?forallb_app; try destruct cand; cbn [forallb mop_clean negb is_access andb app]; auto.
    - cbn [fst upd_thread c_threads]. apply Forall_set_nth; auto.
    - cbn [fst upd_thread c_threads]. apply Forall_set_nth; auto.
    - destruct (reg_of _ r); cbn [fst upd_thread c_threads]; apply Forall_set_nth; auto.
    - destruct (reg_of _ r); [destruct (Z.eqb (c_rc s) 1)|]; cbn [fst upd_thread c_threads]; apply Forall_set_nth; auto.
      cbn [t_cont t_regs t_prog t_out]. rewrite !forallb_app, clean_tear_node. cbn [forallb mop_clean negb is_access andb]. auto.
    - destruct (negb (c_torn s)); [cbn [fst upd_thread c_threads]; apply Forall_set_nth; auto|].
      unfold tear_slot_events. destruct (slot_lookup (c_slots s) (i :: p)) as [[b|pb]|];
        cbn [fst upd_thread c_threads]; apply Forall_set_nth; auto; cbn [t_cont];
        rewrite ?forallb_app, ?clean_tear_node; cbn [forallb mop_clean negb is_access andb app]; auto.
    - destruct (match o with KSet _ v => _ | KTrySet _ v => _ | KGet _ => _ | KClear _ => _ | _ => _ end) as [[[d' dr] res] w].
      cbn [fst upd_thread c_threads]. apply Forall_set_nth; auto.
  Qed.

  Lemma refill_clean : forall fuel t, forallb mop_clean (t_cont t) = true -> forallb mop_clean (t_cont (refill g fuel t)) = true.
  Proof.
    induction fuel as [|f IH]; intros t C; cbn [refill]; [exact C|].
    destruct t as [regs prog cont out]. cbn [t_cont t_prog t_regs t_out] in *.
    destruct cont as [|m c]; [|exact C].
    destruct prog as [|o r].
    - destruct (first_owned regs 0); reflexivity.
    - assert (Ex := expand_ok g (mkThread regs (o :: r) [] out) o).
      destruct (expand g (mkThread regs (o :: r) [] out) o) as [ms res]. cbn [fst] in Ex.
      apply IH. cbn [t_cont]. destruct Ex as [[P|(r0 & b & ->)] _]; [apply fresh_clean; exact P|reflexivity].
  Qed.

  Lemma normalize_clean s : CleanInv s -> CleanInv (normalize g s).
  Proof.
    unfold CleanInv, normalize. cbn [c_threads]. intros F. apply Forall_map.
    eapply Forall_impl; [|exact F]. intros t. apply refill_clean.
  Qed.

  Theorem reach_clean progs s : Reach g progs s -> CleanInv s.
  Proof.
    induction 1 as [|s want s' tid evs _ IH C].
    - unfold cinit. apply normalize_clean. unfold CleanInv. cbn [c_threads]. apply Forall_map. apply Forall_forall. intros; reflexivity.
    - destruct (cstep_inv g _ _ _ _ _ C) as (t & m & rest & Ht & Hc & -> & _).
      apply normalize_clean. apply exec_clean; auto.
  Qed.

  (* every step of every reachable state requests slot contents only under the slot's lock *)
  Theorem machine_accesses_under_lock progs s want s' tid evs :
    Reach g progs s -> cstep g s want = Some (s', tid, evs) -> acc_ok evs = true.
  Proof.
    intros R C. destruct (cstep_inv g _ _ _ _ _ C) as (t & m & rest & Ht & Hc & _ & ->).
    apply step_accesses_under_lock.
    assert (T := nth_error_Forall _ _ _ _ (reach_clean _ _ R) Ht). cbn beta in T. rewrite Hc in T. cbn [forallb] in T.
    apply andb_true_iff in T as [Tm _]. exact Tm.
  Qed.
End RaceConc.

(* ---- whole runs: the trace of any run of the machine, read as a trace of Race.v, has every slot
   access inside a critical section of that slot's lock (opened by the event just before it, by the
   same thread) ---- *)
Section RunDiscipline.
  Variable g : gelem.

  (* slot (b, i) as a lock / location identifier of Race.v *)
  Variable slot_id : nat -> nat -> nat.

  Definition sev_of (e : cev) : sev :=
    match e with
    | CReadLock b i => EAcq (slot_id b i) false
    | CReadUnlock b i => ERel (slot_id b i) false
    | CWriteLock b i => EAcq (slot_id b i) true
    | CWriteUnlock b i => ERel (slot_id b i) true
    | CAccess b i => EAcc (slot_id b i)
    | CRmw _ => ERmw true true
    | CFree _ => EFree
    | CAlloc _ | CDataLock _ _ | CDataUnlock _ _ => ERmw false false      (* not part of the slot protocol *)
    end.
  Definition strace_of (tr : list (nat * cev)) : strace := map (fun x => (fst x, sev_of (snd x))) tr.

  (* on a flat trace: a slot access directly follows the lock request for that slot by the same thread *)
  Fixpoint flat_ok (prev : option (nat * nat * nat)) (tr : list (nat * cev)) : bool :=
    match tr with
    | [] => true
    | (t, CAccess b i) :: r =>
        match prev with
        | Some (t', b', i') => Nat.eqb t t' && Nat.eqb b b' && Nat.eqb i i' && flat_ok None r
        | None => false
        end
    | (t, CReadLock b i) :: r | (t, CWriteLock b i) :: r => flat_ok (Some (t, b, i)) r
    | _ :: r => flat_ok None r
    end.

  Lemma flat_ok_any_prev : forall tr prev, flat_ok None tr = true -> flat_ok prev tr = true.
  Proof. intros [|[t e] r] prev H; [reflexivity|]. destruct e; cbn [flat_ok] in *; try exact H. discriminate. Qed.

  Lemma flat_ok_app : forall a b prev, flat_ok prev a = true -> flat_ok None b = true -> flat_ok prev (a ++ b) = true.
  Proof.
    induction a as [|[t e] a IH]; intros b prev Ha Hb; cbn [app]; [apply flat_ok_any_prev; exact Hb|].
    destruct e; cbn [flat_ok] in *; try (apply IH; assumption).
    destruct prev as [[[t' b'] i']|]; [|discriminate].
    apply andb_true_iff in Ha as [Ha1 Ha2]. rewrite Ha1. cbn [andb]. apply IH; assumption.
  Qed.

  Lemma flat_ok_step tid : forall evs prev,
    acc_ok_from (option_map (fun x => (snd (fst x), snd x)) prev) evs = true ->
    (match prev with Some (t, _, _) => t = tid | None => True end) ->
    flat_ok prev (map (fun e => (tid, e)) evs) = true.
  Proof.
    induction evs as [|e r IH]; intros prev H Ht; cbn [map]; [reflexivity|].
    destruct e; cbn [flat_ok acc_ok_from] in *;
      try (apply (IH None); [exact H|exact Logic.I]);
      try (apply (IH (Some (tid, block, slot))); [exact H|reflexivity]).
    destruct prev as [[[t' b'] i']|]; cbn [option_map fst snd] in H; [|discriminate].
    subst t'. rewrite Nat.eqb_refl. cbn [andb].
    apply andb_true_iff in H as [H1 H2]. rewrite H1. cbn [andb]. apply (IH None); [exact H2|exact Logic.I].
  Qed.

  Theorem run_accesses_under_lock progs : forall fuel s sched rr,
    Reach g progs s -> flat_ok None (snd (crun g fuel s sched rr)) = true.
  Proof.
    induction fuel as [|f IH]; intros s sched rr R; cbn [crun]; [reflexivity|].
    destruct (all_done s); [reflexivity|].
    destruct (match sched with w :: r => (w, r) | [] => (rr, []) end) as [want sched'].
    destruct (cstep g s want) as [[[s' tid] evs]|] eqn:C; [|reflexivity].
    assert (A := machine_accesses_under_lock g progs s want s' tid evs R C).
    specialize (IH s' sched' (S tid) (Reach_step g _ _ _ _ _ _ R C)).
    destruct (crun g f s' sched' (S tid)) as [sf tr]. cbn [snd] in *.
    apply flat_ok_app; [|exact IH]. apply (flat_ok_step tid evs None); [exact A|exact Logic.I].
  Qed.

  (* what flat_ok means in the vocabulary of Race.v: every access event of the run is inside a critical
     section (in the sense of [inside]) of the lock with the same identifier, opened by the same thread
     with the event just before it *)
  Theorem flat_ok_inside : forall tr prev k t x,
    flat_ok prev tr = true ->
    nth_error (strace_of tr) k = Some (t, EAcc x) ->
    match k with
    | O => exists b i, prev = Some (t, b, i) /\ x = slot_id b i
    | S k' => exists w, inside (strace_of tr) t x w k' k
    end.
  Proof.
    induction tr as [|[t0 e] r IH]; intros prev k t x F N; [destruct k; discriminate|].
    destruct k as [|k'].
    - cbn [strace_of map nth_error fst snd] in N. injection N as <- E. destruct e; cbn [sev_of] in E; try discriminate.
      injection E as <-. cbn [flat_ok] in F. destruct prev as [[[t' b'] i']|]; [|discriminate].
      apply andb_true_iff in F as [F1 _]. apply andb_true_iff in F1 as [F1 F3]. apply andb_true_iff in F1 as [F1 F2].
      apply Nat.eqb_eq in F1, F2, F3. subst. eauto.
    - cbn [strace_of map nth_error] in N. fold (strace_of r) in N.
      assert (Fr : exists prev', flat_ok prev' r = true /\
                   (forall b i, prev' = Some (t, b, i) -> exists w : bool, e = (if w then CWriteLock b i else CReadLock b i) /\ t0 = t)).
      { destruct e; cbn [flat_ok] in F;
          try (exists None; split; [exact F|intros; discriminate]).
        - exists (Some (t0, block, slot)). split; [exact F|]. intros b i [= <- <- <-]. exists false. auto.
        - exists (Some (t0, block, slot)). split; [exact F|]. intros b i [= <- <- <-]. exists true. auto.
        - destruct prev as [[[t' b'] i']|]; [|discriminate]. apply andb_true_iff in F as [_ F]. exists None. split; [exact F|intros; discriminate]. }
      destruct Fr as (prev' & Fr & Hp). specialize (IH prev' k' t x Fr N).
      destruct k' as [|k''].
      + destruct IH as (b & i & -> & ->). destruct (Hp b i eq_refl) as (w & -> & ->).
        exists w. unfold inside, at_. split; [lia|]. split; [cbn [strace_of map nth_error fst snd]; destruct w; reflexivity|].
        intros r0 w' H1 H2. lia.
      + destruct IH as (w & Hlt & Ha & Hn). exists w. unfold inside, at_ in *. split; [lia|]. split; [exact Ha|].
        intros r0 w' H1 H2. destruct r0 as [|r0']; [lia|]. cbn [strace_of map nth_error]. apply Hn; lia.
  Qed.
End RunDiscipline.
