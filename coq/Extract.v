(* Extract.v — OCaml extraction of the executable model (ExtrOcamlBasic only: bool, option, list,
   prod, unit, sumbool map to OCaml's; N, positive, nat stay the extracted inductive types). *)
From Coq Require Extraction ExtrOcamlBasic.
From CsModel Require Import Base Green Builder BuilderSpec BuilderProofs Interner Extracted.
Extraction Language OCaml.
Extraction "model.ml"
  utf8_width byte_len text_eqb
  cache_threshold
  intern_c try_from_u32 into_u32 to_lasso from_lasso lasso_cap resolve
  geq tok_text denote gtext empty_cache new_builder b_run b_finish build green_node_new.
