(* Extract.v — OCaml extraction of the executable model (ExtrOcamlBasic only: bool, option, list,
   prod, unit, sumbool map to OCaml's; N, positive, nat stay the extracted inductive types). *)
From Coq Require Extraction ExtrOcamlBasic.
From CsModel Require Import Base Green Builder BuilderSpec BuilderProofs Interner Red Nav GreenEq Replace TokenText Preorder Fmt Serde Derive AutoTrait TextView Conc Handles Extracted.
Extraction Language OCaml.
Extraction "model.ml"
  utf8_width byte_len text_eqb
  cache_threshold
  intern_c try_from_u32 into_u32 to_lasso from_lasso lasso_cap resolve
  gi_next gi_next_back gi_nth gi_nth_back gi_last gi_fold gi_rfold replace_at
  abbrev abbrev_len abbrev_lo abbrev_hi debug_lines display_of
  ser_events ser_data deser_tree attach serde_token_text_ty
  is_send is_sync view_ok other_marker_impls node_kind_bounds sat constructible node_send_bounds node_sync_bounds ctor_resolver_bounds green_token_unconditional
  Derive.expand from_raw into_raw static_text_of
  tok_ranges chunks v_len v_is_empty v_to_string v_contains v_find v_char_at v_slice v_slice_opt v_eq_str v_eq_view
  cinit crun all_done block_of off_of
  hinit hstep hrun_ops hdrop_all
  text_eq text_eq_old
  nav_exec nav_run
  subr offset_of len_at is_node_at kids parent_of ancestors
  first_child_gen last_child_gen next_child_after_gen prev_child_before_gen next_sibling_gen prev_sibling_gen
  iter_new elem_iter_next node_iter_next elem_iter_len node_iter_len children_nodes children_elems
  first_token last_token next_token prev_token preorder descendants siblings
  token_at_offset tao_left tao_right tao_drain covering_element end_of start_of
  geq tok_text denote gtext empty_cache new_builder b_run b_finish build green_node_new.
