(* ConcLin.v — C18 at the level of whole runs: the data operations of EVERY run of the machine, under every
   scheduler choice, are linearizable.  The history of a run lists its data operations in the order of
   the machine steps that perform them (thread, tree position, operation, index of the result in the
   thread's output).  Executing that history SEQUENTIALLY on one optional slot per position gives exactly
   the results the threads recorded, ends in the store the machine holds, and the history respects every
   thread's program order. *)
From CsModel Require Import Red RedProofs Conc ConcProofs ConcHandles ConcData ConcReclaim ConcWf ConcTear.
From Coq Require Import ZArith Lia List.
Import ListNotations.
Open Scope nat_scope.

Section ConcLin.
  Variable g : gelem.

  Record dentry := mkE { e_tid : nat; e_pos : pos; e_op : cop; e_idx : nat }.

  (* the sequential specification: one optional slot per tree position *)
  Definition store := pos -> option N.
  Definition st_empty : store := fun _ => None.
  Definition st_upd (st : store) (p : pos) (v : option N) : store := fun q => if pos_eqb p q then v else st q.

  Fixpoint seq_run (st : store) (h : list dentry) : list cres * store :=
    match h with
    | [] => ([], st)
    | e :: h' =>
        let x := dspec (st (e_pos e)) (e_op e) in
        let y := seq_run (st_upd st (e_pos e) (fst x)) h' in
        (snd x :: fst y, snd y)
    end.

  Lemma seq_run_app : forall a b st,
    seq_run st (a ++ b) = (fst (seq_run st a) ++ fst (seq_run (snd (seq_run st a)) b), snd (seq_run (snd (seq_run st a)) b)).
  Proof.
    induction a as [|e a IH]; intros b st; cbn [seq_run app fst snd].
    - destruct (seq_run st b); reflexivity.
    - rewrite IH. reflexivity.
  Qed.

  (* what the step of thread [tid] in state [s] adds to the history *)
  Definition step_entry (s : cstate) (tid : nat) : list dentry :=
    match nth_error (c_threads s) tid with
    | Some t => match t_cont t with
                | MData p o :: _ => [mkE tid p o (length (t_out t))]
                | _ => []
                end
    | None => []
    end.

  Inductive RunH (progs : list (list cop)) : cstate -> list dentry -> Prop :=
  | RunH_init : RunH progs (cinit g progs) []
  | RunH_step s h want s' tid evs :
      RunH progs s h -> cstep g s want = Some (s', tid, evs) -> RunH progs s' (h ++ step_entry s tid).

  Lemma RunH_Reach progs s h : RunH progs s h -> Reach g progs s.
  Proof. induction 1 as [|s h want s' tid evs _ IH C]; [apply Reach_init|eapply Reach_step; eauto]. Qed.

  Lemma Reach_RunH progs s : Reach g progs s -> exists h, RunH progs s h.
  Proof.
    induction 1 as [|s want s' tid evs _ [h IH] C]; [exists []; apply RunH_init|].
    exists (h ++ step_entry s tid). eapply RunH_step; eauto.
  Qed.

  (* the result of history entry e, as thread e_tid recorded it *)
  Definition Recorded (s : cstate) (e : dentry) (r : cres) : Prop :=
    exists t, nth_error (c_threads s) (e_tid e) = Some t /\ nth_error (t_out t) (e_idx e) = Some r.

  (* program order: entries of one thread appear in the order of their output indices *)
  Fixpoint POrd (h : list dentry) : Prop :=
    match h with
    | [] => True
    | e :: h' => (forall e', In e' h' -> e_tid e' = e_tid e -> e_idx e < e_idx e') /\ POrd h'
    end.

  Lemma POrd_snoc : forall h x, POrd h -> (forall e, In e h -> e_tid e = e_tid x -> e_idx e < e_idx x) -> POrd (h ++ [x]).
  Proof.
    induction h as [|e h IH]; intros x P Hx; cbn [app POrd].
    - split; [intros e' []|exact I].
    - destruct P as [P1 P2]. split.
      + intros e' He' Ht. apply in_app_or in He'. destruct He' as [He'|[<-|[]]].
        * apply P1; assumption.
        * apply Hx; [left; reflexivity|symmetry; exact Ht].
      + apply IH; [exact P2|]. intros e0 He0. apply Hx. right. exact He0.
  Qed.

  (* ---- outputs only grow ---- *)
  Lemma refill_out : forall fuel t, exists extra, t_out (refill g fuel t) = t_out t ++ extra.
  Proof.
    induction fuel as [|f IH]; intros t; cbn [refill]; [exists []; rewrite app_nil_r; reflexivity|].
    destruct (t_cont t) as [|m c]; [|exists []; rewrite app_nil_r; reflexivity].
    destruct (t_prog t) as [|o r].
    - destruct (first_owned (t_regs t) 0); cbn [t_out]; exists []; rewrite app_nil_r; reflexivity.
    - destruct (expand g t o) as [ms res]. destruct res as [x|].
      + destruct (IH (mkThread (t_regs t) r ms (t_out t ++ [x]))) as [extra E]. cbn [t_out] in E.
        exists ([x] ++ extra). rewrite E, app_assoc. reflexivity.
      + destruct (IH (mkThread (t_regs t) r ms (t_out t))) as [extra E]. cbn [t_out] in E. exists extra. exact E.
  Qed.

  Lemma exec_threads_out s tid t m rest :
    exists t', c_threads (fst (exec_mop g s tid t m rest)) = set_nth (c_threads s) tid t' /\
               exists extra, t_out t' = t_out t ++ extra.
  Proof.
    Local Ltac fin := cbn [fst upd_thread c_threads]; eexists; split; [reflexivity|]; cbn [t_out];
                      first [exists []; rewrite app_nil_r; reflexivity | eexists; reflexivity].
    destruct m as [q i rt first keep|q i off cand keep|delta after|hh|r|r report|tb q i|q o]; cbn [exec_mop].
    - destruct (slot_lookup (c_slots s) (i :: q)); [|destruct (child_is_node g q i)]; fin.
    - destruct (slot_lookup (c_slots s) (i :: q)); fin.
    - fin.
    - fin.
    - destruct (reg_of t r); fin.
    - destruct (reg_of t r); [|fin]. destruct report; destruct (Z.eqb (c_rc s) 1); fin.
    - destruct (negb (c_torn s)); [fin|]. destruct (tear_slot_events g s tb q i) as [more evs]. fin.
    - destruct o; try destruct (data_lookup (c_data s) q); fin.
  Qed.

  Lemma nth_error_map_some {A B} (f : A -> B) l i x : nth_error l i = Some x -> nth_error (map f l) i = Some (f x).
  Proof. intros H. rewrite nth_error_map, H. reflexivity. Qed.

  Lemma step_outs s want s' tid evs :
    cstep g s want = Some (s', tid, evs) ->
    forall j x, nth_error (c_threads s) j = Some x ->
                exists x' extra, nth_error (c_threads s') j = Some x' /\ t_out x' = t_out x ++ extra.
  Proof.
    intros C j x Hj. destruct (cstep_inv g _ _ _ _ _ C) as (t & m & rest & Ht & Hc & -> & _).
    destruct (exec_threads_out s tid t m rest) as (t' & Eth & extra1 & Eo).
    unfold normalize. cbn [c_threads]. rewrite Eth.
    destruct (Nat.eq_dec j tid) as [->|Hne].
    - assert (x = t) by congruence. subst x.
      exists (refill g (S (length (t_prog t'))) t').
      destruct (refill_out (S (length (t_prog t'))) t') as [extra2 E2].
      exists (extra1 ++ extra2). split.
      + apply (nth_error_map_some (fun t0 => refill g (S (length (t_prog t0))) t0)). eapply nth_set_same. exact Ht.
      + rewrite E2, Eo, app_assoc. reflexivity.
    - exists (refill g (S (length (t_prog x))) x).
      destruct (refill_out (S (length (t_prog x))) x) as [extra2 E2]. exists extra2. split; [|exact E2].
      apply (nth_error_map_some (fun t0 => refill g (S (length (t_prog t0))) t0)). rewrite nth_set_other; [exact Hj|]. intros E; apply Hne; symmetry; exact E.
  Qed.

  Lemma Recorded_mono s want s' tid evs e r :
    cstep g s want = Some (s', tid, evs) -> Recorded s e r -> Recorded s' e r.
  Proof.
    intros C (t & Ht & Hr). destruct (step_outs _ _ _ _ _ C _ _ Ht) as (x' & extra & Hx & Eo).
    exists x'. split; [exact Hx|]. rewrite Eo. rewrite nth_error_app1; [exact Hr|].
    apply nth_error_Some. congruence.
  Qed.

  Lemma Forall2_impl_l {A B} (R R' : A -> B -> Prop) l l' : (forall a b, R a b -> R' a b) -> Forall2 R l l' -> Forall2 R' l l'.
  Proof. intros H F. induction F; constructor; auto. Qed.

  Lemma Forall2_In_l {A B} (R : A -> B -> Prop) l l' x : Forall2 R l l' -> In x l -> exists y, R x y.
  Proof. intros F. induction F as [|a b l l' Hab _ IH]; intros []; [subst; eauto|auto]. Qed.

  Definition LinInv (s : cstate) (h : list dentry) : Prop :=
    Forall2 (Recorded s) h (fst (seq_run st_empty h)) /\
    (c_torn s = false -> forall p, snd (seq_run st_empty h) p = data_lookup (c_data s) p) /\
    POrd h.

  Lemma st_upd_same st p v : st_upd st p v p = v.
  Proof. unfold st_upd. rewrite (proj2 (pos_eqb_eq p p) eq_refl). reflexivity. Qed.
  Lemma st_upd_other st p v q : q <> p -> st_upd st p v q = st q.
  Proof. intros H. unfold st_upd. destruct (pos_eqb p q) eqn:E; [apply pos_eqb_eq in E; congruence|reflexivity]. Qed.

  Lemma lin_step progs s h want s' tid evs :
    RunH progs s h -> LinInv s h -> cstep g s want = Some (s', tid, evs) -> LinInv s' (h ++ step_entry s tid).
  Proof.
    intros R (A & B & P) C.
    assert (Rch := RunH_Reach _ _ _ R).
    destruct (cstep_inv g _ _ _ _ _ C) as (t & m & rest & Ht & Hc & Es' & _).
    unfold step_entry. rewrite Ht, Hc.
    assert (Other : (forall p o, m <> MData p o) -> LinInv s' h).
    { intros Hm. split; [|split; [|exact P]].
      - eapply Forall2_impl_l; [|exact A]. intros a b. eapply Recorded_mono. exact C.
      - subst s'. unfold normalize. cbn [c_torn c_data]. intros NT' p.
        assert (NT : c_torn s = false).
        { destruct (c_torn s) eqn:T; [|reflexivity]. rewrite (exec_torn_stays g s tid t m rest T) in NT'. discriminate. }
        rewrite (other_steps_keep_data g s tid t m rest Hm NT'). apply B. exact NT. }
    destruct m as [q i rt first keep|q i off cand keep|delta after|hh|r|r report|tb q i|p o];
      try (rewrite app_nil_r; apply Other; intros; discriminate).
    (* the data operation *)
    assert (NT : c_torn s = false).
    { destruct (c_torn s) eqn:T; [|reflexivity]. exfalso.
      destruct (reach_Good g _ _ Rch) as (_ & _ & _ & Tn' & _). destruct (Tn' T) as (F & _).
      rewrite Forall_forall in F. destruct (F t (nth_error_In _ _ Ht)) as (_ & Tear). rewrite Hc in Tear. cbn in Tear. discriminate. }
    destruct (data_step_atomic g s tid t p o rest) as (D1 & D2 & D3 & _ & _ & _ & DT & _). cbn zeta in *.
    rewrite Ht in D3.
    set (cur := data_lookup (c_data s) p) in *.
    set (e := mkE tid p o (length (t_out t))).
    unfold LinInv. rewrite seq_run_app. cbn [seq_run fst snd e_pos e_op e].
    assert (Ecur : snd (seq_run st_empty h) p = cur) by (apply B; exact NT).
    rewrite Ecur.
    split; [|split].
    - apply Forall2_app.
      + eapply Forall2_impl_l; [|exact A]. intros a b. eapply Recorded_mono. exact C.
      + constructor; [|constructor].
        subst s'. unfold Recorded, normalize. cbn [c_threads e_tid e_idx e].
        eexists. split; [apply (nth_error_map_some (fun t0 => refill g (S (length (t_prog t0))) t0)); exact D3|].
        match goal with |- nth_error (t_out (refill g ?f ?x)) _ = _ => destruct (refill_out f x) as [extra E] end.
        rewrite E. cbn [t_out]. rewrite <- app_assoc. rewrite nth_error_app2 by lia.
        rewrite Nat.sub_diag. reflexivity.
    - subst s'. unfold normalize. cbn [c_torn c_data]. intros _ q.
      destruct (pos_eqb p q) eqn:Epq.
      + apply pos_eqb_eq in Epq. subst q. rewrite st_upd_same. symmetry. exact D1.
      + assert (q <> p) by (intros ->; rewrite (proj2 (pos_eqb_eq p p) eq_refl) in Epq; discriminate).
        rewrite st_upd_other by assumption. rewrite D2 by assumption. apply B. exact NT.
    - apply POrd_snoc; [exact P|]. intros e0 He0 Ht0. cbn [e_tid e_idx e] in *.
      destruct (Forall2_In_l _ _ _ _ A He0) as (r0 & t0 & Ht0' & Hr0).
      rewrite Ht0 in Ht0'. assert (t0 = t) by congruence. subst t0.
      apply nth_error_Some. congruence.
  Qed.

  (* C18, run level.  For every run (every program, every schedule, every length) with history h:
     (1) each entry's result, as the thread recorded it, is the result of the SEQUENTIAL execution of h;
     (2) while the tree is alive the data the machine holds is the store that execution ends in;
     (3) h lists each thread's operations in program order. *)
  Theorem data_linearizable progs s h :
    RunH progs s h ->
    Forall2 (Recorded s) h (fst (seq_run st_empty h)) /\
    (c_torn s = false -> forall p, snd (seq_run st_empty h) p = data_lookup (c_data s) p) /\
    POrd h.
  Proof.
    induction 1 as [|s h want s' tid evs R IH C].
    - split; [constructor|]. split; [|exact I]. intros _ p. unfold cinit, normalize. cbn [c_data seq_run snd data_lookup]. reflexivity.
    - eapply lin_step; eauto.
  Qed.

  (* ---- executable: a run together with its history ---- *)
  Fixpoint hrun (fuel : nat) (s : cstate) (h : list dentry) (sched : list nat) (rr : nat) : cstate * list dentry :=
    match fuel with
    | O => (s, h)
    | S f =>
        let '(want, sched') := match sched with w :: r => (w, r) | [] => (rr, []) end in
        match cstep g s want with
        | None => (s, h)
        | Some (s', tid, _) => hrun f s' (h ++ step_entry s tid) sched' (S tid)
        end
    end.

  Lemma hrun_RunH progs : forall fuel s h sched rr, RunH progs s h -> RunH progs (fst (hrun fuel s h sched rr)) (snd (hrun fuel s h sched rr)).
  Proof.
    induction fuel as [|f IH]; intros s h sched rr R; cbn [hrun]; [exact R|].
    destruct (match sched with w :: r => (w, r) | [] => (rr, []) end) as [want sched'].
    destruct (cstep g s want) as [[[s' tid] evs]|] eqn:C; [|exact R].
    apply IH. eapply RunH_step; eauto.
  Qed.
End ConcLin.

Open Scope N_scope.
(* two threads race to fill the root's empty slot, a third reads: exactly one conditional set succeeds *)
Definition lin_tree : gelem := GNode 1 1 1 0 [GTok 3 5 (Some 0) 1].
Definition lin_progs : list (list cop) :=
  [[KTrySet 0%nat 7; KGet 0%nat]; [KTrySet 0%nat 8; KClear 0%nat]; [KGet 0%nat; KSet 0%nat 9]].
Definition lin_run := hrun lin_tree 5%nat (cinit lin_tree lin_progs) [] [1; 0; 2; 0; 1]%nat 0%nat.

Example lin_run_is_run : RunH lin_tree lin_progs (fst lin_run) (snd lin_run).
Proof. apply hrun_RunH. apply RunH_init. Qed.

Example lin_run_history :
  map (fun e => (e_tid e, e_op e)) (snd lin_run)
  = [(1%nat, KTrySet 0%nat 8); (0%nat, KTrySet 0%nat 7); (2%nat, KGet 0%nat); (0%nat, KGet 0%nat); (1%nat, KClear 0%nat)] /\
  fst (seq_run st_empty (snd lin_run)) = [RTrySet true 8; RTrySet false 7; RGet (Some 8); RGet (Some 8); RCleared] /\
  c_torn (fst lin_run) = false.
Proof. vm_compute. repeat split; reflexivity. Qed.
