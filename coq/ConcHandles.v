(* ConcHandles.v — C05 on the concurrent machine: a slot, once initialised, keeps its element until
   the teardown; every handle any thread holds or has been given denotes the element stored for its
   position; hence one element per position, whatever the threads, programs and schedule. *)
From CsModel Require Import Red RedProofs Conc ConcProofs.
From Coq Require Import ZArith Lia.

Section ConcHandles.
  Variable g : gelem.

  Lemma slot_lookup_cons sl q e p :
    slot_lookup ((q, e) :: sl) p = if pos_eqb q p then Some e else slot_lookup sl p.
  Proof. reflexivity. Qed.

  (* ---- write once ---- *)
  Theorem exec_slots_mono s tid t m rest p e :
    c_torn s = false -> slot_lookup (c_slots s) p = Some e ->
    slot_lookup (c_slots (fst (exec_mop g s tid t m rest))) p = Some e.
  Proof.
    intros NT L. destruct t as [regs prog cont out].
    destruct m as [q i rt first keep|q i off cand keep|delta after|h|r|r report|tb q i|q o]; cbn [exec_mop].
    - destruct (slot_lookup (c_slots s) (i :: q)); [|destruct (child_is_node g q i)]; cbn [fst upd_thread c_slots]; exact L.
    - destruct (slot_lookup (c_slots s) (i :: q)) eqn:Lq; cbn [fst upd_thread c_slots]; [exact L|].
      rewrite slot_lookup_cons. destruct (pos_eqb (i :: q) p) eqn:E; [|exact L].
      apply pos_eqb_eq in E. subst p. congruence.
    - cbn [fst upd_thread c_slots]; exact L.
    - cbn [fst upd_thread c_slots]; exact L.
    - destruct (reg_of _ r); cbn [fst upd_thread c_slots]; exact L.
    - destruct (reg_of _ r); [destruct (Z.eqb (c_rc s) 1)|]; cbn [fst upd_thread c_slots]; exact L.
    - rewrite NT. cbn [negb fst upd_thread c_slots]. exact L.
    - destruct (match o with KSet _ v => _ | KTrySet _ v => _ | KGet _ => _ | KClear _ => _ | _ => _ end) as [[[d' dr] res] w].
      cbn [fst upd_thread c_slots]. exact L.
  Qed.

  (* ---- the handles of a thread: in registers, about to be returned, already returned ---- *)
  Definition HOk (sl : list (pos * selem)) (h : pos * selem) : Prop :=
    match fst h with [] => snd h = ENode 0 | _ :: _ => slot_lookup sl (fst h) = Some (snd h) end.

  Definition reg_handles (regs : list (option (pos * selem))) : list (pos * selem) :=
    flat_map (fun r => match r with Some h => [h] | None => [] end) regs.
  Definition mop_handles (m : mop) : list (pos * selem) := match m with MCloneResult h => [h] | _ => [] end.
  Definition cont_handles (c : list mop) : list (pos * selem) := flat_map mop_handles c.
  Definition res_handles (r : cres) : list (pos * selem) := match r with RHandle (Some h) => [h] | _ => [] end.
  Definition out_handles (o : list cres) : list (pos * selem) := flat_map res_handles o.
  Definition thread_handles (t : thread) : list (pos * selem) :=
    reg_handles (t_regs t) ++ cont_handles (t_cont t) ++ out_handles (t_out t).

  Definition THOk (sl : list (pos * selem)) (t : thread) : Prop := Forall (HOk sl) (thread_handles t).
  Definition HInv (s : cstate) : Prop := c_torn s = false -> Forall (THOk (c_slots s)) (c_threads s).

  Lemma THOk_split sl regs prog cont out :
    THOk sl (mkThread regs prog cont out) <->
    Forall (HOk sl) (reg_handles regs) /\ Forall (HOk sl) (cont_handles cont) /\ Forall (HOk sl) (out_handles out).
  Proof. unfold THOk, thread_handles. cbn [t_regs t_cont t_out]. rewrite !Forall_app. tauto. Qed.

  Lemma reg_handles_set_none : forall regs r h, In h (reg_handles (set_nth regs r None)) -> In h (reg_handles regs).
  Proof.
    induction regs as [|a l IH]; intros [|r] h; cbn [set_nth reg_handles flat_map]; auto.
    - intros Hin. apply in_or_app. right. exact Hin.
    - intros Hin. apply in_app_or in Hin as [Hin|Hin]; apply in_or_app; [left; exact Hin|right; apply (IH r h Hin)].
  Qed.

  Lemma reg_of_in t r h : reg_of t r = Some h -> In h (reg_handles (t_regs t)).
  Proof.
    unfold reg_of. destruct (nth_error (t_regs t) r) as [[h'|]|] eqn:E; try discriminate. intros [= ->].
    unfold reg_handles. apply in_flat_map. exists (Some h). split; [eapply nth_error_In; eauto|left; reflexivity].
  Qed.

  Lemma HOk_mono sl sl' h : (forall p e, slot_lookup sl p = Some e -> slot_lookup sl' p = Some e) -> HOk sl h -> HOk sl' h.
  Proof. unfold HOk. intros M. destruct (fst h); auto. Qed.

  Lemma Forall_mono sl sl' l : (forall p e, slot_lookup sl p = Some e -> slot_lookup sl' p = Some e) ->
    Forall (HOk sl) l -> Forall (HOk sl') l.
  Proof. intros M. apply Forall_impl. intros h. apply HOk_mono. exact M. Qed.

  Theorem exec_HInv s tid t m rest :
    nth_error (c_threads s) tid = Some t -> t_cont t = m :: rest ->
    HInv s -> c_torn s = false -> HInv (fst (exec_mop g s tid t m rest)).
  Proof.
    intros Ht Hc I NT NT'. specialize (I NT).
    assert (M := fun p e => exec_slots_mono s tid t m rest p e NT).
    assert (Others : Forall (THOk (c_slots (fst (exec_mop g s tid t m rest)))) (c_threads s)).
    { eapply Forall_impl; [|exact I]. intros x. unfold THOk. apply Forall_mono. exact M. }
    assert (T := nth_error_Forall _ _ _ _ I Ht).
    destruct t as [regs prog cont out]. cbn [t_cont] in Hc. subst cont.
    apply THOk_split in T. destruct T as (Tr & Tc & To).
    revert NT' M Others.
    destruct m as [q i rt first keep|q i off cand keep|delta after|h|r|r report|tb q i|q o]; cbn [exec_mop].
    - destruct (slot_lookup (c_slots s) (i :: q)) as [e|] eqn:L; [|destruct (child_is_node g q i)];
        cbn [fst upd_thread c_slots c_torn c_threads t_regs t_prog t_out]; intros _ M Others; apply Forall_set_nth; auto;
        apply THOk_split; repeat split; auto.
      destruct keep; [|exact Tc]. cbn [cont_handles flat_map mop_handles app]. constructor; [exact L|exact Tc].
    - destruct (slot_lookup (c_slots s) (i :: q)) as [e|] eqn:L;
        cbn [fst upd_thread c_slots c_torn c_threads t_regs t_prog t_out]; intros _ M Others; apply Forall_set_nth; auto;
        apply THOk_split; split; [eapply Forall_mono; [exact M|exact Tr]| |eapply Forall_mono; [exact M|exact Tr]|];
        (split; [|eapply Forall_mono; [exact M|exact To]]).
      + unfold cont_handles. rewrite flat_map_app. apply Forall_app. split; [destruct cand; constructor|exact Tc].
      + cbn [cont_handles flat_map mop_handles app]. eapply Forall_mono; [exact M|exact Tc].
    - cbn [fst upd_thread c_slots c_torn c_threads t_regs t_prog t_out]; intros _ M Others; apply Forall_set_nth; auto.
      apply THOk_split; repeat split; auto.
    - cbn [fst upd_thread c_slots c_torn c_threads t_regs t_prog t_out]; intros _ M Others; apply Forall_set_nth; auto.
      cbn [cont_handles flat_map mop_handles app] in Tc. inversion Tc as [|? ? Hh Tc']; subst.
      apply THOk_split; repeat split; auto.
      + unfold reg_handles. rewrite flat_map_app. apply Forall_app. split; [exact Tr|constructor; [exact Hh|constructor]].
      + unfold out_handles. rewrite flat_map_app. apply Forall_app. split; [exact To|constructor; [exact Hh|constructor]].
    - destruct (reg_of _ r) as [h|] eqn:Er;
        cbn [fst upd_thread c_slots c_torn c_threads t_regs t_prog t_out]; intros _ M Others; apply Forall_set_nth; auto;
        apply THOk_split; repeat split; auto.
      + assert (Hh : HOk (c_slots s) h).
        { rewrite Forall_forall in Tr. apply Tr. apply (reg_of_in _ _ _ Er). }
        unfold reg_handles. rewrite flat_map_app. apply Forall_app. split; [exact Tr|constructor; [exact Hh|constructor]].
      + assert (Hh : HOk (c_slots s) h).
        { rewrite Forall_forall in Tr. apply Tr. apply (reg_of_in _ _ _ Er). }
        unfold out_handles. rewrite flat_map_app. apply Forall_app. split; [exact To|constructor; [exact Hh|constructor]].
    - destruct (reg_of _ r) as [h|] eqn:Er; [destruct (Z.eqb (c_rc s) 1)|];
        cbn [fst upd_thread c_slots c_torn c_threads t_regs t_prog t_out]; try discriminate; intros _ M Others; apply Forall_set_nth; auto;
        apply THOk_split; repeat split; auto.
      + rewrite Forall_forall in *. intros x Hin. apply Tr. eapply reg_handles_set_none; eauto.
      + destruct report; [|exact To]. unfold out_handles. rewrite flat_map_app. apply Forall_app. split; [exact To|constructor].
    - rewrite NT. cbn [negb fst upd_thread c_slots c_torn c_threads t_regs t_prog t_out]. intros _ M Others; apply Forall_set_nth; auto.
      apply THOk_split; repeat split; auto.
    - destruct (match o with KSet _ v => _ | KTrySet _ v => _ | KGet _ => _ | KClear _ => _ | _ => _ end) as [[[d' dr] res] w] eqn:Eo.
      cbn [fst upd_thread c_slots c_torn c_threads t_regs t_prog t_out]. intros _ M Others; apply Forall_set_nth; auto.
      apply THOk_split; repeat split; auto.
      unfold out_handles. rewrite flat_map_app. apply Forall_app. split; [exact To|].
      assert (res_handles res = []) as Hres.
      { destruct o; try (injection Eo as _ _ <- _; reflexivity). destruct (data_lookup (c_data s) q); injection Eo as _ _ <- _; reflexivity. }
      cbn [flat_map]. rewrite Hres. constructor.
  Qed.

  (* ---- taking the next operation creates no handle ---- *)
  Lemma fresh_no_handles ms : forallb fresh_op ms = true -> cont_handles ms = [].
  Proof.
    induction ms as [|m r IH]; cbn [forallb cont_handles flat_map]; [reflexivity|].
    intros E. apply andb_true_iff in E as [E1 E2]. unfold cont_handles in IH. rewrite (IH E2).
    destruct m; cbn in E1; try discriminate; reflexivity.
  Qed.

  Lemma expand_res t o : match snd (expand g t o) with Some r => res_handles r = [] | None => True end.
  Proof.
    destruct o as [r|r|r i|r|r|r|r|r v|r v|r|r]; unfold expand;
      destruct (reg_of t r) as [[p e]|] eqn:Er; cbn [snd res_handles]; auto.
    - destruct e; [destruct (Nat.ltb 0 (length (kids g p)))|]; cbn [snd res_handles]; auto.
    - destruct e; [destruct (Nat.ltb 0 (length (kids g p)))|]; cbn [snd res_handles]; auto.
    - destruct e; [destruct (Nat.ltb i (length (kids g p)))|]; cbn [snd res_handles]; auto.
    - destruct p as [|i q]; cbn [snd res_handles]; auto. destruct (Nat.ltb (S i) (length (kids g q))); cbn [snd res_handles]; auto.
    - destruct p as [|i q]; cbn [snd res_handles]; auto. destruct i; cbn [snd res_handles]; auto.
    - destruct e; cbn [snd res_handles]; auto.
    - destruct e; cbn [snd res_handles]; auto.
    - destruct e; cbn [snd res_handles]; auto.
    - destruct e; cbn [snd res_handles]; auto.
  Qed.

  Lemma refill_handles : forall fuel t, thread_handles (refill g fuel t) = thread_handles t.
  Proof.
    induction fuel as [|f IH]; intros t; cbn [refill]; [reflexivity|].
    destruct t as [regs prog cont out]. cbn [t_cont t_prog t_regs t_out].
    destruct cont as [|m c]; [|reflexivity].
    destruct prog as [|o r].
    - destruct (first_owned regs 0); reflexivity.
    - assert (Ex := expand_ok g (mkThread regs (o :: r) [] out) o).
      assert (Er := expand_res (mkThread regs (o :: r) [] out) o).
      destruct (expand g (mkThread regs (o :: r) [] out) o) as [ms res]. cbn [fst snd] in Ex, Er.
      rewrite IH. unfold thread_handles. cbn [t_regs t_cont t_out].
      assert (C : cont_handles ms = []).
      { destruct Ex as [[P|(r0 & b & ->)] _]; [apply fresh_no_handles; exact P|reflexivity]. }
      rewrite C. cbn [cont_handles flat_map app]. f_equal.
      destruct res as [x|]; [|reflexivity]. unfold out_handles. rewrite flat_map_app. cbn [flat_map]. rewrite Er. rewrite !app_nil_r. reflexivity.
  Qed.

  Lemma normalize_HInv s : HInv s -> HInv (normalize g s).
  Proof.
    unfold HInv, normalize. cbn [c_torn c_slots c_threads]. intros I NT. specialize (I NT).
    apply Forall_map. eapply Forall_impl; [|exact I]. intros t. unfold THOk. rewrite refill_handles. auto.
  Qed.

  Lemma init_HInv progs : HInv (cinit g progs).
  Proof.
    unfold cinit. apply normalize_HInv. intros _. cbn [c_threads c_slots]. apply Forall_map. apply Forall_forall. intros pr _.
    unfold THOk, thread_handles. cbn. constructor; [reflexivity|constructor].
  Qed.

  Lemma cstep_HInv s want s' tid evs : HInv s -> cstep g s want = Some (s', tid, evs) -> HInv s'.
  Proof.
    intros I C. destruct (cstep_inv g _ _ _ _ _ C) as (t & m & rest & Ht & Hc & -> & _).
    apply normalize_HInv. destruct (c_torn s) eqn:NT.
    - intros NT'. rewrite (exec_torn_stays g s tid t m rest NT) in NT'. discriminate.
    - apply exec_HInv; auto.
  Qed.

  Theorem reach_HInv progs s : Reach g progs s -> HInv s.
  Proof. induction 1 as [|s want s' tid evs _ IH C]; [apply init_HInv|eapply cstep_HInv; eauto]. Qed.

  (* ---- one element per position ---- *)
  Theorem one_element_per_position progs s t1 t2 h1 h2 :
    Reach g progs s -> c_torn s = false ->
    In t1 (c_threads s) -> In t2 (c_threads s) ->
    In h1 (thread_handles t1) -> In h2 (thread_handles t2) ->
    fst h1 = fst h2 -> h1 = h2.
  Proof.
    intros R NT I1 I2 H1 H2 E. assert (I := reach_HInv _ _ R NT). rewrite Forall_forall in I.
    assert (A := I t1 I1). assert (B := I t2 I2). unfold THOk in A, B. rewrite Forall_forall in A, B.
    specialize (A h1 H1). specialize (B h2 H2). unfold HOk in A, B.
    destruct h1 as [p1 e1], h2 as [p2 e2]. cbn [fst snd] in *. subst p2.
    destruct p1; congruence.
  Qed.

  (* a slot keeps its element in every later state before the teardown: the element handed out for a
     position is the one every later lookup finds *)
  Theorem slot_write_once s want s' tid evs p e :
    c_torn s = false -> cstep g s want = Some (s', tid, evs) ->
    slot_lookup (c_slots s) p = Some e -> slot_lookup (c_slots s') p = Some e.
  Proof.
    intros NT C L. destruct (cstep_inv g _ _ _ _ _ C) as (t & m & rest & Ht & Hc & -> & _).
    unfold normalize. cbn [c_slots]. apply exec_slots_mono; auto.
  Qed.
End ConcHandles.
