(* NavSpec.v — C03: navigation returns exactly the elements the tree structure dictates.
   Which element an operation returns does not depend on the cached offsets at all; it is
   characterised here purely in terms of the list of children. *)
From CsModel Require Import Red RedProofs Nav.
From Coq Require Import ZifyN ZifyNat ZifyBool.

Definition wanted (nodes_only : bool) (c : gelem) : bool := negb nodes_only || is_node c.

(* the first index >= from whose child is wanted / the last index < before whose child is wanted *)
Definition IsNext (b : bool) (cs : list gelem) (from : nat) (r : option nat) : Prop :=
  match r with
  | Some i => (from <= i)%nat /\ (exists c, nth_error cs i = Some c /\ wanted b c = true) /\
              forall j c, (from <= j < i)%nat -> nth_error cs j = Some c -> wanted b c = false
  | None => forall j c, (from <= j)%nat -> nth_error cs j = Some c -> wanted b c = false
  end.
Definition IsPrev (b : bool) (cs : list gelem) (before : nat) (r : option nat) : Prop :=
  match r with
  | Some i => (i < before)%nat /\ (exists c, nth_error cs i = Some c /\ wanted b c = true) /\
              forall j c, (i < j < before)%nat -> nth_error cs j = Some c -> wanted b c = false
  | None => forall j c, (j < before)%nat -> nth_error cs j = Some c -> wanted b c = false
  end.

Definition idx_of (r : option pos) : option nat := match r with Some (i :: _) => Some i | _ => None end.

Lemma nth_error_skipn_add {A} (l : list A) : forall s k, nth_error (skipn s l) k = nth_error l (s + k).
Proof.
  induction l as [|a r IH]; intros [|s] k; cbn; try reflexivity.
  - destruct k; reflexivity.
  - apply IH.
Qed.

Section NavSpec.
  Variable g : gelem.

  (* the candidate chosen from children_from: the first wanted child at or after [start] *)
  Lemma pick_kids_from b : forall l idx off,
    match pick b (kids_from l idx off) with
    | Some (c, i, _) => exists k, i = (idx + k)%nat /\ nth_error l k = Some c /\ wanted b c = true /\
                                  forall j c', (j < k)%nat -> nth_error l j = Some c' -> wanted b c' = false
    | None => forall j c', nth_error l j = Some c' -> wanted b c' = false
    end.
  Proof.
    induction l as [|c r IH]; intros idx off; cbn [kids_from pick find fst].
    - intros [|j] c'; discriminate.
    - fold (wanted b c). destruct (wanted b c) eqn:W.
      + exists 0%nat. split; [lia|]. split; [reflexivity|]. split; [exact W|]. intros j c' L; lia.
      + specialize (IH (S idx) (off + glen c)). unfold pick in IH.
        destruct (find (fun x => negb b || is_node (fst (fst x))) (kids_from r (S idx) (off + glen c))) as [[[c1 i1] o1]|].
        * destruct IH as (k & E & N1 & W1 & Mn). exists (S k). split; [lia|]. split; [exact N1|]. split; [exact W1|].
          intros [|j] c' L; cbn; [intros [= <-]; exact W|]. apply Mn. lia.
        * intros [|j] c'; cbn; [intros [= <-]; exact W|]. apply IH.
  Qed.

  Lemma take_first_from b rs p start off :
    IsNext b (kids g p) start (idx_of (fst (take_first b rs p (children_from (kids g p) start off)))) /\
    forall q, fst (take_first b rs p (children_from (kids g p) start off)) = Some q -> parent_of q = Some p.
  Proof.
    unfold take_first, children_from.
    pose proof (pick_kids_from b (skipn start (kids g p)) start off) as P.
    destruct (pick b (kids_from (skipn start (kids g p)) start off)) as [[[c i] o]|]; cbn [fst idx_of IsNext].
    - destruct P as (k & -> & N1 & W1 & Mn). rewrite nth_error_skipn_add in N1. split.
      + split; [lia|]. split; [exists c; auto|]. intros j c' Lj E.
        apply (Mn (j - start)%nat c'); [lia|]. rewrite nth_error_skipn_add. replace (start + (j - start))%nat with j by lia. exact E.
      + intros q [= <-]. reflexivity.
    - split; [|discriminate]. intros j c' Lj E.
      apply (P (j - start)%nat c'). rewrite nth_error_skipn_add. replace (start + (j - start))%nat with j by lia. exact E.
  Qed.

  (* the candidate chosen from children_to: the last wanted child before [endi] *)
  Lemma pick_kids_to b : forall rl endi off,
    match pick b (kids_to rl endi off) with
    | Some (c, i, _) => exists k, i = (endi - 1 - k)%nat /\ nth_error rl k = Some c /\ wanted b c = true /\
                                  forall j c', (j < k)%nat -> nth_error rl j = Some c' -> wanted b c' = false
    | None => forall j c', nth_error rl j = Some c' -> wanted b c' = false
    end.
  Proof.
    induction rl as [|c r IH]; intros endi off; cbn [kids_to pick find fst].
    - intros [|j] c'; discriminate.
    - fold (wanted b c). destruct (wanted b c) eqn:W.
      + exists 0%nat. split; [lia|]. split; [reflexivity|]. split; [exact W|]. intros j c' L; lia.
      + specialize (IH (endi - 1)%nat (off - glen c)). unfold pick in IH.
        destruct (find (fun x => negb b || is_node (fst (fst x))) (kids_to r (endi - 1) (off - glen c))) as [[[c1 i1] o1]|].
        * destruct IH as (k & E & N1 & W1 & Mn). exists (S k). split; [lia|]. split; [exact N1|]. split; [exact W1|].
          intros [|j] c' L; cbn; [intros [= <-]; exact W|]. apply Mn. lia.
        * intros [|j] c'; cbn; [intros [= <-]; exact W|]. apply IH.
  Qed.

  Lemma nth_error_rev_firstn {A} (l : list A) n k :
    (n <= length l)%nat -> (k < n)%nat -> nth_error (rev (firstn n l)) k = nth_error l (n - 1 - k).
  Proof.
    intros Ln Lk.
    assert (Lf : length (firstn n l) = n) by (apply firstn_length_le; exact Ln).
    destruct (nth_error l (n - 1 - k)) as [x|] eqn:E.
    - assert (E' : nth_error (firstn n l) (n - 1 - k) = Some x) by (rewrite nth_error_firstn_lt by lia; exact E).
      rewrite <- (rev_involutive (firstn n l)) in E'.
      rewrite <- E'. symmetry.
      rewrite (nth_error_nth' (rev (rev (firstn n l))) x) by (rewrite !rev_length; lia).
      rewrite (nth_error_nth' (rev (firstn n l)) x) by (rewrite rev_length; lia).
      f_equal. rewrite rev_nth by (rewrite rev_length; lia). rewrite rev_length, Lf. f_equal. lia.
    - apply nth_error_None in E. lia.
  Qed.

  Lemma take_first_to b rs p endi off :
    IsPrev b (kids g p) endi (idx_of (fst (take_first b rs p (children_to (kids g p) endi off)))) /\
    forall q, fst (take_first b rs p (children_to (kids g p) endi off)) = Some q -> parent_of q = Some p.
  Proof.
    unfold take_first, children_to.
    set (cs := kids g p). set (m := Nat.min endi (length cs)).
    assert (Fm : firstn endi cs = firstn m cs).
    { unfold m. destruct (Nat.le_gt_cases endi (length cs)); [rewrite Nat.min_l by lia; reflexivity|].
      rewrite Nat.min_r by lia. rewrite firstn_all, firstn_all2 by lia. reflexivity. }
    rewrite Fm.
    assert (Lm : (m <= length cs)%nat) by (unfold m; lia).
    pose proof (pick_kids_to b (rev (firstn m cs)) m off) as P.
    destruct (pick b (kids_to (rev (firstn m cs)) m off)) as [[[c i] o]|]; cbn [fst idx_of IsPrev].
    - destruct P as (k & -> & N1 & W1 & Mn).
      assert (Lk : (k < m)%nat).
      { assert (X : nth_error (rev (firstn m cs)) k <> None) by congruence. apply nth_error_Some in X.
        rewrite rev_length, firstn_length_le in X by lia. exact X. }
      rewrite nth_error_rev_firstn in N1 by lia. split.
      + split; [unfold m in *; lia|]. split; [exists c; auto|]. intros j c' Lj E.
        assert (Ljm : (j < m)%nat).
        { assert (X : nth_error cs j <> None) by congruence. apply nth_error_Some in X. unfold m; lia. }
        apply (Mn (m - 1 - j)%nat c'); [lia|]. rewrite nth_error_rev_firstn by lia.
        replace (m - 1 - (m - 1 - j))%nat with j by lia. exact E.
      + intros q [= <-]. reflexivity.
    - split; [|discriminate]. intros j c' Lj E.
      assert (Ljm : (j < m)%nat).
      { assert (X : nth_error cs j <> None) by congruence. apply nth_error_Some in X. unfold m; lia. }
      apply (P (m - 1 - j)%nat c'). rewrite nth_error_rev_firstn by lia.
      replace (m - 1 - (m - 1 - j))%nat with j by lia. exact E.
  Qed.

  (* ---- the structural meaning of each operation ---- *)
  Theorem first_child_spec b rs p :
    IsNext b (kids g p) 0 (idx_of (fst (first_child_gen g b rs p))) /\
    forall q, fst (first_child_gen g b rs p) = Some q -> parent_of q = Some p.
  Proof. apply take_first_from. Qed.

  Theorem last_child_spec b rs p :
    IsPrev b (kids g p) (length (kids g p)) (idx_of (fst (last_child_gen g b rs p))) /\
    forall q, fst (last_child_gen g b rs p) = Some q -> parent_of q = Some p.
  Proof. apply take_first_to. Qed.

  Theorem next_sibling_spec b rs i q :
    IsNext b (kids g q) (S i) (idx_of (fst (next_sibling_gen g b rs (i :: q)))) /\
    forall s, fst (next_sibling_gen g b rs (i :: q)) = Some s -> parent_of s = Some q.
  Proof. apply take_first_from. Qed.

  Theorem prev_sibling_spec b rs i q :
    IsPrev b (kids g q) i (idx_of (fst (prev_sibling_gen g b rs (i :: q)))) /\
    forall s, fst (prev_sibling_gen g b rs (i :: q)) = Some s -> parent_of s = Some q.
  Proof. apply take_first_to. Qed.

  Theorem root_has_no_sibling b rs :
    fst (next_sibling_gen g b rs []) = None /\ fst (prev_sibling_gen g b rs []) = None /\ parent_of [] = None.
  Proof. auto. Qed.

  (* ---- child iterators: items and reported sizes ---- *)
  (* positions of the wanted children among rest, starting at index idx *)
  Fixpoint wanted_positions (b : bool) (par : pos) (rest : list gelem) (idx : nat) : list pos :=
    match rest with
    | [] => []
    | c :: r => if wanted b c then (idx :: par) :: wanted_positions b par r (S idx) else wanted_positions b par r (S idx)
    end.

  Lemma node_iter_collect_spec par : forall rest fuel idx off rs,
    (length rest < fuel)%nat ->
    fst (node_iter_collect fuel rs (mkIter par rest idx off)) = wanted_positions true par rest idx.
  Proof.
    induction rest as [|c r IH]; intros fuel idx off rs L; destruct fuel as [|f]; try (cbn in L; lia).
    - reflexivity.
    - cbn [wanted_positions]. unfold wanted. cbn [negb orb]. destruct (is_node c) eqn:Nd.
      + cbn [node_iter_collect node_iter_next node_iter_skip it_parent it_rest it_index it_offset]. rewrite Nd.
        specialize (IH f (S idx) (off + glen c) (goa rs (idx :: par) off)).
        destruct (node_iter_collect f (goa rs (idx :: par) off) (mkIter par r (S idx) (off + glen c))) as [l rs'].
        cbn [fst] in *. rewrite IH by (cbn in L; lia). reflexivity.
      + (* a token is skipped inside the same call of next *)
        transitivity (fst (node_iter_collect (S f) rs (mkIter par r (S idx) (off + glen c)))).
        * cbn [node_iter_collect node_iter_next node_iter_skip it_parent it_rest it_index it_offset]. rewrite Nd. reflexivity.
        * apply IH. cbn in L; lia.
  Qed.

  Lemma elem_iter_collect_spec par : forall rest fuel idx off rs,
    (length rest < fuel)%nat ->
    fst (elem_iter_collect fuel rs (mkIter par rest idx off)) = wanted_positions false par rest idx.
  Proof.
    induction rest as [|c r IH]; intros fuel idx off rs L; destruct fuel as [|f]; try (cbn in L; lia).
    - reflexivity.
    - cbn [wanted_positions elem_iter_collect elem_iter_next it_parent it_rest it_index it_offset]. unfold wanted. cbn [negb orb].
      specialize (IH f (S idx) (off + glen c) (goa rs (idx :: par) off)).
      destruct (elem_iter_collect f (goa rs (idx :: par) off) (mkIter par r (S idx) (off + glen c))) as [l rs'].
      cbn [fst] in *. rewrite IH by (cbn in L; lia). reflexivity.
  Qed.

  (* children() yields exactly the node children, children_with_tokens() all children, in order *)
  Theorem children_spec (b : bool) rs p :
    fst (if b then children_nodes g rs p else children_elems g rs p) = wanted_positions b p (kids g p) 0%nat.
  Proof.
    destruct b; unfold children_nodes, children_elems, iter_new.
    - apply node_iter_collect_spec. lia.
    - apply elem_iter_collect_spec. lia.
  Qed.

  Lemma wanted_positions_length b par rest idx :
    length (wanted_positions b par rest idx) = length (filter (wanted b) rest).
  Proof.
    revert idx; induction rest as [|c r IH]; intros idx; cbn [wanted_positions filter]; [reflexivity|].
    destruct (wanted b c); cbn [length]; rewrite IH; reflexivity.
  Qed.

  (* whatever an iterator reports about its size agrees with the items it yields (after the fix of
     F2: len_counts_nodes = true) — for every iterator state, fresh or partly consumed *)
  Theorem node_iter_len_exact par rest idx off rs fuel :
    (length rest < fuel)%nat ->
    node_iter_len true (mkIter par rest idx off) =
    length (fst (node_iter_collect fuel rs (mkIter par rest idx off))).
  Proof.
    intros L. rewrite (node_iter_collect_spec par rest fuel idx off rs L), wanted_positions_length.
    unfold node_iter_len. cbn [it_rest]. reflexivity.
  Qed.

  Theorem elem_iter_len_exact par rest idx off rs fuel :
    (length rest < fuel)%nat ->
    elem_iter_len (mkIter par rest idx off) = length (fst (elem_iter_collect fuel rs (mkIter par rest idx off))).
  Proof.
    intros L. rewrite (elem_iter_collect_spec par rest fuel idx off rs L), wanted_positions_length.
    unfold elem_iter_len. cbn [it_rest]. symmetry. clear. induction rest as [|c r IH]; cbn; [reflexivity|]. rewrite IH. reflexivity.
  Qed.

  (* the code before the fix reported the unfiltered length *)
  Theorem node_iter_len_unfixed_refuted :
    exists rest, node_iter_len false (mkIter [] rest 0%nat 0) <>
                 length (fst (node_iter_collect (S (length rest)) [] (mkIter [] rest 0%nat 0))).
  Proof. exists [GTok 0 5 (Some 0) 1; GNode 1 2 0 0 []; GTok 0 5 (Some 0) 1]. cbn. discriminate. Qed.
End NavSpec.
