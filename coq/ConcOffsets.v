(* ConcOffsets.v — C05 on the concurrent machine: correct ranges.  Whoever wins the race for a slot,
   and by whichever route it came (first/last child, a child iterator, a sibling hop in either
   direction), the element it installs carries the true text offset of its position: the offset is
   computed from the parent's or the neighbour's stored offset and from green lengths only, all of
   which are immutable and — inductively — true.  Hence every handle reports the range the tree
   dictates, for every interleaving. *)
From CsModel Require Import Red RedProofs Conc ConcProofs ConcHandles ConcWf.
From Coq Require Import ZArith Lia ZifyN ZifyNat ZifyBool.
Open Scope N_scope.

Section ConcOffsets.
  Variable g : gelem.
  Hypothesis Hlen : LenOk g.

  Definition RouteOk (sl : list (pos * selem)) (p : pos) (i : nat) (rt : route) : Prop :=
    match rt with
    | RFirst => i = 0%nat
    | RLast => S i = length (kids g p)
    | RIter => True
    | RNext => exists j e, i = S j /\ slot_lookup sl (j :: p) = Some e
    | RPrev => exists e, slot_lookup sl (S i :: p) = Some e
    end.

  Definition MOff (sl : list (pos * selem)) (m : mop) : Prop :=
    match m with
    | MRead p i rt first _ => if first then RouteOk sl p i rt else exists e, slot_lookup sl (i :: p) = Some e
    | MWrite p i off _ _ => off = true_off g (i :: p)
    | _ => True
    end.

  Definition OffInv (s : cstate) : Prop :=
    c_torn s = false ->
    (forall q o, off_lookup (c_offs s) q = Some o -> o = true_off g q) /\
    (forall q e, slot_lookup (c_slots s) q = Some e -> exists o, off_lookup (c_offs s) q = Some o) /\
    Forall (fun t => Forall (MOff (c_slots s)) (t_cont t)) (c_threads s).

  (* ---- the offset every route computes is the true one ---- *)
  Lemma off_of_true offs sl p :
    (forall q o, off_lookup offs q = Some o -> o = true_off g q) ->
    (forall q e, slot_lookup sl q = Some e -> exists o, off_lookup offs q = Some o) ->
    (p = [] \/ exists e, slot_lookup sl p = Some e) -> off_of offs p = true_off g p.
  Proof.
    intros O1 O2 [->|(e & L)]; [reflexivity|]. destruct (O2 _ _ L) as (o & Eo). unfold off_of.
    destruct p; [reflexivity|]. rewrite Eo. apply O1. exact Eo.
  Qed.

  Lemma sum_firstn_S (l : list gelem) : forall j, sumN (map glen (firstn (S j) l)) = sumN (map glen (firstn j l)) + match nth_error l j with Some c => glen c | None => 0 end.
  Proof.
    induction l as [|a l IH]; intros j.
    - destruct j; cbn; lia.
    - destruct j as [|j].
      + cbn [firstn map sumN nth_error]. lia.
      + change (firstn (S (S j)) (a :: l)) with (a :: firstn (S j) l). change (firstn (S j) (a :: l)) with (a :: firstn j l).
        cbn [map sumN nth_error]. rewrite (IH j). lia.
  Qed.

  Lemma cand_off_true offs sl p i rt :
    (forall q o, off_lookup offs q = Some o -> o = true_off g q) ->
    (forall q e, slot_lookup sl q = Some e -> exists o, off_lookup offs q = Some o) ->
    NodePos sl p -> (p <> [] -> is_node_at g p = true) -> RouteOk sl p i rt ->
    cand_off g offs p i rt = true_off g (i :: p).
  Proof.
    intros O1 O2 NP Nd R. cbn [true_off].
    assert (Op : off_of offs p = true_off g p).
    { apply (off_of_true offs sl p O1 O2). destruct NP as [->|(b & L)]; [left; reflexivity|right; eauto]. }
    destruct rt; cbn [cand_off RouteOk] in *.
    - subst i. cbn [firstn map sumN]. lia.
    - (* last child: the end of the parent minus the child's own length *)
      rewrite Op. destruct (kids g p) as [|c0 l0] eqn:Ek; [discriminate|].
      assert (Np : is_node_at g p = true).
      { destruct p; [|apply Nd; discriminate]. unfold is_node_at, kids in *. destruct (subr g []) as [e|]; [|discriminate]. destruct e; [discriminate|reflexivity]. }
      rewrite (len_at_sum g Hlen p Np), Ek, (len_at_cons g i p), Ek.
      rewrite <- (firstn_skipn i (c0 :: l0)) at 1. rewrite map_app, sumN_app.
      assert (Hs : skipn i (c0 :: l0) = match nth_error (c0 :: l0) i with Some c => [c] | None => [] end).
      { assert (Hl : length (skipn i (c0 :: l0)) = 1%nat) by (rewrite skipn_length; lia).
        destruct (skipn i (c0 :: l0)) as [|x [|y r]] eqn:Es; cbn [length] in Hl; try lia.
        assert (Hn : nth_error (c0 :: l0) i = Some x).
        { rewrite <- (firstn_skipn i (c0 :: l0)), Es, nth_error_app2; rewrite firstn_length, Nat.min_l by lia; [rewrite Nat.sub_diag; reflexivity|lia]. }
        rewrite Hn. reflexivity. }
      rewrite Hs. destruct (nth_error (c0 :: l0) i); cbn [map sumN]; lia.
    - rewrite Op. reflexivity.
    - destruct R as (j & e & -> & L). cbn [Nat.pred].
      rewrite (off_of_true offs sl (j :: p) O1 O2 (or_intror (ex_intro _ e L))). cbn [true_off].
      rewrite (len_at_cons g j p), (sum_firstn_S (kids g p) j). lia.
    - destruct R as (e & L).
      rewrite (off_of_true offs sl (S i :: p) O1 O2 (or_intror (ex_intro _ e L))). cbn [true_off].
      rewrite (len_at_cons g i p), (sum_firstn_S (kids g p) i). lia.
  Qed.

  (* ---- preservation ---- *)
  Lemma RouteOk_mono sl sl' p i rt : Mono sl sl' -> RouteOk sl p i rt -> RouteOk sl' p i rt.
  Proof.
    intros M. destruct rt; cbn [RouteOk]; auto.
    - intros (j & e & E & L). exists j, e. split; [exact E|apply M; exact L].
    - intros (e & L). exists e. apply M; exact L.
  Qed.

  Lemma MOff_mono sl sl' m : Mono sl sl' -> MOff sl m -> MOff sl' m.
  Proof.
    intros M. destruct m; cbn [MOff]; auto. destruct first; [apply RouteOk_mono; exact M|].
    intros (e & L). exists e. apply M; exact L.
  Qed.

  Lemma Forall_MOff_mono sl sl' l : Mono sl sl' -> Forall (MOff sl) l -> Forall (MOff sl') l.
  Proof. intros M. apply Forall_impl. intros m. apply MOff_mono. exact M. Qed.

  Lemma off_lookup_cons l q o p : off_lookup ((q, o) :: l) p = if pos_eqb q p then Some o else off_lookup l p.
  Proof. reflexivity. Qed.

  Lemma node_slot_is_node sl k q b : SlotsOk g sl -> slot_lookup sl (k :: q) = Some (ENode b) -> is_node_at g (k :: q) = true.
  Proof.
    intros HS L. destruct (HS _ _ L) as (k0 & q0 & [= <- <-] & _ & K). cbn [is_enode] in K.
    unfold child_is_node in K. unfold is_node_at. rewrite kids_nth. destruct (nth_error (kids g q) k); [symmetry; exact K|discriminate].
  Qed.

  Theorem exec_OffInv s tid t m rest :
    nth_error (c_threads s) tid = Some t -> t_cont t = m :: rest ->
    Wf g s -> OffInv s -> c_torn s = false -> OffInv (fst (exec_mop g s tid t m rest)).
  Proof.
    intros Ht Hc W O NT NT'. destruct (O NT) as (O1 & O2 & O3). destruct (W NT) as (HS & HC & _). clear O W.
    assert (M := fun p e => exec_slots_mono g s tid t m rest p e NT).
    assert (T := nth_error_Forall _ _ _ _ O3 Ht). cbn beta in T. rewrite Hc in T. inversion T as [|? ? Tm Tr]; subst. clear T.
    assert (Tw := nth_error_Forall _ _ _ _ HC Ht). cbn beta in Tw. rewrite Hc in Tw. inversion Tw as [|? ? Wm _]; subst. clear Tw.
    assert (Others : Forall (fun t0 => Forall (MOff (c_slots (fst (exec_mop g s tid t m rest)))) (t_cont t0)) (c_threads s)).
    { eapply Forall_impl; [|exact O3]. intros x. apply Forall_MOff_mono. exact M. }
    destruct t as [regs prog cont out]. cbn [t_cont] in Hc. subst cont.
    revert NT' M Others.
    destruct m as [p i rt first keep|p i off cand keep|delta after|h|r|r report|tb p i|p o]; cbn [exec_mop].
    - (* MRead *)
      destruct (slot_lookup (c_slots s) (i :: p)) as [e|] eqn:L; [|destruct (child_is_node g p i) eqn:CN];
        cbn [fst upd_thread c_slots c_torn c_threads c_offs t_cont]; intros _ M Others;
        (split; [exact O1|split; [exact O2|]]); apply Forall_set_nth; auto; cbn [t_cont].
      + destruct keep; [constructor; [exact Logic.I|exact Tr]|exact Tr].
      + constructor; [|exact Tr]. cbn [MOff MOk] in *. destruct first; [|destruct Tm as (e & Le); congruence].
        apply (cand_off_true (c_offs s) (c_slots s) p i rt O1 O2 Wm); [|exact Tm].
        intros Hne. destruct Wm as [->|(b & Lp)]; [contradiction Hne; reflexivity|]. destruct p as [|k q]; [contradiction Hne; reflexivity|].
        eapply node_slot_is_node; eauto.
      + constructor; [|exact Tr]. cbn [MOff MOk] in *. destruct first; [|destruct Tm as (e & Le); congruence].
        apply (cand_off_true (c_offs s) (c_slots s) p i rt O1 O2 Wm); [|exact Tm].
        intros Hne. destruct Wm as [->|(b & Lp)]; [contradiction Hne; reflexivity|]. destruct p as [|k q]; [contradiction Hne; reflexivity|].
        eapply node_slot_is_node; eauto.
    - (* MWrite *)
      cbn [MOff] in Tm.
      destruct (slot_lookup (c_slots s) (i :: p)) as [e|] eqn:L;
        cbn [fst upd_thread c_slots c_torn c_threads c_offs t_cont]; intros _ M Others.
      + split; [exact O1|split; [exact O2|]]. apply Forall_set_nth; auto. cbn [t_cont].
        apply Forall_app. split; [destruct cand; repeat constructor|]. constructor; [cbn [MOff]; eauto|exact Tr].
      + split; [|split].
        * intros q o. rewrite off_lookup_cons. destruct (pos_eqb (i :: p) q) eqn:E; [|apply O1].
          apply pos_eqb_eq in E. subst q. intros [= <-]. exact Tm.
        * intros q e. rewrite slot_lookup_cons, off_lookup_cons. destruct (pos_eqb (i :: p) q); [eauto|apply O2].
        * apply Forall_set_nth; auto. cbn [t_cont]. constructor.
          -- cbn [MOff]. eexists. rewrite slot_lookup_cons, pos_eqb_refl. reflexivity.
          -- eapply Forall_MOff_mono; [exact M|exact Tr].
    - cbn [fst upd_thread c_slots c_torn c_threads c_offs t_cont]; intros _ M Others.
      split; [exact O1|split; [exact O2|]]. apply Forall_set_nth; auto.
    - cbn [fst upd_thread c_slots c_torn c_threads c_offs t_cont]; intros _ M Others.
      split; [exact O1|split; [exact O2|]]. apply Forall_set_nth; auto.
    - destruct (reg_of _ r); cbn [fst upd_thread c_slots c_torn c_threads c_offs t_cont]; intros _ M Others;
        (split; [exact O1|split; [exact O2|]]); apply Forall_set_nth; auto.
    - destruct (reg_of _ r); [destruct (Z.eqb (c_rc s) 1)|];
        cbn [fst upd_thread c_slots c_torn c_threads c_offs t_cont]; try discriminate; intros _ M Others;
        (split; [exact O1|split; [exact O2|]]); apply Forall_set_nth; auto.
    - rewrite NT. cbn [negb fst upd_thread c_slots c_torn c_threads c_offs t_cont]. intros _ M Others.
      split; [exact O1|split; [exact O2|]]. apply Forall_set_nth; auto.
    - destruct (match o with KSet _ v => _ | KTrySet _ v => _ | KGet _ => _ | KClear _ => _ | _ => _ end) as [[[d' dr] res] w].
      cbn [fst upd_thread c_slots c_torn c_threads c_offs t_cont]. intros _ M Others.
      split; [exact O1|split; [exact O2|]]. apply Forall_set_nth; auto.
  Qed.

  (* ---- taking the next operation ---- *)
  Lemma MOff_iter_to sl p : forall n j, Forall (MOff sl) (iter_to p j n).
  Proof. induction n as [|n IH]; intros j; cbn [iter_to get_or_add app]; constructor; cbn [MOff RouteOk]; auto. Qed.

  Lemma MOff_flat sl p l : Forall (MOff sl) (flat_map (fun j => get_or_add p j RIter false) l).
  Proof. induction l as [|a l IH]; cbn [flat_map get_or_add app]; constructor; cbn [MOff RouteOk]; auto. Qed.

  Lemma expand_MOff sl t o : THOk sl t -> Forall (MOff sl) (fst (expand g t o)).
  Proof.
    intros T.
    destruct o as [r|r|r i|r|r|r|r|r v|r v|r|r]; unfold expand;
      destruct (reg_of t r) as [[p e]|] eqn:Er; cbn [fst]; try (constructor; fail);
      assert (Hh := reg_HOk _ _ _ _ T Er).
    - destruct e; [destruct (Nat.ltb 0 (length (kids g p)))|]; cbn [fst]; try (constructor; fail).
      cbn [get_or_add]. constructor; [cbn [MOff RouteOk]; reflexivity|constructor].
    - destruct e; [destruct (Nat.ltb 0 (length (kids g p))) eqn:L0|]; cbn [fst]; try (constructor; fail).
      cbn [get_or_add]. constructor; [|constructor]. cbn [MOff RouteOk]. apply Nat.ltb_lt in L0. lia.
    - destruct e; [destruct (Nat.ltb i (length (kids g p)))|]; cbn [fst]; try (constructor; fail).
      + apply MOff_iter_to.
      + apply MOff_flat.
    - destruct p as [|i q]; [constructor|]. destruct (Nat.ltb (S i) (length (kids g q))); cbn [fst]; try (constructor; fail).
      cbn [get_or_add]. constructor; [|constructor]. cbn [MOff RouteOk]. exists i, e. split; [reflexivity|exact Hh].
    - destruct p as [|i q]; [constructor|]. destruct i as [|j]; cbn [fst]; try (constructor; fail).
      cbn [get_or_add]. constructor; [|constructor]. cbn [MOff RouteOk]. exists e. exact Hh.
    - constructor; [exact Logic.I|constructor].
    - constructor; [exact Logic.I|constructor].
    - destruct e; cbn [fst]; try (constructor; fail). constructor; [exact Logic.I|constructor].
    - destruct e; cbn [fst]; try (constructor; fail). constructor; [exact Logic.I|constructor].
    - destruct e; cbn [fst]; try (constructor; fail). constructor; [exact Logic.I|constructor].
    - destruct e; cbn [fst]; try (constructor; fail). constructor; [exact Logic.I|constructor].
  Qed.

  Lemma refill_MOff sl : forall fuel t, THOk sl t -> Forall (MOff sl) (t_cont t) -> Forall (MOff sl) (t_cont (refill g fuel t)).
  Proof.
    induction fuel as [|f IH]; intros t T C; cbn [refill]; [exact C|].
    destruct t as [regs prog cont out]. cbn [t_cont t_prog t_regs t_out] in *.
    destruct cont as [|m c]; [|exact C].
    destruct prog as [|o r].
    - destruct (first_owned regs 0); cbn [t_cont]; repeat constructor.
    - assert (Ex := expand_MOff sl (mkThread regs (o :: r) [] out) o T).
      assert (E := refill_handles g 1 (mkThread regs (o :: r) [] out)).
      cbn [refill t_cont t_prog t_regs t_out] in E.
      destruct (expand g (mkThread regs (o :: r) [] out) o) as [ms res]. cbn [fst] in Ex.
      apply IH; [|exact Ex]. unfold THOk in *. rewrite E. exact T.
  Qed.

  Lemma normalize_OffInv s : HInv s -> OffInv s -> OffInv (normalize g s).
  Proof.
    unfold HInv, OffInv, normalize. cbn [c_torn c_slots c_threads c_offs]. intros I O NT.
    destruct (O NT) as (O1 & O2 & O3). specialize (I NT). split; [exact O1|split; [exact O2|]].
    apply Forall_map. rewrite Forall_forall in *. intros t Hin. apply refill_MOff; auto.
  Qed.

  Theorem reach_OffInv progs s : Reach g progs s -> OffInv s.
  Proof.
    induction 1 as [|s want s' tid evs R IH C].
    - unfold cinit. apply normalize_OffInv.
      + intros _. cbn [c_threads c_slots]. apply Forall_map. apply Forall_forall. intros pr _.
        unfold THOk, thread_handles. cbn. constructor; [reflexivity|constructor].
      + intros _. cbn [c_offs c_slots c_threads]. split; [intros q o L; discriminate|]. split; [intros q e L; discriminate|].
        apply Forall_map. apply Forall_forall. intros pr _. constructor.
    - destruct (cstep_inv g _ _ _ _ _ C) as (t & m & rest & Ht & Hc & -> & _).
      destruct (c_torn s) eqn:NT.
      + intros NT'. unfold normalize in NT'. cbn [c_torn] in NT'. rewrite (exec_torn_stays g s tid t m rest NT) in NT'. discriminate.
      + apply normalize_OffInv; [apply exec_HInv; auto; apply (reach_HInv g progs s R)|].
        apply exec_OffInv; auto. apply (reach_Wf g progs s R).
  Qed.

  (* ---- correct ranges: the offset stored for every handle any thread holds is the true offset of
     its position (so its range is [true_off, true_off + length of the green element)) ---- *)
  Theorem handles_carry_true_offsets progs s t h :
    Reach g progs s -> c_torn s = false -> In t (c_threads s) -> In h (thread_handles t) ->
    off_of (c_offs s) (fst h) = true_off g (fst h).
  Proof.
    intros R NT It Ih. destruct (reach_OffInv _ _ R NT) as (O1 & O2 & _).
    assert (I := reach_HInv g _ _ R NT). rewrite Forall_forall in I. specialize (I t It). unfold THOk in I. rewrite Forall_forall in I.
    specialize (I h Ih). unfold HOk in I. destruct h as [p e]. cbn [fst snd] in *.
    apply (off_of_true (c_offs s) (c_slots s) p O1 O2). destruct p; [left; reflexivity|right; eauto].
  Qed.
End ConcOffsets.
