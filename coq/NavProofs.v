(* NavProofs.v — C02: every traversal program keeps the invariant "a materialised position caches its
   true offset"; hence every handle reports its exact source span whichever route reached it. *)
From CsModel Require Import Red RedProofs Nav.
From Coq Require Import ZifyN ZifyNat ZifyBool.

Section NavProofs.
  Variable g : gelem.
  Hypothesis Hlen : LenOk g.
  Variable lcn : bool.
  Variable skip : bool.

  Notation Inv := (Inv g).
  Notation nav_exec := (nav_exec g lcn skip).
  Notation nav_run := (nav_run g lcn skip).

  Definition RegsOk (rs : rstate) (regs : list (option pos)) : Prop :=
    Forall (fun r => match r with Some p => Known rs p | None => True end) regs.

  Definition Res3 (rs : rstate) (x : nres * option pos * rstate) : Prop :=
    Inv (snd x) /\ Le rs (snd x) /\ match snd (fst x) with Some q => Known (snd x) q | None => True end.

  Lemma reg_known rs regs r p : RegsOk rs regs -> reg regs r = Some p -> Known rs p.
  Proof.
    unfold reg, RegsOk. intros F. destruct (nth_error regs r) as [[q|]|] eqn:E; try discriminate.
    intros [= <-]. rewrite Forall_forall in F. exact (F _ (nth_error_In _ _ E)).
  Qed.

  Lemma one_ok rs y : Step g rs (snd y) (fst y) -> Res3 rs (one y).
  Proof.
    intros St. unfold Res3, one. cbn [fst snd]. split; [apply St|]. split; [apply St|].
    destruct (fst y) as [q|] eqn:E; [apply St; reflexivity|exact I].
  Qed.
  Lemma lst_ok rs (y : list pos * rstate) : Inv (snd y) -> Le rs (snd y) -> Res3 rs (lst y).
  Proof. intros A B. unfold Res3, lst. cbn. auto. Qed.
  Lemma skip_ok rs : Inv rs -> Res3 rs (skip_op rs).
  Proof. intros A. unfold Res3, skip_op. cbn. split; [exact A|]. split; [apply Le_refl|exact I]. Qed.

  Lemma iter_nth_ok b : forall fuel rs it k,
    Inv rs -> IterOk g it -> Known rs (it_parent it) ->
    Step g rs (snd (iter_nth b fuel rs it k)) (fst (iter_nth b fuel rs it k)).
  Proof.
    induction fuel as [|f IH]; intros rs it k I Ok Kp; cbn [iter_nth].
    - cbn. apply Step_refl; [exact I|discriminate].
    - assert (X : Step g rs (snd (fst (if b then node_iter_next rs it else elem_iter_next rs it)))
                          (fst (fst (if b then node_iter_next rs it else elem_iter_next rs it))) /\
                  IterOk g (snd (if b then node_iter_next rs it else elem_iter_next rs it)) /\
                  it_parent (snd (if b then node_iter_next rs it else elem_iter_next rs it)) = it_parent it).
      { destruct b.
        - destruct (node_iter_next_ok g rs it I Ok Kp). split; [assumption|]. split; [assumption|apply iter_parent_node].
        - destruct (elem_iter_next_ok g rs it I Ok Kp). split; [assumption|]. split; [assumption|apply iter_parent_elem]. }
      destruct X as (St & Ok' & Par).
      destruct (if b then node_iter_next rs it else elem_iter_next rs it) as [[r rs'] it']. cbn [fst snd] in *.
      destruct r as [q|]; [|exact St].
      destruct k as [|k']; [exact St|].
      eapply Step_trans; [exact St|]. apply IH; [apply St|exact Ok'|]. rewrite Par. eapply Known_le; [apply St|exact Kp].
  Qed.

  Lemma iter_adv_ok b : forall fuel rs it k,
    Inv rs -> IterOk g it -> Known rs (it_parent it) ->
    Step g rs (snd (fst (iter_adv b fuel rs it k))) (fst (fst (iter_adv b fuel rs it k))) /\
    IterOk g (snd (iter_adv b fuel rs it k)) /\ it_parent (snd (iter_adv b fuel rs it k)) = it_parent it.
  Proof.
    induction fuel as [|f IH]; intros rs it k I Ok Kp; cbn [iter_adv].
    - cbn. split; [apply Step_refl; [exact I|discriminate]|]. auto.
    - assert (X : Step g rs (snd (fst (if b then node_iter_next rs it else elem_iter_next rs it)))
                          (fst (fst (if b then node_iter_next rs it else elem_iter_next rs it))) /\
                  IterOk g (snd (if b then node_iter_next rs it else elem_iter_next rs it)) /\
                  it_parent (snd (if b then node_iter_next rs it else elem_iter_next rs it)) = it_parent it).
      { destruct b.
        - destruct (node_iter_next_ok g rs it I Ok Kp). split; [assumption|]. split; [assumption|apply iter_parent_node].
        - destruct (elem_iter_next_ok g rs it I Ok Kp). split; [assumption|]. split; [assumption|apply iter_parent_elem]. }
      destruct X as (St & Ok' & Par).
      destruct (if b then node_iter_next rs it else elem_iter_next rs it) as [[r rs'] it']. cbn [fst snd] in *.
      destruct r as [q|]; [|cbn [fst snd]; auto].
      destruct k as [|k']; [cbn [fst snd]; auto|].
      assert (Kp' : Known rs' (it_parent it')) by (rewrite Par; eapply Known_le; [apply St|exact Kp]).
      destruct (IH rs' it' k' (st_inv _ _ _ _ St) Ok' Kp') as (St2 & Ok2 & Par2).
      split; [eapply Step_trans; [exact St|exact St2]|]. split; [exact Ok2|]. rewrite Par2. exact Par.
  Qed.

  Lemma iter_script_ok b fuel : forall script rs it,
    Inv rs -> IterOk g it -> Known rs (it_parent it) ->
    Inv (snd (iter_script b fuel rs it script)) /\ Le rs (snd (iter_script b fuel rs it script)).
  Proof.
    induction script as [|k sc IH]; intros rs it I Ok Kp; cbn [iter_script].
    - cbn. split; [exact I|apply Le_refl].
    - destruct (iter_adv_ok b fuel rs it k I Ok Kp) as (St & Ok' & Par).
      destruct (iter_adv b fuel rs it k) as [[r rs'] it']. cbn [fst snd] in *.
      assert (Kp' : Known rs' (it_parent it')) by (rewrite Par; eapply Known_le; [apply St|exact Kp]).
      destruct (IH rs' it' (st_inv _ _ _ _ St) Ok' Kp') as (A & B).
      destruct r as [q|]; cbn [fst snd]; (split; [exact A|eapply Le_trans; [apply St|exact B]]).
  Qed.

  Theorem nav_exec_ok regs rs op :
    Inv rs -> RegsOk rs regs -> Res3 rs (nav_exec regs rs op).
  Proof.
    intros I R.
    assert (On : forall r (nf tf : pos -> nres * option pos * rstate),
               (forall p, Known rs p -> is_node_at g p = true -> Res3 rs (nf p)) ->
               (forall p, Known rs p -> Res3 rs (tf p)) ->
               Res3 rs (match reg regs r with
                        | None => skip_op rs
                        | Some p => if is_node_at g p then nf p else tf p end)).
    { intros r nf tf Hn Ht. destruct (reg regs r) as [p|] eqn:E; [|apply skip_ok; exact I].
      pose proof (reg_known rs regs r p R E) as K. destruct (is_node_at g p) eqn:Nd; [apply Hn|apply Ht]; assumption. }
    assert (No : forall p : pos, Known rs p -> Res3 rs (skip_op rs)) by (intros; apply skip_ok; exact I).
    assert (ParOk : forall p, Known rs p -> Res3 rs (one (parent_of p, rs))).
    { intros p K. apply one_ok. cbn. apply Step_refl; [exact I|]. destruct p as [|i q]; [discriminate|].
      intros x [= <-]. eapply Known_parent; eauto. }
    assert (SelfOk : forall p, Known rs p -> Res3 rs (one (Some p, rs))).
    { intros p K. apply one_ok. cbn. apply Step_refl; [exact I|]. intros x [= <-]. exact K. }
    destruct op; cbn [Nav.nav_exec]; apply On.
    - (* NPar *) intros p K _. apply ParOk; exact K.
    - intros p K. apply ParOk; exact K.
    - (* NFirstChild *) intros p K Nd. apply one_ok, first_child_ok; assumption.
    - exact No.
    - (* NLastChild *) intros p K Nd. apply one_ok, last_child_ok; assumption.
    - exact No.
    - (* NNextSib *) intros p K Nd. apply one_ok, next_sibling_ok; assumption.
    - intros p K. destruct nodes_only; [apply skip_ok; exact I|apply one_ok, next_sibling_ok; assumption].
    - (* NPrevSib *) intros p K Nd. apply one_ok, prev_sibling_ok; assumption.
    - intros p K. destruct nodes_only; [apply skip_ok; exact I|apply one_ok, prev_sibling_ok; assumption].
    - (* NFirstTok *) intros p K Nd. apply one_ok, first_token_ok; assumption.
    - intros p K. apply SelfOk; exact K.
    - (* NLastTok *) intros p K Nd. apply one_ok, last_token_ok; assumption.
    - intros p K. apply SelfOk; exact K.
    - (* NNextTok *) exact (fun p K _ => No p K).
    - intros p K. apply one_ok. unfold next_token. apply token_walk_ok; assumption.
    - (* NPrevTok *) exact (fun p K _ => No p K).
    - intros p K. apply one_ok. unfold prev_token. apply token_walk_ok; assumption.
    - (* NChildNth *) intros p K Nd. apply one_ok, iter_nth_ok; [exact I|apply iter_new_ok; assumption|exact K].
    - exact No.
    - (* NChildAfter *) intros p K Nd.
      destruct (reg regs rc) as [[|i q]|] eqn:E; try (apply skip_ok; exact I).
      destruct (pos_eqb q p) eqn:Eq; [|apply skip_ok; exact I]. apply pos_eqb_eq in Eq. subst q.
      apply one_ok, next_child_after_ok; [exact I|]. eapply reg_known; eauto.
    - exact No.
    - (* NChildBefore *) intros p K Nd.
      destruct (reg regs rc) as [[|i q]|] eqn:E; try (apply skip_ok; exact I).
      destruct (pos_eqb q p) eqn:Eq; [|apply skip_ok; exact I]. apply pos_eqb_eq in Eq. subst q.
      apply one_ok, prev_child_before_ok; [exact I|]. eapply reg_known; eauto.
    - exact No.
    - (* NTao *) intros p K Nd.
      destruct (token_at_offset_ok g rs p off I K) as (A & B & C). unfold Res3. cbn [fst snd].
      split; [exact A|]. split; [exact B|].
      destruct (fst (token_at_offset g rs p off)) as [[|t|l r0]|q]; cbn in C |- *; tauto.
    - exact No.
    - (* NCov *) intros p K Nd.
      destruct (covering_element_ok g rs p a b I K) as (A & B & C). unfold Res3. cbn [fst snd].
      split; [exact A|]. split; [exact B|].
      destruct (fst (covering_element g rs p a b)) as [e|q]; cbn in C |- *; tauto.
    - exact No.
    - (* NAnc *) intros p K Nd. apply lst_ok; cbn; [exact I|apply Le_refl].
    - intros p K. apply lst_ok; cbn; [exact I|apply Le_refl].
    - (* NSibs *) intros p K Nd. destruct (siblings_ok g nodes_only next rs p I K) as (A & B & _). apply lst_ok; assumption.
    - intros p K. destruct nodes_only; [apply skip_ok; exact I|].
      destruct (siblings_ok g false next rs p I K) as (A & B & _). apply lst_ok; assumption.
    - (* NChildren *) intros p K Nd. destruct nodes_only.
      + destruct (node_iter_collect_ok g (S (length (kids g p))) rs (iter_new g rs p) I (iter_new_ok g rs p I K) K) as (A & B & _).
        apply lst_ok; assumption.
      + destruct (elem_iter_collect_ok g (S (length (kids g p))) rs (iter_new g rs p) I (iter_new_ok g rs p I K) K) as (A & B & _).
        apply lst_ok; assumption.
    - exact No.
    - (* NDesc *) intros p K Nd. unfold descendants. destruct (preorder_ok g nodes_only rs p I K) as (A & B & _).
      destruct (preorder g nodes_only rs p) as [l rs']. cbn [fst snd] in *. apply lst_ok; assumption.
    - exact No.
    - (* NPre *) intros p K Nd. destruct (preorder_ok g nodes_only rs p I K) as (A & B & _). unfold Res3. cbn [fst snd]. auto.
    - exact No.
    - (* NSizes *) intros p K Nd. unfold Res3. cbn [fst snd]. destruct nodes_only.
      + destruct (node_iter_collect_ok g (S (length (kids g p))) rs (iter_new g rs p) I (iter_new_ok g rs p I K) K) as (A & B & _). auto.
      + destruct (elem_iter_collect_ok g (S (length (kids g p))) rs (iter_new g rs p) I (iter_new_ok g rs p I K) K) as (A & B & _). auto.
    - exact No.
    - (* NArity *) intros p K Nd. unfold Res3. cbn. split; [exact I|]. split; [apply Le_refl|exact Logic.I].
    - exact No.
    - (* NIterScript *) intros p K Nd.
      destruct (iter_script_ok nodes_only (S (length (kids g p))) script rs (iter_new g rs p) I (iter_new_ok g rs p I K) K) as (A & B).
      apply lst_ok; assumption.
    - exact No.
  Qed.

  Lemma RegsOk_le rs rs' regs : Le rs rs' -> RegsOk rs regs -> RegsOk rs' regs.
  Proof.
    intros L F. eapply Forall_impl; [|exact F]. intros [q|]; [apply Known_le; exact L|auto].
  Qed.

  (* every history of navigation operations, from the fresh tree *)
  Theorem nav_run_ok ops : forall regs rs,
    Inv rs -> RegsOk rs regs ->
    Inv (snd (nav_run regs rs ops)) /\ RegsOk (snd (nav_run regs rs ops)) (snd (fst (nav_run regs rs ops))) /\
    Le rs (snd (nav_run regs rs ops)).
  Proof.
    induction ops as [|o r IH]; intros regs rs I R; cbn [Nav.nav_run].
    - cbn. split; [exact I|]. split; [exact R|apply Le_refl].
    - pose proof (nav_exec_ok regs rs o I R) as (A & B & C).
      destruct (nav_exec regs rs o) as [[res nr] rs']. cbn [fst snd] in *.
      assert (R' : RegsOk rs' (regs ++ [nr])).
      { apply Forall_app. split; [eapply RegsOk_le; eauto|]. constructor; [exact C|constructor]. }
      destruct (IH (regs ++ [nr]) rs' A R') as (A2 & B2 & C2).
      destruct (nav_run (regs ++ [nr]) rs' r) as [[outs regs'] rs'']. cbn [fst snd] in *.
      split; [exact A2|]. split; [exact B2|eapply Le_trans; eauto].
  Qed.

  Theorem reach_inv ops :
    Inv (snd (nav_run [Some []] [] ops)) /\
    RegsOk (snd (nav_run [Some []] [] ops)) (snd (fst (nav_run [Some []] [] ops))).
  Proof.
    destruct (nav_run_ok ops [Some []] []) as (A & B & _).
    - apply Inv_nil.
    - constructor; [left; reflexivity|constructor].
    - split; assumption.
  Qed.

  (* ---- what the invariant means for the ranges handles report ---- *)
  Theorem range_exact rs p :
    Inv rs -> Known rs p ->
    start_of rs p = true_off g p /\ end_of g rs p = true_off g p + len_at g p.
  Proof. intros I K. unfold start_of, end_of. rewrite (offset_known g rs p I K). auto. Qed.

  Theorem root_zero rs : start_of rs [] = 0.
  Proof. reflexivity. Qed.

  (* the children of a node tile its range in order, without gap or overlap *)
  Theorem children_tile p :
    is_node_at g p = true ->
    true_off g (0%nat :: p) = true_off g p /\
    (forall i c, nth_error (kids g p) i = Some c ->
                 true_off g (S i :: p) = true_off g (i :: p) + len_at g (i :: p)) /\
    true_off g (length (kids g p) :: p) = true_off g p + len_at g p.
  Proof.
    intros Nd. split; [cbn; lia|]. split.
    - intros i c E. cbn [true_off]. rewrite (firstn_S_nth _ _ _ E), map_app, sumN_app.
      rewrite (len_at_cons g), E. cbn [map sumN]. lia.
    - cbn [true_off]. rewrite firstn_all, (len_at_sum g Hlen p Nd). reflexivity.
  Qed.
End NavProofs.
