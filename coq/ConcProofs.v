(* ConcProofs.v — invariants of the concurrent machine, for every number of threads, every program
   and every schedule (C05, C06, C18). *)
From CsModel Require Import Red RedProofs Conc.
From Coq Require Import ZArith Lia.

Open Scope Z_scope.

Section ConcProofs.
  Variable g : gelem.

  Definition owned (t : thread) : Z :=
    Z.of_nat (length (filter (fun r => match r with Some _ => true | None => false end) (t_regs t))).

  (* compensation still to come: the internal read-modify-writes a thread has queued *)
  Fixpoint debt (c : list mop) : Z :=
    match c with
    | [] => 0
    | MRmwInternal d _ :: r => - d + debt r
    | _ :: r => debt r
    end.

  Fixpoint sumT (f : thread -> Z) (l : list thread) : Z :=
    match l with [] => 0 | t :: r => f t + sumT f r end.

  Definition RcInv (s : cstate) : Prop :=
    c_torn s = false -> c_rc s = sumT owned (c_threads s) + sumT (fun t => debt (t_cont t)) (c_threads s).

  Lemma sumT_set_nth f : forall l i t x, nth_error l i = Some t -> sumT f (set_nth l i x) = sumT f l - f t + f x.
  Proof.
    induction l as [|a r IH]; intros [|i] t x E; cbn in *; try discriminate.
    - injection E as ->. lia.
    - rewrite (IH i t x E). lia.
  Qed.

  Lemma debt_app a b : debt (a ++ b) = debt a + debt b.
  Proof. induction a as [|m r IH]; cbn [app debt]; [lia|]. destruct m; rewrite ?IH; lia. Qed.

  Lemma owned_regs regs prog cont out prog' cont' out' :
    owned (mkThread regs prog cont out) = owned (mkThread regs prog' cont' out').
  Proof. reflexivity. Qed.

  Lemma owned_push regs h prog cont out :
    owned (mkThread (regs ++ [Some h]) prog cont out) = owned (mkThread regs prog cont out) + 1.
  Proof. unfold owned. cbn [t_regs]. rewrite filter_app, app_length. cbn [filter length]. lia. Qed.

  Lemma owned_set_none : forall regs r h prog cont out,
    nth_error regs r = Some (Some h) ->
    owned (mkThread (set_nth regs r None) prog cont out) = owned (mkThread regs prog cont out) - 1.
  Proof.
    unfold owned. cbn [t_regs].
    induction regs as [|a l IH]; intros [|r] h prog cont out E; cbn [nth_error set_nth filter] in *; try discriminate.
    - injection E as ->. cbn [length]. lia.
    - specialize (IH r h prog cont out E). destruct a; cbn [length]; lia.
  Qed.

  Lemma debt_tear_node b p : debt (tear_node g b p) = 0.
  Proof. unfold tear_node. induction (seq 0 (length (kids g p))) as [|i r IH]; cbn; [reflexivity|exact IH]. Qed.

  Lemma rc_step ths tid t t' rc rc' :
    nth_error ths tid = Some t ->
    rc = sumT owned ths + sumT (fun x => debt (t_cont x)) ths ->
    rc' - rc = (owned t' - owned t) + (debt (t_cont t') - debt (t_cont t)) ->
    rc' = sumT owned (set_nth ths tid t') + sumT (fun x => debt (t_cont x)) (set_nth ths tid t').
  Proof. intros E I D. rewrite !(sumT_set_nth _ _ _ _ _ E). lia. Qed.

  (* the reference count always equals the handles owned plus the compensation in flight — until the
     thread that drops the last handle starts the teardown *)
  Theorem exec_rc_inv s tid t m rest :
    nth_error (c_threads s) tid = Some t -> t_cont t = m :: rest ->
    RcInv s -> c_torn s = false -> RcInv (fst (exec_mop g s tid t m rest)).
  Proof.
    intros Ht Hc I NT. unfold RcInv in *. specialize (I NT).
    destruct t as [regs prog cont out]. cbn [t_cont t_regs t_prog t_out] in *. subst cont.
    destruct m as [p i rt first keep|p i off cand keep|delta after|h|r|r report|tb p i|p o]; cbn [exec_mop].
    - (* MRead *)
      destruct (slot_lookup (c_slots s) (i :: p)) as [e|]; [|destruct (child_is_node g p i)];
        cbn [fst upd_thread c_torn c_rc c_threads t_regs t_prog t_out]; intros _;
        (eapply rc_step; [exact Ht|exact I|]); cbn [t_cont t_regs]; rewrite (owned_regs regs prog _ out prog (MRead p i rt first keep :: rest) out);
        try destruct keep; cbn [debt]; lia.
    - (* MWrite *)
      destruct (slot_lookup (c_slots s) (i :: p)) as [e|];
        cbn [fst upd_thread c_torn c_rc c_threads t_regs t_prog t_out]; intros _;
        (eapply rc_step; [exact Ht|exact I|]); cbn [t_cont t_regs]; rewrite (owned_regs regs prog _ out prog (MWrite p i off cand keep :: rest) out);
        rewrite ?debt_app; try destruct cand; cbn [debt]; lia.
    - (* MRmwInternal *)
      cbn [fst upd_thread c_torn c_rc c_threads t_regs t_prog t_out]. intros _.
      eapply rc_step; [exact Ht|exact I|]. cbn [t_cont t_regs]. rewrite (owned_regs regs prog _ out prog (MRmwInternal delta after :: rest) out).
      cbn [debt]. lia.
    - (* MCloneResult *)
      cbn [fst upd_thread c_torn c_rc c_threads t_regs t_prog t_out]. intros _.
      eapply rc_step; [exact Ht|exact I|]. cbn [t_cont t_regs]. rewrite owned_push.
      rewrite (owned_regs regs prog rest _ prog (MCloneResult h :: rest) out). cbn [debt]. lia.
    - (* MCloneReg *)
      destruct (reg_of (mkThread regs prog (MCloneReg r :: rest) out) r) as [h|] eqn:Er;
        cbn [fst upd_thread c_torn c_rc c_threads t_regs t_prog t_out]; intros _; (eapply rc_step; [exact Ht|exact I|]); cbn [t_cont t_regs].
      + rewrite owned_push. rewrite (owned_regs regs prog rest _ prog (MCloneReg r :: rest) out). cbn [debt]. lia.
      + rewrite (owned_regs regs prog rest out prog (MCloneReg r :: rest) out). cbn [debt]. lia.
    - (* MDropReg *)
      destruct (reg_of (mkThread regs prog (MDropReg r report :: rest) out) r) as [h|] eqn:Er.
      + unfold reg_of in Er. cbn [t_regs] in Er. destruct (nth_error regs r) as [[h'|]|] eqn:En; try discriminate.
        destruct (Z.eqb (c_rc s) 1).
        * cbn [fst upd_thread c_torn]. discriminate.
        * cbn [fst upd_thread c_torn c_rc c_threads t_regs t_prog t_out]. intros _.
          eapply rc_step; [exact Ht|exact I|]. cbn [t_cont t_regs]. rewrite (owned_set_none regs r h' prog rest _ En).
          rewrite (owned_regs regs prog rest _ prog (MDropReg r report :: rest) out). cbn [debt]. lia.
      + cbn [fst upd_thread c_torn c_rc c_threads t_regs t_prog t_out]. intros _.
        eapply rc_step; [exact Ht|exact I|]. cbn [t_cont t_regs]. rewrite (owned_regs regs prog rest out prog (MDropReg r report :: rest) out).
        cbn [debt]. lia.
    - (* MTearSlot: a no-op outside teardown *)
      rewrite NT. cbn [negb fst upd_thread c_torn c_rc c_threads t_regs t_prog t_out]. intros _.
      eapply rc_step; [exact Ht|exact I|]. cbn [t_cont t_regs]. rewrite (owned_regs regs prog rest out prog (MTearSlot tb p i :: rest) out).
      cbn [debt]. lia.
    - (* MData *)
      destruct (match o with KSet _ v => _ | KTrySet _ v => _ | KGet _ => _ | KClear _ => _ | _ => _ end) as [[[d' dr] res] w].
      cbn [fst upd_thread c_torn c_rc c_threads t_regs t_prog t_out]. intros _.
      eapply rc_step; [exact Ht|exact I|]. cbn [t_cont t_regs]. rewrite (owned_regs regs prog rest _ prog (MData p o :: rest) out).
      cbn [debt]. lia.
  Qed.

  (* ---------------------------------------------------------------------------------------- *)
  (* thread-local shape of the pending micro-operations *)
  Fixpoint NN (c : list mop) : Prop :=
    match c with [] => True | m :: r => debt (m :: r) >= 0 /\ NN r end.

  Definition is_dropreg (m : mop) : bool := match m with MDropReg _ _ => true | _ => false end.
  Definition DropAlone (c : list mop) : Prop := forall m, In m c -> is_dropreg m = true -> c = [m].

  (* a thread inside an operation owns (borrows from) a handle: Rust's borrow rule for &self methods *)
  Definition TOk (t : thread) : Prop :=
    NN (t_cont t) /\ DropAlone (t_cont t) /\ (t_cont t <> [] -> owned t >= 1).

  Definition Pre (s : cstate) : Prop :=
    c_torn s = false ->
    c_rc s = sumT owned (c_threads s) + sumT (fun t => debt (t_cont t)) (c_threads s) /\ Forall TOk (c_threads s).

  Lemma NN_debt c : NN c -> debt c >= 0.
  Proof. destruct c as [|m r]; cbn [NN]; [cbn; lia|tauto]. Qed.

  Lemma NN_tail m r : NN (m :: r) -> NN r.
  Proof. cbn [NN]. tauto. Qed.

  Definition plain (m : mop) : bool :=
    match m with MRmwInternal _ _ | MDropReg _ _ => false | _ => true end.

  Lemma debt_plain c : forallb plain c = true -> debt c = 0.
  Proof.
    induction c as [|m r IH]; cbn [forallb debt]; [reflexivity|].
    intros E. apply andb_true_iff in E as [E1 E2]. destruct m; cbn [plain] in E1; try discriminate; auto.
  Qed.

  Lemma NN_plain_app c r : forallb plain c = true -> NN r -> NN (c ++ r).
  Proof.
    induction c as [|m c IH]; cbn [forallb app]; [auto|].
    intros E Hr. apply andb_true_iff in E as [E1 E2]. cbn [NN]. split; [|auto].
    specialize (IH E2 Hr). apply NN_debt in IH. destruct m; cbn [plain] in E1; try discriminate; cbn [debt]; lia.
  Qed.

  Lemma DropAlone_push m rest X :
    DropAlone (m :: rest) -> (forall x, In x X -> is_dropreg x = false) -> DropAlone (X ++ rest).
  Proof.
    intros D HX x Hin Hd. apply in_app_or in Hin as [Hin|Hin].
    - rewrite (HX x Hin) in Hd. discriminate.
    - assert (E : m :: rest = [x]) by (apply D; [right; exact Hin|exact Hd]).
      injection E as _ ->. destruct Hin.
  Qed.

  Lemma DropAlone_rest m rest : DropAlone (m :: rest) -> DropAlone rest.
  Proof. intros D. apply (DropAlone_push m rest [] D). intros x []. Qed.

  Lemma plain_not_drop X : forallb plain X = true -> forall x, In x X -> is_dropreg x = false.
  Proof.
    intros E x Hin. rewrite forallb_forall in E. specialize (E x Hin). destruct x; cbn in *; congruence.
  Qed.

  Lemma Forall_set_nth {A} (P : A -> Prop) : forall l i x, Forall P l -> P x -> Forall P (set_nth l i x).
  Proof.
    induction l as [|a l IH]; intros [|i] x Hl Hx; cbn [set_nth]; auto; inversion Hl as [|? ? Ha Hr]; constructor; auto.
  Qed.

  Lemma nth_error_Forall {A} (P : A -> Prop) l i x : Forall P l -> nth_error l i = Some x -> P x.
  Proof. intros F E. rewrite Forall_forall in F. apply F. eapply nth_error_In; eauto. Qed.

  Lemma reg_of_owned t r h : reg_of t r = Some h -> owned t >= 1.
  Proof.
    unfold reg_of, owned. destruct t as [regs prog cont out]. cbn [t_regs]. revert r.
    induction regs as [|a l IH]; intros [|r]; cbn [nth_error filter]; try discriminate.
    - destruct a; [cbn [length]; lia|discriminate].
    - intros E. specialize (IH r E). destruct a; cbn [length]; lia.
  Qed.

  Lemma owned_nonneg t : owned t >= 0.
  Proof. unfold owned. lia. Qed.

  Lemma TOk_intro regs prog cont out :
    NN cont -> DropAlone cont -> (cont <> [] -> owned (mkThread regs prog cont out) >= 1) -> TOk (mkThread regs prog cont out).
  Proof. intros; unfold TOk; cbn [t_cont]; auto. Qed.

  Theorem exec_TOk s tid t m rest :
    nth_error (c_threads s) tid = Some t -> t_cont t = m :: rest ->
    Forall TOk (c_threads s) -> c_torn s = false ->
    c_torn (fst (exec_mop g s tid t m rest)) = false -> Forall TOk (c_threads (fst (exec_mop g s tid t m rest))).
  Proof.
    intros Ht Hc F NT.
    assert (T := nth_error_Forall _ _ _ _ F Ht). destruct T as (Hnn & Hda & Hbusy).
    destruct t as [regs prog cont out]. cbn [t_cont t_regs t_prog t_out] in *. subst cont.
    assert (Hown : owned (mkThread regs prog (m :: rest) out) >= 1) by (apply Hbusy; discriminate).
    assert (Hnr := NN_tail _ _ Hnn). assert (Hdr := DropAlone_rest _ _ Hda).
    destruct m as [p i rt first keep|p i off cand keep|delta after|h|r|r report|tb p i|p o]; cbn [exec_mop].
    - (* MRead *)
      destruct (slot_lookup (c_slots s) (i :: p)) as [e|]; [|destruct (child_is_node g p i)];
        cbn [fst upd_thread c_torn c_threads t_regs t_prog t_out]; intros _; apply Forall_set_nth; auto; apply TOk_intro.
      + destruct keep; [apply (NN_plain_app [MCloneResult (i :: p, e)]); auto|auto].
      + destruct keep; [apply (DropAlone_push _ _ [MCloneResult (i :: p, e)] Hda); intros x [<-|[]]; reflexivity|auto].
      + intros _. rewrite (owned_regs regs prog _ out prog (MRead p i rt first keep :: rest) out). exact Hown.
      + apply (NN_plain_app [MWrite p i (cand_off g (c_offs s) p i rt) (Some (c_next s)) keep]); auto.
      + apply (DropAlone_push _ _ [MWrite p i (cand_off g (c_offs s) p i rt) (Some (c_next s)) keep] Hda); intros x [<-|[]]; reflexivity.
      + intros _. rewrite (owned_regs regs prog _ out prog (MRead p i rt first keep :: rest) out). exact Hown.
      + apply (NN_plain_app [MWrite p i (cand_off g (c_offs s) p i rt) None keep]); auto.
      + apply (DropAlone_push _ _ [MWrite p i (cand_off g (c_offs s) p i rt) None keep] Hda); intros x [<-|[]]; reflexivity.
      + intros _. rewrite (owned_regs regs prog _ out prog (MRead p i rt first keep :: rest) out). exact Hown.
    - (* MWrite *)
      destruct (slot_lookup (c_slots s) (i :: p)) as [e|];
        cbn [fst upd_thread c_torn c_threads t_regs t_prog t_out]; intros _; apply Forall_set_nth; auto; apply TOk_intro.
      + assert (Hr : NN (MRead p i RIter false keep :: rest)) by (apply (NN_plain_app [MRead p i RIter false keep]); auto).
        assert (Hd := NN_debt _ Hr). cbn [debt] in Hd.
        destruct cand; cbn [app NN debt]; repeat split; auto; try lia; apply Hr.
      + destruct cand as [c|]; cbn [app].
        * apply (DropAlone_push _ _ [MRmwInternal 2 []; MRmwInternal (-1) [CFree c]; MRmwInternal (-1) [CWriteUnlock (block_of (c_slots s) p) i]; MRead p i RIter false keep] Hda).
          intros x Hin. cbn [In] in Hin. repeat (destruct Hin as [<-|Hin]; [reflexivity|]). destruct Hin.
        * apply (DropAlone_push _ _ [MRmwInternal 1 []; MRmwInternal (-1) [CWriteUnlock (block_of (c_slots s) p) i]; MRead p i RIter false keep] Hda).
          intros x Hin. cbn [In] in Hin. repeat (destruct Hin as [<-|Hin]; [reflexivity|]). destruct Hin.
      + intros _. rewrite (owned_regs regs prog _ out prog (MWrite p i off cand keep :: rest) out). exact Hown.
      + apply (NN_plain_app [MRead p i RIter false keep]); auto.
      + apply (DropAlone_push _ _ [MRead p i RIter false keep] Hda); intros x [<-|[]]; reflexivity.
      + intros _. rewrite (owned_regs regs prog _ out prog (MWrite p i off cand keep :: rest) out). exact Hown.
    - (* MRmwInternal *)
      cbn [fst upd_thread c_torn c_threads t_regs t_prog t_out]. intros _. apply Forall_set_nth; auto. apply TOk_intro; auto.
      all: try (intros _; rewrite (owned_regs regs prog _ out prog (MRmwInternal delta after :: rest) out); exact Hown).
    - (* MCloneResult *)
      cbn [fst upd_thread c_torn c_threads t_regs t_prog t_out]. intros _. apply Forall_set_nth; auto. apply TOk_intro; auto.
      all: try (intros _; rewrite owned_push; rewrite (owned_regs regs prog _ _ prog (MCloneResult h :: rest) out); lia).
    - (* MCloneReg *)
      destruct (reg_of (mkThread regs prog (MCloneReg r :: rest) out) r) as [h|] eqn:Er;
        cbn [fst upd_thread c_torn c_threads t_regs t_prog t_out]; intros _; apply Forall_set_nth; auto; apply TOk_intro; auto.
      all: try (intros _; rewrite owned_push; unfold owned in *; cbn [t_regs] in *; lia).
    - (* MDropReg: alone in its continuation *)
      assert (Erest : rest = []).
      { assert (E := Hda (MDropReg r report) (or_introl eq_refl) eq_refl). injection E as ->. reflexivity. }
      subst rest.
      destruct (reg_of (mkThread regs prog [MDropReg r report] out) r) as [h|] eqn:Er.
      + destruct (Z.eqb (c_rc s) 1).
        * cbn [fst upd_thread c_torn]. discriminate.
        * cbn [fst upd_thread c_torn c_threads t_regs t_prog t_out]. intros _. apply Forall_set_nth; auto. apply TOk_intro; auto.
          all: try (intros C; contradiction C; reflexivity).
      + cbn [fst upd_thread c_torn c_threads t_regs t_prog t_out]. intros _. apply Forall_set_nth; auto. apply TOk_intro; auto.
        all: try (intros C; contradiction C; reflexivity).
    - (* MTearSlot: a no-op outside teardown *)
      rewrite NT. cbn [negb fst upd_thread c_torn c_threads t_regs t_prog t_out]. intros _. apply Forall_set_nth; auto. apply TOk_intro; auto.
      all: try (intros _; rewrite (owned_regs regs prog _ _ prog (MTearSlot tb p i :: rest) out); exact Hown).
    - (* MData *)
      destruct (match o with KSet _ v => _ | KTrySet _ v => _ | KGet _ => _ | KClear _ => _ | _ => _ end) as [[[d' dr] res] w].
      cbn [fst upd_thread c_torn c_threads t_regs t_prog t_out]. intros _. apply Forall_set_nth; auto. apply TOk_intro; auto.
      all: try (intros _; rewrite (owned_regs regs prog _ _ prog (MData p o :: rest) out); exact Hown).
  Qed.

  (* ---------------------------------------------------------------------------------------- *)
  (* taking the next program operation *)
  Definition fresh_op (m : mop) : bool :=
    match m with MRead _ _ _ _ _ | MCloneReg _ | MData _ _ => true | _ => false end.
  Lemma fresh_plain ms : forallb fresh_op ms = true -> forallb plain ms = true.
  Proof.
    rewrite !forallb_forall. intros F x Hin. specialize (F x Hin). destruct x; cbn in *; congruence.
  Qed.

  Definition OkExp (t : thread) (ms : list mop) : Prop :=
    (forallb fresh_op ms = true \/ exists r b, ms = [MDropReg r b]) /\ (ms <> [] -> owned t >= 1).

  Lemma plain_iter_to p : forall n j, forallb fresh_op (iter_to p j n) = true.
  Proof. induction n as [|n IH]; intros j; cbn [iter_to get_or_add app forallb fresh_op]; [reflexivity|apply IH]. Qed.

  Lemma plain_flat p l : forallb fresh_op (flat_map (fun j => get_or_add p j RIter false) l) = true.
  Proof. induction l as [|a l IH]; cbn [flat_map get_or_add app forallb fresh_op]; auto. Qed.

  Lemma OkExp_nil t : OkExp t [].
  Proof. split; [left; reflexivity|intros C; contradiction C; reflexivity]. Qed.

  Lemma OkExp_plain t ms h r : reg_of t r = Some h -> forallb fresh_op ms = true -> OkExp t ms.
  Proof. intros E P. split; [left; exact P|intros _; eapply reg_of_owned; eauto]. Qed.

  Lemma expand_ok t o : OkExp t (fst (expand g t o)).
  Proof.
    destruct o as [r|r|r i|r|r|r|r|r v|r v|r|r]; unfold expand;
      destruct (reg_of t r) as [[p e]|] eqn:Er; cbn [fst]; try apply OkExp_nil.
    - destruct e; [destruct (Nat.ltb 0 (length (kids g p)))|]; cbn [fst]; try apply OkExp_nil.
      eapply OkExp_plain; eauto.
    - destruct e; [destruct (Nat.ltb 0 (length (kids g p)))|]; cbn [fst]; try apply OkExp_nil.
      eapply OkExp_plain; eauto.
    - destruct e; [destruct (Nat.ltb i (length (kids g p)))|]; cbn [fst]; try apply OkExp_nil.
      + eapply OkExp_plain; eauto. apply plain_iter_to.
      + eapply OkExp_plain; eauto. apply plain_flat.
    - destruct p as [|i q]; [apply OkExp_nil|]. destruct (Nat.ltb (S i) (length (kids g q))); cbn [fst]; try apply OkExp_nil.
      eapply OkExp_plain; eauto.
    - destruct p as [|i q]; [apply OkExp_nil|]. destruct i; cbn [fst]; try apply OkExp_nil.
      eapply OkExp_plain; eauto.
    - eapply OkExp_plain; eauto.
    - split; [right; eauto|intros _; eapply reg_of_owned; eauto].
    - destruct e; cbn [fst]; try apply OkExp_nil. eapply OkExp_plain; eauto.
    - destruct e; cbn [fst]; try apply OkExp_nil. eapply OkExp_plain; eauto.
    - destruct e; cbn [fst]; try apply OkExp_nil. eapply OkExp_plain; eauto.
    - destruct e; cbn [fst]; try apply OkExp_nil. eapply OkExp_plain; eauto.
  Qed.

  Lemma OkExp_props t ms : OkExp t ms -> debt ms = 0 /\ NN ms /\ DropAlone ms.
  Proof.
    intros [[P|(r & b & ->)] _].
    - apply fresh_plain in P. split; [apply debt_plain; exact P|]. split.
      + rewrite <- (app_nil_r ms). apply NN_plain_app; [exact P|exact Logic.I].
      + intros m Hin Hd. rewrite (plain_not_drop ms P m Hin) in Hd. discriminate.
    - split; [reflexivity|]. split; [cbn; lia|]. intros m [<-|[]] _. reflexivity.
  Qed.

  Lemma first_owned_owned : forall regs i j prog cont out, first_owned regs i = Some j -> owned (mkThread regs prog cont out) >= 1.
  Proof.
    unfold owned. cbn [t_regs]. induction regs as [|a l IH]; intros i j prog cont out E; cbn [first_owned filter] in *; [discriminate|].
    destruct a; [cbn [length]; lia|]. eapply IH; eauto.
  Qed.

  Lemma refill_ok : forall fuel t, TOk t ->
    TOk (refill g fuel t) /\ owned (refill g fuel t) = owned t /\ debt (t_cont (refill g fuel t)) = debt (t_cont t).
  Proof.
    induction fuel as [|f IH]; intros t T; cbn [refill]; [auto|].
    destruct t as [regs prog cont out]. cbn [t_cont t_prog t_regs t_out].
    destruct cont as [|m c]; [|auto].
    destruct prog as [|o r].
    - destruct (first_owned regs 0) as [i|] eqn:Ef; [|auto].
      split; [|split; reflexivity]. apply TOk_intro.
      + cbn; lia.
      + intros m [<-|[]] _. reflexivity.
      + intros _. eapply first_owned_owned; eauto.
    - assert (Ex := expand_ok (mkThread regs (o :: r) [] out) o).
      destruct (expand g (mkThread regs (o :: r) [] out) o) as [ms res]. cbn [fst] in Ex.
      destruct (OkExp_props _ _ Ex) as (D0 & Hnn & Hda).
      match goal with |- TOk (refill g f ?t1) /\ _ => destruct (IH t1) as (T1 & O1 & D1) end.
      { apply TOk_intro; auto. intros Hne. apply (proj2 Ex Hne). }
      split; [exact T1|]. split; [rewrite O1; reflexivity|]. rewrite D1. cbn [t_cont]. rewrite D0. reflexivity.
  Qed.

  Lemma sumT_map_eq f h : forall l, Forall (fun t => f (h t) = f t) l -> sumT f (map h l) = sumT f l.
  Proof. induction 1 as [|t l E _ IH]; cbn [map sumT]; [reflexivity|]. rewrite E, IH. reflexivity. Qed.

  Lemma normalize_Pre s : Pre s -> Pre (normalize g s).
  Proof.
    unfold Pre, normalize. cbn [c_torn c_rc c_threads]. intros P NT. destruct (P NT) as (E & F). clear P.
    assert (A : Forall (fun t => TOk (refill g (S (length (t_prog t))) t) /\
                                 owned (refill g (S (length (t_prog t))) t) = owned t /\
                                 debt (t_cont (refill g (S (length (t_prog t))) t)) = debt (t_cont t)) (c_threads s)).
    { eapply Forall_impl; [|exact F]. intros t T. apply refill_ok. exact T. }
    split.
    - rewrite (sumT_map_eq owned), (sumT_map_eq (fun t => debt (t_cont t))); [exact E| |].
      + eapply Forall_impl; [|exact A]. cbn beta. tauto.
      + eapply Forall_impl; [|exact A]. cbn beta. tauto.
    - apply Forall_map. eapply Forall_impl; [|exact A]. cbn beta. tauto.
  Qed.

  (* ---------------------------------------------------------------------------------------- *)
  (* all schedules: the states reachable by scheduled steps, whatever thread the scheduler asks for *)
  Inductive Reach (progs : list (list cop)) : cstate -> Prop :=
  | Reach_init : Reach progs (cinit g progs)
  | Reach_step s want s' tid evs : Reach progs s -> cstep g s want = Some (s', tid, evs) -> Reach progs s'.

  Lemma cstep_inv s want s' tid evs :
    cstep g s want = Some (s', tid, evs) ->
    exists t m rest, nth_error (c_threads s) tid = Some t /\ t_cont t = m :: rest /\
                     s' = normalize g (fst (exec_mop g s tid t m rest)) /\ evs = snd (exec_mop g s tid t m rest).
  Proof.
    unfold cstep. destruct (pick s want _ _) as [tid'|]; [|discriminate].
    destruct (nth_error (c_threads s) tid') as [t|] eqn:Et; [|discriminate].
    destruct (t_cont t) as [|m rest] eqn:Ec; [discriminate|].
    destruct (exec_mop g s tid' t m rest) as [s1 evs1] eqn:Ex. intros [= <- <- <-].
    exists t, m, rest. rewrite Ex. auto.
  Qed.

  (* teardown never ends *)
  Lemma exec_torn_stays s tid t m rest : c_torn s = true -> c_torn (fst (exec_mop g s tid t m rest)) = true.
  Proof.
    intros NT. destruct t as [regs prog cont out].
    destruct m as [p i rt first keep|p i off cand keep|delta after|h|r|r report|tb p i|p o]; cbn [exec_mop].
    + destruct (slot_lookup (c_slots s) (i :: p)); [|destruct (child_is_node g p i)]; cbn [fst upd_thread c_torn]; congruence.
    + destruct (slot_lookup (c_slots s) (i :: p)); cbn [fst upd_thread c_torn]; congruence.
    + cbn [fst upd_thread c_torn]; congruence.
    + cbn [fst upd_thread c_torn]; congruence.
    + destruct (reg_of _ r); cbn [fst upd_thread c_torn]; congruence.
    + destruct (reg_of _ r); [destruct (Z.eqb (c_rc s) 1)|]; cbn [fst upd_thread c_torn]; congruence.
    + rewrite NT. cbn [negb]. destruct (tear_slot_events g s tb p i) as [more evs]. cbn [fst upd_thread c_torn]. congruence.
    + destruct (match o with KSet _ v => _ | KTrySet _ v => _ | KGet _ => _ | KClear _ => _ | _ => _ end) as [[[d' dr] res] w].
      cbn [fst upd_thread c_torn]. congruence.
  Qed.

  Lemma exec_Pre s tid t m rest :
    nth_error (c_threads s) tid = Some t -> t_cont t = m :: rest -> Pre s -> Pre (fst (exec_mop g s tid t m rest)).
  Proof.
    intros Ht Hc P NT'.
    destruct (c_torn s) eqn:NT.
    - rewrite (exec_torn_stays s tid t m rest NT) in NT'. discriminate.
    - destruct (P NT) as (E & F). split.
      + apply (exec_rc_inv s tid t m rest Ht Hc); [intros _; exact E|exact NT|exact NT'].
      + apply exec_TOk; auto.
  Qed.

  Lemma cstep_Pre s want s' tid evs : Pre s -> cstep g s want = Some (s', tid, evs) -> Pre s'.
  Proof.
    intros P C. destruct (cstep_inv _ _ _ _ _ C) as (t & m & rest & Ht & Hc & -> & _).
    apply normalize_Pre. apply exec_Pre; auto.
  Qed.

  Lemma sumT_const_map {A} f (h : A -> thread) c : (forall a, f (h a) = c) -> forall l, sumT f (map h l) = Z.of_nat (length l) * c.
  Proof. intros E. induction l as [|a l IH]; cbn [map sumT length]; [lia|]. rewrite E, IH. lia. Qed.

  Lemma init_Pre progs : Pre (cinit g progs).
  Proof.
    unfold cinit. apply normalize_Pre. intros _. cbn [c_rc c_threads]. split.
    - rewrite (sumT_const_map owned _ 1), (sumT_const_map (fun t => debt (t_cont t)) _ 0); [lia| |]; intros a; reflexivity.
    - apply Forall_map. apply Forall_forall. intros pr _. apply TOk_intro; [exact Logic.I|intros m []|intros C; contradiction C; reflexivity].
  Qed.

  Theorem reach_Pre progs s : Reach progs s -> Pre s.
  Proof. induction 1 as [|s want s' tid evs _ IH C]; [apply init_Pre|eapply cstep_Pre; eauto]. Qed.

  (* a run of the machine only visits reachable states *)
  Lemma crun_reach progs : forall fuel s sched rr, Reach progs s -> Reach progs (fst (crun g fuel s sched rr)).
  Proof.
    induction fuel as [|f IH]; intros s sched rr R; cbn [crun]; [exact R|].
    destruct (all_done s); [exact R|].
    destruct (match sched with w :: r => (w, r) | [] => (rr, []) end) as [want sched'].
    destruct (cstep g s want) as [[[s' tid] evs]|] eqn:C; [|exact R].
    specialize (IH s' sched' (S tid) (Reach_step _ _ _ _ _ _ R C)).
    destruct (crun g f s' sched' (S tid)) as [sf tr]. exact IH.
  Qed.

  (* ---------------------------------------------------------------------------------------- *)
  (* never earlier: the step that starts the teardown is the drop of an owned handle that reads 1,
     and at that moment no other thread owns a handle or is inside an operation *)
  Lemma exec_torn_flip s tid t m rest :
    c_torn s = false -> c_torn (fst (exec_mop g s tid t m rest)) = true ->
    exists r b, m = MDropReg r b /\ c_rc s = 1 /\ reg_of t r <> None.
  Proof.
    intros NT. destruct t as [regs prog cont out].
    destruct m as [p i rt first keep|p i off cand keep|delta after|h|r|r report|tb p i|p o]; cbn [exec_mop].
    - destruct (slot_lookup (c_slots s) (i :: p)); [|destruct (child_is_node g p i)]; cbn [fst upd_thread c_torn]; congruence.
    - destruct (slot_lookup (c_slots s) (i :: p)); cbn [fst upd_thread c_torn]; congruence.
    - cbn [fst upd_thread c_torn]; congruence.
    - cbn [fst upd_thread c_torn]; congruence.
    - destruct (reg_of _ r); cbn [fst upd_thread c_torn]; congruence.
    - destruct (reg_of _ r) eqn:Er; [destruct (Z.eqb (c_rc s) 1) eqn:E1|]; cbn [fst upd_thread c_torn]; try congruence.
      intros _. exists r, report. split; [reflexivity|]. split; [apply Z.eqb_eq; exact E1|congruence].
    - rewrite NT. cbn [negb fst upd_thread c_torn]. congruence.
    - destruct (match o with KSet _ v => _ | KTrySet _ v => _ | KGet _ => _ | KClear _ => _ | _ => _ end) as [[[d' dr] res] w].
      cbn [fst upd_thread c_torn]. congruence.
  Qed.

  Definition weight (t : thread) : Z := owned t + debt (t_cont t).

  Lemma sumT_weight l : sumT weight l = sumT owned l + sumT (fun t => debt (t_cont t)) l.
  Proof. induction l as [|a l IH]; cbn [sumT]; [lia|]. unfold weight at 1. lia. Qed.

  Lemma sumT_nonneg f l : Forall (fun t => f t >= 0) l -> sumT f l >= 0.
  Proof. induction 1 as [|a l Ha _ IH]; cbn [sumT]; lia. Qed.

  Lemma sumT_ge_one f : forall l i t, Forall (fun t => f t >= 0) l -> nth_error l i = Some t -> sumT f l >= f t.
  Proof.
    induction l as [|a l IH]; intros [|i] t F E; try discriminate; inversion F as [|? ? Ha Fl]; subst; cbn [nth_error sumT] in *.
    - injection E as ->. assert (A := sumT_nonneg f l Fl). lia.
    - specialize (IH i t Fl E). lia.
  Qed.

  Lemma sumT_two f : forall l i j t x, Forall (fun t => f t >= 0) l -> i <> j ->
    nth_error l i = Some t -> nth_error l j = Some x -> sumT f l >= f t + f x.
  Proof.
    induction l as [|a l IH]; intros i j t x F Hij Ei Ej; [destruct i; discriminate|].
    inversion F as [|? ? Ha Fl]; subst.
    destruct i as [|i], j as [|j]; cbn [nth_error sumT] in *.
    - contradiction Hij; reflexivity.
    - injection Ei as ->. assert (A := sumT_ge_one f l j x Fl Ej). lia.
    - injection Ej as ->. assert (A := sumT_ge_one f l i t Fl Ei). lia.
    - assert (H : i <> j) by congruence. specialize (IH i j t x Fl H Ei Ej). lia.
  Qed.

  (* the step that starts the teardown, seen from the state before it *)
  Lemma flip_alone s tid t r b rest :
    Pre s -> c_torn s = false -> nth_error (c_threads s) tid = Some t -> t_cont t = MDropReg r b :: rest ->
    reg_of t r <> None -> c_rc s = 1 ->
    rest = [] /\ owned t = 1 /\
    (forall j x, j <> tid -> nth_error (c_threads s) j = Some x -> owned x = 0 /\ t_cont x = []).
  Proof.
    intros P NT Ht Hc Hr E1. destruct (P NT) as (E & F).
    assert (W : Forall (fun t => weight t >= 0) (c_threads s)).
    { eapply Forall_impl; [|exact F]. intros x (Hnn & _ & _). unfold weight. assert (A := owned_nonneg x). assert (B := NN_debt _ Hnn). lia. }
    assert (Ot : owned t >= 1) by (destruct (reg_of t r) eqn:Er; [eapply reg_of_owned; eauto|congruence]).
    destruct (nth_error_Forall _ _ _ _ F Ht) as (Hnn & Hda & _).
    assert (Dt : debt (t_cont t) >= 0) by (apply NN_debt; exact Hnn).
    rewrite <- sumT_weight in E.
    assert (Others : forall j x, j <> tid -> nth_error (c_threads s) j = Some x -> weight x = 0 /\ weight t = 1).
    { intros j x Hj Ex. assert (A := sumT_two weight _ tid j t x W (not_eq_sym Hj) Ht Ex).
      assert (B := nth_error_Forall _ _ _ _ W Ex). cbn beta in B. unfold weight in *. lia. }
    split; [|split].
    - rewrite Hc in Hda. assert (Ed := Hda (MDropReg r b) (or_introl eq_refl) eq_refl). injection Ed as ->. reflexivity.
    - assert (A := sumT_ge_one weight _ tid t W Ht). unfold weight in *. lia.
    - intros j x Hj Ex. destruct (Others j x Hj Ex) as (Wx & _).
      destruct (nth_error_Forall _ _ _ _ F Ex) as (Hnx & _ & Hbusy).
      assert (A := owned_nonneg x). assert (B := NN_debt _ Hnx). unfold weight in Wx.
      split; [lia|]. destruct (t_cont x) as [|mm rr] eqn:Ecx; [reflexivity|].
      assert (owned x >= 1) by (apply Hbusy; discriminate). lia.
  Qed.

  Theorem teardown_alone progs s want s' tid evs :
    Reach progs s -> c_torn s = false -> cstep g s want = Some (s', tid, evs) -> c_torn s' = true ->
    c_rc s = 1 /\
    (exists t, nth_error (c_threads s) tid = Some t /\ owned t = 1) /\
    (forall j x, j <> tid -> nth_error (c_threads s) j = Some x -> owned x = 0 /\ t_cont x = []).
  Proof.
    intros R NT C T'. assert (P := reach_Pre _ _ R).
    destruct (cstep_inv _ _ _ _ _ C) as (t & m & rest & Ht & Hc & -> & _).
    unfold normalize in T'. cbn [c_torn] in T'.
    destruct (exec_torn_flip s tid t m rest NT T') as (r & b & -> & E1 & Hr).
    destruct (flip_alone s tid t r b rest P NT Ht Hc Hr E1) as (_ & O1 & Oth).
    split; [exact E1|]. split; [exists t; auto|exact Oth].
  Qed.
End ConcProofs.
