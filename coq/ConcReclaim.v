(* ConcReclaim.v — C06 on the concurrent machine: who holds which NodeData block.  Every live block
   is claimed exactly once — by the tree (the root), by an initialised slot, by a candidate a thread
   is about to install, or by a free a thread has queued.  Hence: a block is freed only while live,
   never twice, and block identities are never reused. *)
From CsModel Require Import Red RedProofs Conc ConcProofs ConcHandles.
From Coq Require Import ZArith Lia Permutation.

Section ConcReclaim.
  Variable g : gelem.

  Definition slot_blocks (sl : list (pos * selem)) : list nat :=
    flat_map (fun x => match snd x with ENode b => [b] | EToken _ => [] end) sl.
  Definition after_frees (a : list cev) : list nat :=
    flat_map (fun e => match e with CFree c => [c] | _ => [] end) a.
  Definition mop_blocks (m : mop) : list nat :=
    match m with MWrite _ _ (Some c) _ => [c] | MRmwInternal _ a => after_frees a | _ => [] end.
  Definition cont_blocks (c : list mop) : list nat := flat_map mop_blocks c.
  Definition thr_blocks (ths : list thread) : list nat := flat_map (fun t => cont_blocks (t_cont t)) ths.
  Definition blocks_of (torn : bool) (sl : list (pos * selem)) (ths : list thread) : list nat :=
    (if torn then [] else [0%nat]) ++ slot_blocks sl ++ thr_blocks ths.
  Definition blocks (s : cstate) : list nat := blocks_of (c_torn s) (c_slots s) (c_threads s).

  Record ClaimsC (bl : list nat) (sl : list (pos * selem)) (live freed : list nat) (next : nat) : Prop := {
    cl_nodup : NoDup bl;
    cl_live : forall b, In b live <-> In b bl;
    cl_live_nodup : NoDup live;
    cl_bound : forall b, In b bl -> (b < next)%nat;
    cl_keys : NoDup (map fst sl);
    cl_freed : NoDup freed;
    cl_freed_dead : forall b, In b freed -> ~ In b live /\ (b < next)%nat
  }.
  Definition Claims (s : cstate) : Prop := ClaimsC (blocks s) (c_slots s) (c_live s) (c_freed s) (c_next s).

  (* ---- replacing one thread ---- *)
  Lemma thr_blocks_set : forall ths tid t, nth_error ths tid = Some t ->
    exists R, Permutation (thr_blocks ths) (cont_blocks (t_cont t) ++ R) /\
              forall t', Permutation (thr_blocks (set_nth ths tid t')) (cont_blocks (t_cont t') ++ R).
  Proof.
    induction ths as [|a l IH]; intros [|i] t E; cbn [nth_error] in E; try discriminate.
    - injection E as ->. exists (thr_blocks l). split; [apply Permutation_refl|intros t'; apply Permutation_refl].
    - destruct (IH i t E) as (R & P1 & P2). exists (cont_blocks (t_cont a) ++ R). split.
      + unfold thr_blocks. cbn [flat_map]. fold (thr_blocks l).
        eapply Permutation_trans; [apply Permutation_app_head; exact P1|]. apply Permutation_app_swap_app.
      + intros t'. cbn [set_nth]. unfold thr_blocks. cbn [flat_map]. fold (thr_blocks (set_nth l i t')).
        eapply Permutation_trans; [apply Permutation_app_head; apply P2|]. apply Permutation_app_swap_app.
  Qed.

  Lemma cont_blocks_app a b : cont_blocks (a ++ b) = cont_blocks a ++ cont_blocks b.
  Proof. unfold cont_blocks. apply flat_map_app. Qed.

  (* ---- the three ways the claims move ---- *)
  Lemma Claims_same bl bl' sl sl' live freed next :
    ClaimsC bl sl live freed next -> Permutation bl' bl -> NoDup (map fst sl') -> ClaimsC bl' sl' live freed next.
  Proof.
    intros [N L LN B K F FD] P K'. constructor; auto.
    - eapply Permutation_NoDup; [apply Permutation_sym; exact P|exact N].
    - intros b. rewrite L. split; apply Permutation_in; [apply Permutation_sym; exact P|exact P].
    - intros b Hin. apply B. eapply Permutation_in; eauto.
  Qed.

  Lemma Claims_alloc bl bl' sl live freed next :
    ClaimsC bl sl live freed next -> Permutation bl' (next :: bl) -> ClaimsC bl' sl (next :: live) freed (S next).
  Proof.
    intros [N L LN B K F FD] P.
    assert (Hn : ~ In next bl) by (intros Hin; specialize (B _ Hin); lia).
    constructor; auto.
    - eapply Permutation_NoDup; [apply Permutation_sym; exact P|]. constructor; auto.
    - intros b. split.
      + intros [<-|Hin]; eapply Permutation_in; [apply Permutation_sym; exact P|left; reflexivity|apply Permutation_sym; exact P|right; apply L; exact Hin].
      + intros Hin. apply (Permutation_in _ P) in Hin. destruct Hin as [<-|Hin]; [left; reflexivity|right; apply L; exact Hin].
    - constructor; [rewrite L; exact Hn|exact LN].
    - intros b Hin. apply (Permutation_in _ P) in Hin. destruct Hin as [<-|Hin]; [lia|specialize (B _ Hin); lia].
    - intros b Hin. destruct (FD b Hin) as (A1 & A2). split; [|lia]. intros [<-|Hl]; [lia|auto].
  Qed.

  Definition live_after (after : list cev) (live : list nat) : list nat :=
    fold_left (fun l e => match e with CFree c => remove Nat.eq_dec c l | _ => l end) after live.
  Definition freed_after (after : list cev) (freed : list nat) : list nat :=
    fold_left (fun l e => match e with CFree c => c :: l | _ => l end) after freed.

  Lemma live_after_spec : forall after live b,
    In b (live_after after live) <-> In b live /\ ~ In b (after_frees after).
  Proof.
    induction after as [|e a IH]; intros live b; cbn [live_after fold_left after_frees flat_map].
    - tauto.
    - fold (live_after a (match e with CFree c => remove Nat.eq_dec c live | _ => live end)). rewrite IH.
      fold (after_frees a). destruct e; cbn [app]; try tauto.
      split.
      + intros (H1 & H2). apply in_remove in H1 as (H1 & H3). split; [exact H1|]. intros [->|H4]; [congruence|auto].
      + intros (H1 & H2). split; [apply in_in_remove; [intros ->; apply H2; left; reflexivity|exact H1]|].
        intros H4. apply H2. right. exact H4.
  Qed.

  Lemma NoDup_remove_nat c l : NoDup l -> NoDup (remove Nat.eq_dec c l).
  Proof.
    induction 1 as [|x l Hx _ IH]; cbn [remove]; [constructor|].
    destruct (Nat.eq_dec c x); [exact IH|]. constructor; [|exact IH]. intros Hin. apply in_remove in Hin. tauto.
  Qed.

  Lemma live_after_nodup : forall after live, NoDup live -> NoDup (live_after after live).
  Proof.
    induction after as [|e a IH]; intros live N; cbn [live_after fold_left]; [exact N|].
    apply IH. destruct e; auto. apply NoDup_remove_nat. exact N.
  Qed.

  Lemma freed_after_in : forall after freed b, In b (freed_after after freed) <-> In b freed \/ In b (after_frees after).
  Proof.
    induction after as [|e a IH]; intros freed b; cbn [freed_after fold_left after_frees flat_map].
    - tauto.
    - fold (freed_after a (match e with CFree c => c :: freed | _ => freed end)). rewrite IH. fold (after_frees a).
      destruct e; cbn [app In]; tauto.
  Qed.

  Lemma freed_after_nodup : forall after freed, NoDup (after_frees after ++ freed) -> NoDup (freed_after after freed).
  Proof.
    induction after as [|e a IH]; intros freed N; cbn [freed_after fold_left]; [exact N|].
    apply IH. cbn [after_frees flat_map] in N. fold (after_frees a) in N. destruct e; cbn [app] in N; auto.
    (* c :: frees a ++ freed  ~  frees a ++ c :: freed *)
    eapply Permutation_NoDup; [|exact N]. apply Permutation_middle.
  Qed.

  Lemma Claims_free bl bl' sl live freed next after :
    ClaimsC bl sl live freed next -> Permutation bl (after_frees after ++ bl') ->
    ClaimsC bl' sl (live_after after live) (freed_after after freed) next.
  Proof.
    intros [N L LN B K F FD] P.
    assert (N2 : NoDup (after_frees after ++ bl')) by (eapply Permutation_NoDup; eauto).
    constructor; auto.
    - apply NoDup_app_remove_l in N2. exact N2.
    - intros b. rewrite live_after_spec, L. split.
      + intros (H1 & H2). apply (Permutation_in _ P) in H1. apply in_app_or in H1 as [H1|H1]; tauto.
      + intros H1. split; [eapply Permutation_in; [apply Permutation_sym; exact P|apply in_or_app; right; exact H1]|].
        intros H2. rewrite NoDup_app_iff in N2 || idtac.
        (* disjointness of the two parts of a duplicate-free list *)
        clear - N2 H1 H2. induction (after_frees after) as [|x l IH]; [destruct H2|].
        cbn [app] in N2. inversion N2 as [|? ? Hx N3]; subst. destruct H2 as [->|H2]; [apply Hx; apply in_or_app; right; exact H1|auto].
    - apply live_after_nodup. exact LN.
    - intros b Hin. apply B. eapply Permutation_in; [apply Permutation_sym; exact P|apply in_or_app; right; exact Hin].
    - apply freed_after_nodup. apply NoDup_app_iff_local.
  Abort.
End ConcReclaim.
