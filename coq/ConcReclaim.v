(* ConcReclaim.v — C06 on the concurrent machine: who holds which NodeData block.  Every live block
   is claimed exactly once — by the tree (the root), by an initialised slot, by a candidate a thread
   is about to install, or by a free a thread has queued.  Hence: a block is freed only while live,
   never twice, and block identities are never reused. *)
From CsModel Require Import Red RedProofs Conc ConcProofs ConcHandles.
From Coq Require Import ZArith Lia Permutation.

Section ConcReclaim.
  Variable g : gelem.

  Definition slot_blocks (sl : list (pos * selem)) : list nat :=
    flat_map (fun x => match snd x with ENode b => [b] | EToken _ => [] end) sl.
  Definition after_frees (a : list cev) : list nat :=
    flat_map (fun e => match e with CFree c => [c] | _ => [] end) a.
  Definition mop_blocks (m : mop) : list nat :=
    match m with MWrite _ _ _ (Some c) _ => [c] | MRmwInternal _ a => after_frees a | _ => [] end.
  Definition cont_blocks (c : list mop) : list nat := flat_map mop_blocks c.
  Definition thr_blocks (ths : list thread) : list nat := flat_map (fun t => cont_blocks (t_cont t)) ths.
  Definition blocks_of (torn : bool) (sl : list (pos * selem)) (ths : list thread) : list nat :=
    (if torn then [] else [0%nat]) ++ slot_blocks sl ++ thr_blocks ths.
  Definition blocks (s : cstate) : list nat := blocks_of (c_torn s) (c_slots s) (c_threads s).

  Record ClaimsC (bl : list nat) (sl : list (pos * selem)) (live freed : list nat) (next : nat) : Prop := {
    cl_nodup : NoDup bl;
    cl_live : forall b, In b live <-> In b bl;
    cl_live_nodup : NoDup live;
    cl_bound : forall b, In b bl -> (b < next)%nat;
    cl_keys : NoDup (map fst sl);
    cl_freed : NoDup freed;
    cl_freed_dead : forall b, In b freed -> ~ In b live /\ (b < next)%nat
  }.
  Definition Claims (s : cstate) : Prop := ClaimsC (blocks s) (c_slots s) (c_live s) (c_freed s) (c_next s).

  (* ---- replacing one thread ---- *)
  Lemma thr_blocks_set : forall ths tid t, nth_error ths tid = Some t ->
    exists R, Permutation (thr_blocks ths) (cont_blocks (t_cont t) ++ R) /\
              forall t', Permutation (thr_blocks (set_nth ths tid t')) (cont_blocks (t_cont t') ++ R).
  Proof.
    induction ths as [|a l IH]; intros [|i] t E; cbn [nth_error] in E; try discriminate.
    - injection E as ->. exists (thr_blocks l). split; [apply Permutation_refl|intros t'; apply Permutation_refl].
    - destruct (IH i t E) as (R & P1 & P2). exists (cont_blocks (t_cont a) ++ R). split.
      + unfold thr_blocks. cbn [flat_map]. fold (thr_blocks l).
        eapply Permutation_trans; [apply Permutation_app_head; exact P1|]. apply Permutation_app_swap_app.
      + intros t'. cbn [set_nth]. unfold thr_blocks. cbn [flat_map]. fold (thr_blocks (set_nth l i t')).
        eapply Permutation_trans; [apply Permutation_app_head; apply P2|]. apply Permutation_app_swap_app.
  Qed.

  Lemma cont_blocks_app a b : cont_blocks (a ++ b) = cont_blocks a ++ cont_blocks b.
  Proof. unfold cont_blocks. apply flat_map_app. Qed.

  (* ---- the three ways the claims move ---- *)
  Lemma Claims_same bl bl' sl sl' live freed next :
    ClaimsC bl sl live freed next -> Permutation bl' bl -> NoDup (map fst sl') -> ClaimsC bl' sl' live freed next.
  Proof.
    intros [N L LN B K F FD] P K'. constructor; auto.
    - eapply Permutation_NoDup; [apply Permutation_sym; exact P|exact N].
    - intros b. rewrite L. split; apply Permutation_in; [apply Permutation_sym; exact P|exact P].
    - intros b Hin. apply B. eapply Permutation_in; eauto.
  Qed.

  Lemma Claims_alloc bl bl' sl live freed next :
    ClaimsC bl sl live freed next -> Permutation bl' (next :: bl) -> ClaimsC bl' sl (next :: live) freed (S next).
  Proof.
    intros [N L LN B K F FD] P.
    assert (Hn : ~ In next bl) by (intros Hin; specialize (B _ Hin); lia).
    constructor; auto.
    - eapply Permutation_NoDup; [apply Permutation_sym; exact P|]. constructor; auto.
    - intros b. split.
      + intros [<-|Hin]; eapply Permutation_in; [apply Permutation_sym; exact P|left; reflexivity|apply Permutation_sym; exact P|right; apply L; exact Hin].
      + intros Hin. apply (Permutation_in _ P) in Hin. destruct Hin as [<-|Hin]; [left; reflexivity|right; apply L; exact Hin].
    - constructor; [rewrite L; exact Hn|exact LN].
    - intros b Hin. apply (Permutation_in _ P) in Hin. destruct Hin as [<-|Hin]; [lia|specialize (B _ Hin); lia].
    - intros b Hin. destruct (FD b Hin) as (A1 & A2). split; [|lia]. intros [<-|Hl]; [lia|auto].
  Qed.

  Definition live_after (after : list cev) (live : list nat) : list nat :=
    fold_left (fun l e => match e with CFree c => remove Nat.eq_dec c l | _ => l end) after live.
  Definition freed_after (after : list cev) (freed : list nat) : list nat :=
    fold_left (fun l e => match e with CFree c => c :: l | _ => l end) after freed.

  Lemma live_after_spec : forall after live b,
    In b (live_after after live) <-> In b live /\ ~ In b (after_frees after).
  Proof.
    induction after as [|e a IH]; intros live b; cbn [live_after fold_left after_frees flat_map].
    - cbn [In]. tauto.
    - fold (live_after a (match e with CFree c => remove Nat.eq_dec c live | _ => live end)). rewrite IH.
      fold (after_frees a). destruct e; cbn [app]; try tauto.
      split.
      + intros (H1 & H2). apply in_remove in H1 as (H1 & H3). split; [exact H1|]. intros [->|H4]; [congruence|auto].
      + intros (H1 & H2). split; [apply in_in_remove; [intros ->; apply H2; left; reflexivity|exact H1]|].
        intros H4. apply H2. right. exact H4.
  Qed.

  Lemma NoDup_remove_nat c l : NoDup l -> NoDup (remove Nat.eq_dec c l).
  Proof.
    induction 1 as [|x l Hx _ IH]; cbn [remove]; [constructor|].
    destruct (Nat.eq_dec c x); [exact IH|]. constructor; [|exact IH]. intros Hin. apply in_remove in Hin. tauto.
  Qed.

  Lemma live_after_nodup : forall after live, NoDup live -> NoDup (live_after after live).
  Proof.
    induction after as [|e a IH]; intros live N; cbn [live_after fold_left]; [exact N|].
    apply IH. destruct e; auto. apply NoDup_remove_nat. exact N.
  Qed.

  Lemma freed_after_in : forall after freed b, In b (freed_after after freed) <-> In b freed \/ In b (after_frees after).
  Proof.
    induction after as [|e a IH]; intros freed b; cbn [freed_after fold_left after_frees flat_map].
    - cbn [In]. tauto.
    - fold (freed_after a (match e with CFree c => c :: freed | _ => freed end)). rewrite IH. fold (after_frees a).
      destruct e; cbn [app In]; tauto.
  Qed.

  Lemma freed_after_nodup : forall after freed, NoDup (after_frees after ++ freed) -> NoDup (freed_after after freed).
  Proof.
    induction after as [|e a IH]; intros freed N; cbn [freed_after fold_left]; [exact N|].
    apply IH. cbn [after_frees flat_map] in N. fold (after_frees a) in N. destruct e; cbn [app] in N; auto.
    (* c :: frees a ++ freed  ~  frees a ++ c :: freed *)
    eapply Permutation_NoDup; [|exact N]. apply Permutation_middle.
  Qed.

  Lemma NoDup_app_inv {A} (a b : list A) : NoDup (a ++ b) -> NoDup a /\ NoDup b /\ (forall x, In x a -> ~ In x b).
  Proof.
    induction a as [|x a IH]; cbn [app]; intros N.
    - split; [constructor|]. split; [exact N|]. intros x [].
    - inversion N as [|? ? Hx N2]; subst. destruct (IH N2) as (Na & Nb & D). split; [|split; [exact Nb|]].
      + constructor; [|exact Na]. intros Hin. apply Hx. apply in_or_app. left. exact Hin.
      + intros y [<-|Hy]; [intros Hb; apply Hx; apply in_or_app; right; exact Hb|apply D; exact Hy].
  Qed.

  Lemma Claims_free bl bl' sl live freed next after :
    ClaimsC bl sl live freed next -> Permutation bl (after_frees after ++ bl') ->
    ClaimsC bl' sl (live_after after live) (freed_after after freed) next.
  Proof.
    intros [N L LN B K F FD] P.
    assert (N2 : NoDup (after_frees after ++ bl')) by (eapply Permutation_NoDup; eauto).
    destruct (NoDup_app_inv _ _ N2) as (Nf & Nb & D).
    assert (Fin : forall b, In b (after_frees after) -> In b bl).
    { intros b Hin. eapply Permutation_in; [apply Permutation_sym; exact P|apply in_or_app; left; exact Hin]. }
    constructor; auto.
    - intros b. rewrite live_after_spec, L. split.
      + intros (H1 & H2). apply (Permutation_in _ P) in H1. apply in_app_or in H1 as [H1|H1]; tauto.
      + intros H1. split; [eapply Permutation_in; [apply Permutation_sym; exact P|apply in_or_app; right; exact H1]|].
        intros H2. exact (D b H2 H1).
    - apply live_after_nodup. exact LN.
    - intros b Hin. apply B. eapply Permutation_in; [apply Permutation_sym; exact P|apply in_or_app; right; exact Hin].
    - apply freed_after_nodup. clear - Nf F FD Fin L.
      induction (after_frees after) as [|x l IH]; [exact F|]. cbn [app]. inversion Nf as [|? ? Hx Nl]; subst.
      constructor.
      + intros Hin. apply in_app_or in Hin as [Hin|Hin]; [contradiction|].
        destruct (FD x Hin) as (A1 & _). apply A1. apply L. apply Fin. left. reflexivity.
      + apply IH; [exact Nl|]. intros b Hb. apply Fin. right. exact Hb.
    - intros b Hin. apply freed_after_in in Hin as [Hin|Hin].
      + destruct (FD b Hin) as (A1 & A2). split; [|exact A2]. intros H. apply live_after_spec in H. tauto.
      + split; [intros H; apply live_after_spec in H; tauto|]. apply B. apply Fin. exact Hin.
  Qed.

  (* ---- slots ---- *)
  Lemma slot_lookup_none_keys sl p : slot_lookup sl p = None <-> ~ In p (map fst sl).
  Proof.
    induction sl as [|[q e] r IH]; cbn [slot_lookup map fst In]; [tauto|].
    destruct (pos_eqb q p) eqn:E.
    - apply pos_eqb_eq in E. subst q. split; [discriminate|intros H; contradiction H; left; reflexivity].
    - rewrite IH. split; [intros H [->|H2]; [rewrite pos_eqb_refl in E; discriminate|auto]|intros H H2; apply H; right; exact H2].
  Qed.

  Lemma slot_lookup_none_keys_contra sl p e : slot_lookup sl p = Some e -> In p (map fst sl).
  Proof.
    intros L. destruct (in_dec (list_eq_dec Nat.eq_dec) p (map fst sl)) as [H|H]; [exact H|].
    apply slot_lookup_none_keys in H. congruence.
  Qed.

  Lemma slot_remove_absent sl x : slot_lookup sl x = None -> slot_remove sl x = sl.
  Proof.
    induction sl as [|[q e] r IH]; cbn [slot_lookup slot_remove]; [reflexivity|].
    destruct (pos_eqb q x); [discriminate|]. intros H. rewrite (IH H). reflexivity.
  Qed.

  Lemma slot_remove_keys sl x p : In p (map fst (slot_remove sl x)) -> In p (map fst sl) /\ p <> x.
  Proof.
    induction sl as [|[q e] r IH]; cbn [slot_remove map fst In]; [tauto|].
    destruct (pos_eqb q x) eqn:E.
    - intros H. destruct (IH H). tauto.
    - cbn [map fst In]. intros [->|H]; [split; [left; reflexivity|intros ->; rewrite pos_eqb_refl in E; discriminate]|destruct (IH H); tauto].
  Qed.

  Lemma slot_remove_nodup sl x : NoDup (map fst sl) -> NoDup (map fst (slot_remove sl x)).
  Proof.
    induction sl as [|[q e] r IH]; cbn [slot_remove map fst]; [auto|]. intros N. inversion N as [|? ? Hq Nr]; subst.
    destruct (pos_eqb q x); [auto|]. cbn [map fst]. constructor; [|auto]. intros H. apply slot_remove_keys in H. tauto.
  Qed.

  Definition elem_blocks (e : selem) : list nat := match e with ENode b => [b] | EToken _ => [] end.

  Lemma slot_blocks_remove sl x e : NoDup (map fst sl) -> slot_lookup sl x = Some e ->
    Permutation (slot_blocks sl) (elem_blocks e ++ slot_blocks (slot_remove sl x)).
  Proof.
    induction sl as [|[q e'] r IH]; cbn [slot_lookup slot_remove map fst]; [discriminate|].
    intros N L. inversion N as [|? ? Hq Nr]; subst. unfold slot_blocks. cbn [flat_map snd]. fold (slot_blocks r).
    destruct (pos_eqb q x) eqn:E.
    - injection L as ->. apply pos_eqb_eq in E. subst q.
      rewrite (slot_remove_absent r x); [apply Permutation_refl|]. apply slot_lookup_none_keys. exact Hq.
    - cbn [flat_map snd]. fold (slot_blocks (slot_remove r x)). fold (elem_blocks e').
      eapply Permutation_trans; [apply Permutation_app_head; apply (IH Nr L)|]. apply Permutation_app_swap_app.
  Qed.

  Lemma slot_lookup_remove_same sl x : slot_lookup (slot_remove sl x) x = None.
  Proof.
    induction sl as [|[q e] r IH]; cbn [slot_remove slot_lookup]; [reflexivity|].
    destruct (pos_eqb q x) eqn:E; [exact IH|]. cbn [slot_lookup]. rewrite E. exact IH.
  Qed.

  Lemma slot_lookup_remove_other sl x p : p <> x -> slot_lookup (slot_remove sl x) p = slot_lookup sl p.
  Proof.
    intros Hne. induction sl as [|[q e] r IH]; cbn [slot_remove slot_lookup]; [reflexivity|].
    destruct (pos_eqb q x) eqn:E.
    - apply pos_eqb_eq in E. subst q. destruct (pos_eqb x p) eqn:E2; [apply pos_eqb_eq in E2; congruence|exact IH].
    - cbn [slot_lookup]. rewrite IH. reflexivity.
  Qed.

  Lemma cont_blocks_tear_node b p : cont_blocks (tear_node g b p) = [].
  Proof. unfold tear_node. induction (seq 0 (length (kids g p))) as [|i r IH]; cbn; [reflexivity|exact IH]. Qed.

  Lemma perm_move {A} (a b x : list A) c : Permutation (a ++ b ++ c :: x) (c :: a ++ b ++ x).
  Proof. rewrite !app_assoc. apply Permutation_sym, Permutation_middle. Qed.

  Lemma perm_front {A} (a b f x : list A) : Permutation (a ++ b ++ f ++ x) (f ++ a ++ b ++ x).
  Proof.
    rewrite !app_assoc. apply Permutation_app_tail. rewrite <- (app_assoc f a b). apply Permutation_app_comm.
  Qed.

  (* ---- every step preserves the claims ---- *)
  Theorem exec_Claims s tid t m rest :
    nth_error (c_threads s) tid = Some t -> t_cont t = m :: rest ->
    (c_torn s = true -> is_dropreg m = false) ->      (* no handle is left to drop once the teardown runs *)
    Claims s -> Claims (fst (exec_mop g s tid t m rest)).
  Proof.
    intros Ht Hc TornOk C. destruct (thr_blocks_set _ _ _ Ht) as (R & P1 & P2).
    assert (K := cl_keys _ _ _ _ _ C).
    destruct t as [regs prog cont out]. cbn [t_cont] in Hc, P1. subst cont.
    unfold Claims, blocks in *.
    (* the blocks of the state after the step, with the stepping thread's share in front *)
    assert (PB : forall torn sl t', Permutation (blocks_of torn sl (set_nth (c_threads s) tid t'))
                                               ((if torn then [] else [0%nat]) ++ slot_blocks sl ++ cont_blocks (t_cont t') ++ R)).
    { intros torn sl t'. unfold blocks_of. do 2 apply Permutation_app_head. apply P2. }
    assert (PA : Permutation (blocks_of (c_torn s) (c_slots s) (c_threads s))
                             ((if c_torn s then [] else [0%nat]) ++ slot_blocks (c_slots s) ++ cont_blocks (m :: rest) ++ R)).
    { unfold blocks_of. do 2 apply Permutation_app_head. exact P1. }
    destruct m as [p i rt first keep|p i off cand keep|delta after|h|r|r report|tb p i|p o]; cbn [exec_mop].
    - (* MRead *)
      destruct (slot_lookup (c_slots s) (i :: p)) as [e|] eqn:L; [|destruct (child_is_node g p i)];
        cbn [fst upd_thread c_torn c_slots c_live c_freed c_next c_threads].
      + eapply Claims_same; [exact C| |exact K].
        eapply Permutation_trans; [apply PB|]. eapply Permutation_trans; [|apply Permutation_sym; exact PA].
        destruct keep; apply Permutation_refl.
      + eapply Claims_alloc; [exact C|].
        eapply Permutation_trans; [apply PB|]. cbn [t_cont cont_blocks flat_map mop_blocks app].
        eapply Permutation_trans; [|apply perm_skip; apply Permutation_sym; exact PA].
        cbn [cont_blocks flat_map mop_blocks app]. apply perm_move.
      + eapply Claims_same; [exact C| |exact K].
        eapply Permutation_trans; [apply PB|]. eapply Permutation_trans; [|apply Permutation_sym; exact PA]. apply Permutation_refl.
    - (* MWrite *)
      destruct (slot_lookup (c_slots s) (i :: p)) as [e|] eqn:L;
        cbn [fst upd_thread c_torn c_slots c_live c_freed c_next c_threads].
      + (* loser: the candidate moves into the queued free *)
        eapply Claims_same; [exact C| |exact K].
        eapply Permutation_trans; [apply PB|]. eapply Permutation_trans; [|apply Permutation_sym; exact PA].
        cbn [t_cont]. rewrite cont_blocks_app. destruct cand; apply Permutation_refl.
      + (* winner: the candidate moves into the slot *)
        eapply Claims_same; [exact C| |].
        * eapply Permutation_trans; [apply PB|]. eapply Permutation_trans; [|apply Permutation_sym; exact PA].
          unfold slot_blocks at 1. cbn [flat_map snd t_cont cont_blocks mop_blocks app]. fold (slot_blocks (c_slots s)).
          destruct cand as [c|]; cbn [app]; [|apply Permutation_refl].
          apply Permutation_app_head. apply (Permutation_middle (slot_blocks (c_slots s))).
        * cbn [map fst]. constructor; [apply slot_lookup_none_keys; exact L|exact K].
    - (* MRmwInternal *)
      cbn [fst upd_thread c_torn c_slots c_live c_freed c_next c_threads].
      eapply Claims_free; [exact C|].
      eapply Permutation_trans; [exact PA|]. eapply Permutation_trans; [|apply Permutation_app_head; apply Permutation_sym; apply PB].
      cbn [t_cont cont_blocks flat_map mop_blocks]. fold (cont_blocks rest).
      rewrite <- app_assoc. apply perm_front.
    - (* MCloneResult *)
      cbn [fst upd_thread c_torn c_slots c_live c_freed c_next c_threads].
      eapply Claims_same; [exact C| |exact K].
      eapply Permutation_trans; [apply PB|]. eapply Permutation_trans; [|apply Permutation_sym; exact PA]. apply Permutation_refl.
    - (* MCloneReg *)
      destruct (reg_of _ r); cbn [fst upd_thread c_torn c_slots c_live c_freed c_next c_threads];
        (eapply Claims_same; [exact C| |exact K]);
        (eapply Permutation_trans; [apply PB|]; eapply Permutation_trans; [|apply Permutation_sym; exact PA]; apply Permutation_refl).
    - (* MDropReg *)
      destruct (reg_of _ r); [destruct (Z.eqb (c_rc s) 1)|];
        cbn [fst upd_thread c_torn c_slots c_live c_freed c_next c_threads].
      + (* the teardown starts: the root's block is claimed by the queued free from now on *)
        destruct (c_torn s) eqn:NT; [specialize (TornOk eq_refl); discriminate|].
        eapply Claims_same; [exact C| |exact K].
        eapply Permutation_trans; [apply PB|]. eapply Permutation_trans; [|apply Permutation_sym; exact PA].
        cbn [t_cont t_regs t_prog t_out]. rewrite !cont_blocks_app, cont_blocks_tear_node.
        cbn [cont_blocks flat_map mop_blocks after_frees app].
        apply Permutation_sym. apply (Permutation_middle (slot_blocks (c_slots s))).
      + eapply Claims_same; [exact C| |exact K].
        eapply Permutation_trans; [apply PB|]. eapply Permutation_trans; [|apply Permutation_sym; exact PA]. apply Permutation_refl.
      + eapply Claims_same; [exact C| |exact K].
        eapply Permutation_trans; [apply PB|]. eapply Permutation_trans; [|apply Permutation_sym; exact PA]. apply Permutation_refl.
    - (* MTearSlot *)
      destruct (negb (c_torn s)) eqn:NT; cbn [fst upd_thread c_torn c_slots c_live c_freed c_next c_threads].
      + eapply Claims_same; [exact C| |exact K].
        eapply Permutation_trans; [apply PB|]. eapply Permutation_trans; [|apply Permutation_sym; exact PA]. apply Permutation_refl.
      + unfold tear_slot_events.
        destruct (slot_lookup (c_slots s) (i :: p)) as [[b|pb]|] eqn:L;
          cbn [fst upd_thread c_torn c_slots c_live c_freed c_next c_threads];
          (eapply Claims_same; [exact C| |apply slot_remove_nodup; exact K]);
          (eapply Permutation_trans; [apply PB|]; eapply Permutation_trans; [|apply Permutation_sym; exact PA]);
          cbn [t_cont]; rewrite ?cont_blocks_app, ?cont_blocks_tear_node;
          cbn [cont_blocks flat_map mop_blocks after_frees app]; apply Permutation_app_head.
        * (* a node: its block moves from the slot into the queued free *)
          eapply Permutation_trans; [|apply Permutation_app_tail; apply Permutation_sym; apply (slot_blocks_remove _ _ _ K L)].
          cbn [elem_blocks app]. apply Permutation_sym. apply (Permutation_middle (slot_blocks (slot_remove (c_slots s) (i :: p)))).
        * eapply Permutation_trans; [|apply Permutation_app_tail; apply Permutation_sym; apply (slot_blocks_remove _ _ _ K L)].
          apply Permutation_refl.
        * rewrite (slot_remove_absent _ _ L). apply Permutation_refl.
    - (* MData *)
      destruct (match o with KSet _ v => _ | KTrySet _ v => _ | KGet _ => _ | KClear _ => _ | _ => _ end) as [[[d' dr] res] w].
      cbn [fst upd_thread c_torn c_slots c_live c_freed c_next c_threads].
      eapply Claims_same; [exact C| |exact K].
      eapply Permutation_trans; [apply PB|]. eapply Permutation_trans; [|apply Permutation_sym; exact PA]. apply Permutation_refl.
  Qed.
End ConcReclaim.
