(* Derive.v — C17: derived syntax kinds convert safely and invertibly (cstree-derive).
   The model starts from an abstract view of the item the macro is applied to (what syn hands it)
   and computes either "compile errors" or the generated trait implementation. *)
From CsModel Require Import Base.
From Coq Require Import ZifyN ZifyNat ZifyBool.

Inductive item_kind := IEnum | IStruct | IUnion.
Inductive repr_ident := RU32 | ROther.
(* the shapes a #[static_text ...] attribute can have (syn::Meta) *)
Inductive st_attr := SListLit (t : text) | SListNonLit | SPath | SNameValue.
Record variant := mkVariant { v_fields : bool; v_discr : bool; v_attrs : list st_attr }.
Record def := mkDef { d_kind : item_kind; d_reprs : list repr_ident; d_variants : list variant }.

(* Attr::set: a second value for the same attribute is an error *)
Fixpoint set_all {A} (vals : list A) (cur : option A) (errs : nat) : option A * nat :=
  match vals with
  | [] => (cur, errs)
  | v :: r => match cur with
              | Some _ => set_all r cur (S errs)           (* duplicate attribute *)
              | None => set_all r (Some v) errs
              end
  end.

(* get_static_text: only #[static_text("...")] yields a value, every other shape is an error *)
Definition attr_value (a : st_attr) : option text * nat :=
  match a with
  | SListLit t => (Some t, 0%nat)
  | SListNonLit => (None, 2%nat)      (* error_at + the syn error *)
  | SPath => (None, 1%nat)
  | SNameValue => (None, 1%nat)
  end.

Definition variant_result (v : variant) : option text * nat :=
  let e1 := if v_fields v then 1%nat else 0%nat in
  let e2 := if v_discr v then 1%nat else 0%nat in
  let vals := map attr_value (v_attrs v) in
  let lits := flat_map (fun x => match fst x with Some t => [t] | None => [] end) vals in
  let eattr := fold_right (fun x n => (snd x + n)%nat) 0%nat vals in
  let '(txt, edup) := set_all lits None 0%nat in
  (txt, (e1 + e2 + eattr + edup)%nat).

(* expand_syntax: None = compile errors, Some texts = the static text of each variant, in order *)
Definition expand (d : def) : option (list (option text)) :=
  match d_kind d with
  | IEnum =>
      let '(repr, erepr) := set_all (d_reprs d) None 0%nat in
      let vs := map variant_result (d_variants d) in
      let evar := fold_right (fun x n => (snd x + n)%nat) 0%nat vs in
      let erepr2 := match repr with Some RU32 => 0%nat | _ => 1%nat end in
      if Nat.eqb (erepr + evar + erepr2) 0 then Some (map fst vs) else None
  | _ => None
  end.

(* the generated implementation for an enum with n variants (discriminants 0..n-1: Rust's rule for a
   fieldless repr(u32) enum without explicit discriminants) *)
Definition from_raw (n : nat) (raw : N) : res nat := if raw <? N.of_nat n then Ok (N.to_nat raw) else Panic PFromRaw.
Definition into_raw (v : nat) : N := N.of_nat v.
Definition static_text_of (texts : list (option text)) (v : nat) : option text :=
  match nth_error texts v with Some t => t | None => None end.

(* ---------------------------------------------------------------------------------------- *)
Definition well_formed_variant (v : variant) : Prop :=
  v_fields v = false /\ v_discr v = false /\ (v_attrs v = [] \/ exists t, v_attrs v = [SListLit t]).
Definition annotation (v : variant) : option text := match v_attrs v with [SListLit t] => Some t | _ => None end.

Lemma set_all_errs {A} (vals : list A) : forall cur errs, (errs <= snd (set_all vals cur errs))%nat.
Proof. induction vals as [|v r IH]; intros cur errs; cbn; [lia|]. destruct cur; [specialize (IH (Some a) (S errs))|specialize (IH (Some v) errs)]; lia. Qed.

Lemma set_all_some_dup {A} (vals : list A) : forall (x : A) errs, vals <> [] -> (errs < snd (set_all vals (Some x) errs))%nat.
Proof. destruct vals as [|v r]; intros x errs NE; [congruence|]. cbn. pose proof (set_all_errs r (Some x) (S errs)). lia. Qed.

Lemma set_all_ok {A} (vals : list A) r : set_all vals None 0%nat = (r, 0%nat) -> vals = [] /\ r = None \/ exists v, vals = [v] /\ r = Some v.
Proof.
  destruct vals as [|v [|w rest]]; cbn.
  - intros [= <-]. left; auto.
  - intros [= <-]. right; exists v; auto.
  - intros E. pose proof (set_all_errs rest (Some v) 1%nat) as L. rewrite E in L. cbn in L. lia.
Qed.

Lemma attrs_all_lit (l : list st_attr) :
  fold_right (fun x n => (snd x + n)%nat) 0%nat (map attr_value l) = 0%nat ->
  forall a, In a l -> exists t0, a = SListLit t0.
Proof.
  induction l as [|a r IH]; [intros _ ? []|]. cbn [map fold_right]. intros Ea a0 [<-|Hin].
  - destruct a; cbn in Ea; try lia. eexists; reflexivity.
  - apply IH; [lia|exact Hin].
Qed.

Lemma variant_ok v t : variant_result v = (t, 0%nat) -> well_formed_variant v /\ t = annotation v.
Proof.
  unfold variant_result, well_formed_variant, annotation.
  destruct (v_fields v), (v_discr v); cbn [Nat.add];
    destruct (set_all _ None 0%nat) as [txt edup] eqn:S; intros [= <- E]; try lia.
  assert (Ea : fold_right (fun x n => (snd x + n)%nat) 0%nat (map attr_value (v_attrs v)) = 0%nat) by lia.
  assert (Ed : edup = 0%nat) by lia. subst edup.
  pose proof (attrs_all_lit (v_attrs v) Ea) as AllLit.
  assert (Lits : flat_map (fun x => match fst x with Some t0 => [t0] | None => [] end) (map attr_value (v_attrs v)) =
                 flat_map (fun a => match a with SListLit t0 => [t0] | _ => [] end) (v_attrs v)).
  { clear. induction (v_attrs v) as [|a r IH]; [reflexivity|]. cbn. rewrite IH. destruct a; reflexivity. }
  rewrite Lits in S. apply set_all_ok in S.
  destruct (v_attrs v) as [|a [|b rest]].
  - split; [auto|]. destruct S as [[_ ->]|(x & E1 & _)]; [reflexivity|discriminate].
  - destruct (AllLit a (or_introl eq_refl)) as [t0 ->]. cbn in S.
    destruct S as [[E1 _]|(x & E1 & ->)]; [discriminate|]. injection E1 as <-. split; [split; [reflexivity|split; [reflexivity|right; eexists; reflexivity]]|reflexivity].
  - destruct (AllLit a (or_introl eq_refl)) as [t0 ->]. destruct (AllLit b (or_intror (or_introl eq_refl))) as [t1 ->].
    cbn in S. destruct S as [[E1 _]|(x & E1 & _)]; discriminate.
Qed.

(* ---- accepted definitions satisfy the laws ---- *)
Theorem accepted_laws d texts :
  expand d = Some texts ->
  d_kind d = IEnum /\ d_reprs d = [RU32] /\ Forall well_formed_variant (d_variants d) /\
  texts = map annotation (d_variants d) /\
  let n := length (d_variants d) in
  (forall v, (v < n)%nat -> from_raw n (into_raw v) = Ok v) /\          (* round trip; raws are 0..n-1 in order *)
  (forall raw, N.of_nat n <= raw -> from_raw n raw = Panic PFromRaw) /\  (* out of range: panic, never an invalid value *)
  (forall v, (v < n)%nat -> static_text_of texts v = match nth_error (d_variants d) v with Some x => annotation x | None => None end).
Proof.
  unfold expand. destruct (d_kind d); try discriminate.
  destruct (set_all (d_reprs d) None 0%nat) as [repr erepr] eqn:SR.
  destruct (Nat.eqb_spec (erepr + fold_right (fun x n => (snd x + n)%nat) 0%nat (map variant_result (d_variants d)) +
                          match repr with Some RU32 => 0 | _ => 1 end)%nat 0%nat) as [Z|NZ]; [|discriminate].
  intros [= <-].
  assert (E1 : erepr = 0%nat) by lia. subst erepr.
  assert (E2 : fold_right (fun x n => (snd x + n)%nat) 0%nat (map variant_result (d_variants d)) = 0%nat) by lia.
  assert (E3 : repr = Some RU32) by (destruct repr as [[|]|]; [reflexivity|lia|lia]). subst repr.
  apply set_all_ok in SR. destruct SR as [[_ X]|(rv & -> & X)]; [discriminate|]. injection X as ->.
  assert (VO : Forall (fun v => well_formed_variant v /\ fst (variant_result v) = annotation v) (d_variants d)).
  { clear -E2. induction (d_variants d) as [|v r IH]; [constructor|]. cbn in E2.
    constructor; [|apply IH; lia].
    destruct (variant_result v) as [t e] eqn:VR. cbn in E2. assert (e = 0%nat) by lia. subst e.
    destruct (variant_ok v t VR) as [W T]. cbn. auto. }
  split; [reflexivity|]. split; [reflexivity|]. split; [eapply Forall_impl; [|exact VO]; cbn; tauto|].
  assert (TX : map fst (map variant_result (d_variants d)) = map annotation (d_variants d)).
  { rewrite map_map. apply map_ext_in. intros v Hin. rewrite Forall_forall in VO. apply (VO v Hin). }
  split; [exact TX|]. cbn zeta. split; [|split].
  - intros v L. unfold from_raw, into_raw. destruct (N.ltb_spec (N.of_nat v) (N.of_nat (length (d_variants d)))); [|lia].
    rewrite Nat2N.id. reflexivity.
  - intros raw L. unfold from_raw. destruct (N.ltb_spec raw (N.of_nat (length (d_variants d)))); [lia|reflexivity].
  - intros v L. unfold static_text_of. rewrite TX, nth_error_map. destruct (nth_error (d_variants d) v); reflexivity.
Qed.

(* ---- definitions for which the laws could not hold are rejected ---- *)
Theorem ill_formed_rejected d :
  d_kind d <> IEnum \/ d_reprs d <> [RU32] \/ ~ Forall well_formed_variant (d_variants d) -> expand d = None.
Proof.
  intros Bad. destruct (expand d) as [texts|] eqn:E; [|reflexivity].
  destruct (accepted_laws d texts E) as (K & R & W & _). destruct Bad as [B|[B|B]]; contradiction.
Qed.

(* and everything well formed is accepted *)
Theorem well_formed_accepted d :
  d_kind d = IEnum -> d_reprs d = [RU32] -> Forall well_formed_variant (d_variants d) ->
  expand d = Some (map annotation (d_variants d)).
Proof.
  intros K R W. unfold expand. rewrite K, R. cbn [set_all].
  assert (VR : forall v, well_formed_variant v -> variant_result v = (annotation v, 0%nat)).
  { intros v (F & D & A). unfold variant_result, annotation. rewrite F, D.
    destruct A as [->|[t ->]]; reflexivity. }
  assert (E : map variant_result (d_variants d) = map (fun v => (annotation v, 0%nat)) (d_variants d)).
  { apply map_ext_in. intros v Hin. rewrite Forall_forall in W. apply VR, W, Hin. }
  rewrite E.
  assert (Z : forall l : list variant, fold_right (fun x n => (snd x + n)%nat) 0%nat (map (fun v => (annotation v, 0%nat)) l) = 0%nat).
  { induction l as [|v r IH]; cbn; [reflexivity|exact IH]. }
  rewrite Z. cbn. rewrite map_map. reflexivity.
Qed.
