(* ConcLoser.v — C05: losing a creation race has no observable effect.  The four steps a loser takes
   (request the write lock and find the slot filled; +2; -1 and free the candidate; -1 and release the
   lock), taken together, leave the reference count, the slots, the held locks, the data and the
   allocation counter as they were; the only traces are that the candidate block is gone and that the
   thread goes on to re-read the slot (where it finds the winner's element). *)
From CsModel Require Import Red RedProofs Conc ConcProofs ConcHandles.
From Coq Require Import ZArith Lia.

Section ConcLoser.
  Variable g : gelem.

  (* one micro-step of thread tid, whatever the scheduler does elsewhere *)
  Definition own_step (s : cstate) (tid : nat) : cstate :=
    match nth_error (c_threads s) tid with
    | Some t => match t_cont t with m :: rest => fst (exec_mop g s tid t m rest) | [] => s end
    | None => s
    end.

  Lemma nth_set_same' : forall (l : list thread) i x y, nth_error l i = Some x -> nth_error (set_nth l i y) i = Some y.
  Proof. induction l as [|a l IH]; intros [|i] x y E; cbn [set_nth nth_error] in *; try discriminate; eauto. Qed.

  Lemma set_nth_twice : forall (l : list thread) i x y, set_nth (set_nth l i x) i y = set_nth l i y.
  Proof. induction l as [|a l IH]; intros [|i] x y; cbn [set_nth]; try reflexivity. rewrite IH. reflexivity. Qed.

  Lemma own_step_eq s tid t m rest :
    nth_error (c_threads s) tid = Some t -> t_cont t = m :: rest -> own_step s tid = fst (exec_mop g s tid t m rest).
  Proof. intros Ht Hc. unfold own_step. rewrite Ht, Hc. reflexivity. Qed.

  Theorem loser_neutral s tid t p i off c keep rest e :
    nth_error (c_threads s) tid = Some t -> t_cont t = MWrite p i off (Some c) keep :: rest ->
    slot_lookup (c_slots s) (i :: p) = Some e ->
    let s4 := own_step (own_step (own_step (own_step s tid) tid) tid) tid in
    c_rc s4 = c_rc s /\ c_slots s4 = c_slots s /\ c_wlock s4 = c_wlock s /\ c_next s4 = c_next s /\
    c_data s4 = c_data s /\ c_torn s4 = c_torn s /\ c_payload_drops s4 = c_payload_drops s /\
    c_live s4 = remove Nat.eq_dec c (c_live s) /\ c_freed s4 = c :: c_freed s /\ c_offs s4 = c_offs s /\
    c_threads s4 = set_nth (c_threads s) tid (mkThread (t_regs t) (t_prog t) (MRead p i RIter false keep :: rest) (t_out t)).
  Proof.
    intros Ht Hc L. destruct t as [regs prog cont out]. cbn [t_cont t_regs t_prog t_out] in *. subst cont.
    cbn zeta.
    (* step 1: the write lock is taken, the slot is found filled *)
    rewrite (own_step_eq s tid _ _ _ Ht eq_refl). cbn [exec_mop]. rewrite L.
    cbn [fst]. unfold upd_thread. cbn [t_regs t_prog t_out app c_rc c_slots c_wlock c_next c_live c_freed c_data c_torn c_payload_drops c_threads c_offs].
    set (b := block_of (c_slots s) p).
    (* steps 2-4: +2; -1 and the candidate is freed; -1 and the write lock is released *)
    do 3 (match goal with
          | |- context [own_step ?S tid] =>
              lazymatch S with
              | own_step _ _ => fail
              | _ =>
                  let H := fresh "Hn" in
                  eassert (H : nth_error (c_threads S) tid = Some _) by (cbn [c_threads]; eapply nth_set_same'; exact Ht);
                  rewrite (own_step_eq S tid _ _ _ H eq_refl); clear H;
                  cbn [exec_mop fst]; unfold upd_thread;
                  cbn [t_regs t_prog t_out c_rc c_slots c_wlock c_next c_live c_freed c_data c_torn c_payload_drops c_threads c_offs fold_left wl_release fst snd];
                  try (fold b; rewrite !Nat.eqb_refl; cbn [andb]);
                  rewrite set_nth_twice
              end
          end).
    repeat split; try reflexivity. lia.
  Qed.
End ConcLoser.
