(* Serde.v — C16: serialized trees deserialize to the same tree (serde_impls.rs).
   A tree is serialized as (event list, data list); deserialization replays the events into the
   builder and attaches the data in preorder.  The string-borrowing behaviour of serde/serde_json
   enters as an explicit oracle [deser_str] (assumed in exactly this form; tested by the
   correspondence). *)
From CsModel Require Import Builder BuilderSpec BuilderProofs.
From CsModel Require Export Extracted.
From Coq Require Import ZifyN ZifyNat ZifyBool.

Inductive sev := SvEnter (k : kind) (has_data : bool) | SvTok (k : kind) (t : text) | SvLeave.

(* trees with optional per-node data *)
Inductive dtree := DTok (k : kind) (t : text) | DNode (k : kind) (d : option N) (cs : list dtree).

Section DtreeInd.
  Variable P : dtree -> Prop.
  Hypothesis Htok : forall k t, P (DTok k t).
  Hypothesis Hnode : forall k d cs, Forall P cs -> P (DNode k d cs).
  Fixpoint dtree_ind' (s : dtree) : P s :=
    match s with
    | DTok k t => Htok k t
    | DNode k d cs =>
        Hnode k d cs ((fix all (l : list dtree) : Forall P l :=
                         match l with [] => Forall_nil P | c :: r => Forall_cons c (dtree_ind' c) (all r) end) cs)
    end.
End DtreeInd.

(* serialization: preorder events; the data of the flagged nodes, in preorder *)
Fixpoint ser_events (with_data : bool) (t : dtree) : list sev :=
  match t with
  | DTok k x => [SvTok k x]
  | DNode k d cs =>
      SvEnter k (with_data && match d with Some _ => true | None => false end)
      :: flat_map (ser_events with_data) cs ++ [SvLeave]
  end.
Fixpoint ser_data (t : dtree) : list N :=
  match t with
  | DTok _ _ => []
  | DNode _ d cs => (match d with Some x => [x] | None => [] end) ++ flat_map ser_data cs
  end.
Fixpoint strip_data (t : dtree) : dtree :=
  match t with DTok k x => DTok k x | DNode k _ cs => DNode k None (map strip_data cs) end.

(* ---- the reference reading of an event stream + data list ---- *)
(* a stack parser over dtrees that consumes the data list at each flagged EnterNode *)
Definition frame := (kind * option N * list dtree)%type.     (* children newest first *)

Definition dpush (fr : list frame) (base : list dtree) (x : dtree) : list frame * list dtree :=
  match fr with
  | [] => ([], x :: base)
  | (k, d, cs) :: r => ((k, d, x :: cs) :: r, base)
  end.

Inductive dres (A : Type) := DOk (a : A) | DErr | DPanic (p : panic).
Arguments DOk {A} a. Arguments DErr {A}. Arguments DPanic {A} p.

Fixpoint dparse (evs : list sev) (data : list N) (fr : list frame) (base : list dtree) : option (list dtree * list N) :=
  match evs with
  | [] => match fr with [] => Some (base, data) | _ => None end
  | SvEnter k flag :: r =>
      if flag then match data with
                   | x :: data' => dparse r data' ((k, Some x, []) :: fr) base
                   | [] => None
                   end
      else dparse r data ((k, None, []) :: fr) base
  | SvTok k t :: r => match fr with [] => None | _ => let (fr', b') := dpush fr base (DTok k t) in dparse r data fr' b' end
  | SvLeave :: r =>
      match fr with
      | [] => None
      | (k, d, cs) :: fr0 =>
          match fr0, base with
          | [], _ :: _ => None                                  (* a second root *)
          | _, _ => let (fr', b') := dpush fr0 base (DNode k d (rev cs)) in dparse r data fr' b'
          end
      end
  end.

(* exactly one well-nested tree, and the data list matches the flags exactly *)
Definition dspec (evs : list sev) (data : list N) : option dtree :=
  match dparse evs data [] [] with
  | Some ([t], []) => Some t
  | _ => None
  end.

(* ---- the nesting check of the deserializer (after the fix of F7): depth and root count ---- *)
Fixpoint nest_ok (evs : list sev) (depth roots : nat) : bool :=
  match evs with
  | [] => Nat.eqb depth 0 && Nat.eqb roots 1
  | SvEnter _ _ :: r => if Nat.eqb depth 0 then (Nat.eqb roots 0 && nest_ok r 1 1) else nest_ok r (S depth) roots
  | SvTok _ _ :: r => negb (Nat.eqb depth 0) && nest_ok r depth roots
  | SvLeave :: r => negb (Nat.eqb depth 0) && nest_ok r (Nat.pred depth) roots
  end.

Definition to_bop (e : sev) : bop :=
  match e with SvEnter k _ => OStart k | SvTok k t => OToken k t | SvLeave => OFinishNode end.

Definition flags_of (evs : list sev) : list bool :=
  flat_map (fun e => match e with SvEnter _ f => [f] | _ => [] end) evs.

(* how the text field of the token event can be deserialized from the input at hand *)
Inductive input_mode := MBorrowedPlain | MBorrowedEscaped | MOwned.
Definition deser_str (ty : field_ty) (m : input_mode) : bool :=
  match ty, m with
  | FCowStr, _ => true
  | FBorrowedStr, MBorrowedPlain => true
  | FBorrowedStr, _ => false          (* "invalid type: string, expected a borrowed string" *)
  end.

Section Deser.
  Variable static_text : kind -> option text.
  Variable H : list hw -> N.
  Variable threshold : nat.
  Variable debug : bool.
  Variable checked : bool.      (* does the visitor check the nesting (after the fix)? *)
  Variable ty : field_ty.

  Definition has_token (evs : list sev) : bool := existsb (fun e => match e with SvTok _ _ => true | _ => false end) evs.

  (* deserialize: (green tree, interner table, flags) or an error or a panic *)
  Definition deser_tree (m : input_mode) (evs : list sev) : dres (gelem * list text * list bool) :=
    if has_token evs && negb (deser_str ty m) then DErr
    else if checked && negb (nest_ok evs 0 0) then DErr
    else
      (* replay into the builder; without the check the builder may panic, or finish() may return a
         node although nodes are still open *)
      match b_run_strict static_text H threshold HeadAndChildren debug true (new_builder empty_cache) (map to_bop evs) with
      | Panic p => DPanic p
      | Ok s => match b_finish s with
                | Panic p => DPanic p
                | Ok (g, c) => DOk (g, c_strs c, flags_of evs)
                end
      end.

  (* attach: zip the node flags (preorder) with the data list *)
  Fixpoint attach (flags : list bool) (data : list N) : option (list (option N)) :=
    match flags with
    | [] => match data with [] => Some [] | _ => None end        (* too many data elements *)
    | true :: r => match data with x :: d => option_map (cons (Some x)) (attach r d) | [] => None end
    | false :: r => option_map (cons None) (attach r data)
    end.
End Deser.

(* ---------------------------------------------------------------------------------------- *)
Section SerdeProofs.
  Variable static_text : kind -> option text.
  Variable H : list hw -> N.
  Variable threshold : nat.
  Variable debug : bool.

  Definition all_nodes (l : list stree) : Prop := Forall (fun s => match s with SNode _ _ => True | STok _ _ => False end) l.

  (* the nesting check accepts only streams that the stack parser reads as exactly one root node *)
  Lemma nest_ok_run : forall evs depth roots frames base,
    nest_ok evs depth roots = true ->
    depth = length frames ->
    ((depth = 0%nat /\ roots = length base /\ (roots <= 1)%nat) \/ ((0 < depth)%nat /\ roots = 1%nat /\ base = [])) ->
    all_nodes base ->
    exists k cs, p_run static_text (frames, base) (map to_bop evs) = Some ([], [SNode k cs]).
  Proof.
    induction evs as [|e r IH]; intros depth roots frames base N D Inv AN; cbn [nest_ok map p_run] in *.
    - apply andb_true_iff in N. destruct N as [N1 N2]. apply Nat.eqb_eq in N1, N2. subst roots.
      destruct Inv as [(_ & Rb & _)|(L & _)]; [|lia].
      destruct frames; [|cbn in D; lia]. destruct base as [|x [|y l]]; cbn in Rb; try lia.
      inversion AN as [|? ? Hx _]; subst. destruct x as [|k cs]; [contradiction|]. exists k, cs. reflexivity.
    - destruct e as [k f|k t|]; cbn [to_bop p_step].
      + (* EnterNode *)
        destruct (Nat.eqb_spec depth 0) as [Z|NZ].
        * apply andb_true_iff in N. destruct N as [N1 N2]. apply Nat.eqb_eq in N1.
          destruct Inv as [(_ & Rb & _)|(L & _)]; [|lia]. subst roots. destruct base; [|cbn in Rb; lia].
          destruct frames; [|cbn in D; lia]. cbn [fst snd].
          apply (IH 1%nat 1%nat [(k, [])] []); [exact N2|reflexivity|right; auto|constructor].
        * destruct Inv as [(Z & _)|(L & R1 & ->)]; [lia|].
          cbn [fst snd]. apply (IH (S depth) roots ((k, []) :: frames) []); [exact N|cbn; lia|right; split; [lia|auto]|constructor].
      + (* Token *)
        apply andb_true_iff in N. destruct N as [N1 N2]. apply negb_true_iff, Nat.eqb_neq in N1.
        destruct Inv as [(Z & _)|(L & R1 & ->)]; [lia|].
        destruct frames as [|[kf cs] fr]; [cbn in D; lia|].
        unfold p_push. apply (IH depth roots ((kf, STok k (match static_text k with Some s => s | None => t end) :: cs) :: fr) []);
          [exact N2|cbn in *; lia|right; auto|constructor].
      + (* LeaveNode *)
        apply andb_true_iff in N. destruct N as [N1 N2]. apply negb_true_iff, Nat.eqb_neq in N1.
        destruct Inv as [(Z & _)|(L & R1 & ->)]; [lia|].
        destruct frames as [|[kf cs] fr]; [cbn in D; lia|].
        destruct fr as [|[k2 cs2] fr2].
        * (* the root closes *)
          unfold p_push. cbn in D. subst depth. cbn [Nat.pred] in N2.
          apply (IH 0%nat roots [] [SNode kf (rev cs)]); [exact N2|reflexivity|left; cbn; lia|constructor; [exact I|constructor]].
        * unfold p_push.
          apply (IH (Nat.pred depth) roots ((k2, SNode kf (rev cs) :: cs2) :: fr2) []);
            [exact N2|cbn in *; lia|right; cbn in *; split; [lia|auto]|constructor].
  Qed.

  Theorem nest_ok_parse evs :
    nest_ok evs 0 0 = true -> exists t, parse static_text (map to_bop evs) = Some t.
  Proof.
    intros N. destruct (nest_ok_run evs 0%nat 0%nat [] [] N eq_refl) as (k & cs & P); [left; cbn; lia|constructor|].
    unfold parse, p_init. rewrite P. eexists; reflexivity.
  Qed.

  (* with the nesting check in place deserialization never panics: either an error, or a tree that
     denotes exactly what the events describe *)
  Theorem deser_total ty m evs :
    Forall (fun e => WfEvent static_text (to_bop e)) evs ->
    match deser_tree static_text H threshold debug true ty m evs with
    | DPanic _ => False
    | DErr => True
    | DOk (g, strs, flags) =>
        exists t, parse static_text (map to_bop evs) = Some t /\ denote static_text strs g = t /\
                  WfGreen static_text H strs g /\ flags = flags_of evs
    end.
  Proof.
    intros We. unfold deser_tree.
    destruct (has_token evs && negb (deser_str ty m)); [exact I|].
    destruct (nest_ok evs 0 0) eqn:N; cbn [negb andb]; [|exact I].
    destruct (nest_ok_parse evs N) as (t & P).
    assert (We' : Forall (WfEvent static_text) (map to_bop evs)) by (apply Forall_map; exact We).
    destruct (build_faithful static_text H threshold debug empty_cache _ t (CacheInv_empty static_text H) We' P)
      as (g & c' & B & D & W & _).
    unfold Builder.build in B.
    destruct (b_run_strict static_text H threshold HeadAndChildren debug true (new_builder empty_cache) (map to_bop evs)) as [s|p];
      [|discriminate]. cbn [res_bind] in B. rewrite B. exists t. auto.
  Qed.

  (* ---- round trip ---- *)
  Fixpoint skel (t : dtree) : stree :=
    match t with
    | DTok k x => Green.STok k (match static_text k with Some s => s | None => x end)
    | DNode k _ cs => SNode k (map skel cs)
    end.

  Lemma ser_run wd t : forall ps rest,
    p_run static_text ps (map to_bop (ser_events wd t ++ rest)) =
    p_run static_text (p_push ps (skel t)) (map to_bop rest).
  Proof.
    induction t as [k x|k d cs IH] using dtree_ind'; intros ps rest.
    - cbn. reflexivity.
    - cbn [ser_events app map to_bop p_run p_step skel].
      assert (G : forall l (fr : kind * list stree) frs base acc rest0,
                Forall (fun t0 => forall ps0 rest1, p_run static_text ps0 (map to_bop (ser_events wd t0 ++ rest1)) =
                                                    p_run static_text (p_push ps0 (skel t0)) (map to_bop rest1)) l ->
                p_run static_text ((k, acc) :: frs, base) (map to_bop (flat_map (ser_events wd) l ++ rest0)) =
                p_run static_text ((k, rev (map skel l) ++ acc) :: frs, base) (map to_bop rest0)).
      { induction l as [|c r IHl]; intros fr frs base acc rest0 F; cbn [flat_map map rev app]; [reflexivity|].
        inversion F as [|? ? Fc Fr]; subst. rewrite <- app_assoc, Fc. unfold p_push at 1.
        rewrite (IHl fr frs base (skel c :: acc) rest0 Fr). rewrite <- app_assoc. reflexivity. }
      destruct ps as [frs base]. cbn [fst snd]. rewrite <- app_assoc.
      rewrite (G cs (k, []) frs base [] ([SvLeave] ++ rest) IH). rewrite app_nil_r.
      cbn [app map to_bop p_run p_step]. rewrite rev_involutive. reflexivity.
  Qed.

  Theorem ser_parse wd k d cs :
    parse static_text (map to_bop (ser_events wd (DNode k d cs))) = Some (skel (DNode k d cs)).
  Proof.
    unfold parse. rewrite <- (app_nil_r (ser_events wd (DNode k d cs))), ser_run. cbn. reflexivity.
  Qed.

  Lemma ser_nest wd t : forall depth roots rest,
    (0 < depth)%nat -> nest_ok (ser_events wd t ++ rest) depth roots = nest_ok rest depth roots.
  Proof.
    induction t as [k x|k d cs IH] using dtree_ind'; intros depth roots rest L.
    - cbn. destruct (Nat.eqb_spec depth 0); [lia|reflexivity].
    - cbn [ser_events app nest_ok]. destruct (Nat.eqb_spec depth 0); [lia|].
      rewrite <- app_assoc.
      assert (G : forall l dd rest0, (0 < dd)%nat ->
                Forall (fun t0 => forall depth0 roots0 rest1, (0 < depth0)%nat ->
                          nest_ok (ser_events wd t0 ++ rest1) depth0 roots0 = nest_ok rest1 depth0 roots0) l ->
                nest_ok (flat_map (ser_events wd) l ++ rest0) dd roots = nest_ok rest0 dd roots).
      { induction l as [|c r IHl]; intros dd rest0 Ld F; cbn [flat_map app]; [reflexivity|].
        inversion F as [|? ? Fc Fr]; subst. rewrite <- app_assoc, Fc by exact Ld. apply IHl; assumption. }
      rewrite (G cs (S depth) ([SvLeave] ++ rest)); [|lia|exact IH].
      cbn [app nest_ok Nat.eqb negb andb Nat.pred]. reflexivity.
  Qed.

  Theorem ser_nest_ok wd k d cs : nest_ok (ser_events wd (DNode k d cs)) 0 0 = true.
  Proof.
    cbn [ser_events nest_ok Nat.eqb andb].
    assert (G : forall l rest0,
              nest_ok (flat_map (ser_events wd) l ++ rest0) 1 1 = nest_ok rest0 1 1).
    { induction l as [|c r IHl]; intros rest0; cbn [flat_map app]; [reflexivity|].
      rewrite <- app_assoc, ser_nest by lia. apply IHl. }
    rewrite G. reflexivity.
  Qed.

  (* the data comes back on the same nodes: flags and data list are consumed in step, in preorder *)
  Fixpoint data_pre (t : dtree) : list (option N) :=
    match t with DTok _ _ => [] | DNode _ d cs => d :: flat_map data_pre cs end.

  Lemma attach_ser t : forall f' d',
    attach (flags_of (ser_events true t) ++ f') (ser_data t ++ d') = option_map (app (data_pre t)) (attach f' d').
  Proof.
    induction t as [k x|k d cs IH] using dtree_ind'; intros f' d'.
    - cbn. destruct (attach f' d'); reflexivity.
    - cbn [ser_events flags_of flat_map ser_data data_pre andb app].
      assert (Fl : flags_of (flat_map (ser_events true) cs ++ [SvLeave]) = flat_map (fun c => flags_of (ser_events true c)) cs).
      { unfold flags_of. rewrite flat_map_app. cbn. rewrite app_nil_r. clear.
        induction cs as [|c r IHc]; cbn [flat_map]; [reflexivity|]. rewrite flat_map_app, IHc. reflexivity. }
      fold (flags_of (flat_map (ser_events true) cs ++ [SvLeave])). rewrite Fl.
      assert (G : forall l f0 d0,
                Forall (fun t0 => forall f1 d1, attach (flags_of (ser_events true t0) ++ f1) (ser_data t0 ++ d1) =
                                                option_map (app (data_pre t0)) (attach f1 d1)) l ->
                attach (flat_map (fun c => flags_of (ser_events true c)) l ++ f0) (flat_map ser_data l ++ d0) =
                option_map (app (flat_map data_pre l)) (attach f0 d0)).
      { induction l as [|c r IHl]; intros f0 d0 F; cbn [flat_map app]; [destruct (attach f0 d0); reflexivity|].
        inversion F as [|? ? Fc Fr]; subst. rewrite <- !app_assoc, Fc, (IHl f0 d0 Fr).
        destruct (attach f0 d0); cbn; [rewrite <- app_assoc|]; reflexivity. }
      destruct d as [x|]; cbn [app attach].
      + rewrite (G cs f' d' IH). destruct (attach f' d'); reflexivity.
      + rewrite (G cs f' d' IH). destruct (attach f' d'); reflexivity.
  Qed.

  Theorem attach_roundtrip t : attach (flags_of (ser_events true t)) (ser_data t) = Some (data_pre t).
  Proof.
    pose proof (attach_ser t [] []) as A. rewrite !app_nil_r in A. rewrite A. cbn. rewrite app_nil_r. reflexivity.
  Qed.

  (* a data list that does not match the flags is rejected *)
  Theorem attach_exact flags data :
    attach flags data <> None <-> length data = length (filter (fun b => b) flags).
  Proof.
    revert data; induction flags as [|[|] r IH]; intros data; cbn [attach filter length].
    - destruct data; cbn; split; intros X; try congruence; try discriminate.
    - destruct data as [|x d]; cbn [length]; [split; [congruence|discriminate]|].
      specialize (IH d). destruct (attach r d); cbn; split; intros X; try congruence.
      + f_equal. apply IH. discriminate.
      + exfalso. injection X as X. apply IH in X. congruence.
    - specialize (IH data). destruct (attach r data); cbn; split; intros X; try congruence.
      + apply IH. discriminate.
      + apply IH in X. congruence.
  Qed.

  (* the whole round trip, for every input mode the string field type accepts *)
  Theorem roundtrip ty m wd k d cs :
    (deser_str ty m = true \/ has_token (ser_events wd (DNode k d cs)) = false) ->
    Forall (fun e => WfEvent static_text (to_bop e)) (ser_events wd (DNode k d cs)) ->
    exists g strs, deser_tree static_text H threshold debug true ty m (ser_events wd (DNode k d cs)) =
                   DOk (g, strs, flags_of (ser_events wd (DNode k d cs))) /\
                   denote static_text strs g = skel (DNode k d cs).
  Proof.
    intros Str We. pose proof (deser_total ty m _ We) as T. unfold deser_tree in *.
    assert (E : has_token (ser_events wd (DNode k d cs)) && negb (deser_str ty m) = false).
    { destruct Str as [->| ->]; [apply andb_false_r|reflexivity]. }
    rewrite E in *. rewrite (ser_nest_ok wd k d cs) in *. cbn [negb andb] in *.
    destruct (b_run_strict _ _ _ _ _ _ _ _) as [s|p]; [|contradiction].
    destruct (b_finish s) as [[g c]|p]; [|contradiction].
    destruct T as (t & P & D & _ & _). exists g, (c_strs c). split; [reflexivity|].
    rewrite D. rewrite ser_parse in P. injection P as <-. reflexivity.
  Qed.
End SerdeProofs.

(* ---- the code before the fix (F7) ---- *)
Section SerdeRefuted.
  Let st (k : kind) : option text := None.
  Let Hh (l : list hw) : N := 0.

  (* unbalanced streams panic inside the builder ... *)
  Lemma unchecked_panics :
    deser_tree st Hh 3 false false FBorrowedStr MBorrowedPlain [SvLeave] = DPanic PFinishNodeNoParent /\
    deser_tree st Hh 3 false false FBorrowedStr MBorrowedPlain [SvEnter 1 false] = DPanic PFinishNotOne.
  Proof. split; reflexivity. Qed.

  (* ... or are silently accepted: [Enter 1, Enter 2, Leave] yields the tree (2) *)
  Lemma unchecked_accepts_open_node :
    exists g strs fl, deser_tree st Hh 3 false false FBorrowedStr MBorrowedPlain [SvEnter 1 false; SvEnter 2 false; SvLeave] = DOk (g, strs, fl)
                      /\ denote st strs g = SNode 2 [].
  Proof. eexists _, _, _. split; reflexivity. Qed.

  (* a borrowed &str field cannot be deserialized from escaped or owned input *)
  Lemma borrowed_field_rejects :
    deser_tree st Hh 3 false true FBorrowedStr MOwned [SvEnter 1 false; SvTok 2 [97]; SvLeave] = DErr.
  Proof. reflexivity. Qed.
End SerdeRefuted.
