(* TokenSpec.v — C03: token navigation enumerates the tokens of the tree left to right.
   first_token / last_token of an element are the first / last token position below it in document
   order; next_token / prev_token of a token are its successor / predecessor in the document order of
   ALL tokens of the tree (elements that contain no token are passed over: the repaired behaviour). *)
From CsModel Require Import Red RedProofs NavSpec.
From Coq Require Import ZifyN ZifyNat ZifyBool.

Section TokenSpec.
  Variable g : gelem.

  (* ---- the token positions below an element, in document order ---- *)
  Section L.
    Variable rec : gelem -> pos -> list pos.
    Variable p : pos.
    Fixpoint toks_loop (l : list gelem) (i : nat) : list pos :=
      match l with [] => [] | c :: r => rec c (i :: p) ++ toks_loop r (S i) end.
  End L.
  Fixpoint tokens_under (e : gelem) (p : pos) : list pos :=
    match e with
    | GTok _ _ _ _ => [p]
    | GNode _ _ _ _ cs => toks_loop tokens_under p cs 0
    end.
  Definition tokens_at (p : pos) : list pos := match subr g p with Some e => tokens_under e p | None => [] end.

  Definition last_error {A} (l : list A) : option A := hd_error (rev l).

  Lemma hd_error_app {A} (a b : list A) : hd_error (a ++ b) = match hd_error a with Some x => Some x | None => hd_error b end.
  Proof. destruct a; reflexivity. Qed.

  Lemma last_error_app {A} (a b : list A) : last_error (a ++ b) = match last_error b with Some x => Some x | None => last_error a end.
  Proof. unfold last_error. rewrite rev_app_distr. apply hd_error_app. Qed.

  Lemma hd_error_none {A} (l : list A) : hd_error l = None -> l = [].
  Proof. destruct l; [reflexivity|discriminate]. Qed.

  Lemma last_error_none {A} (l : list A) : last_error l = None -> l = [].
  Proof.
    unfold last_error. intros H. apply hd_error_none in H. destruct l as [|a l]; [reflexivity|].
    cbn [rev] in H. destruct (rev l); discriminate.
  Qed.

  (* ---- first_token ---- *)
  Lemma ft_loop_spec rec trec p : forall l,
    Forall (fun c => forall q rs, fst (rec c q rs) = hd_error (trec c q)) l ->
    forall i o rs, fst (ft_loop true rec p l i o rs) = hd_error (toks_loop trec p l i).
  Proof.
    induction l as [|c r IH]; intros F i o rs; cbn [ft_loop toks_loop]; [reflexivity|].
    inversion F as [|? ? Fc Fr]; subst. rewrite hd_error_app, <- (Fc (i :: p) (goa rs (i :: p) o)).
    destruct (rec c (i :: p) (goa rs (i :: p) o)) as [[t|] rs2]; cbn [fst]; [reflexivity|]. apply IH. exact Fr.
  Qed.

  Theorem first_token_of_spec e : forall p rs, fst (first_token_of true e p rs) = hd_error (tokens_under e p).
  Proof.
    induction e as [id k key len|id k len h cs IH] using gelem_ind'; intros p rs; cbn [first_token_of tokens_under]; [reflexivity|].
    apply ft_loop_spec. exact IH.
  Qed.

  Theorem first_token_spec rs p : fst (first_token g true rs p) = hd_error (tokens_at p).
  Proof. unfold first_token, tokens_at. destruct (subr g p); [apply first_token_of_spec|reflexivity]. Qed.

  (* ---- last_token ---- *)
  Lemma lt_loop_spec rec trec p elen : forall l,
    Forall (fun c => forall q rs, fst (rec c q rs) = last_error (trec c q)) l ->
    forall i rs, fst (lt_loop true rec p elen l i rs) = last_error (toks_loop trec p l i).
  Proof.
    induction l as [|c r IH]; intros F i rs; cbn [lt_loop toks_loop]; [reflexivity|].
    inversion F as [|? ? Fc Fr]; subst. rewrite last_error_app, <- (IH Fr (S i) rs).
    destruct (lt_loop true rec p elen r (S i) rs) as [[t|] rs2]; cbn [fst]; [reflexivity|].
    destruct r; apply Fc.
  Qed.

  Theorem last_token_of_spec e : forall p rs, fst (last_token_of true e p rs) = last_error (tokens_under e p).
  Proof.
    induction e as [id k key len|id k len h cs IH] using gelem_ind'; intros p rs; cbn [last_token_of tokens_under]; [reflexivity|].
    apply lt_loop_spec. exact IH.
  Qed.

  Theorem last_token_spec rs p : fst (last_token g true rs p) = last_error (tokens_at p).
  Proof. unfold last_token, tokens_at. destruct (subr g p); [apply last_token_of_spec|reflexivity]. Qed.

  (* ---- the neighbours of a position ---- *)
  Definition next_pos (p : pos) : option pos :=
    match p with [] => None | i :: q => if (S i <? length (kids g q))%nat then Some (S i :: q) else None end.
  Definition prev_pos (p : pos) : option pos :=
    match p with [] => None | i :: q => match Nat.min i (length (kids g q)) with O => None | S j => Some (j :: q) end end.

  Lemma next_sibling_any rs p : fst (next_sibling_gen g false rs p) = next_pos p.
  Proof.
    destruct p as [|i q]; [reflexivity|]. cbn [next_pos].
    destruct (next_sibling_spec g false rs i q) as (N & Par).
    destruct (fst (next_sibling_gen g false rs (i :: q))) as [s|] eqn:E; cbn [idx_of] in N.
    - specialize (Par s eq_refl). destruct s as [|i' q']; [discriminate|]. cbn [parent_of] in Par. injection Par as ->.
      cbn [IsNext] in N. destruct N as (Le1 & (c & Ec & _) & Min).
      assert (i' = S i).
      { destruct (Nat.eq_dec i' (S i)) as [|Hne]; [assumption|]. exfalso.
        assert (Hlt : (S i < length (kids g q))%nat) by (assert (A : nth_error (kids g q) i' <> None) by congruence; apply nth_error_Some in A; lia).
        destruct (nth_error (kids g q) (S i)) as [c'|] eqn:E'; [|apply nth_error_None in E'; lia].
        assert (W := Min (S i) c' ltac:(lia) E'). unfold wanted in W. cbn in W. discriminate. }
      subst i'. assert (Hlt : (S i < length (kids g q))%nat) by (apply nth_error_Some; congruence).
      apply Nat.ltb_lt in Hlt. rewrite Hlt. reflexivity.
    - cbn [IsNext] in N. destruct (S i <? length (kids g q))%nat eqn:L; [|reflexivity]. exfalso.
      apply Nat.ltb_lt in L. destruct (nth_error (kids g q) (S i)) as [c'|] eqn:E'; [|apply nth_error_None in E'; lia].
      assert (W := N (S i) c' ltac:(lia) E'). unfold wanted in W. cbn in W. discriminate.
  Qed.

  Lemma prev_sibling_any rs p : fst (prev_sibling_gen g false rs p) = prev_pos p.
  Proof.
    destruct p as [|i q]; [reflexivity|]. cbn [prev_pos].
    destruct (prev_sibling_spec g false rs i q) as (N & Par).
    destruct (fst (prev_sibling_gen g false rs (i :: q))) as [s|] eqn:E; cbn [idx_of] in N.
    - specialize (Par s eq_refl). destruct s as [|i' q']; [discriminate|]. cbn [parent_of] in Par. injection Par as ->.
      cbn [IsPrev] in N. destruct N as (Lt1 & (c & Ec & _) & Max).
      assert (Hlt : (i' < length (kids g q))%nat) by (apply nth_error_Some; congruence).
      assert (Em : Nat.min i (length (kids g q)) = S i').
      { destruct (Nat.eq_dec (Nat.min i (length (kids g q))) (S i')) as [|Hne]; [assumption|]. exfalso.
        assert (Hj : (S i' < i /\ S i' < length (kids g q))%nat) by lia. destruct Hj as (H1 & H2).
        destruct (nth_error (kids g q) (S i')) as [c'|] eqn:E'; [|apply nth_error_None in E'; lia].
        assert (W := Max (S i') c' ltac:(lia) E'). unfold wanted in W. cbn in W. discriminate. }
      rewrite Em. reflexivity.
    - cbn [IsPrev] in N. destruct (Nat.min i (length (kids g q))) as [|j] eqn:Em; [reflexivity|]. exfalso.
      destruct (nth_error (kids g q) 0) as [c'|] eqn:E'; [|apply nth_error_None in E'; lia].
      assert (W := N 0%nat c' ltac:(lia) E'). unfold wanted in W. cbn in W. discriminate.
  Qed.

  Fixpoint first_some {A} (l : list (option A)) : option A :=
    match l with [] => None | Some x :: _ => Some x | None :: r => first_some r end.

  Lemma climb_spec next : forall chain rs,
    fst (climb g next rs chain) = first_some (map (if next then next_pos else prev_pos) chain).
  Proof.
    induction chain as [|a r IH]; intros rs; cbn [climb map first_some]; [reflexivity|].
    assert (E : fst (if next then next_sibling_gen g false rs a else prev_sibling_gen g false rs a) = (if next then next_pos else prev_pos) a).
    { destruct next; [apply next_sibling_any|apply prev_sibling_any]. }
    destruct (if next then next_sibling_gen g false rs a else prev_sibling_gen g false rs a) as [[s|] rs']; cbn [fst] in E; rewrite <- E; [reflexivity|apply IH].
  Qed.

  (* the element the walk hops to from p: the neighbour of the first of p and its ancestors that has one *)
  Definition hop (next : bool) (p : pos) : option pos := first_some (map (if next then next_pos else prev_pos) (ancestors_node p)).

  (* ---- tokens after / before a position, in document order ---- *)
  Definition toks_from (q : pos) (j : nat) : list pos := toks_loop tokens_under q (skipn j (kids g q)) j.
  Definition toks_upto (q : pos) (j : nat) : list pos := toks_loop tokens_under q (firstn j (kids g q)) 0.
  Fixpoint after (p : pos) : list pos := match p with [] => [] | i :: q => toks_from q (S i) ++ after q end.
  Fixpoint before (p : pos) : list pos := match p with [] => [] | i :: q => before q ++ toks_upto q i end.

  Lemma tokens_at_cons i q c : nth_error (kids g q) i = Some c -> tokens_at (i :: q) = tokens_under c (i :: q).
  Proof. intros E. unfold tokens_at. rewrite kids_nth, E. reflexivity. Qed.

  Lemma toks_from_step q j c : nth_error (kids g q) j = Some c -> toks_from q j = tokens_under c (j :: q) ++ toks_from q (S j).
  Proof.
    intros E. unfold toks_from.
    assert (S1 : skipn j (kids g q) = c :: skipn (S j) (kids g q)).
    { clear - E. revert j E. induction (kids g q) as [|a l IH]; intros [|j] E; cbn [nth_error skipn] in *; try discriminate.
      - injection E as ->. reflexivity.
      - apply IH. exact E. }
    rewrite S1. reflexivity.
  Qed.

  Lemma toks_from_end q j : (length (kids g q) <= j)%nat -> toks_from q j = [].
  Proof. intros L. unfold toks_from. rewrite skipn_all2; [reflexivity|exact L]. Qed.

  Lemma after_hop : forall p, after p = match hop true p with Some e => tokens_at e ++ after e | None => [] end.
  Proof.
    induction p as [|i q IH]; [reflexivity|]. unfold hop. cbn [ancestors_node map first_some after next_pos].
    destruct (S i <? length (kids g q))%nat eqn:L.
    - apply Nat.ltb_lt in L. destruct (nth_error (kids g q) (S i)) as [c|] eqn:E; [|apply nth_error_None in E; lia].
      rewrite (toks_from_step q (S i) c E), (tokens_at_cons _ _ _ E). cbn [after]. rewrite <- app_assoc. reflexivity.
    - apply Nat.ltb_ge in L. rewrite (toks_from_end q (S i) L). cbn [app]. exact IH.
  Qed.

  (* ---- a measure that decreases with every hop ---- *)
  Fixpoint sizes (l : list gelem) : nat := match l with [] => 0%nat | c :: r => (gsize c + sizes r)%nat end.
  Lemma gsize_node id k len h cs : gsize (GNode id k len h cs) = S (sizes cs).
  Proof. reflexivity. Qed.
  Lemma gsize_pos e : (1 <= gsize e)%nat.
  Proof. destruct e; [cbn; lia|rewrite gsize_node; lia]. Qed.

  Definition size_at (p : pos) : nat := match subr g p with Some e => gsize e | None => 0%nat end.
  Fixpoint rest_after (p : pos) : nat := match p with [] => 0%nat | i :: q => (sizes (skipn (S i) (kids g q)) + rest_after q)%nat end.
  Fixpoint rest_before (p : pos) : nat := match p with [] => 0%nat | i :: q => (sizes (firstn i (kids g q)) + rest_before q)%nat end.

  Lemma sizes_app a b : sizes (a ++ b) = (sizes a + sizes b)%nat.
  Proof. induction a as [|c a IH]; cbn [app sizes]; [reflexivity|]. rewrite IH. lia. Qed.

  Lemma sizes_kids q : (sizes (kids g q) < size_at q \/ kids g q = [])%nat.
  Proof.
    unfold kids, size_at. destruct (subr g q) as [e|]; [|right; reflexivity]. destruct e; [right; reflexivity|].
    left. rewrite gsize_node. cbn [gchildren]. lia.
  Qed.

  Lemma size_split q i : (size_at (i :: q) + sizes (firstn i (kids g q)) + sizes (skipn (S i) (kids g q)) = sizes (kids g q))%nat.
  Proof.
    unfold size_at. rewrite kids_nth.
    rewrite <- (firstn_skipn i (kids g q)) at 4. rewrite sizes_app.
    destruct (nth_error (kids g q) i) as [c|] eqn:E.
    - assert (S1 : skipn i (kids g q) = c :: skipn (S i) (kids g q)).
      { clear - E. revert i E. induction (kids g q) as [|a l IH]; intros [|i] E; cbn [nth_error skipn] in *; try discriminate.
        - injection E as ->. reflexivity.
        - apply IH. exact E. }
      rewrite S1. cbn [sizes]. lia.
    - apply nth_error_None in E. rewrite !skipn_all2 by lia. cbn [sizes]. lia.
  Qed.

  Lemma size_bound : forall p, (size_at p + rest_after p + rest_before p <= gsize g)%nat.
  Proof.
    induction p as [|i q IH]; [unfold size_at; cbn; lia|]. cbn [rest_after rest_before].
    assert (A := size_split q i). destruct (sizes_kids q) as [B|B]; [lia|].
    rewrite B in *. rewrite firstn_nil, skipn_nil in *. cbn [sizes] in *. lia.
  Qed.

  Lemma hop_next_decreases : forall p e, hop true p = Some e -> (size_at e + rest_after e <= rest_after p)%nat /\ (1 <= size_at e)%nat.
  Proof.
    induction p as [|i q IH]; intros e; unfold hop; cbn [ancestors_node map first_some next_pos]; [discriminate|].
    destruct (S i <? length (kids g q))%nat eqn:L.
    - intros [= <-]. apply Nat.ltb_lt in L. cbn [rest_after].
      destruct (nth_error (kids g q) (S i)) as [c|] eqn:E; [|apply nth_error_None in E; lia].
      assert (S1 : skipn (S i) (kids g q) = c :: skipn (S (S i)) (kids g q)).
      { clear - E. revert E. generalize (S i). intros j. revert j. induction (kids g q) as [|a l IH]; intros [|j] E; cbn [nth_error skipn] in *; try discriminate.
        - injection E as ->. reflexivity.
        - apply IH. exact E. }
      rewrite S1. cbn [sizes]. unfold size_at. rewrite kids_nth, E. assert (G := gsize_pos c). lia.
    - intros H. fold (hop true q) in H. destruct (IH e H) as (A & B). cbn [rest_after]. lia.
  Qed.

  (* ---- next_token ---- *)
  Theorem token_walk_next_spec : forall fuel cur rs,
    (rest_after cur < fuel)%nat -> fst (token_walk g true true fuel rs cur) = hd_error (after cur).
  Proof.
    induction fuel as [|f IH]; intros cur rs Hf; [lia|]. cbn [token_walk].
    set (step := match next_sibling_gen g false rs cur with
                 | (Some s, rs') => (Some s, rs')
                 | (None, rs') => climb g true rs' (match cur with [] => [] | _ :: q => ancestors_node q end)
                 end).
    assert (Eh : fst step = hop true cur).
    { subst step. assert (N := next_sibling_any rs cur).
      destruct (next_sibling_gen g false rs cur) as [[s|] rs']; cbn [fst] in N.
      - cbn [fst]. unfold hop. destruct cur as [|i q]; [discriminate|]. cbn [ancestors_node map first_some]. rewrite <- N. reflexivity.
      - rewrite climb_spec. unfold hop. destruct cur as [|i q]; [reflexivity|]. cbn [ancestors_node map first_some]. rewrite <- N. reflexivity. }
    rewrite (after_hop cur), <- Eh. destruct step as [[e|] rs1]; cbn [fst]; [|reflexivity].
    cbn [fst] in Eh. assert (Ft := first_token_spec rs1 e). rewrite hd_error_app.
    destruct (first_token g true rs1 e) as [[t|] rs2]; cbn [fst] in Ft |- *; rewrite <- Ft; [reflexivity|].
    symmetry in Ft. apply hd_error_none in Ft.
    destruct (hop_next_decreases cur e (eq_sym Eh)) as (A & B). apply IH. lia.
  Qed.

  Theorem next_token_spec rs t : fst (next_token g true rs t) = hd_error (after t).
  Proof.
    unfold next_token. apply token_walk_next_spec. assert (A := size_bound t). lia.
  Qed.

  (* ---- prev_token ---- *)
  Lemma toks_loop_app rec p : forall a b i, toks_loop rec p (a ++ b) i = toks_loop rec p a i ++ toks_loop rec p b (i + length a).
  Proof.
    induction a as [|c a IH]; intros b i; cbn [app toks_loop length]; [rewrite Nat.add_0_r; reflexivity|].
    rewrite IH, <- app_assoc. replace (S i + length a)%nat with (i + S (length a))%nat by lia. reflexivity.
  Qed.

  Lemma firstn_min {A} (l : list A) i : firstn i l = firstn (Nat.min i (length l)) l.
  Proof.
    destruct (Nat.le_ge_cases i (length l)) as [L|L].
    - rewrite Nat.min_l by exact L. reflexivity.
    - rewrite Nat.min_r by exact L. rewrite !firstn_all2; [reflexivity|lia|exact L].
  Qed.

  Lemma firstn_S_nth {A} (l : list A) : forall j c, nth_error l j = Some c -> firstn (S j) l = firstn j l ++ [c].
  Proof.
    induction l as [|a l IH]; intros [|j] c E; cbn [nth_error firstn] in *; try discriminate.
    - injection E as ->. reflexivity.
    - rewrite (IH j c E). reflexivity.
  Qed.

  Lemma before_hop : forall p, before p = match hop false p with Some e => before e ++ tokens_at e | None => [] end.
  Proof.
    induction p as [|i q IH]; [reflexivity|]. unfold hop. cbn [ancestors_node map first_some before prev_pos].
    unfold toks_upto. rewrite (firstn_min (kids g q) i).
    destruct (Nat.min i (length (kids g q))) as [|j] eqn:Em.
    - cbn [firstn toks_loop]. rewrite app_nil_r. exact IH.
    - assert (Hj : (j < length (kids g q))%nat) by lia.
      destruct (nth_error (kids g q) j) as [c|] eqn:E; [|apply nth_error_None in E; lia].
      rewrite (firstn_S_nth _ j c E), toks_loop_app. cbn [toks_loop]. rewrite app_nil_r, firstn_length, Nat.min_l by lia.
      cbn [before]. unfold toks_upto. rewrite (tokens_at_cons _ _ _ E), <- app_assoc. reflexivity.
  Qed.

  Lemma hop_prev_decreases : forall p e, hop false p = Some e -> (size_at e + rest_before e <= rest_before p)%nat /\ (1 <= size_at e)%nat.
  Proof.
    induction p as [|i q IH]; intros e; unfold hop; cbn [ancestors_node map first_some prev_pos]; [discriminate|].
    cbn [rest_before]. rewrite (firstn_min (kids g q) i).
    destruct (Nat.min i (length (kids g q))) as [|j] eqn:Em.
    - intros H. fold (hop false q) in H. destruct (IH e H) as (A & B). cbn [firstn sizes]. lia.
    - intros [= <-]. assert (Hj : (j < length (kids g q))%nat) by lia.
      destruct (nth_error (kids g q) j) as [c|] eqn:E; [|apply nth_error_None in E; lia].
      rewrite (firstn_S_nth _ j c E), sizes_app. cbn [sizes rest_before]. unfold size_at. rewrite kids_nth, E.
      assert (G := gsize_pos c). lia.
  Qed.

  Theorem token_walk_prev_spec : forall fuel cur rs,
    (rest_before cur < fuel)%nat -> fst (token_walk g true false fuel rs cur) = last_error (before cur).
  Proof.
    induction fuel as [|f IH]; intros cur rs Hf; [lia|]. cbn [token_walk].
    set (step := match prev_sibling_gen g false rs cur with
                 | (Some s, rs') => (Some s, rs')
                 | (None, rs') => climb g false rs' (match cur with [] => [] | _ :: q => ancestors_node q end)
                 end).
    assert (Eh : fst step = hop false cur).
    { subst step. assert (N := prev_sibling_any rs cur).
      destruct (prev_sibling_gen g false rs cur) as [[s|] rs']; cbn [fst] in N.
      - cbn [fst]. unfold hop. destruct cur as [|i q]; [discriminate|]. cbn [ancestors_node map first_some]. rewrite <- N. reflexivity.
      - rewrite climb_spec. unfold hop. destruct cur as [|i q]; [reflexivity|]. cbn [ancestors_node map first_some]. rewrite <- N. reflexivity. }
    rewrite (before_hop cur), <- Eh. destruct step as [[e|] rs1]; cbn [fst]; [|reflexivity].
    cbn [fst] in Eh. assert (Lt := last_token_spec rs1 e). rewrite last_error_app.
    destruct (last_token g true rs1 e) as [[t|] rs2]; cbn [fst] in Lt |- *; rewrite <- Lt; [reflexivity|].
    symmetry in Lt. apply last_error_none in Lt.
    destruct (hop_prev_decreases cur e (eq_sym Eh)) as (A & B). apply IH. lia.
  Qed.

  Theorem prev_token_spec rs t : fst (prev_token g true rs t) = last_error (before t).
  Proof.
    unfold prev_token. apply token_walk_prev_spec. assert (A := size_bound t). lia.
  Qed.

  (* ---- the tokens before, at and after a position make up all tokens of the tree, in order ---- *)
  Theorem tokens_split : forall p, subr g p <> None -> tokens_at [] = before p ++ tokens_at p ++ after p.
  Proof.
    induction p as [|i q IH]; intros V; cbn [before after]; [rewrite app_nil_r; reflexivity|].
    assert (Vq : subr g q <> None) by (rewrite subr_cons in V; destruct (subr g q); congruence).
    rewrite (IH Vq). rewrite <- !app_assoc. f_equal. rewrite !app_assoc. f_equal.
    rewrite kids_nth in V. destruct (nth_error (kids g q) i) as [c|] eqn:E; [|congruence].
    (* the tokens of node q: those of its children before i, of child i, of the children after i *)
    unfold tokens_at at 1. unfold kids in E. destruct (subr g q) as [e|] eqn:Sq; [|destruct i; discriminate].
    destruct e as [|id k len h cs]; [destruct i; discriminate|]. cbn [gchildren] in E. cbn [tokens_under].
    assert (Ek : kids g q = cs) by (unfold kids; rewrite Sq; reflexivity).
    unfold toks_upto, toks_from. rewrite Ek, (tokens_at_cons i q c) by (rewrite Ek; exact E).
    rewrite <- (firstn_skipn i cs) at 1. rewrite toks_loop_app. cbn [Nat.add].
    assert (Li : length (firstn i cs) = i) by (rewrite firstn_length, Nat.min_l; [reflexivity|apply Nat.lt_le_incl; apply nth_error_Some; congruence]).
    rewrite Li.
    assert (S1 : skipn i cs = c :: skipn (S i) cs).
    { clear - E. revert i E. induction cs as [|a l IH]; intros [|i] E; cbn [nth_error skipn] in *; try discriminate.
      - injection E as ->. reflexivity.
      - apply IH. exact E. }
    rewrite S1. cbn [toks_loop]. rewrite <- app_assoc. reflexivity.
  Qed.
End TokenSpec.

(* the behaviour before the repair of F3: token navigation stops at an element without tokens *)
Definition ex_tok_tree : gelem := GNode 1 1 1 0 [GNode 2 2 0 0 []; GTok 3 5 (Some 0) 1].
Example first_token_unfixed_refuted :
  fst (first_token ex_tok_tree false [] []) = None /\ tokens_at ex_tok_tree [] = [[1%nat]] /\
  fst (first_token ex_tok_tree true [] []) = Some [1%nat].
Proof. vm_compute. repeat split; reflexivity. Qed.
