(* Red.v — the lazily materialised red tree (syntax/node.rs, token.rs, element.rs, iter.rs).
   A handle is a position: the list of child indices from the element UP to the root (own index in
   the parent first; the root is []).  The red state [rstate] records which positions have been
   materialised and the offset that was stored in the slot when the position was FIRST reached —
   later visits return the stored element (get_or_add_* return the cached entry on a hit).
   Every navigation primitive computes offsets the way its own code path does.  Definitions only. *)
From CsModel Require Export Green.

Definition pos := list nat.                   (* innermost index first *)
Definition rstate := list (pos * N).          (* materialised positions with their cached start offset *)

Fixpoint sub (g : gelem) (p : list nat) : option gelem :=      (* p root-first *)
  match p with
  | [] => Some g
  | i :: r => match nth_error (gchildren g) i with Some c => sub c r | None => None end
  end.
Definition subr (g : gelem) (p : pos) : option gelem := sub g (rev p).

Fixpoint pos_eqb (a b : pos) : bool :=
  match a, b with
  | [], [] => true
  | x :: a', y :: b' => Nat.eqb x y && pos_eqb a' b'
  | _, _ => false
  end.

Fixpoint lookup (rs : rstate) (p : pos) : option N :=
  match rs with
  | [] => None
  | (q, o) :: r => if pos_eqb q p then Some o else lookup r p
  end.

(* text_range().start(): the root's offset is 0; a child's is what was stored at creation *)
Definition offset_of (rs : rstate) (p : pos) : N :=
  match p with [] => 0 | _ => match lookup rs p with Some o => o | None => 0 end end.

(* get_or_add_node / get_or_add_element: a hit returns the cached element, a miss stores the
   caller-supplied offset *)
Definition goa (rs : rstate) (p : pos) (off : N) : rstate :=
  match lookup rs p with Some _ => rs | None => (p, off) :: rs end.

Section Red.
  Variable g : gelem.                         (* the green root of the tree *)

  Definition len_at (p : pos) : N := match subr g p with Some e => glen e | None => 0 end.
  Definition kids (p : pos) : list gelem := match subr g p with Some e => gchildren e | None => [] end.
  Definition is_node_at (p : pos) : bool := match subr g p with Some e => is_node e | None => false end.
  Definition start_of (rs : rstate) (p : pos) : N := offset_of rs p.
  Definition end_of (rs : rstate) (p : pos) : N := offset_of rs p + len_at p.

  (* GreenNode::children_from(start, offset): (element, (index, offset)) with a running += *)
  Fixpoint kids_from (cs : list gelem) (idx : nat) (off : N) : list (gelem * nat * N) :=
    match cs with
    | [] => []
    | c :: r => (c, idx, off) :: kids_from r (S idx) (off + glen c)
    end.
  Definition children_from (cs : list gelem) (start : nat) (off : N) : list (gelem * nat * N) :=
    kids_from (skipn start cs) start off.

  (* GreenNode::children_to(end, offset): take(end).rev() with a running -= BEFORE use *)
  Fixpoint kids_to (rcs : list gelem) (endi : nat) (off : N) : list (gelem * nat * N) :=
    match rcs with
    | [] => []
    | c :: r => (c, (endi - 1)%nat, off - glen c) :: kids_to r (endi - 1)%nat (off - glen c)
    end.
  Definition children_to (cs : list gelem) (endi : nat) (off : N) : list (gelem * nat * N) :=
    kids_to (rev (firstn endi cs)) (Nat.min endi (length cs)) off.

  Definition pick (nodes_only : bool) (l : list (gelem * nat * N)) : option (gelem * nat * N) :=
    find (fun x => negb nodes_only || is_node (fst (fst x))) l.

  (* take the first (filtered) candidate and materialise it under parent p *)
  Definition take_first (nodes_only : bool) (rs : rstate) (p : pos) (cands : list (gelem * nat * N))
    : option pos * rstate :=
    match pick nodes_only cands with
    | Some (_, idx, o) => (Some (idx :: p), goa rs (idx :: p) o)
    | None => (None, rs)
    end.

  (* ---- children / siblings of a NODE handle p ---- *)
  Definition first_child_gen (nodes_only : bool) (rs : rstate) (p : pos) :=
    take_first nodes_only rs p (children_from (kids p) 0 (start_of rs p)).
  Definition last_child_gen (nodes_only : bool) (rs : rstate) (p : pos) :=
    take_first nodes_only rs p (children_to (kids p) (length (kids p)) (end_of rs p)).
  (* public indexed lookups: the caller supplies n and offset *)
  Definition next_child_after_gen (nodes_only : bool) (rs : rstate) (p : pos) (n : nat) (off : N) :=
    take_first nodes_only rs p (children_from (kids p) (S n) off).
  Definition prev_child_before_gen (nodes_only : bool) (rs : rstate) (p : pos) (n : nat) (off : N) :=
    take_first nodes_only rs p (children_to (kids p) n off).

  (* next/prev sibling of an element handle (node: node.rs; token: token.rs via the indexed lookups
     of the parent) — both compute (index+1, own end) resp. (index, own start) *)
  Definition next_sibling_gen (nodes_only : bool) (rs : rstate) (p : pos) : option pos * rstate :=
    match p with
    | [] => (None, rs)
    | i :: q => take_first nodes_only rs q (children_from (kids q) (S i) (end_of rs p))
    end.
  Definition prev_sibling_gen (nodes_only : bool) (rs : rstate) (p : pos) : option pos * rstate :=
    match p with
    | [] => (None, rs)
    | i :: q => take_first nodes_only rs q (children_to (kids q) i (start_of rs p))
    end.

  Definition parent_of (p : pos) : option pos := match p with [] => None | _ :: q => Some q end.

  (* ancestors(): iter::successors(Some(self), parent) — for a token handle: of its parent *)
  Fixpoint ancestors_node (p : pos) : list pos :=
    match p with [] => [[]] | _ :: q => p :: ancestors_node q end.
  Definition ancestors (p : pos) : list pos :=
    if is_node_at p then ancestors_node p else match p with [] => [] | _ :: q => ancestors_node q end.

  (* ---- the child iterators (iter.rs): Iter = (remaining children, index, offset) ---- *)
  Record iter := mkIter { it_parent : pos; it_rest : list gelem; it_index : nat; it_offset : N }.
  Definition iter_new (rs : rstate) (p : pos) : iter := mkIter p (kids p) 0 (start_of rs p).

  (* SyntaxElementChildren::next *)
  Definition elem_iter_next (rs : rstate) (it : iter) : option pos * rstate * iter :=
    match it_rest it with
    | [] => (None, rs, it)
    | c :: r =>
        let p := it_index it :: it_parent it in
        (Some p, goa rs p (it_offset it), mkIter (it_parent it) r (S (it_index it)) (it_offset it + glen c))
    end.

  (* SyntaxNodeChildren::next: skip tokens (they are not materialised), return the next node *)
  Fixpoint node_iter_skip (par : pos) (rest : list gelem) (idx : nat) (off : N) (rs : rstate)
    : option pos * rstate * iter :=
    match rest with
    | [] => (None, rs, mkIter par [] idx off)
    | c :: r =>
        if is_node c then (Some (idx :: par), goa rs (idx :: par) off, mkIter par r (S idx) (off + glen c))
        else node_iter_skip par r (S idx) (off + glen c) rs
    end.
  Definition node_iter_next (rs : rstate) (it : iter) : option pos * rstate * iter :=
    node_iter_skip (it_parent it) (it_rest it) (it_index it) (it_offset it) rs.

  (* what the iterators REPORT about their size.
     [len_counts_nodes] = true: SyntaxNodeChildren counts the node children that remain (after the
     fix of F2); false: it forwards the unfiltered inner iterator (the code before the fix). *)
  Variable len_counts_nodes : bool.
  Definition elem_iter_len (it : iter) : nat := length (it_rest it).
  Definition node_iter_len (it : iter) : nat :=
    if len_counts_nodes then length (filter is_node (it_rest it)) else length (it_rest it).

  (* collect all items of an iterator *)
  Fixpoint elem_iter_collect (fuel : nat) (rs : rstate) (it : iter) : list pos * rstate :=
    match fuel with
    | O => ([], rs)
    | S f => match elem_iter_next rs it with
             | (Some p, rs', it') => let (l, rs'') := elem_iter_collect f rs' it' in (p :: l, rs'')
             | (None, rs', _) => ([], rs')
             end
    end.
  Fixpoint node_iter_collect (fuel : nat) (rs : rstate) (it : iter) : list pos * rstate :=
    match fuel with
    | O => ([], rs)
    | S f => match node_iter_next rs it with
             | (Some p, rs', it') => let (l, rs'') := node_iter_collect f rs' it' in (p :: l, rs'')
             | (None, rs', _) => ([], rs')
             end
    end.
  Definition children_nodes (rs : rstate) (p : pos) := node_iter_collect (S (length (kids p))) rs (iter_new rs p).
  Definition children_elems (rs : rstate) (p : pos) := elem_iter_collect (S (length (kids p))) rs (iter_new rs p).

  (* ---- tokens ---- *)
  (* [tokens_skip_empty] = true: first_token/last_token/next_token/prev_token look past elements that
     contain no token (after the fix of F3); false: the code before the fix. *)
  Variable tokens_skip_empty : bool.

  (* loops over the children of the node at p, parameterised by the recursive call (so that they can
     be reasoned about separately); [rec c q rs] is first/last_token of the child c at position q *)
  Section TokenLoops.
    Variable rec : gelem -> pos -> rstate -> option pos * rstate.
    Variable p : pos.
    (* the first child (in order) that has a first token; every child looked at is materialised by
       the element iterator with its running offset *)
    Fixpoint ft_loop (l : list gelem) (i : nat) (o : N) (rs : rstate) : option pos * rstate :=
      match l with
      | [] => (None, rs)
      | c :: r =>
          let rs1 := goa rs (i :: p) o in
          match rec c (i :: p) rs1 with
          | (Some t, rs2) => (Some t, rs2)
          | (None, rs2) => if tokens_skip_empty then ft_loop r (S i) (o + glen c) rs2 else (None, rs2)
          end
      end.
    (* l: the children from index i on; the children to the right are tried first.  The last child is
       reached by last_child_or_token (offset = own end - len), the others by prev_sibling_or_token
       hops from their right neighbour (offset = cached start of the neighbour - len). *)
    Fixpoint lt_loop (elen : N) (l : list gelem) (i : nat) (rs : rstate) : option pos * rstate :=
      match l with
      | [] => (None, rs)
      | c :: r =>
          match lt_loop elen r (S i) rs with
          | (Some t, rs2) => (Some t, rs2)
          | (None, rs2) =>
              match r with
              | [] => rec c (i :: p) (goa rs2 (i :: p) (offset_of rs2 p + elen - glen c))
              | _ :: _ =>
                  if tokens_skip_empty then rec c (i :: p) (goa rs2 (i :: p) (offset_of rs2 (S i :: p) - glen c))
                  else (None, rs2)
              end
          end
      end.
  End TokenLoops.

  Fixpoint first_token_of (e : gelem) (p : pos) (rs : rstate) : option pos * rstate :=
    match e with
    | GTok _ _ _ _ => (Some p, rs)
    | GNode _ _ _ _ cs => ft_loop first_token_of p cs 0%nat (offset_of rs p) rs
    end.
  Definition first_token (rs : rstate) (p : pos) : option pos * rstate :=
    match subr g p with Some e => first_token_of e p rs | None => (None, rs) end.

  Fixpoint last_token_of (e : gelem) (p : pos) (rs : rstate) : option pos * rstate :=
    match e with
    | GTok _ _ _ _ => (Some p, rs)
    | GNode _ _ len _ cs => lt_loop last_token_of p len cs 0%nat rs
    end.
  Definition last_token (rs : rstate) (p : pos) : option pos * rstate :=
    match subr g p with Some e => last_token_of e p rs | None => (None, rs) end.

  (* the first ancestor-or-self (node handles) / ancestor (token handles) that has a next sibling *)
  Fixpoint climb (next : bool) (rs : rstate) (chain : list pos) : option pos * rstate :=
    match chain with
    | [] => (None, rs)
    | a :: r =>
        match (if next then next_sibling_gen false rs a else prev_sibling_gen false rs a) with
        | (Some s, rs') => (Some s, rs')
        | (None, rs') => climb next rs' r
        end
    end.

  (* next_token / prev_token of the TOKEN at p.  Unfixed code: one hop (sibling, else climb), then
     first/last token of what was found.  Fixed code: keep hopping while the element found holds
     no token. *)
  Fixpoint token_walk (next : bool) (fuel : nat) (rs : rstate) (cur : pos) : option pos * rstate :=
    match fuel with
    | O => (None, rs)
    | S f =>
        let '(hop, rs1) :=
          match (if next then next_sibling_gen false rs cur else prev_sibling_gen false rs cur) with
          | (Some s, rs') => (Some s, rs')
          | (None, rs') => climb next rs' (match cur with [] => [] | _ :: q => ancestors_node q end)
          end in
        match hop with
        | None => (None, rs1)
        | Some e =>
            match (if next then first_token rs1 e else last_token rs1 e) with
            | (Some t, rs2) => (Some t, rs2)
            | (None, rs2) => if tokens_skip_empty then token_walk next f rs2 e else (None, rs2)
            end
        end
    end.

  Fixpoint gsize (e : gelem) : nat :=
    match e with
    | GTok _ _ _ _ => 1%nat
    | GNode _ _ _ _ cs => S ((fix sum (l : list gelem) : nat := match l with [] => 0%nat | c :: r => (gsize c + sum r)%nat end) cs)
    end.

  Definition next_token (rs : rstate) (p : pos) := token_walk true (S (gsize g)) rs p.
  Definition prev_token (rs : rstate) (p : pos) := token_walk false (S (gsize g)) rs p.

  (* ---- walks built with iter::successors ---- *)
  Inductive wev := Enter (p : pos) | Leave (p : pos).

  (* the closure of preorder() (nodes only) / preorder_with_tokens() (elements); [root] = self *)
  Definition preorder_step (nodes_only : bool) (root : pos) (rs : rstate) (ev : wev) : option wev * rstate :=
    match ev with
    | Enter p =>
        if is_node_at p then
          match first_child_gen nodes_only rs p with
          | (Some c, rs') => (Some (Enter c), rs')
          | (None, rs') => (Some (Leave p), rs')
          end
        else (Some (Leave p), rs)
    | Leave p =>
        if pos_eqb p root then (None, rs)
        else match next_sibling_gen nodes_only rs p with
             | (Some s, rs') => (Some (Enter s), rs')
             | (None, rs') => match parent_of p with
                              | Some q => (Some (Leave q), rs')
                              | None => (None, rs')     (* unwrap() on a root: unreachable, root = self *)
                              end
             end
    end.

  Fixpoint successors {A} (fuel : nat) (step : rstate -> A -> option A * rstate) (rs : rstate) (cur : A)
    : list A * rstate :=
    match fuel with
    | O => ([cur], rs)
    | S f => match step rs cur with
             | (Some nxt, rs') => let (l, rs'') := successors f step rs' nxt in (cur :: l, rs'')
             | (None, rs') => ([cur], rs')
             end
    end.

  Definition preorder (nodes_only : bool) (rs : rstate) (p : pos) : list wev * rstate :=
    successors (2 * gsize g) (preorder_step nodes_only p) rs (Enter p).

  Definition entered (l : list wev) : list pos :=
    flat_map (fun e => match e with Enter p => [p] | Leave _ => [] end) l.
  Definition descendants (nodes_only : bool) (rs : rstate) (p : pos) : list pos * rstate :=
    let (l, rs') := preorder nodes_only rs p in (entered l, rs').

  Definition siblings (nodes_only next : bool) (rs : rstate) (p : pos) : list pos * rstate :=
    successors (length (kids (tl p)))
      (fun rs q => if next then next_sibling_gen nodes_only rs q else prev_sibling_gen nodes_only rs q) rs p.

  (* ---- offset and range queries (node.rs token_at_offset / covering_element) ---- *)
  Inductive tao_res := TNone | TSingle (t : pos) | TBetween (l r : pos).

  (* the TokenAtOffset helper (utility_types.rs): left / right bias, Iterator::next (mem::replace), size_hint *)
  Definition tao_left (x : tao_res) : option pos := match x with TNone => None | TSingle t => Some t | TBetween l _ => Some l end.
  Definition tao_right (x : tao_res) : option pos := match x with TNone => None | TSingle t => Some t | TBetween _ r => Some r end.
  Definition tao_next (x : tao_res) : option pos * tao_res :=
    match x with TNone => (None, TNone) | TSingle t => (Some t, TNone) | TBetween l r => (Some l, TSingle r) end.
  Definition tao_size (x : tao_res) : nat := match x with TNone => 0 | TSingle _ => 1 | TBetween _ _ => 2 end.
  (* calling next [fuel] times: the items yielded and the size reported before each call *)
  Fixpoint tao_drain (fuel : nat) (x : tao_res) : list pos * list nat :=
    match fuel with
    | O => ([], [])
    | S f => let '(r, x') := tao_next x in
             let '(items, sizes) := tao_drain f x' in
             (match r with Some t => t :: items | None => items end, tao_size x :: sizes)
    end.

  (* materialise all children of the node e at p through the element iterator *)
  Fixpoint goa_all (cs : list gelem) (par : pos) (i : nat) (o : N) (rs : rstate) : rstate :=
    match cs with
    | [] => rs
    | c :: r => goa_all r par (S i) (o + glen c) (goa rs (i :: par) o)
    end.

  (* the filter of token_at_offset, evaluated on the ranges the children report *)
  Definition tao_hit (rs : rstate) (par : pos) (off : N) (c : gelem) (i : nat) : bool :=
    let s := offset_of rs (i :: par) in
    negb (glen c =? 0) && (s <=? off) && (off <=? s + glen c).

  Fixpoint count_hits (rs : rstate) (par : pos) (off : N) (cs : list gelem) (i : nat) : nat :=
    match cs with
    | [] => O
    | c :: r => ((if tao_hit rs par off c i then 1 else 0) + count_hits rs par off r (S i))%nat
    end.

  Section OffsetLoops.
    Variable rec : gelem -> pos -> N -> rstate -> res tao_res * rstate.
    Variable p : pos.
    Variable off : N.
    Variable rs1 : rstate.      (* the state in which the filter is evaluated *)
    (* recurse into the (one or two) hits, left to right *)
    Fixpoint tao_loop (l : list gelem) (i : nat) (rs : rstate) : list (res tao_res) * rstate :=
      match l with
      | [] => ([], rs)
      | c :: r =>
          if tao_hit rs1 p off c i then
            let '(x, rs') := rec c (i :: p) off rs in
            let '(xs, rs'') := tao_loop r (S i) rs' in (x :: xs, rs'')
          else tao_loop r (S i) rs
      end.
  End OffsetLoops.

  Definition tao_combine (results : list (res tao_res)) : res tao_res :=
    match results with
    | [x] => x
    | [Ok (TSingle l); Ok (TSingle r)] => Ok (TBetween l r)
    | [Panic q; _] => Panic q
    | [_; Panic q] => Panic q
    | _ => Panic PUnreachable                  (* unreachable!() *)
    end.

  Fixpoint tao_of (e : gelem) (p : pos) (off : N) (rs : rstate) : res tao_res * rstate :=
    match e with
    | GTok _ _ _ _ =>
        let s := offset_of rs p in
        if (s <=? off) && (off <=? s + glen e) then (Ok (TSingle p), rs) else (Panic POffsetRange, rs)
    | GNode _ _ _ _ cs =>
        let s := offset_of rs p in
        if negb ((s <=? off) && (off <=? s + glen e)) then (Panic POffsetRange, rs)
        else if glen e =? 0 then (Ok TNone, rs)
        else
          let rs1 := goa_all cs p 0%nat s rs in
          match count_hits rs1 p off cs 0%nat with
          | O => (Panic PUnreachable, rs1)                      (* children.next().unwrap() *)
          | S (S (S _)) => (Panic PUnreachable, rs1)            (* assert!(children.next().is_none()) *)
          | _ => let '(results, rs2) := tao_loop tao_of p off rs1 cs 0%nat rs1 in (tao_combine results, rs2)
          end
    end.
  Definition token_at_offset (rs : rstate) (p : pos) (off : N) : res tao_res * rstate :=
    match subr g p with Some e => tao_of e p off rs | None => (Panic POther, rs) end.

  Definition contains_range (s l rs re : N) : bool := (s <=? rs) && (re <=? s + l).

  Section CoverLoop.
    Variable rec : gelem -> pos -> N -> N -> rstate -> res pos * rstate.
    Variable p : pos.
    Variable rs_ re_ : N.
    (* children_with_tokens().find(|child| child.text_range().contains_range(range)) *)
    Fixpoint cov_loop (l : list gelem) (i : nat) (o : N) (rs : rstate) : res pos * rstate :=
      match l with
      | [] => (Ok p, rs)
      | c :: r =>
          let rs1 := goa rs (i :: p) o in
          if contains_range (offset_of rs1 (i :: p)) (glen c) rs_ re_
          then rec c (i :: p) rs_ re_ rs1
          else cov_loop r (S i) (o + glen c) rs1
      end.
  End CoverLoop.

  Fixpoint cov_of (e : gelem) (p : pos) (rs_ re_ : N) (rs : rstate) : res pos * rstate :=
    let s := offset_of rs p in
    if negb (contains_range s (glen e) rs_ re_) then (Panic POffsetRange, rs)
    else
      match e with
      | GTok _ _ _ _ => (Ok p, rs)
      | GNode _ _ _ _ cs => cov_loop cov_of p rs_ re_ cs 0%nat s rs
      end.
  Definition covering_element (rs : rstate) (p : pos) (rs_ re_ : N) : res pos * rstate :=
    match subr g p with Some e => cov_of e p rs_ re_ rs | None => (Panic POther, rs) end.
End Red.
