(* C14 — Replacing an element substitutes exactly that element.  Property theorems only. *)
From CsModel Require Import Builder Red RedProofs BuilderProofs TextPos GreenEq Replace.

Theorem C14_replace_denote : forall static_text H strs p g e r fresh,
  sub g p = Some e -> gkind e = gkind r ->
  exists g', replace_at H g p r fresh = Ok g' /\
             denote static_text strs g' = ssubst (denote static_text strs g) p (denote static_text strs r).
Proof. intros. eapply replace_denote; eauto. Qed.
Print Assumptions C14_replace_denote.

Theorem C14_replace_kind_mismatch : forall H p g e r fresh,
  sub g p = Some e -> gkind e <> gkind r -> replace_at H g p r fresh = Panic PKindMismatch.
Proof. intros. eapply replace_kind_mismatch; eauto. Qed.
Print Assumptions C14_replace_kind_mismatch.

Theorem C14_replace_wf : forall static_text H strs p g e r fresh g',
  WfGreen static_text H strs g -> WfGreen static_text H strs r -> sub g p = Some e ->
  replace_at H g p r fresh = Ok g' -> WfGreen static_text H strs g'.
Proof. intros static_text H strs p g e r fresh g' Wg Wr S R. exact (replace_wf static_text H strs p g e r fresh g' Wg Wr S R). Qed.
Print Assumptions C14_replace_wf.

Theorem C14_replace_text : forall static_text H strs p g e r fresh g',
  sub g p = Some e -> replace_at H g p r fresh = Ok g' ->
  gtext static_text strs g = tb static_text strs g p ++ gtext static_text strs e ++ ta static_text strs g p /\
  gtext static_text strs g' = tb static_text strs g p ++ gtext static_text strs r ++ ta static_text strs g p.
Proof. intros. eapply replace_spans; eauto. Qed.
Print Assumptions C14_replace_text.

Theorem C14_replace_equal : forall static_text H strs p g e r fresh g',
  WfGreen static_text H strs g -> sub g p = Some e -> geq r e = true ->
  replace_at H g p r fresh = Ok g' -> geq g' g = true.
Proof. intros. eapply replace_equal; eauto. Qed.
Print Assumptions C14_replace_equal.
