(* C17 — Derived syntax kinds convert safely and invertibly.  Property theorems only. *)
From CsModel Require Import Base Derive.

Theorem C17_accepted_laws : forall d texts,
  expand d = Some texts ->
  d_kind d = IEnum /\ d_reprs d = [RU32] /\ Forall well_formed_variant (d_variants d) /\
  texts = map annotation (d_variants d) /\
  let n := length (d_variants d) in
  (forall v, (v < n)%nat -> from_raw n (into_raw v) = Ok v) /\
  (forall raw, N.of_nat n <= raw -> from_raw n raw = Panic PFromRaw) /\
  (forall v, (v < n)%nat -> static_text_of texts v = match nth_error (d_variants d) v with Some x => annotation x | None => None end).
Proof. exact accepted_laws. Qed.
Print Assumptions C17_accepted_laws.

Theorem C17_ill_formed_rejected : forall d,
  d_kind d <> IEnum \/ d_reprs d <> [RU32] \/ ~ Forall well_formed_variant (d_variants d) -> expand d = None.
Proof. exact ill_formed_rejected. Qed.
Print Assumptions C17_ill_formed_rejected.

Theorem C17_well_formed_accepted : forall d,
  d_kind d = IEnum -> d_reprs d = [RU32] -> Forall well_formed_variant (d_variants d) ->
  expand d = Some (map annotation (d_variants d)).
Proof. exact well_formed_accepted. Qed.
Print Assumptions C17_well_formed_accepted.
