(* C03 — Navigation is coherent with the tree structure.  Property theorems only. *)
From CsModel Require Import TokenSpec.
From CsModel Require Import Red RedProofs Nav NavSpec IterSpec.

Theorem C03_first_child_spec : forall g b rs p,
  IsNext b (kids g p) 0 (idx_of (fst (first_child_gen g b rs p))) /\
  forall q, fst (first_child_gen g b rs p) = Some q -> parent_of q = Some p.
Proof. exact first_child_spec. Qed.
Print Assumptions C03_first_child_spec.

Theorem C03_last_child_spec : forall g b rs p,
  IsPrev b (kids g p) (length (kids g p)) (idx_of (fst (last_child_gen g b rs p))) /\
  forall q, fst (last_child_gen g b rs p) = Some q -> parent_of q = Some p.
Proof. exact last_child_spec. Qed.
Print Assumptions C03_last_child_spec.

Theorem C03_next_sibling_spec : forall g b rs i q,
  IsNext b (kids g q) (S i) (idx_of (fst (next_sibling_gen g b rs (i :: q)))) /\
  forall s, fst (next_sibling_gen g b rs (i :: q)) = Some s -> parent_of s = Some q.
Proof. exact next_sibling_spec. Qed.
Print Assumptions C03_next_sibling_spec.

Theorem C03_prev_sibling_spec : forall g b rs i q,
  IsPrev b (kids g q) i (idx_of (fst (prev_sibling_gen g b rs (i :: q)))) /\
  forall s, fst (prev_sibling_gen g b rs (i :: q)) = Some s -> parent_of s = Some q.
Proof. exact prev_sibling_spec. Qed.
Print Assumptions C03_prev_sibling_spec.

(* the public indexed lookups are the sibling operations of the child they are called for *)
Theorem C03_indexed_lookup_is_sibling : forall g b rs p i,
  next_child_after_gen g b rs p i (end_of g rs (i :: p)) = next_sibling_gen g b rs (i :: p) /\
  prev_child_before_gen g b rs p i (start_of rs (i :: p)) = prev_sibling_gen g b rs (i :: p).
Proof. intros. split; reflexivity. Qed.
Print Assumptions C03_indexed_lookup_is_sibling.

Theorem C03_root_has_no_sibling : forall g b rs,
  fst (next_sibling_gen g b rs []) = None /\ fst (prev_sibling_gen g b rs []) = None /\ parent_of [] = None.
Proof. exact root_has_no_sibling. Qed.
Print Assumptions C03_root_has_no_sibling.

Theorem C03_children_spec : forall g (b : bool) rs p,
  fst (if b then children_nodes g rs p else children_elems g rs p) = wanted_positions b p (kids g p) 0%nat.
Proof. exact children_spec. Qed.
Print Assumptions C03_children_spec.

Theorem C03_node_iter_len_exact : forall par rest idx off rs fuel,
  (length rest < fuel)%nat ->
  node_iter_len true (mkIter par rest idx off) =
  length (fst (node_iter_collect fuel rs (mkIter par rest idx off))).
Proof. exact node_iter_len_exact. Qed.
Print Assumptions C03_node_iter_len_exact.

Theorem C03_elem_iter_len_exact : forall par rest idx off rs fuel,
  (length rest < fuel)%nat ->
  elem_iter_len (mkIter par rest idx off) = length (fst (elem_iter_collect fuel rs (mkIter par rest idx off))).
Proof. exact elem_iter_len_exact. Qed.
Print Assumptions C03_elem_iter_len_exact.

Theorem C03_node_iter_len_unfixed_refuted :
  exists rest, node_iter_len false (mkIter [] rest 0%nat 0) <>
               length (fst (node_iter_collect (S (length rest)) [] (mkIter [] rest 0%nat 0))).
Proof. exact node_iter_len_unfixed_refuted. Qed.
Print Assumptions C03_node_iter_len_unfixed_refuted.

(* preorder walks (plain or with tokens, from any node): exactly the properly nested enter/leave
   events of the sub-tree, every wanted element once, in document order *)
From CsModel Require Import Preorder.

Theorem C03_preorder_spec : forall g b rs p e,
  subr g p = Some e -> fst (preorder g b rs p) = events_of b e p.
Proof. exact preorder_spec. Qed.
Print Assumptions C03_preorder_spec.

Theorem C03_preorder_balanced : forall g b rs p e,
  subr g p = Some e -> balanced (fst (preorder g b rs p)) [] = true.
Proof. exact preorder_balanced. Qed.
Print Assumptions C03_preorder_balanced.

Theorem C03_descendants_spec : forall g b rs p e,
  subr g p = Some e -> fst (descendants g b rs p) = entered (events_of b e p).
Proof. exact descendants_spec. Qed.
Print Assumptions C03_descendants_spec.

(* token navigation enumerates the tokens left to right (tokens_at p: the token positions below p in
   document order; after / before t: the token positions after / before t in the whole tree) *)
Theorem C03_first_token_spec : forall g rs p, fst (first_token g true rs p) = hd_error (tokens_at g p).
Proof. exact first_token_spec. Qed.
Print Assumptions C03_first_token_spec.

Theorem C03_last_token_spec : forall g rs p, fst (last_token g true rs p) = last_error (tokens_at g p).
Proof. exact last_token_spec. Qed.
Print Assumptions C03_last_token_spec.

Theorem C03_next_token_spec : forall g rs t, fst (next_token g true rs t) = hd_error (after g t).
Proof. exact next_token_spec. Qed.
Print Assumptions C03_next_token_spec.

Theorem C03_prev_token_spec : forall g rs t, fst (prev_token g true rs t) = last_error (before g t).
Proof. exact prev_token_spec. Qed.
Print Assumptions C03_prev_token_spec.

(* before t, t's own tokens and after t make up all tokens of the tree, in order: so next_token /
   prev_token walk the document order of ALL tokens, passing over elements that hold none *)
Theorem C03_tokens_split : forall g p, subr g p <> None -> tokens_at g [] = before g p ++ tokens_at g p ++ after g p.
Proof. exact tokens_split. Qed.
Print Assumptions C03_tokens_split.

(* the behaviour before the repair of F3: navigation stopped at an element without tokens *)
Theorem C03_first_token_unfixed_refuted :
  fst (first_token ex_tok_tree false [] []) = None /\ tokens_at ex_tok_tree [] = [[1%nat]] /\
  fst (first_token ex_tok_tree true [] []) = Some [1%nat].
Proof. exact first_token_unfixed_refuted. Qed.
Print Assumptions C03_first_token_unfixed_refuted.

(* several nth(k) calls on ONE child iterator (next() = nth(0)): they yield what the same calls yield on the
   plain list of the node's (wanted) children — `pick items script` takes the k-th remaining item and goes
   on behind it; an exhausted call yields nothing and leaves the iterator exhausted *)
Theorem C03_iter_script_spec : forall g (b : bool) rs p script,
  fst (iter_script b (S (length (kids g p))) rs (iter_new g rs p) script)
  = pick (wanted_positions b p (kids g p) 0%nat) script.
Proof. exact iter_script_children_spec. Qed.
Print Assumptions C03_iter_script_spec.

Example C03_pick_example : pick [10; 11; 12; 13; 14]%nat [1; 0; 1; 5; 0]%nat = [11; 12; 14]%nat.
Proof. reflexivity. Qed.

(* a partly consumed child iterator: draining it by further calls of next yields, after the picks, exactly the
   wanted children behind the last pick (rest_after) — what last / count / len / fold on the rest are computed from *)
Theorem C03_iter_rest_spec : forall g (b : bool) rs p script,
  let items := wanted_positions b p (kids g p) 0%nat in
  fst (iter_script b (S (length (kids g p))) rs (iter_new g rs p) (script ++ repeat 0%nat (S (length items))))
  = pick items script ++ rest_after items script.
Proof. exact iter_rest_spec. Qed.
Print Assumptions C03_iter_rest_spec.
