(* C16 — Serialized trees deserialize to the same tree.  Property theorems only. *)
From CsModel Require Extracted.
From CsModel Require Import Builder BuilderSpec BuilderProofs Serde SerdeExact.

(* the text field of the token event, as typed in the CURRENT source, can be read from every kind of
   input (borrowed plain, borrowed with escapes, owned: from_reader / from_value) *)
Theorem C16_text_field_reads_every_input : forall m, deser_str serde_token_text_ty m = true.
Proof. intros m. destruct m; reflexivity. Qed.
Print Assumptions C16_text_field_reads_every_input.

Theorem C16_roundtrip : forall static_text H threshold debug m wd k d cs,
  Forall (fun e => WfEvent static_text (to_bop e)) (ser_events wd (DNode k d cs)) ->
  exists g strs,
    deser_tree static_text H threshold debug true serde_token_text_ty m (ser_events wd (DNode k d cs)) =
      DOk (g, strs, flags_of (ser_events wd (DNode k d cs))) /\
    denote static_text strs g = skel static_text (DNode k d cs).
Proof.
  intros. apply roundtrip; [left; apply C16_text_field_reads_every_input|assumption].
Qed.
Print Assumptions C16_roundtrip.

Theorem C16_data_roundtrip : forall t, attach (flags_of (ser_events true t)) (ser_data t) = Some (data_pre t).
Proof. exact attach_roundtrip. Qed.
Print Assumptions C16_data_roundtrip.

Theorem C16_data_list_exact : forall flags data,
  attach flags data <> None <-> length data = length (filter (fun b => b) flags).
Proof. exact attach_exact. Qed.
Print Assumptions C16_data_list_exact.

(* rejection is an error, never a panic; whatever is accepted denotes exactly what the events describe *)
Theorem C16_deser_total : forall static_text H threshold debug ty m evs,
  Forall (fun e => WfEvent static_text (to_bop e)) evs ->
  match deser_tree static_text H threshold debug true ty m evs with
  | DPanic _ => False
  | DErr => True
  | DOk (g, strs, flags) =>
      exists t, parse static_text (map to_bop evs) = Some t /\ denote static_text strs g = t /\
                WfGreen static_text H strs g /\ flags = flags_of evs
  end.
Proof. exact deser_total. Qed.
Print Assumptions C16_deser_total.

Theorem C16_nest_ok_parse : forall static_text evs,
  nest_ok evs 0 0 = true -> exists t, parse static_text (map to_bop evs) = Some t.
Proof. exact nest_ok_parse. Qed.
Print Assumptions C16_nest_ok_parse.

Theorem C16_unchecked_refuted : exists st Hh evs g strs fl,
  deser_tree st Hh 3 false false FBorrowedStr MBorrowedPlain evs = DOk (g, strs, fl) /\
  parse st (map to_bop evs) = None.
Proof.
  exists (fun _ => None), (fun _ => 0), [SvEnter 1 false; SvEnter 2 false; SvLeave]. eexists _, _, _. split; reflexivity.
Qed.
Print Assumptions C16_unchecked_refuted.

(* the nesting check decides exactly "one well-nested tree rooted in a node" *)
Theorem C16_nest_ok_iff_parse : forall static_text evs,
  nest_ok evs 0 0 = true <-> exists t, parse static_text (map to_bop evs) = Some t.
Proof. exact nest_ok_iff_parse. Qed.
Print Assumptions C16_nest_ok_iff_parse.

(* ... so, with the token text field as it is typed in the current source, the deserializer reports an
   error for exactly the event streams that are not one well-nested tree — and accepts all others *)
Theorem C16_rejects_exactly : forall static_text H threshold debug m evs,
  deser_tree static_text H threshold debug true serde_token_text_ty m evs = DErr <-> parse static_text (map to_bop evs) = None.
Proof.
  intros. apply deser_rejects_exactly. exact C16_text_field_reads_every_input.
Qed.
Print Assumptions C16_rejects_exactly.

(* every source fact this property's model depends on was found by the translator in the current
   source (otherwise the model would be running on the values the proofs were written for) *)
Theorem C16_facts_extracted : CsModel.Extracted.facts_found_C16 = true.
Proof. reflexivity. Qed.
Print Assumptions C16_facts_extracted.
