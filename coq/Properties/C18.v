(* C18 — Per-node data behaves like an atomic optional slot.  Property theorems only. *)
From CsModel Require Import Red RedProofs Conc ConcProofs ConcData ConcPayload ConcLin.
From Coq Require Import ZArith.

(* a data operation is one machine step, and that step is the sequential optional-slot operation
   on the data of its tree position: new content and result as specified, every other position and
   the rest of the machine untouched *)
Theorem C18_data_step_atomic : forall g s tid t p o rest,
  let s' := fst (exec_mop g s tid t (MData p o) rest) in
  let cur := data_lookup (c_data s) p in
  data_lookup (c_data s') p = fst (dspec cur o) /\
  (forall q, q <> p -> data_lookup (c_data s') q = data_lookup (c_data s) q) /\
  nth_error (c_threads s') tid = (match nth_error (c_threads s) tid with
                                  | Some _ => Some (mkThread (t_regs t) (t_prog t) rest (t_out t ++ [snd (dspec cur o)]))
                                  | None => None end) /\
  c_slots s' = c_slots s /\ c_rc s' = c_rc s /\ c_live s' = c_live s /\ c_torn s' = c_torn s /\
  exists b w, snd (exec_mop g s tid t (MData p o) rest) = [CDataLock b w; CDataUnlock b w].
Proof. exact data_step_atomic. Qed.
Print Assumptions C18_data_step_atomic.

(* no other step changes any node's data while the tree is alive *)
Theorem C18_other_steps_keep_data : forall g s tid t m rest,
  (forall p o, m <> MData p o) -> c_torn (fst (exec_mop g s tid t m rest)) = false ->
  c_data (fst (exec_mop g s tid t m rest)) = c_data s.
Proof. exact other_steps_keep_data. Qed.
Print Assumptions C18_other_steps_keep_data.

Theorem C18_try_set_exclusive : forall cur r v,
  (cur = None -> dspec cur (KTrySet r v) = (Some v, RTrySet true v)) /\
  (forall x, cur = Some x -> dspec cur (KTrySet r v) = (Some x, RTrySet false v)).
Proof. exact try_set_exclusive. Qed.
Print Assumptions C18_try_set_exclusive.

(* every stored value is dropped exactly once: at every reachable state the values created so far are
   those still stored plus those dropped; when all threads are done all of them have been dropped *)
Theorem C18_payloads_dropped_once : forall g progs s,
  Reach g progs s ->
  (Z.of_nat (c_payload_drops s) + Z.of_nat (length (c_data s)) = sumT createdT (c_threads s))%Z /\
  (progs <> [] -> all_done s = true -> Z.of_nat (c_payload_drops s) = sumT createdT (c_threads s)).
Proof. exact payloads_dropped_once. Qed.
Print Assumptions C18_payloads_dropped_once.

(* run level: the data operations of EVERY run (any programs, any schedule, any length) are linearizable.
   The history h of a run lists its data operations in the order of the machine steps performing them
   (RunH; every reachable state has one).  Executing h sequentially on one optional slot per position
   (seq_run, from the empty store) gives, entry by entry, the result the thread recorded in its output
   (Recorded); while the tree is alive the data the machine holds is the store that execution ends in;
   and h keeps each thread's operations in program order (POrd). *)
Theorem C18_data_linearizable : forall g progs s h,
  RunH g progs s h ->
  Forall2 (Recorded s) h (fst (seq_run st_empty h)) /\
  (c_torn s = false -> forall p, snd (seq_run st_empty h) p = data_lookup (c_data s) p) /\
  POrd h.
Proof. exact data_linearizable. Qed.
Print Assumptions C18_data_linearizable.

Theorem C18_every_state_has_a_history : forall g progs s, Reach g progs s -> exists h, RunH g progs s h.
Proof. exact Reach_RunH. Qed.
Print Assumptions C18_every_state_has_a_history.
