(* C19 — Display and debug output are total and faithful.  Property theorems only. *)
From CsModel Require Import Red RedProofs Nav NavSpec Preorder TextPos Fmt Extracted.

(* formatting never panics: for every token text the abbreviation finds a character boundary among
   the candidate cut positions of the CURRENT source (constants re-extracted on every run) *)
Theorem C19_abbrev_total : forall t, exists x, abbrev abbrev_len abbrev_lo abbrev_hi t = Ok x.
Proof. intros t. apply abbrev_total; apply extracted_window_ok. Qed.
Print Assumptions C19_abbrev_total.

Theorem C19_abbrev_total_generic : forall thr lo hi t,
  hi = lo + 4 -> lo + 4 <= thr -> exists x, abbrev thr lo hi t = Ok x.
Proof. intros. apply abbrev_total; assumption. Qed.
Print Assumptions C19_abbrev_total_generic.

Theorem C19_abbrev_faithful : forall thr lo hi, hi = lo + 4 -> lo + 4 <= thr -> forall t x,
  abbrev thr lo hi t = Ok x ->
  (byte_len t < thr /\ x = t) \/
  (thr <= byte_len t /\ exists pre rest, t = pre ++ rest /\ x = pre ++ ellipsis /\ lo <= byte_len pre < hi).
Proof. exact abbrev_faithful. Qed.
Print Assumptions C19_abbrev_faithful.

(* recursive debug: one line per element of the sub-tree, once, in source order, indented by depth;
   the closing assertion level == 0 holds *)
Theorem C19_debug_recursive_spec : forall g rs p e,
  subr g p = Some e -> debug_lines (fst (preorder g false rs p)) 0 = (lines_of e p 0, 0%nat).
Proof. exact debug_recursive_spec. Qed.
Print Assumptions C19_debug_recursive_spec.

(* display produces exactly the text *)
Theorem C19_display_is_text : forall g static_text strs rs p e,
  subr g p = Some e ->
  display_of static_text strs g (fst (preorder g false rs p)) = gtext static_text strs e.
Proof. intros. apply display_is_text. assumption. Qed.
Print Assumptions C19_display_is_text.

(* every source fact this property's model depends on was found by the translator in the current
   source (otherwise the model would be running on the values the proofs were written for) *)
Theorem C19_facts_extracted : CsModel.Extracted.facts_found_C19 = true.
Proof. reflexivity. Qed.
Print Assumptions C19_facts_extracted.
