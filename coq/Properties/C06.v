(* C06 — A tree is reclaimed exactly once, when its last handle goes away.  Property theorems only. *)
From CsModel Require Import Red RedProofs Conc ConcProofs ConcReclaim ConcTear.
From Coq Require Import ZArith.
Open Scope Z_scope.

(* in every state reachable under any schedule, until the teardown starts: the reference count is
   the number of owned handles plus the compensation still queued inside loser paths; no thread
   owes a negative amount; a thread inside an operation owns a handle *)
Theorem C06_rc_accounting : forall g progs s,
  Reach g progs s -> c_torn s = false ->
  c_rc s = sumT owned (c_threads s) + sumT (fun t => debt (t_cont t)) (c_threads s) /\ Forall TOk (c_threads s).
Proof. intros g progs s R NT. exact (reach_Pre g progs s R NT). Qed.
Print Assumptions C06_rc_accounting.

(* never earlier: the step that starts the teardown reads 1, is taken by a thread that owns exactly
   one handle, and no other thread owns a handle or is inside an operation *)
Theorem C06_teardown_alone : forall g progs s want s' tid evs,
  Reach g progs s -> c_torn s = false -> cstep g s want = Some (s', tid, evs) -> c_torn s' = true ->
  c_rc s = 1 /\
  (exists t, nth_error (c_threads s) tid = Some t /\ owned t = 1) /\
  (forall j x, j <> tid -> nth_error (c_threads s) j = Some x -> owned x = 0 /\ t_cont x = []).
Proof. exact teardown_alone. Qed.
Print Assumptions C06_teardown_alone.

(* a run of the machine under a schedule visits reachable states only *)
Theorem C06_runs_are_reachable : forall g progs fuel s sched rr,
  Reach g progs s -> Reach g progs (fst (crun g fuel s sched rr)).
Proof. exact crun_reach. Qed.
Print Assumptions C06_runs_are_reachable.

(* never twice, never what is not live: the freed blocks are pairwise different and none of them is
   live; every live block is claimed exactly once — by the tree (the root), an initialised slot, a
   candidate a thread is about to install, or a free a thread has queued *)
Theorem C06_free_once : forall g progs s,
  Reach g progs s ->
  NoDup (c_freed s) /\ (forall b, In b (c_freed s) -> ~ In b (c_live s)) /\
  NoDup (blocks s) /\ (forall b, In b (c_live s) <-> In b (blocks s)).
Proof. exact free_once. Qed.
Print Assumptions C06_free_once.

(* never leaked: when every thread has finished its program and dropped its handles — whatever the
   programs, the number of threads and the schedule — the teardown has run, no block is live, no
   node slot and no node datum is left *)
Theorem C06_no_leak : forall g progs s,
  progs <> [] -> Reach g progs s -> all_done s = true ->
  c_torn s = true /\ c_live s = [] /\ c_data s = [] /\ no_node_slot s.
Proof. exact no_leak. Qed.
Print Assumptions C06_no_leak.

(* the count cannot reach zero by any step other than the drop of the last handle *)
Theorem C06_count_positive : forall g progs s,
  progs <> [] -> Reach g progs s -> c_torn s = false -> c_rc s >= 1.
Proof. intros g progs s Hp R. exact (reach_RcPos g progs s Hp R). Qed.
Print Assumptions C06_count_positive.
