(* C06 — A tree is reclaimed exactly once, when its last handle goes away.  Property theorems only. *)
From CsModel Require Import Red RedProofs Conc ConcProofs.
From Coq Require Import ZArith.
Open Scope Z_scope.

(* in every state reachable under any schedule, until the teardown starts: the reference count is
   the number of owned handles plus the compensation still queued inside loser paths; no thread
   owes a negative amount; a thread inside an operation owns a handle *)
Theorem C06_rc_accounting : forall g progs s,
  Reach g progs s -> c_torn s = false ->
  c_rc s = sumT owned (c_threads s) + sumT (fun t => debt (t_cont t)) (c_threads s) /\ Forall TOk (c_threads s).
Proof. intros g progs s R NT. exact (reach_Pre g progs s R NT). Qed.
Print Assumptions C06_rc_accounting.

(* never earlier: the step that starts the teardown reads 1, is taken by a thread that owns exactly
   one handle, and no other thread owns a handle or is inside an operation *)
Theorem C06_teardown_alone : forall g progs s want s' tid evs,
  Reach g progs s -> c_torn s = false -> cstep g s want = Some (s', tid, evs) -> c_torn s' = true ->
  c_rc s = 1 /\
  (exists t, nth_error (c_threads s) tid = Some t /\ owned t = 1) /\
  (forall j x, j <> tid -> nth_error (c_threads s) j = Some x -> owned x = 0 /\ t_cont x = []).
Proof. exact teardown_alone. Qed.
Print Assumptions C06_teardown_alone.

(* a run of the machine under a schedule visits reachable states only *)
Theorem C06_runs_are_reachable : forall g progs fuel s sched rr,
  Reach g progs s -> Reach g progs (fst (crun g fuel s sched rr)).
Proof. exact crun_reach. Qed.
Print Assumptions C06_runs_are_reachable.
