(* C06 — A tree is reclaimed exactly once, when its last handle goes away.  Property theorems only. *)
From CsModel Require Import Red RedProofs Conc ConcProofs ConcHandles ConcReclaim ConcTear ConcValid Handles HandlesProofs.
From Coq Require Import ZArith.
Open Scope Z_scope.

(* in every state reachable under any schedule, until the teardown starts: the reference count is
   the number of owned handles plus the compensation still queued inside loser paths; no thread
   owes a negative amount; a thread inside an operation owns a handle *)
Theorem C06_rc_accounting : forall g progs s,
  Reach g progs s -> c_torn s = false ->
  c_rc s = sumT owned (c_threads s) + sumT (fun t => debt (t_cont t)) (c_threads s) /\ Forall TOk (c_threads s).
Proof. intros g progs s R NT. exact (reach_Pre g progs s R NT). Qed.
Print Assumptions C06_rc_accounting.

(* never earlier: the step that starts the teardown reads 1, is taken by a thread that owns exactly
   one handle, and no other thread owns a handle or is inside an operation *)
Theorem C06_teardown_alone : forall g progs s want s' tid evs,
  Reach g progs s -> c_torn s = false -> cstep g s want = Some (s', tid, evs) -> c_torn s' = true ->
  c_rc s = 1 /\
  (exists t, nth_error (c_threads s) tid = Some t /\ owned t = 1) /\
  (forall j x, j <> tid -> nth_error (c_threads s) j = Some x -> owned x = 0 /\ t_cont x = []).
Proof. exact teardown_alone. Qed.
Print Assumptions C06_teardown_alone.

(* a run of the machine under a schedule visits reachable states only *)
Theorem C06_runs_are_reachable : forall g progs fuel s sched rr,
  Reach g progs s -> Reach g progs (fst (crun g fuel s sched rr)).
Proof. exact crun_reach. Qed.
Print Assumptions C06_runs_are_reachable.

(* never twice, never what is not live: the freed blocks are pairwise different and none of them is
   live; every live block is claimed exactly once — by the tree (the root), an initialised slot, a
   candidate a thread is about to install, or a free a thread has queued *)
Theorem C06_free_once : forall g progs s,
  Reach g progs s ->
  NoDup (c_freed s) /\ (forall b, In b (c_freed s) -> ~ In b (c_live s)) /\
  NoDup (blocks s) /\ (forall b, In b (c_live s) <-> In b (blocks s)).
Proof. exact free_once. Qed.
Print Assumptions C06_free_once.

(* never leaked: when every thread has finished its program and dropped its handles — whatever the
   programs, the number of threads and the schedule — the teardown has run, no block is live, no
   node slot and no node datum is left *)
Theorem C06_no_leak : forall g progs s,
  progs <> [] -> Reach g progs s -> all_done s = true ->
  c_torn s = true /\ c_live s = [] /\ c_data s = [] /\ no_node_slot s.
Proof. exact no_leak. Qed.
Print Assumptions C06_no_leak.

(* the count cannot reach zero by any step other than the drop of the last handle *)
Theorem C06_count_positive : forall g progs s,
  progs <> [] -> Reach g progs s -> c_torn s = false -> c_rc s >= 1.
Proof. intros g progs s Hp R. exact (reach_RcPos g progs s Hp R). Qed.
Print Assumptions C06_count_positive.

(* never earlier, seen from the handles: as long as ANY thread holds ANY handle — to the root, an inner
   node or a token — the teardown has not started, the root block and the block of every initialised node
   slot are live and have not been freed (the whole tree stays), and the handle denotes the element stored
   for its position *)
Theorem C06_handles_stay_valid : forall g progs s tid t r h,
  Reach g progs s -> nth_error (c_threads s) tid = Some t -> reg_of t r = Some h ->
  c_torn s = false /\
  In 0%nat (c_live s) /\ ~ In 0%nat (c_freed s) /\
  (forall q b, slot_lookup (c_slots s) q = Some (ENode b) -> In b (c_live s) /\ ~ In b (c_freed s)) /\
  HOk (c_slots s) h.
Proof. exact handles_stay_valid. Qed.
Print Assumptions C06_handles_stay_valid.

(* several trees and the handle operations std provides on top of Clone and Drop (clone, clone_from = `*self =
   source.clone()`, mem::swap, navigation into the same tree, drop): from n trees with one handle each, after ANY
   sequence of operations the count of every tree is the number of handles pointing into it; a tree has been torn
   down exactly if no handle points into it — never while one exists, as soon as none exists — and never twice *)
Theorem C06_handles_reclaim : forall n ops,
  let s := fst (hrun_ops (hinit n) ops) in
  (forall t, (t < n)%nat -> nth_error (hs_rc s) t = Some (count t (hs_regs s))) /\
  NoDup (hs_torn s) /\
  (forall t, In t (hs_torn s) <-> (t < n)%nat /\ count t (hs_regs s) = 0%nat).
Proof. exact handles_reclaim. Qed.
Print Assumptions C06_handles_reclaim.

(* a step reports a teardown exactly when it is the step that tears the tree down *)
Theorem C06_handles_step_reports : forall n s o, HInvM n s ->
  forall t, In t (snd (hstep s o)) <-> (~ In t (hs_torn s) /\ In t (hs_torn (fst (hstep s o)))).
Proof. exact hstep_reports. Qed.
Print Assumptions C06_handles_step_reports.

(* never leaked: once every remaining handle is dropped, every tree has been torn down and every count is zero *)
Theorem C06_handles_no_leak : forall n ops,
  let s := fst (hrun_ops (hinit n) ops) in
  let s' := fst (hdrop_all s) in
  forall t, (t < n)%nat -> In t (hs_torn s') /\ nth_error (hs_rc s') t = Some 0%nat.
Proof. exact handles_no_leak. Qed.
Print Assumptions C06_handles_no_leak.
