(* C02 — Every red element reports its exact source span.  Property theorems only. *)
From CsModel Require Import Red RedProofs Nav NavProofs TextPos.

(* every history of navigation operations (any program of the register machine, any order in which
   elements are first reached) keeps: each materialised position caches its true offset *)
Theorem C02_reach_inv : forall g lcn skip ops,
  LenOk g ->
  Inv g (snd (nav_run g lcn skip [Some []] [] ops)) /\
  RegsOk (snd (nav_run g lcn skip [Some []] [] ops)) (snd (fst (nav_run g lcn skip [Some []] [] ops))).
Proof. intros. apply reach_inv. assumption. Qed.
Print Assumptions C02_reach_inv.

Theorem C02_step_inv : forall g lcn skip regs rs op,
  LenOk g -> Inv g rs -> RegsOk rs regs -> Res3 g rs (nav_exec g lcn skip regs rs op).
Proof. intros. apply nav_exec_ok; assumption. Qed.
Print Assumptions C02_step_inv.

Theorem C02_range_exact : forall g rs p,
  Inv g rs -> Known rs p ->
  start_of rs p = true_off g p /\ end_of g rs p = true_off g p + len_at g p.
Proof. exact range_exact. Qed.
Print Assumptions C02_range_exact.

Theorem C02_root_zero : forall rs, start_of rs [] = 0.
Proof. exact root_zero. Qed.
Print Assumptions C02_root_zero.

Theorem C02_children_tile : forall g p,
  LenOk g -> is_node_at g p = true ->
  true_off g (0%nat :: p) = true_off g p /\
  (forall i c, nth_error (kids g p) i = Some c ->
               true_off g (S i :: p) = true_off g (i :: p) + len_at g (i :: p)) /\
  true_off g (length (kids g p) :: p) = true_off g p + len_at g p.
Proof. intros. apply children_tile; assumption. Qed.
Print Assumptions C02_children_tile.

(* resolving the text of an element yields exactly the slice of the whole text at its range *)
Theorem C02_text_slice : forall static_text H strs g p e,
  WfGreen static_text H strs g -> subr g p = Some e ->
  gtext static_text strs g =
    text_before static_text strs g p ++ gtext static_text strs e ++ text_after static_text strs g p /\
  byte_len (text_before static_text strs g p) = true_off g p /\
  byte_len (gtext static_text strs e) = len_at g p.
Proof. intros. eapply text_slice; eauto. Qed.
Print Assumptions C02_text_slice.

Theorem C02_builder_trees_qualify : forall static_text H strs g, WfGreen static_text H strs g -> LenOk g.
Proof. exact WfG_LenOk. Qed.
Print Assumptions C02_builder_trees_qualify.
