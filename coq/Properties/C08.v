(* C08 — Thread-safety markers are sound.  Property theorems only.
   The bounds are those of the CURRENT source (coq/Extracted.v is regenerated on every run). *)
From CsModel Require Extracted.
From CsModel Require Import Base AutoTrait.

(* a handle can be sent to / shared with another thread only if everything reachable through it is
   thread-safe — for all instantiations of the data parameter and of the resolver type (a bound can
   only ask whether a type is Send / Sync, so the instantiations are represented by their four bits) *)
Theorem C08_markers_sound : forall a,
  (is_send node_send_bounds a = true \/ is_sync node_sync_bounds a = true) ->
  deep false a = true /\ (constructible ctor_resolver_bounds a = true -> deep true a = true).
Proof. apply markers_sound_of. vm_compute. reflexivity. Qed.
Print Assumptions C08_markers_sound.

(* the documented use is accepted: thread-safe data and resolver give Send + Sync handles *)
Theorem C08_markers_complete : forall a,
  d_send a = true -> d_sync a = true -> r_send a = true -> r_sync a = true ->
  is_send node_send_bounds a = true /\ is_sync node_sync_bounds a = true /\ constructible ctor_resolver_bounds a = true.
Proof. apply markers_complete_of. vm_compute. reflexivity. Qed.
Print Assumptions C08_markers_complete.

(* green nodes and tokens are sendable and shareable unconditionally *)
Theorem C08_green_always : green_token_unconditional = true.
Proof. reflexivity. Qed.
Print Assumptions C08_green_always.

Theorem C08_unbounded_markers_refuted :
  exists a, is_send [] a = true /\ constructible [[]; []] a = true /\ deep true a = false /\ deep false a = false.
Proof. exact unbounded_markers_refuted. Qed.
Print Assumptions C08_unbounded_markers_refuted.

(* every source fact this property's model depends on was found by the translator in the current
   source (otherwise the model would be running on the values the proofs were written for) *)
Theorem C08_facts_extracted : CsModel.Extracted.facts_found_C08 = true.
Proof. reflexivity. Qed.
Print Assumptions C08_facts_extracted.

(* borrowed text views: derived by the compiler from their fields (no hand-written marker for any other type in the
   library: extracted from the CURRENT source), so a view that is Send or Sync has thread-safe data and borrows a resolver
   that may be shared between threads *)
Theorem C08_no_other_markers : other_marker_impls = 0%nat.
Proof. reflexivity. Qed.
Print Assumptions C08_no_other_markers.

Theorem C08_views_sound : forall a i_sync,
  view_ok node_sync_bounds a i_sync = true -> deep false a = true /\ i_sync = true.
Proof. apply (view_sound_of node_send_bounds node_sync_bounds ctor_resolver_bounds). vm_compute. reflexivity. Qed.
Print Assumptions C08_views_sound.

(* the syntax-kind parameter is a type-level tag — no value of it is stored in or reachable from a tree —, so the markers
   put no bound on it: a tree over thread-safe data (and resolver) is Send + Sync whatever its kind type is *)
Theorem C08_kind_parameter_unconstrained : node_kind_bounds = [].
Proof. reflexivity. Qed.
Print Assumptions C08_kind_parameter_unconstrained.
