(* C15 — Green equality and hashing are structural and route-independent.  Property theorems only. *)
From CsModel Require Import Builder Red RedProofs BuilderProofs TextPos GreenEq Replace.

Theorem C15_geq_structural : forall static_text H strs a b,
  NoDup strs -> WfGreen static_text H strs a -> WfGreen static_text H strs b ->
  (geq a b = true <-> denote static_text strs a = denote static_text strs b).
Proof. intros static_text H strs a b ND Wa Wb. exact (geq_structural static_text H strs ND a b Wa Wb). Qed.
Print Assumptions C15_geq_structural.

Theorem C15_geq_hash : forall a b, geq a b = true -> hw_of a = hw_of b.
Proof. exact geq_hash. Qed.
Print Assumptions C15_geq_hash.

(* every route produces well-formed trees: the builder with any cache (C01), direct construction,
   replacement (C14) — so equality cannot depend on the route *)
Theorem C15_route_new_wf : forall static_text H strs id k cs,
  WfGreens static_text H strs cs -> WfGreen static_text H strs (green_node_new H id k cs).
Proof. intros. apply green_node_new_wf. assumption. Qed.
Print Assumptions C15_route_new_wf.

Theorem C15_route_builder_wf : forall static_text (H : list hw -> N) threshold debug c ops t,
  CacheInv static_text H c -> Forall (BuilderSpec.WfEvent static_text) ops -> BuilderSpec.parse static_text ops = Some t ->
  exists g c', build static_text H threshold HeadAndChildren debug true c ops = Ok (g, c') /\
    denote static_text (c_strs c') g = t /\ WfGreen static_text H (c_strs c') g /\
    CacheInv static_text H c' /\ exists ext, c_strs c' = c_strs c ++ ext.
Proof. exact build_faithful. Qed.
Print Assumptions C15_route_builder_wf.

Theorem C15_text_len_sum : forall static_text H strs e,
  WfGreen static_text H strs e -> glen e = byte_len (gtext static_text strs e).
Proof. intros. eapply glen_text; eauto. Qed.
Print Assumptions C15_text_len_sum.

(* the child iterator: the three methods that are not plain forwards behave like the sequence *)
Theorem C15_iter_last : forall (A : Type) (l : list A) x, gi_last (l ++ [x]) = Some x /\ gi_last (@nil A) = None.
Proof. intros. apply gi_last_spec. Qed.
Print Assumptions C15_iter_last.

Theorem C15_iter_fold : forall (A B : Type) (f : B -> A -> B) l acc fuel,
  (length l <= fuel)%nat -> gi_fold fuel f acc l = fold_left f l acc.
Proof. intros. apply gi_fold_spec. assumption. Qed.
Print Assumptions C15_iter_fold.

Theorem C15_iter_rfold : forall (A B : Type) (f : B -> A -> B) l acc fuel,
  (length l <= fuel)%nat -> gi_rfold fuel f acc l = fold_left f (rev l) acc.
Proof. intros. apply gi_rfold_spec. assumption. Qed.
Print Assumptions C15_iter_rfold.

Theorem C15_iter_nth : forall (A : Type) (l : list A) n,
  fst (gi_nth l n) = nth_error l n /\ snd (gi_nth l n) = skipn (S n) l.
Proof. intros. apply gi_nth_spec. Qed.
Print Assumptions C15_iter_nth.

Theorem C15_iter_next_back : forall (A : Type) (l : list A) x,
  gi_next_back (l ++ [x]) = (Some x, l) /\ gi_next_back (@nil A) = (None, []).
Proof. intros. split; [apply gi_next_back_spec|apply gi_next_back_nil]. Qed.
Print Assumptions C15_iter_next_back.

(* nth_back(n): the n-th child from the back; everything in front of it remains; past the front: exhausted *)
Theorem C15_iter_nth_back : forall (A : Type) (l : list A) n,
  fst (gi_nth_back l n) = nth_error (rev l) n /\ snd (gi_nth_back l n) = firstn (length l - S n) l.
Proof. intros. apply gi_nth_back_spec. Qed.
Print Assumptions C15_iter_nth_back.
