(* C01 — Built trees are lossless and structurally faithful.  Property theorems only. *)
From CsModel Require Import BuilderSpec BuilderProofs.

Theorem C01_build_faithful : forall static_text (H : list hw -> N) threshold debug c ops t,
  CacheInv static_text H c -> Forall (WfEvent static_text) ops -> parse static_text ops = Some t ->
  exists g c', build static_text H threshold HeadAndChildren debug true c ops = Ok (g, c') /\
    denote static_text (c_strs c') g = t /\ WfGreen static_text H (c_strs c') g /\
    CacheInv static_text H c' /\ exists ext, c_strs c' = c_strs c ++ ext.
Proof. exact build_faithful. Qed.
Print Assumptions C01_build_faithful.

Theorem C01_build_text : forall static_text (H : list hw -> N) threshold debug c ops t,
  CacheInv static_text H c -> Forall (WfEvent static_text) ops -> parse static_text ops = Some t ->
  exists g c', build static_text H threshold HeadAndChildren debug true c ops = Ok (g, c') /\
    gtext static_text (c_strs c') g = fed_text static_text ops.
Proof. exact build_text. Qed.
Print Assumptions C01_build_text.

Theorem C01_build_unbalanced : forall static_text (H : list hw -> N) threshold debug c ops,
  CacheInv static_text H c -> Forall (WfEvent static_text) ops ->
  (p_run static_text p_init ops = None \/
   exists base, p_run static_text p_init ops = Some ([], base) /\ parse static_text ops = None) ->
  exists p, build static_text H threshold HeadAndChildren debug true c ops = Panic p.
Proof. exact build_unbalanced. Qed.
Print Assumptions C01_build_unbalanced.

Theorem C01_fresh_cache_ok : forall static_text (H : list hw -> N), CacheInv static_text H empty_cache.
Proof. exact CacheInv_empty. Qed.
Print Assumptions C01_fresh_cache_ok.
