(* C13 — Offset and range queries find the right element.  Property theorems only. *)
From CsModel Require Import Red RedProofs OffsetSpec TaoHelper.

(* token_at_offset inside start <= off <= end: never a panic (the unwrap, the assert and the
   unreachable! are unreachable), nothing for empty text, otherwise the single non-empty token
   touching the offset or the two non-empty tokens that meet at it (TaoGood) — and it is complete:
   EVERY non-empty token below p whose range touches the offset is in the answer (Complete), so
   `Single` is returned only when there is exactly one such token *)
Theorem C13_tao_spec : forall g rs p off e,
  LenOk g -> Inv g rs -> Known rs p -> subr g p = Some e -> is_node e = true ->
  true_off g p <= off <= true_off g p + glen e ->
  (glen e = 0 /\ fst (token_at_offset g rs p off) = Ok TNone) \/
  (0 < glen e /\ exists x, fst (token_at_offset g rs p off) = Ok x /\ TaoGood g p off x /\ Complete g p off x).
Proof. intros. eapply tao_spec; eauto. Qed.
Print Assumptions C13_tao_spec.

Theorem C13_tao_outside : forall g rs p off e,
  Inv g rs -> Known rs p -> subr g p = Some e ->
  ~ (true_off g p <= off <= true_off g p + glen e) ->
  fst (token_at_offset g rs p off) = Panic POffsetRange.
Proof. intros. eapply tao_outside; eauto. Qed.
Print Assumptions C13_tao_outside.

(* covering_element inside its precondition: no panic; the result lies in the subtree, contains the
   range, and none of its children contains it *)
Theorem C13_cover_spec : forall g rs p a b,
  Inv g rs -> Known rs p -> subr g p <> None -> true_contains g p a b ->
  exists r, fst (covering_element g rs p a b) = Ok r /\ below r p /\ true_contains g r a b /\
            forall i ci, nth_error (kids g r) i = Some ci -> ~ true_contains g (i :: r) a b.
Proof. intros. eapply cover_spec; eauto. Qed.
Print Assumptions C13_cover_spec.

Theorem C13_cover_outside : forall g rs p a b e,
  Inv g rs -> Known rs p -> subr g p = Some e -> ~ true_contains g p a b ->
  fst (covering_element g rs p a b) = Panic POffsetRange.
Proof. intros. eapply cover_outside; eauto. Qed.
Print Assumptions C13_cover_outside.

(* both queries keep the offset invariant of C02 (so they may be the first to reach an element) *)
Theorem C13_queries_keep_inv : forall g rs p off a b,
  LenOk g -> Inv g rs -> Known rs p ->
  Inv g (snd (token_at_offset g rs p off)) /\ Inv g (snd (covering_element g rs p a b)).
Proof.
  intros g rs p off a b Hl I K. split.
  - apply (token_at_offset_ok g rs p off I K).
  - apply (covering_element_ok g rs p a b I K).
Qed.
Print Assumptions C13_queries_keep_inv.

(* the TokenAtOffset helper: left / right bias and the iterator with its exact size hint, against the plain
   list of the tokens found (tao_list: [] / [t] / [l; r]) *)
Theorem C13_tao_left_right : forall x, tao_left x = hd_error (tao_list x) /\ tao_right x = last_error (tao_list x).
Proof. intros x. split; [apply tao_left_spec|apply tao_right_spec]. Qed.
Print Assumptions C13_tao_left_right.

Theorem C13_tao_iterator : forall x n,
  fst (tao_drain (3 + n)%nat x) = tao_list x /\
  snd (tao_drain (3 + n)%nat x) = map (fun k => length (skipn k (tao_list x))) (seq 0%nat (3 + n)%nat).
Proof. exact tao_drain_spec. Qed.
Print Assumptions C13_tao_iterator.

Theorem C13_tao_bias_meaning : forall g q off l r,
  TaoGood g q off (TBetween l r) ->
  tao_left (TBetween l r) = Some l /\ (true_off g l + len_at g l = off)%N /\
  tao_right (TBetween l r) = Some r /\ true_off g r = off.
Proof. exact tao_bias_meaning. Qed.
Print Assumptions C13_tao_bias_meaning.
