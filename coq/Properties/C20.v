(* C20 — A failed interning leaves the builder intact.  Property theorems only. *)
From CsModel Require Import BuilderSpec BuilderProofs Fault.

Theorem C20_intern_fail_noop : forall static_text H threshold mode debug revert_fixed s regs k t,
  static_text k = None ->
  b_step static_text H threshold mode debug revert_fixed s regs (OTokenFail k t) = (Panic PIntern, regs).
Proof. exact intern_fail_noop. Qed.
Print Assumptions C20_intern_fail_noop.

Theorem C20_fault_erasure : forall static_text H threshold mode debug revert_fixed ops s regs,
  fst (b_run static_text H threshold mode debug revert_fixed s regs ops) =
  fst (b_run static_text H threshold mode debug revert_fixed s regs (erase static_text ops)).
Proof. exact fault_erasure. Qed.
Print Assumptions C20_fault_erasure.

Theorem C20_fault_trace : forall static_text H threshold mode debug revert_fixed ops s regs,
  snd (b_run static_text H threshold mode debug revert_fixed s regs ops) =
  weave static_text ops (snd (b_run static_text H threshold mode debug revert_fixed s regs (erase static_text ops))).
Proof. exact fault_trace. Qed.
Print Assumptions C20_fault_trace.

Theorem C20_fault_erasure_tree : forall static_text (H : list hw -> N) threshold debug c ops t,
  CacheInv static_text H c ->
  Forall (WfEvent static_text) (erase static_text ops) ->
  parse static_text (erase static_text ops) = Some t ->
  exists g c', b_finish (fst (b_run static_text H threshold HeadAndChildren debug true (new_builder c) [] ops)) = Ok (g, c') /\
    denote static_text (c_strs c') g = t /\ WfGreen static_text H (c_strs c') g /\
    CacheInv static_text H c'.
Proof. exact fault_erasure_tree. Qed.
Print Assumptions C20_fault_erasure_tree.
