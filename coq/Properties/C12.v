(* C12 — The text view of a node behaves like the string it denotes.  Property theorems only. *)
From CsModel Require Import Red RedProofs TextPos TextView TextViewProofs.

(* a view with character-boundary ends: the chunks never panic and concatenate to that slice *)
Theorem C12_chunks_concat : forall static_text H strs e0 o s e A M Z,
  WfGreen static_text H strs e0 -> gtext static_text strs e0 = A ++ M ++ Z -> o <= s -> s <= e ->
  byte_len A = s - o -> byte_len (A ++ M) = e - o ->
  exists cs, chunks (tok_ranges static_text strs e0 o) s e = Ok cs /\ concat cs = M.
Proof. intros. eapply chunks_concat; eauto. Qed.
Print Assumptions C12_chunks_concat.

Theorem C12_chunks_whole : forall static_text H strs e0 o,
  WfGreen static_text H strs e0 ->
  exists cs, chunks (tok_ranges static_text strs e0 o) o (o + glen e0) = Ok cs /\ concat cs = gtext static_text strs e0.
Proof. intros. eapply chunks_whole; eauto. Qed.
Print Assumptions C12_chunks_whole.

Theorem C12_contains_char : forall cs c, v_contains cs c = has_char c (concat cs).
Proof. exact v_contains_spec. Qed.
Print Assumptions C12_contains_char.

Theorem C12_find_char : forall cs c, v_find cs c 0 = find_in (concat cs) c 0.
Proof. intros. rewrite v_find_spec. destruct (find_in (concat cs) c 0); reflexivity. Qed.
Print Assumptions C12_find_char.

Theorem C12_find_char_first : forall t c p,
  find_in t c 0 = Some p -> exists pre post, t = pre ++ c :: post /\ byte_len pre = p /\ ~ In c pre.
Proof. exact find_in_correct. Qed.
Print Assumptions C12_find_char_first.

Theorem C12_char_at : forall cs off pre c post,
  concat cs = pre ++ c :: post -> off = byte_len pre -> v_char_at cs off 0 = Ok (Some c).
Proof. intros. eapply v_char_at_spec; eauto. Qed.
Print Assumptions C12_char_at.

Theorem C12_char_at_end : forall cs off, byte_len (concat cs) <= off -> v_char_at cs off 0 = Ok None.
Proof. intros. apply v_char_at_end. assumption. Qed.
Print Assumptions C12_char_at_end.

Theorem C12_slice_spec : forall s e a b,
  match v_slice s e a b with
  | Ok (s', e') => a <= b /\ s + b <= e /\ s' = s + a /\ e' = s + b
  | Panic _ => b < a \/ e < s + b
  end.
Proof. exact v_slice_spec. Qed.
Print Assumptions C12_slice_spec.

Theorem C12_slice_compose : forall s e a1 b1 a2 b2 s1 e1 s2 e2,
  v_slice s e a1 b1 = Ok (s1, e1) -> v_slice s1 e1 a2 b2 = Ok (s2, e2) ->
  v_slice s e (a1 + a2) (a1 + b2) = Ok (s2, e2).
Proof. exact v_slice_compose. Qed.
Print Assumptions C12_slice_compose.

Theorem C12_eq_str : forall cs rhs, v_eq_str cs rhs = text_eqb (concat cs) rhs.
Proof. exact v_eq_str_spec. Qed.
Print Assumptions C12_eq_str.

(* equality of two views, however each text is split into tokens *)
Theorem C12_eq_view : forall xs ys,
  v_eq_view xs (byte_len (concat xs)) ys (byte_len (concat ys)) = text_eqb (concat xs) (concat ys).
Proof. exact v_eq_view_spec. Qed.
Print Assumptions C12_eq_view.

(* slices given by open-ended ranges *)
Theorem C12_slice_open_ended : forall s e a b, s <= e ->
  v_slice_opt s e None None = Ok (s, e) /\
  v_slice_opt s e (Some a) None = v_slice s e a (e - s) /\
  v_slice_opt s e None (Some b) = v_slice s e 0 b /\
  v_slice_opt s e (Some a) (Some b) = v_slice s e a b.
Proof. exact v_slice_opt_spec. Qed.
Print Assumptions C12_slice_open_ended.
