(* C11 — Token text, static text and text equality agree.  Property theorems only. *)
From CsModel Require Import Builder BuilderSpec BuilderProofs GreenEq TokenText.

Theorem C11_text_eq_sym : forall static_text a b, text_eq static_text a b = text_eq static_text b a.
Proof. exact text_eq_sym. Qed.
Print Assumptions C11_text_eq_sym.

Theorem C11_text_eq_sound : forall static_text H strs ia ka keya la ib kb keyb lb,
  WfGreen static_text H strs (GTok ia ka keya la) -> WfGreen static_text H strs (GTok ib kb keyb lb) ->
  text_eq static_text (GTok ia ka keya la) (GTok ib kb keyb lb) = true ->
  ttext static_text strs (GTok ia ka keya la) = ttext static_text strs (GTok ib kb keyb lb).
Proof. intros. eapply text_eq_sound; eauto. Qed.
Print Assumptions C11_text_eq_sound.

Theorem C11_text_eq_complete : forall static_text H strs ia ka keya la ib kb keyb lb,
  NoDup strs ->
  WfGreen static_text H strs (GTok ia ka keya la) -> WfGreen static_text H strs (GTok ib kb keyb lb) ->
  (static_text ka = None <-> static_text kb = None) ->
  ttext static_text strs (GTok ia ka keya la) = ttext static_text strs (GTok ib kb keyb lb) ->
  text_eq static_text (GTok ia ka keya la) (GTok ib kb keyb lb) = true.
Proof. intros. eapply text_eq_complete; eauto. Qed.
Print Assumptions C11_text_eq_complete.

Theorem C11_static_no_interner : forall static_text k st key strs1 strs2,
  static_text k = Some st ->
  tok_text static_text strs1 k key = Some st /\ tok_text static_text strs2 k key = Some st.
Proof. exact static_no_interner. Qed.
Print Assumptions C11_static_no_interner.

Theorem C11_static_two_ways : forall static_text debug s k st,
  static_text k = Some st -> b_token static_text debug s k st = b_static_token static_text s k.
Proof. exact static_two_ways. Qed.
Print Assumptions C11_static_two_ways.

(* resolving the text of a built token yields the text it was built from: the finished tree denotes
   the events (C01) and [denote] is defined by [tok_text] *)
Theorem C11_resolve_built : forall static_text (H : list hw -> N) threshold debug c ops t,
  CacheInv static_text H c -> Forall (WfEvent static_text) ops -> parse static_text ops = Some t ->
  exists g c', build static_text H threshold HeadAndChildren debug true c ops = Ok (g, c') /\
    denote static_text (c_strs c') g = t.
Proof.
  intros. destruct (build_faithful static_text H threshold debug c ops t) as (g & c' & B & D & _); auto.
  exists g, c'. auto.
Qed.
Print Assumptions C11_resolve_built.

Theorem C11_old_text_eq_refuted : exists st a b,
  text_eq_old st true a b = Panic PTextEqDebug.
Proof. eexists _, _, _. exact text_eq_old_panics. Qed.
Print Assumptions C11_old_text_eq_refuted.
