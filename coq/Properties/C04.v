(* C04 — Sharing through the node cache is transparent and effective.  Property theorems only. *)
From CsModel Require Extracted.
From CsModel Require Import BuilderSpec BuilderProofs.

Theorem C04_cache_transparent : forall static_text (H : list hw -> N) threshold debug c ops t,
  CacheInv static_text H c -> Forall (WfEvent static_text) ops -> parse static_text ops = Some t ->
  exists g c' g0 c0,
    build static_text H threshold HeadAndChildren debug true c ops = Ok (g, c') /\
    build static_text H threshold HeadAndChildren debug true empty_cache ops = Ok (g0, c0) /\
    denote static_text (c_strs c') g = denote static_text (c_strs c0) g0 /\
    denote static_text (c_strs c') g = t.
Proof. exact cache_transparent. Qed.
Print Assumptions C04_cache_transparent.

Theorem C04_earlier_unchanged : forall static_text (H : list hw -> N) threshold debug c ops t g_old,
  CacheInv static_text H c -> WfGreen static_text H (c_strs c) g_old ->
  Forall (WfEvent static_text) ops -> parse static_text ops = Some t ->
  exists g c', build static_text H threshold HeadAndChildren debug true c ops = Ok (g, c') /\
    denote static_text (c_strs c') g_old = denote static_text (c_strs c) g_old /\
    WfGreen static_text H (c_strs c') g_old.
Proof. exact earlier_unchanged. Qed.
Print Assumptions C04_earlier_unchanged.

Theorem C04_lookup_sound : forall static_text (H : list hw -> N) threshold c k cs g c',
  CacheInv static_text H c -> WfGreens static_text H (c_strs c) cs ->
  cache_node H threshold HeadAndChildren c k cs = (g, c') ->
  denote static_text (c_strs c) g = SNode k (map (denote static_text (c_strs c)) cs) /\ is_node g = true /\
  WfGreen static_text H (c_strs c) g /\ CacheInv static_text H c' /\ c_strs c' = c_strs c.
Proof. exact cache_node_sound. Qed.
Print Assumptions C04_lookup_sound.

(* every source fact this property's model depends on was found by the translator in the current
   source (otherwise the model would be running on the values the proofs were written for) *)
Theorem C04_facts_extracted : CsModel.Extracted.facts_found_C04 = true.
Proof. reflexivity. Qed.
Print Assumptions C04_facts_extracted.
