(* C04 — Sharing through the node cache is transparent and effective.  Property theorems only. *)
From CsModel Require Extracted.
From CsModel Require Import BuilderSpec BuilderProofs CacheShare.

Theorem C04_cache_transparent : forall static_text (H : list hw -> N) threshold debug c ops t,
  CacheInv static_text H c -> Forall (WfEvent static_text) ops -> parse static_text ops = Some t ->
  exists g c' g0 c0,
    build static_text H threshold HeadAndChildren debug true c ops = Ok (g, c') /\
    build static_text H threshold HeadAndChildren debug true empty_cache ops = Ok (g0, c0) /\
    denote static_text (c_strs c') g = denote static_text (c_strs c0) g0 /\
    denote static_text (c_strs c') g = t.
Proof. exact cache_transparent. Qed.
Print Assumptions C04_cache_transparent.

Theorem C04_earlier_unchanged : forall static_text (H : list hw -> N) threshold debug c ops t g_old,
  CacheInv static_text H c -> WfGreen static_text H (c_strs c) g_old ->
  Forall (WfEvent static_text) ops -> parse static_text ops = Some t ->
  exists g c', build static_text H threshold HeadAndChildren debug true c ops = Ok (g, c') /\
    denote static_text (c_strs c') g_old = denote static_text (c_strs c) g_old /\
    WfGreen static_text H (c_strs c') g_old.
Proof. exact earlier_unchanged. Qed.
Print Assumptions C04_earlier_unchanged.

Theorem C04_lookup_sound : forall static_text (H : list hw -> N) threshold c k cs g c',
  CacheInv static_text H c -> WfGreens static_text H (c_strs c) cs ->
  cache_node H threshold HeadAndChildren c k cs = (g, c') ->
  denote static_text (c_strs c) g = SNode k (map (denote static_text (c_strs c)) cs) /\ is_node g = true /\
  WfGreen static_text H (c_strs c) g /\ CacheInv static_text H c' /\ c_strs c' = c_strs c.
Proof. exact cache_node_sound. Qed.
Print Assumptions C04_lookup_sound.

(* effectiveness: feeding the same (kind, text) to the builder again — at any later stage of the same
   cache, whatever was built in between — pushes the very same token element (same allocation) and
   leaves the cache as it is *)
Theorem C04_tokens_shared : forall static_text debug s k t s1 s2,
  b_token static_text debug s k t = Ok s1 -> Later (b_cache s1) (b_cache s2) ->
  exists s3, b_token static_text debug s2 k t = Ok s3 /\ hd_error (b_children s3) = hd_error (b_children s1) /\ b_cache s3 = b_cache s2.
Proof. exact token_shared. Qed.
Print Assumptions C04_tokens_shared.

(* ... and finishing a small node of the same kind over the same children again yields the very same
   node element and allocates nothing *)
Theorem C04_small_nodes_shared : forall (H : list hw -> N) threshold s s1 s2,
  b_finish_node H threshold HeadAndChildren s = Ok s1 -> (length (pending_children s) <= threshold)%nat ->
  pending_kind s2 = pending_kind s -> pending_children s2 = pending_children s ->
  (match b_parents s2 with (_, first) :: _ => (first <= length (b_children s2))%nat | [] => True end) ->
  CacheExt (b_cache s1) (b_cache s2) ->
  exists s3, b_finish_node H threshold HeadAndChildren s2 = Ok s3 /\ hd_error (b_children s3) = hd_error (b_children s1) /\ b_cache s3 = b_cache s2.
Proof. exact node_shared. Qed.
Print Assumptions C04_small_nodes_shared.

(* with a hash under which everything collides two different small nodes stay two nodes and an equal
   one is shared; with the lookup before the repair of F1 the different node is lost *)
Theorem C04_colliding_nodes_kept_apart :
  (exists ida idb, ida <> idb /\ ex_ids HeadAndChildren = Some [(ida, [97]); (idb, [98]); (ida, [97])]) /\
  (exists ida, ex_ids HeadOnly = Some [(ida, [97]); (ida, [97]); (ida, [97])]).
Proof. split; [exact ex_colliding_nodes_kept_apart|exact ex_head_only_merges]. Qed.
Print Assumptions C04_colliding_nodes_kept_apart.

(* every source fact this property's model depends on was found by the translator in the current
   source (otherwise the model would be running on the values the proofs were written for) *)
Theorem C04_facts_extracted : CsModel.Extracted.facts_found_C04 = true.
Proof. reflexivity. Qed.
Print Assumptions C04_facts_extracted.
