(* C10 — Interning is a stable bijection between strings and keys.  Property theorems only. *)
From CsModel Require Import Builder BuilderProofs Interner.

Theorem C10_resolve_intern : forall cap strs t k strs',
  NoDup strs -> intern_c cap strs t = Some (k, strs') -> resolve strs' k = Some t.
Proof. exact resolve_intern. Qed.
Print Assumptions C10_resolve_intern.

Theorem C10_run_resolves : forall cap ts strs i k t,
  NoDup strs ->
  nth_error (fst (intern_all cap strs ts)) i = Some (Some k) -> nth_error ts i = Some t ->
  resolve (snd (intern_all cap strs ts)) k = Some t.
Proof. exact run_resolves. Qed.
Print Assumptions C10_run_resolves.

Theorem C10_run_injective : forall cap ts strs i j k1 k2 t1 t2,
  NoDup strs ->
  nth_error (fst (intern_all cap strs ts)) i = Some (Some k1) -> nth_error ts i = Some t1 ->
  nth_error (fst (intern_all cap strs ts)) j = Some (Some k2) -> nth_error ts j = Some t2 ->
  (k1 = k2 <-> t1 = t2).
Proof. exact run_injective. Qed.
Print Assumptions C10_run_injective.

Theorem C10_resolve_stable : forall cap ts strs k t,
  resolve strs k = Some t -> resolve (snd (intern_all cap strs ts)) k = Some t.
Proof. exact resolve_stable. Qed.
Print Assumptions C10_resolve_stable.

Theorem C10_key_roundtrip_raw : forall raw inner,
  raw < two32 -> try_from_u32 raw = Some inner -> into_u32 inner = raw /\ tk_valid inner.
Proof. exact key_roundtrip_raw. Qed.
Print Assumptions C10_key_roundtrip_raw.

Theorem C10_key_roundtrip_key : forall inner, tk_valid inner -> try_from_u32 (into_u32 inner) = Some inner.
Proof. exact key_roundtrip_key. Qed.
Print Assumptions C10_key_roundtrip_key.

Theorem C10_key_invalid_rejected : forall raw, raw < two32 -> (try_from_u32 raw = None <-> raw = two32 - 1).
Proof. exact key_invalid_rejected. Qed.
Print Assumptions C10_key_invalid_rejected.

Theorem C10_key_raw_injective : forall a b, tk_valid a -> tk_valid b -> into_u32 a = into_u32 b -> a = b.
Proof. exact key_raw_injective. Qed.
Print Assumptions C10_key_raw_injective.

Theorem C10_foreign_key_conv : forall k inner,
  tk_valid inner ->
  match to_lasso k inner with
  | Some i => i = into_u32 inner /\ i < lasso_cap k /\ from_lasso i = Some inner
  | None => lasso_cap k <= into_u32 inner
  end.
Proof. exact foreign_key_conv. Qed.
Print Assumptions C10_foreign_key_conv.

Theorem C10_foreign_key_back : forall k i,
  i < lasso_cap k ->
  match from_lasso i with
  | Some inner => tk_valid inner /\ to_lasso k inner = Some i
  | None => two32 - 1 <= i
  end.
Proof. exact foreign_key_back. Qed.
Print Assumptions C10_foreign_key_back.

Theorem C10_concurrent_intern_linearizable_partial : forall reqs results cap,
  Linearization reqs results cap ->
  forall i j k1 k2 t1 t2,
    nth_error results i = Some (Some k1) -> nth_error reqs i = Some t1 ->
    nth_error results j = Some (Some k2) -> nth_error reqs j = Some t2 ->
    (k1 = k2 <-> t1 = t2).
Proof. exact concurrent_intern_linearizable_partial. Qed.
Print Assumptions C10_concurrent_intern_linearizable_partial.
