(* C09 — Checkpoints wrap and roll back exactly as documented.  Property theorems only. *)
From CsModel Require Import Builder Checkpoint.

Theorem C09_revert_valid : forall (s0 s : bstate),
  WF s0 -> Valid_revert s0 s ->
  exists s', b_revert_to true s (b_checkpoint s0) = Ok s' /\
             b_parents s' = b_parents s0 /\ b_children s' = b_children s0 /\ b_cache s' = b_cache s.
Proof. exact (revert_valid (fun _ => None)). Qed.
Print Assumptions C09_revert_valid.

Theorem C09_wrap_valid : forall H threshold (s0 s : bstate) k,
  WF s0 -> Valid_wrap s0 s ->
  exists s1, b_start_node_at s (b_checkpoint s0) k = Ok s1 /\
  exists s2 g cs, b_finish_node H threshold HeadAndChildren s1 = Ok s2 /\
    b_children s = cs ++ b_children s0 /\
    b_children s2 = g :: b_children s0 /\ b_parents s2 = b_parents s0 /\
    is_node g = true /\ gkind g = k /\ geq_list (gchildren g) (rev cs) = true.
Proof. exact (wrap_valid (fun _ => None)). Qed.
Print Assumptions C09_wrap_valid.

Theorem C09_wrap_open_panics : forall (s0 s : bstate) k ps cs,
  b_parents s = ps ++ b_parents s0 -> b_children s = cs ++ b_children s0 -> ps <> [] ->
  b_start_node_at s (b_checkpoint s0) k = Panic PCheckpointUnfinished.
Proof. exact wrap_open_panics. Qed.
Print Assumptions C09_wrap_open_panics.

Theorem C09_invalid_safe : forall static_text H threshold debug ops s regs,
  WF s -> WF (fst (b_run static_text H threshold HeadAndChildren debug true s regs ops)).
Proof. intros. apply run_WF. assumption. Qed.
Print Assumptions C09_invalid_safe.

Theorem C09_finish_node_in_bounds : forall H threshold s,
  WF s -> b_finish_node H threshold HeadAndChildren s <> Panic PUnreachable.
Proof. exact finish_node_in_bounds. Qed.
Print Assumptions C09_finish_node_in_bounds.

Theorem C09_valid_preserved : forall static_text H threshold debug s0 s regs o s' regs',
  Valid_revert s0 s ->
  b_step static_text H threshold HeadAndChildren debug true s regs o = (Ok s', regs') ->
  match o with
  | OFinishNode => match b_parents s with
                   | (_, f) :: _ => (length (b_children s0) <= f)%nat /\
                                    (length (b_parents s0) < length (b_parents s))%nat
                   | [] => False end
  | ORevert i => match nth_error regs i with
                 | Some cp => (length (b_parents s0) <= cp_parent_idx cp)%nat /\
                              (length (b_children s0) <= cp_child_idx cp)%nat
                 | None => True end
  | _ => True
  end ->
  Valid_revert s0 s'.
Proof. exact valid_preserved. Qed.
Print Assumptions C09_valid_preserved.

Theorem C09_old_guard_refuted : exists s0 s,
  WF s0 /\ Valid_revert s0 s /\ b_revert_to false s (b_checkpoint s0) = Panic PCheckpointFirstChild.
Proof. eexists _, _. exact revert_valid_refuted. Qed.
Print Assumptions C09_old_guard_refuted.
