(* C07 — Concurrent use through the safe API is free of data races.  Property theorems only.
   Partial: the theorems are about traces of synchronisation events (Race.v) and about the machine
   of Conc.v; that the real code produces such traces is what the correspondence (hook traces under
   the deterministic scheduler) and the Miri runs check. *)
From CsModel Require Extracted AutoTrait.
From CsModel Require Import Red Conc ConcProofs Race RaceConc ConcLocks.
From Coq Require Import List Bool.
Open Scope nat_scope.

(* (A) every two conflicting accesses to a location that are both made inside a critical section of
   the location's lock are ordered by happens-before *)
Theorem C07_lock_discipline_orders : forall tr lock_of (i j t1 t2 x : nat) w1 w2 (a1 a2 : nat),
  LockExclusion tr ->
  i < j -> t1 <> t2 ->
  at_ tr i t1 (EAcc x) -> at_ tr j t2 (EAcc x) ->
  inside tr t1 (lock_of x) w1 a1 i -> inside tr t2 (lock_of x) w2 a2 j ->
  w1 || w2 = true ->
  hb tr i j.
Proof. exact lock_discipline_orders. Qed.
Print Assumptions C07_lock_discipline_orders.

(* (B) whatever a thread did before the release-decrement that gave up its handle happens-before the
   teardown that follows the final acquire-decrement *)
Theorem C07_teardown_after_uses : forall tr (i d f z t tf : nat) e a r,
  i < d -> d <= f -> f < z ->
  at_ tr i t e -> at_ tr d t (ERmw a true) -> at_ tr f tf (ERmw true r) -> at_ tr z tf EFree ->
  hb tr i z.
Proof. exact teardown_after_uses. Qed.
Print Assumptions C07_teardown_after_uses.

(* the machine requests the content of a child slot only directly after taking that slot's lock, in
   the same step (so inside the critical section) *)
Theorem C07_machine_accesses_under_lock : forall g progs s want s' tid evs,
  Reach g progs s -> cstep g s want = Some (s', tid, evs) -> acc_ok evs = true.
Proof. exact machine_accesses_under_lock. Qed.
Print Assumptions C07_machine_accesses_under_lock.

(* whole runs: in the trace of every run of the machine from a reachable state, under any schedule, a
   slot access directly follows the lock request for that slot by the same thread ... *)
Theorem C07_run_accesses_under_lock : forall g progs fuel s sched rr,
  Reach g progs s -> flat_ok None (snd (crun g fuel s sched rr)) = true.
Proof. exact run_accesses_under_lock. Qed.
Print Assumptions C07_run_accesses_under_lock.

(* ... which, read as a trace of synchronisation events, is exactly the premise [inside] of theorem (A):
   every access event lies in a critical section of the lock with its slot's identifier *)
Theorem C07_flat_ok_inside : forall slot_id tr prev k t x,
  flat_ok prev tr = true ->
  nth_error (strace_of slot_id tr) k = Some (t, EAcc x) ->
  match k with
  | O => exists b i, prev = Some (t, b, i) /\ x = slot_id b i
  | S k' => exists w, inside (strace_of slot_id tr) t x w k' k
  end.
Proof. exact flat_ok_inside. Qed.
Print Assumptions C07_flat_ok_inside.

(* the source as it is now: every update of the reference count is AcqRel (hypotheses of (B) for any
   decrement being the last one), nobody forms an exclusive reference to the shared counter, and an
   exclusive reference to the content of a child slot is formed only by the teardown (which runs
   alone: C06_teardown_alone) *)
Theorem C07_source_sites_ok :
  orderings_ok (map ordering_of Extracted.rc_orderings) = true /\
  Extracted.rc_exclusive_refs = 0 /\ Extracted.slot_exclusive_refs_outside_teardown = 0.
Proof. repeat split; reflexivity. Qed.
Print Assumptions C07_source_sites_ok.

Theorem C07_facts_extracted : Extracted.facts_found_C07 = true.
Proof. reflexivity. Qed.
Print Assumptions C07_facts_extracted.

(* the USER's state behind a tree — per-node data handed out as Arc<D> clones, the attached resolver, the resolver a
   text view borrows — is not protected by the library's locks once handed out: what keeps safe code from racing on it
   are the Send / Sync bounds of the handles and of the views.  With the bounds found in the CURRENT source, whatever
   can cross a thread boundary carries thread-safe data and (for trees that can be constructed) a thread-safe resolver,
   and a text view that can cross borrows a resolver that may be shared *)
Theorem C07_user_state_needs_thread_safe_types : forall a,
  (AutoTrait.is_send Extracted.node_send_bounds a = true \/ AutoTrait.is_sync Extracted.node_sync_bounds a = true) ->
  AutoTrait.deep false a = true /\
  (AutoTrait.constructible Extracted.ctor_resolver_bounds a = true -> AutoTrait.deep true a = true).
Proof. apply AutoTrait.markers_sound_of. vm_compute. reflexivity. Qed.
Print Assumptions C07_user_state_needs_thread_safe_types.

Theorem C07_views_need_shareable_resolvers : forall a i_sync,
  AutoTrait.view_ok Extracted.node_sync_bounds a i_sync = true -> AutoTrait.deep false a = true /\ i_sync = true.
Proof.
  apply (AutoTrait.view_sound_of Extracted.node_send_bounds Extracted.node_sync_bounds Extracted.ctor_resolver_bounds).
  vm_compute. reflexivity.
Qed.
Print Assumptions C07_views_need_shareable_resolvers.

(* the write locks held ACROSS steps (by the loser of a creation race while it disposes of its candidate, by the teardown
   while it tears a child down) exclude each other in the machine: in every reachable state, under every schedule, no slot is
   write-locked twice (WlOk) — the machine-level counterpart of the LockExclusion hypothesis of C07_lock_discipline_orders *)
Theorem C07_write_locks_exclusive : forall g progs s, Reach g progs s -> WlOk (c_wlock s).
Proof. exact write_locks_exclusive. Qed.
Print Assumptions C07_write_locks_exclusive.
