(* C05 — One red element per tree position under any thread interleaving.  Property theorems only.
   The machine (Conc.v) has any number of threads running any programs; Reach quantifies over every
   schedule (the scheduler may ask for any thread at every step). *)
From CsModel Require Import Red RedProofs Conc ConcProofs ConcHandles ConcReclaim ConcWf ConcTear ConcLoser ConcOffsets.

(* all handles any threads hold, are about to receive or have received for one position are the same
   element (same identity), by whatever routes and in whatever interleaving they were obtained *)
Theorem C05_one_element_per_position : forall g progs s t1 t2 h1 h2,
  Reach g progs s -> c_torn s = false ->
  In t1 (c_threads s) -> In t2 (c_threads s) ->
  In h1 (thread_handles t1) -> In h2 (thread_handles t2) ->
  fst h1 = fst h2 -> h1 = h2.
Proof. exact one_element_per_position. Qed.
Print Assumptions C05_one_element_per_position.

(* every such handle denotes the element stored in the slot of its position (the root stands for itself) *)
Theorem C05_handles_denote_slots : forall g progs s,
  Reach g progs s -> c_torn s = false -> Forall (THOk (c_slots s)) (c_threads s).
Proof. intros g progs s R NT. exact (reach_HInv g progs s R NT). Qed.
Print Assumptions C05_handles_denote_slots.

(* a slot is written once: whatever step is scheduled next, an initialised slot keeps its element
   (the loser of a creation race installs nothing) *)
Theorem C05_slot_write_once : forall g s want s' tid evs p e,
  c_torn s = false -> cstep g s want = Some (s', tid, evs) ->
  slot_lookup (c_slots s) p = Some e -> slot_lookup (c_slots s') p = Some e.
Proof. exact slot_write_once. Qed.
Print Assumptions C05_slot_write_once.

(* identity semantics, the other direction: while the tree is alive one NodeData block stands for
   one position, and no child shares the root's block — so two node handles with the same identity
   denote the same position *)
Theorem C05_block_identity : forall g progs s p1 p2 b,
  Reach g progs s -> c_torn s = false ->
  slot_lookup (c_slots s) p1 = Some (ENode b) -> slot_lookup (c_slots s) p2 = Some (ENode b) ->
  p1 = p2 /\ b <> 0%nat.
Proof. exact block_identity. Qed.
Print Assumptions C05_block_identity.

(* correct kind and parent: a slot holds a node exactly where the green tree has a node child, and
   its parent position is the root or an initialised node slot *)
Theorem C05_slot_kinds_correct : forall g progs s k q e,
  Reach g progs s -> c_torn s = false -> slot_lookup (c_slots s) (k :: q) = Some e ->
  is_enode e = child_is_node g q k /\ NodePos (c_slots s) q.
Proof. exact slot_kinds_correct. Qed.
Print Assumptions C05_slot_kinds_correct.

(* correct range: whoever won the race for a slot and by whichever route it came, the offset stored for
   every handle any thread holds is the true text offset of its position *)
Theorem C05_handles_carry_true_offsets : forall g, LenOk g -> forall progs s t h,
  Reach g progs s -> c_torn s = false -> In t (c_threads s) -> In h (thread_handles t) ->
  off_of (c_offs s) (fst h) = true_off g (fst h).
Proof. exact handles_carry_true_offsets. Qed.
Print Assumptions C05_handles_carry_true_offsets.

(* losing a creation race has no observable effect: the loser's four steps (write lock; +2; -1 and free
   the candidate; -1 and unlock) leave count, slots, offsets, locks, data and allocation counter as they
   were; the candidate block is gone and the thread re-reads the slot *)
Theorem C05_loser_neutral : forall g s tid t p i off c keep rest e,
  nth_error (c_threads s) tid = Some t -> t_cont t = MWrite p i off (Some c) keep :: rest ->
  slot_lookup (c_slots s) (i :: p) = Some e ->
  let s4 := own_step g (own_step g (own_step g (own_step g s tid) tid) tid) tid in
  c_rc s4 = c_rc s /\ c_slots s4 = c_slots s /\ c_wlock s4 = c_wlock s /\ c_next s4 = c_next s /\
  c_data s4 = c_data s /\ c_torn s4 = c_torn s /\ c_payload_drops s4 = c_payload_drops s /\
  c_live s4 = remove Nat.eq_dec c (c_live s) /\ c_freed s4 = c :: c_freed s /\ c_offs s4 = c_offs s /\
  c_threads s4 = set_nth (c_threads s) tid (mkThread (t_regs t) (t_prog t) (MRead p i RIter false keep :: rest) (t_out t)).
Proof. exact loser_neutral. Qed.
Print Assumptions C05_loser_neutral.
