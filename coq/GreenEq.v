(* GreenEq.v — C15: green equality and hashing are structural and route-independent; the child
   iterator behaves like a plain sequence.  C14: replace_with substitutes exactly one element. *)
From CsModel Require Import Builder Red RedProofs BuilderProofs TextPos.
From Coq Require Import ZifyN ZifyNat ZifyBool.

Section GreenEq.
  Variable static_text : kind -> option text.
  Variable H : list hw -> N.
  Variable strs : list text.
  Hypothesis ND : NoDup strs.

  Notation WfG := (WfGreen static_text H strs).
  Notation WfGs := (WfGreens static_text H strs).
  Notation den := (denote static_text strs).

  Lemma geq_head a : forall b, geq a b = true -> glen a = glen b /\ hw_of a = hw_of b /\ gkind a = gkind b.
  Proof.
    destruct a as [i k key l|i k l h cs]; intros [i' k' key' l'|i' k' l' h' cs']; try (cbn; discriminate).
    - cbn [geq]. rewrite !andb_true_iff, !N.eqb_eq, optN_eqb_eq. intros [[-> ->] ->]. auto.
    - rewrite geq_node_unfold, !andb_true_iff, !N.eqb_eq. intros [[[-> ->] ->] _]. auto.
  Qed.

  (* equal trees hash equally: Hash for GreenNode/GreenToken feeds exactly [hw_of] *)
  Theorem geq_hash a b : geq a b = true -> hw_of a = hw_of b.
  Proof. intros E. apply (geq_head a b E). Qed.

  Lemma geq_list_heads : forall cs cs', geq_list cs cs' = true -> map glen cs = map glen cs' /\ map hw_of cs = map hw_of cs'.
  Proof.
    induction cs as [|c r IH]; intros [|c' r']; cbn; try discriminate; [auto|].
    rewrite andb_true_iff. intros [G1 G2]. destruct (geq_head c c' G1) as (A & B & _). destruct (IH r' G2) as [C D].
    rewrite A, B, C, D. auto.
  Qed.

  Lemma resolve_inj i j t : resolve strs i = Some t -> resolve strs j = Some t -> i = j.
  Proof.
    rewrite !resolve_eq. intros A B. rewrite NoDup_nth_error in ND.
    apply N2Nat.inj. apply ND; [apply nth_error_Some; congruence|congruence].
  Qed.

  (* same kinds, shape and token texts => == *)
  Theorem denote_geq a : forall b, WfG a -> WfG b -> den a = den b -> geq a b = true.
  Proof.
    induction a as [i k key l|i k l h cs IH] using gelem_ind'; intros [i' k' key' l'|i' k' l' h' cs'] Wa Wb E;
      try (cbn in E; discriminate).
    - cbn [denote] in E. injection E as -> Et. cbn [WfGreen] in Wa, Wb. unfold tok_text in Et. cbn [geq].
      destruct (static_text k') as [st|].
      + destruct Wa as [-> ->], Wb as [-> ->]. rewrite !N.eqb_refl. reflexivity.
      + destruct Wa as (ia & ta & -> & Ra & ->), Wb as (ib & tb & -> & Rb & ->).
        rewrite Ra, Rb in Et. cbn in Et. subst tb. rewrite (resolve_inj ia ib ta Ra Rb).
        rewrite !N.eqb_refl. cbn. rewrite N.eqb_refl. reflexivity.
    - cbn [denote] in E. injection E as -> Em. rewrite WfGreen_node in Wa, Wb.
      destruct Wa as (-> & -> & Wa), Wb as (-> & -> & Wb).
      assert (G : geq_list cs cs' = true).
      { apply WfGs_Forall in Wa. apply WfGs_Forall in Wb. clear -IH Wa Wb Em.
        revert cs' Wb Em. induction IH as [|c r Hc Hr IHr]; intros [|c' r'] Wb Em; cbn in Em; try discriminate; [reflexivity|].
        injection Em as E1 E2. inversion Wa as [|? ? Wc Wr]; subst. inversion Wb as [|? ? Wc' Wr']; subst.
        cbn [geq_list]. rewrite (Hc c' Wc Wc' E1), (IHr Wr r' Wr' E2). reflexivity. }
      rewrite geq_node_unfold, G. destruct (geq_list_heads cs cs' G) as [A B]. rewrite A, B, !N.eqb_refl. reflexivity.
  Qed.

  (* == is exactly structural equality (for trees over the same interner) *)
  Theorem geq_structural a b : WfG a -> WfG b -> (geq a b = true <-> den a = den b).
  Proof. intros Wa Wb. split; [apply geq_denote|apply denote_geq; assumption]. Qed.

  (* every construction route yields a well-formed tree, so == does not depend on the route *)
  Theorem green_node_new_wf id k cs : WfGs cs -> WfG (green_node_new H id k cs).
  Proof. intros W. unfold green_node_new. apply WfGreen_node. auto. Qed.
End GreenEq.

(* ---------------------------------------------------------------------------------------- *)
(* the child iterator of a green node (green/iter.rs): everything forwards to slice::Iter except
   last (= next_back), fold (= a loop over next) and rfold (= a loop over next_back) *)
Section ChildIter.
  Context {A : Type}.
  Definition gi_next (l : list A) : option A * list A := match l with [] => (None, []) | x :: r => (Some x, r) end.
  Definition gi_next_back (l : list A) : option A * list A :=
    match rev l with [] => (None, []) | x :: r => (Some x, rev r) end.
  Definition gi_nth (l : list A) (n : nat) : option A * list A := gi_next (skipn n l).
  Definition gi_nth_back (l : list A) (n : nat) : option A * list A := gi_next_back (firstn (length l - n) l).
  Definition gi_len (l : list A) : nat := length l.
  Definition gi_last (l : list A) : option A := fst (gi_next_back l).
  Fixpoint gi_fold {B} (fuel : nat) (f : B -> A -> B) (acc : B) (l : list A) : B :=
    match fuel with
    | O => acc
    | S n => match gi_next l with (Some x, r) => gi_fold n f (f acc x) r | (None, _) => acc end
    end.
  Fixpoint gi_rfold {B} (fuel : nat) (f : B -> A -> B) (acc : B) (l : list A) : B :=
    match fuel with
    | O => acc
    | S n => match gi_next_back l with (Some x, r) => gi_rfold n f (f acc x) r | (None, _) => acc end
    end.

  Theorem gi_next_back_spec l x : gi_next_back (l ++ [x]) = (Some x, l).
  Proof. unfold gi_next_back. rewrite rev_app_distr. cbn. rewrite rev_involutive. reflexivity. Qed.

  Theorem gi_last_spec l x : gi_last (l ++ [x]) = Some x /\ gi_last (@nil A) = None.
  Proof. unfold gi_last. rewrite gi_next_back_spec. auto. Qed.

  Theorem gi_fold_spec {B} (f : B -> A -> B) : forall l acc fuel, (length l <= fuel)%nat -> gi_fold fuel f acc l = fold_left f l acc.
  Proof.
    induction l as [|x r IH]; intros acc [|n] L; cbn in *; try reflexivity; try lia. apply IH. lia.
  Qed.

  Theorem gi_rfold_spec {B} (f : B -> A -> B) : forall l acc fuel, (length l <= fuel)%nat -> gi_rfold fuel f acc l = fold_left f (rev l) acc.
  Proof.
    induction l as [|x r IH] using rev_ind; intros acc [|n] L; try reflexivity.
    - rewrite app_length in L. cbn in L. lia.
    - cbn [gi_rfold]. rewrite gi_next_back_spec, rev_app_distr. cbn [rev app fold_left].
      apply IH. rewrite app_length in L. cbn in L. lia.
  Qed.

  Theorem gi_nth_spec l n : fst (gi_nth l n) = nth_error l n /\ snd (gi_nth l n) = skipn (S n) l.
  Proof.
    unfold gi_nth. revert n; induction l as [|x r IH]; intros [|n]; cbn; auto. apply IH.
  Qed.
  (* nth_back(n): the n-th item from the back; what remains is everything in front of it; past the front the
     iterator is exhausted *)
  Theorem gi_nth_back_spec l n :
    fst (gi_nth_back l n) = nth_error (rev l) n /\ snd (gi_nth_back l n) = firstn (length l - S n) l.
  Proof.
    unfold gi_nth_back, gi_next_back. rewrite <- skipn_rev.
    assert (H : forall (m : list A) k, fst (match skipn k m with [] => (None, []) | x :: r => (Some x, rev r) end) = nth_error m k /\
                                       snd (match skipn k m with [] => (None, @nil A) | x :: r => (Some x, rev r) end) = rev (skipn (S k) m)).
    { induction m as [|y m IH]; intros [|k]; cbn [skipn nth_error fst snd rev]; auto. apply IH. }
    destruct (H (rev l) n) as [H1 H2]. split; [exact H1|]. rewrite H2, skipn_rev, rev_involutive. reflexivity.
  Qed.

  Theorem gi_next_back_nil : gi_next_back (@nil A) = (None, []).
  Proof. reflexivity. Qed.
End ChildIter.
