(* TextPos.v — texts and positions: the text of the element at a position is exactly the slice of the
   whole tree's text at [true offset, true offset + length); lengths are byte lengths. *)
From CsModel Require Import Red RedProofs.
From Coq Require Import ZifyN ZifyNat ZifyBool.

Section TextPos.
  Variable static_text : kind -> option text.
  Variable H : list hw -> N.
  Variable strs : list text.

  Notation WfG := (WfGreen static_text H strs).
  Notation WfGs := (WfGreens static_text H strs).
  Notation gt := (gtext static_text strs).

  Lemma WfGs_Forall l : WfGs l <-> Forall WfG l.
  Proof.
    induction l as [|c r IH]; cbn [WfGreens]; [split; [constructor|auto]|].
    rewrite IH. split; [intros [A B]; constructor; assumption | intros F; inversion F; auto].
  Qed.

  Lemma gtext_node id k len h cs : gt (GNode id k len h cs) = flat_map gt cs.
  Proof.
    unfold gtext. cbn [denote stext]. induction cs as [|c r IH]; cbn [map flat_map]; [reflexivity|].
    rewrite IH. reflexivity.
  Qed.

  (* the reported length of every element is the byte length of its text (C15: text_len_sum) *)
  Theorem glen_text e : WfG e -> glen e = byte_len (gt e).
  Proof.
    induction e as [id k key len|id k len h cs IH] using gelem_ind'.
    - cbn [WfGreen glen]. unfold gtext. cbn [denote stext]. unfold tok_text.
      destruct (static_text k) as [st|].
      + intros [_ ->]. reflexivity.
      + intros (i & t & -> & R & ->). rewrite R. reflexivity.
    - rewrite WfGreen_node, gtext_node. intros (L & _ & W). cbn [glen]. rewrite L.
      apply WfGs_Forall in W. clear L.
      induction IH as [|c r Hc Hr IHr]; cbn [map sumN flat_map]; [reflexivity|].
      inversion W as [|? ? Wc Wr]; subst. rewrite byte_len_app, (Hc Wc), (IHr Wr). reflexivity.
  Qed.

  Lemma WfG_LenOk e : WfG e -> LenOk e.
  Proof.
    induction e as [id k key len|id k len h cs IH] using gelem_ind'; [intros _; exact I|].
    rewrite WfGreen_node. intros (L & _ & W). cbn [LenOk]. split; [exact L|].
    apply WfGs_Forall in W. clear L.
    induction IH as [|c r Hc Hr IHr]; [exact I|]. inversion W as [|? ? Wc Wr]; subst. split; [apply Hc; exact Wc|apply IHr; exact Wr].
  Qed.

  Lemma WfG_children e : WfG e -> Forall WfG (gchildren e).
  Proof.
    destruct e as [|id k len h cs]; [constructor|]. rewrite WfGreen_node. intros (_ & _ & W). apply WfGs_Forall. exact W.
  Qed.

  Lemma WfG_sub : forall p e x, WfG e -> sub e p = Some x -> WfG x.
  Proof.
    induction p as [|i p IH]; intros e x W; cbn [sub]; [intros [= <-]; exact W|].
    destruct (nth_error (gchildren e) i) as [c|] eqn:E; [|discriminate].
    apply IH. pose proof (WfG_children e W) as F. rewrite Forall_forall in F. apply F. eapply nth_error_In; eauto.
  Qed.

  Variable g : gelem.
  Hypothesis Wg : WfG g.

  (* the text to the left / to the right of a position *)
  Fixpoint text_before (p : pos) : text :=
    match p with
    | [] => []
    | i :: q => text_before q ++ flat_map gt (firstn i (kids g q))
    end.
  Fixpoint text_after (p : pos) : text :=
    match p with
    | [] => []
    | i :: q => flat_map gt (skipn (S i) (kids g q)) ++ text_after q
    end.

  Lemma kids_text q e : subr g q = Some e -> is_node e = true -> gt e = flat_map gt (kids g q).
  Proof.
    intros Hs Nd. unfold kids. rewrite Hs. destruct e as [|id k len h cs]; [discriminate|]. apply gtext_node.
  Qed.

  (* the text of the element at p is the slice of the whole text between the texts left and right of it *)
  Theorem text_split : forall p e, subr g p = Some e -> gt g = text_before p ++ gt e ++ text_after p.
  Proof.
    induction p as [|i q IH]; intros e Hs.
    - unfold subr in Hs. cbn in Hs. injection Hs as <-. cbn. rewrite app_nil_r. reflexivity.
    - rewrite kids_nth in Hs.
      destruct (subr g q) as [par|] eqn:Sq.
      + assert (Nd : is_node par = true).
        { unfold kids in Hs. rewrite Sq in Hs. destruct par; [destruct i; discriminate|reflexivity]. }
        rewrite (IH par eq_refl), (kids_text q par Sq Nd). cbn [text_before text_after].
        rewrite <- (firstn_skipn i (kids g q)) at 1. rewrite flat_map_app.
        assert (Sk : skipn i (kids g q) = e :: skipn (S i) (kids g q)).
        { clear -Hs. revert i Hs. induction (kids g q) as [|a r IHr]; intros [|i] Hs; cbn in *; try discriminate.
          - injection Hs as ->. reflexivity.
          - apply IHr. exact Hs. }
        rewrite Sk. cbn [flat_map]. rewrite <- !app_assoc. reflexivity.
      + unfold kids in Hs. rewrite Sq in Hs. destruct i; discriminate.
  Qed.

  Lemma sum_glen_text l : Forall WfG l -> sumN (map glen l) = byte_len (flat_map gt l).
  Proof.
    induction l as [|c r IH]; intros F; cbn [map sumN flat_map]; [reflexivity|].
    inversion F as [|? ? Fc Fr]; subst. rewrite byte_len_app, (glen_text c Fc), (IH Fr). reflexivity.
  Qed.

  Lemma kids_Wf q : Forall WfG (kids g q).
  Proof.
    unfold kids. destruct (subr g q) as [e|] eqn:Hs; [|constructor].
    apply WfG_children. unfold subr in Hs. eapply WfG_sub; eauto.
  Qed.

  Lemma Forall_firstn {A} (P : A -> Prop) n l : Forall P l -> Forall P (firstn n l).
  Proof. intros F. rewrite <- (firstn_skipn n l) in F. apply Forall_app in F. tauto. Qed.

  (* ... and that slice starts at the true offset and has the reported length *)
  Theorem true_off_text p : true_off g p = byte_len (text_before p).
  Proof.
    induction p as [|i q IH]; [reflexivity|]. cbn [true_off text_before].
    rewrite byte_len_app, IH, sum_glen_text; [reflexivity|]. apply Forall_firstn, kids_Wf.
  Qed.

  Theorem text_slice p e :
    subr g p = Some e ->
    gt g = text_before p ++ gt e ++ text_after p /\
    byte_len (text_before p) = true_off g p /\ byte_len (gt e) = len_at g p.
  Proof.
    intros Hs. split; [apply text_split; exact Hs|]. split; [symmetry; apply true_off_text|].
    unfold len_at. rewrite Hs. symmetry. apply glen_text. unfold subr in Hs. eapply WfG_sub; eauto.
  Qed.
End TextPos.
