(* IterSpec.v — C03: a sequence of nth(k) calls on ONE child iterator (next = nth 0; skip(k) is nth) yields
   exactly what the same calls yield on the plain list of the (wanted) children. *)
From CsModel Require Import Red RedProofs Nav NavSpec.
From Coq Require Import ZifyN ZifyNat ZifyBool.

Section IterSpec.
  Variable g : gelem.

  (* nth(k) on a list iterator: the k-th remaining item, and what remains after it *)
  Fixpoint pick {A} (items : list A) (script : list nat) : list A :=
    match script with
    | [] => []
    | k :: sc => match skipn k items with [] => pick [] sc | x :: r => x :: pick r sc end
    end.

  Definition items_of (b : bool) (it : iter) : list pos := wanted_positions b (it_parent it) (it_rest it) (it_index it).

  Lemma next_spec (b : bool) rs it :
    let x := (if b then node_iter_next rs it else elem_iter_next rs it) in
    fst (fst x) = hd_error (items_of b it) /\ items_of b (snd x) = tl (items_of b it) /\
    (length (it_rest (snd x)) <= length (it_rest it))%nat /\
    (fst (fst x) <> None -> (length (it_rest (snd x)) < length (it_rest it))%nat).
  Proof.
    destruct it as [par rest idx off]. unfold items_of. cbn [it_parent it_rest it_index it_offset]. destruct b; cbn zeta.
    - unfold node_iter_next. cbn [it_parent it_rest it_index it_offset].
      revert idx off. induction rest as [|c r IH]; intros idx off; cbn [node_iter_skip wanted_positions].
      + cbn. repeat split; auto. congruence.
      + unfold wanted. cbn [negb orb]. destruct (is_node c); cbn [fst snd it_parent it_rest it_index hd_error tl length].
        * repeat split; auto; lia.
        * destruct (IH (S idx) (off + glen c)) as (A & B & C & D). split; [exact A|split; [exact B|split; [lia|intros H; specialize (D H); lia]]].
    - unfold elem_iter_next. cbn [it_parent it_rest it_index it_offset]. destruct rest as [|c r]; cbn [wanted_positions].
      + cbn. repeat split; auto. congruence.
      + unfold wanted. cbn [negb orb fst snd it_parent it_rest it_index hd_error tl length]. repeat split; auto; lia.
  Qed.

  Lemma adv_spec (b : bool) : forall fuel rs it k,
    (length (it_rest it) < fuel)%nat ->
    let x := iter_adv b fuel rs it k in
    fst (fst x) = nth_error (items_of b it) k /\
    items_of b (snd x) = skipn (S k) (items_of b it) /\
    (length (it_rest (snd x)) <= length (it_rest it))%nat.
  Proof.
    induction fuel as [|f IH]; intros rs it k L; [lia|]. cbn [iter_adv]. cbn zeta.
    destruct (next_spec b rs it) as (A & B & C & D).
    destruct (if b then node_iter_next rs it else elem_iter_next rs it) as [[r rs'] it'] eqn:E. cbn [fst snd] in *.
    destruct r as [q|].
    - assert (Hlt : (length (it_rest it') < length (it_rest it))%nat) by (apply D; discriminate).
      destruct (items_of b it) as [|x items] eqn:Ei; cbn [hd_error tl] in *; [discriminate|]. injection A as ->.
      destruct k as [|k'].
      + cbn [fst snd nth_error skipn]. repeat split; auto.
      + destruct (IH rs' it' k' ltac:(lia)) as (A2 & B2 & C2). cbn zeta in *. rewrite B in A2, B2.
        cbn [nth_error skipn]. repeat split; auto. lia.
    - cbn [fst snd]. destruct (items_of b it) as [|x items] eqn:Ei; cbn [hd_error tl] in *; [|discriminate].
      rewrite B. destruct k; cbn [nth_error skipn]; repeat split; auto.
  Qed.

  Theorem iter_script_spec (b : bool) fuel : forall script rs it,
    (length (it_rest it) < fuel)%nat ->
    fst (iter_script b fuel rs it script) = pick (items_of b it) script.
  Proof.
    induction script as [|k sc IH]; intros rs it L; cbn [iter_script pick]; [reflexivity|].
    destruct (adv_spec b fuel rs it k L) as (A & B & C). cbn zeta in *.
    destruct (iter_adv b fuel rs it k) as [[r rs'] it'] eqn:E. cbn [fst snd] in *.
    assert (L' : (length (it_rest it') < fuel)%nat) by lia.
    specialize (IH rs' it' L'). rewrite B in IH.
    (* skipn k items = nth item :: skipn (S k) items, or [] *)
    destruct (skipn k (items_of b it)) as [|x rest] eqn:Es.
    - assert (nth_error (items_of b it) k = None).
      { apply nth_error_None. assert (Hl := skipn_length k (items_of b it)). rewrite Es in Hl. cbn in Hl. lia. }
      rewrite H in A. subst r.
      assert (skipn (S k) (items_of b it) = []).
      { apply skipn_all2. assert (Hl := skipn_length k (items_of b it)). rewrite Es in Hl. cbn in Hl. lia. }
      rewrite H0 in IH. exact IH.
    - assert (Hn : nth_error (items_of b it) k = Some x /\ skipn (S k) (items_of b it) = rest).
      { clear - Es. revert k Es. induction (items_of b it) as [|a l IHl]; intros [|k] Es; cbn [skipn nth_error] in *; try discriminate.
        - injection Es as -> ->. auto.
        - apply IHl. exact Es. }
      destruct Hn as (Hn1 & Hn2). rewrite Hn1 in A. subst r. cbn [fst]. rewrite IH, Hn2. reflexivity.
  Qed.

  (* through the navigation machine: children().nth.. / children_with_tokens().nth.. on a fresh iterator of the node at p *)
  Theorem iter_script_children_spec (b : bool) rs p script :
    fst (iter_script b (S (length (kids g p))) rs (iter_new g rs p) script) = pick (wanted_positions b p (kids g p) 0%nat) script.
  Proof. apply iter_script_spec. unfold iter_new. cbn [it_rest]. lia. Qed.
End IterSpec.

(* what a partly consumed iterator still holds: draining it by further calls of next (= nth 0) yields exactly
   the items behind the last pick — this is what last / count / len / fold on the rest are computed from *)
Fixpoint rest_after {A} (items : list A) (script : list nat) : list A :=
  match script with
  | [] => items
  | k :: sc => match skipn k items with [] => rest_after [] sc | _ :: r => rest_after r sc end
  end.

Lemma pick_nil {A} : forall script, pick (@nil A) script = [].
Proof. induction script as [|k sc IH]; cbn [pick]; [reflexivity|]. rewrite skipn_nil. exact IH. Qed.

Lemma rest_after_nil {A} : forall script, rest_after (@nil A) script = [].
Proof. induction script as [|k sc IH]; cbn [rest_after]; [reflexivity|]. rewrite skipn_nil. exact IH. Qed.

Lemma pick_zeros {A} : forall n (items : list A), pick items (repeat 0%nat n) = firstn n items.
Proof.
  induction n as [|n IH]; intros items; cbn [repeat pick firstn]; [reflexivity|].
  cbn [skipn]. destruct items as [|x r]; [rewrite pick_nil; reflexivity|]. rewrite IH. reflexivity.
Qed.

Theorem pick_then_drain {A} : forall script (items : list A) n,
  pick items (script ++ repeat 0%nat n) = pick items script ++ firstn n (rest_after items script).
Proof.
  induction script as [|k sc IH]; intros items n; cbn [app pick rest_after].
  - apply pick_zeros.
  - destruct (skipn k items) as [|x r].
    + rewrite IH. reflexivity.
    + rewrite IH. reflexivity.
Qed.

Lemma rest_after_length {A} : forall script (items : list A), (length (rest_after items script) <= length items)%nat.
Proof.
  induction script as [|k sc IH]; intros items; cbn [rest_after]; [lia|].
  pose proof (skipn_length k items) as L. destruct (skipn k items) as [|x r].
  - rewrite rest_after_nil. cbn. lia.
  - specialize (IH r). cbn [length] in L. lia.
Qed.

Corollary pick_then_drain_all {A} : forall script (items : list A),
  pick items (script ++ repeat 0%nat (S (length items))) = pick items script ++ rest_after items script.
Proof.
  intros script items. rewrite pick_then_drain. rewrite firstn_all2; [reflexivity|].
  pose proof (rest_after_length script items). lia.
Qed.

Theorem iter_rest_spec (g : gelem) (b : bool) rs p script :
  let items := wanted_positions b p (kids g p) 0%nat in
  fst (iter_script b (S (length (kids g p))) rs (iter_new g rs p) (script ++ repeat 0%nat (S (length items))))
  = pick items script ++ rest_after items script.
Proof. cbn zeta. rewrite iter_script_children_spec. apply pick_then_drain_all. Qed.
