(* HandlesProofs.v — C06 for the multi-tree handle machine: the count of every tree is the number of handles
   that point into it; a tree is torn down exactly when that number reaches zero — never while a handle
   exists, never twice — and after all handles are dropped every tree has been torn down. *)
From Coq Require Import List Arith Lia Bool.
Import ListNotations.
From CsModel Require Import Handles.

Definition holds (t : nat) (x : option nat) : bool := match x with Some u => Nat.eqb u t | None => false end.
Definition count (t : nat) (regs : list (option nat)) : nat := length (filter (holds t) regs).

Definition HInvM (n : nat) (s : hst) : Prop :=
  length (hs_rc s) = n /\
  (forall r t, nth_error (hs_regs s) r = Some (Some t) -> t < n) /\
  (forall t, t < n -> nth_error (hs_rc s) t = Some (count t (hs_regs s))) /\
  NoDup (hs_torn s) /\
  (forall t, In t (hs_torn s) <-> t < n /\ count t (hs_regs s) = 0).

Lemma upd_length {A} (l : list A) i f : length (upd l i f) = length l.
Proof. revert i; induction l as [|x r IH]; intros [|i]; cbn; auto. Qed.

Lemma nth_upd_same {A} (l : list A) i f x : nth_error l i = Some x -> nth_error (upd l i f) i = Some (f x).
Proof.
  revert i; induction l as [|y r IH]; intros [|i] E; cbn [nth_error upd] in *; try discriminate.
  - congruence.
  - apply IH. exact E.
Qed.

Lemma nth_upd_other {A} (l : list A) i j f : i <> j -> nth_error (upd l i f) j = nth_error l j.
Proof.
  revert i j; induction l as [|y r IH]; intros [|i] [|j] N; cbn [nth_error upd]; try reflexivity.
  - lia.
  - apply IH. lia.
Qed.

Lemma count_app t a b : count t (a ++ b) = count t a + count t b.
Proof. unfold count. rewrite filter_app, app_length. reflexivity. Qed.

Lemma count_upd t regs r x y :
  nth_error regs r = Some x ->
  count t (upd regs r (fun _ => y)) + (if holds t x then 1 else 0) = count t regs + (if holds t y then 1 else 0).
Proof.
  revert r; induction regs as [|z l IH]; intros [|r] E; cbn [nth_error] in E; try discriminate.
  - injection E as ->. unfold count. cbn [upd filter]. destruct (holds t x), (holds t y); cbn [length]; lia.
  - specialize (IH r E). unfold count in *. cbn [upd filter]. destruct (holds t z); cbn [length]; lia.
Qed.

Lemma holds_same t : holds t (Some t) = true.
Proof. cbn. apply Nat.eqb_refl. Qed.
Lemma holds_other t u : u <> t -> holds t (Some u) = false.
Proof. intros N. cbn. apply Nat.eqb_neq. exact N. Qed.

Lemma init_inv n : HInvM n (hinit n).
Proof.
  assert (C : forall t k m, count t (map Some (seq k m)) = if (k <=? t) && (t <? k + m) then 1 else 0).
  { intros t k m. revert k.
    assert (Fin : forall a b c d : bool, True) by auto.
    induction m as [|m IH]; intros k; unfold count in *; cbn [seq map filter holds].
    - cbn [length]. destruct (Nat.leb_spec k t), (Nat.ltb_spec t (k + 0)); cbn [andb]; try reflexivity; lia.
    - specialize (IH (S k)).
      destruct (Nat.eqb_spec k t) as [E|N]; cbn [length]; rewrite IH;
        destruct (Nat.leb_spec (S k) t), (Nat.leb_spec k t), (Nat.ltb_spec t (S k + m)), (Nat.ltb_spec t (k + S m));
        cbn [andb]; try reflexivity; try lia. }
  unfold hinit. split; cbn [hs_rc hs_regs hs_torn].
  - apply repeat_length.
  - split.
    + intros r t E. rewrite nth_error_map in E. destruct (nth_error (seq 0 n) r) as [u|] eqn:Eu; [|discriminate].
      injection E as <-. apply nth_error_In in Eu. apply in_seq in Eu. lia.
    + split.
      * intros t Lt. rewrite C. destruct (Nat.leb_spec 0 t); [|lia]. destruct (Nat.ltb_spec t (0 + n)); [|lia]. cbn [andb].
        apply nth_error_repeat. exact Lt.
      * split; [constructor|]. intros t. split; [intros []|]. intros [Lt Z]. rewrite C in Z.
        destruct (Nat.leb_spec 0 t); [|lia]. destruct (Nat.ltb_spec t (0 + n)); [|lia]. discriminate.
Qed.

(* taking one handle of tree t away (its register already rewritten): the count of t drops by one,
   everything else is unchanged; the tree is torn down exactly when no handle is left *)
Lemma release_inv n t regs rc torn :
  length rc = n -> t < n ->
  (forall r u, nth_error regs r = Some (Some u) -> u < n) ->
  (forall u, u < n -> nth_error rc u = Some (count u regs + (if Nat.eqb u t then 1 else 0))) ->
  NoDup torn ->
  (forall u, In u torn <-> u < n /\ count u regs + (if Nat.eqb u t then 1 else 0) = 0) ->
  HInvM n (fst (release t regs rc torn)) /\
  (snd (release t regs rc torn) = if Nat.eqb (count t regs) 0 then [t] else []).
Proof.
  intros L Lt B RC ND T. unfold release.
  pose proof (RC t Lt) as Rt. rewrite Nat.eqb_refl in Rt. rewrite Rt.
  assert (RC' : forall u, u < n -> nth_error (upd rc t pred) u = Some (count u regs)).
  { intros u Lu. destruct (Nat.eq_dec t u) as [<-|N].
    - rewrite (nth_upd_same _ _ _ _ Rt). f_equal. lia.
    - rewrite nth_upd_other by exact N. rewrite (RC u Lu). destruct (Nat.eqb_spec u t); [congruence|]. f_equal. lia. }
  assert (Tn : ~ In t torn). { intros H. apply T in H. rewrite Nat.eqb_refl in H. lia. }
  destruct (count t regs) as [|c] eqn:Ec; cbn [Nat.add Nat.eqb fst snd].
  - split; [|reflexivity]. split; [cbn [hs_rc]; rewrite upd_length; exact L|]. split; [exact B|]. split; [exact RC'|].
    cbn [hs_torn hs_regs]. split; [constructor; assumption|].
    intros u. cbn [In]. split.
    + intros [<-|H]; [split; [exact Lt|exact Ec]|]. apply T in H. destruct H as [Lu H]. split; [exact Lu|lia].
    + intros [Lu Z]. destruct (Nat.eq_dec t u) as [E|N]; [left; exact E|right]. apply T. split; [exact Lu|].
      destruct (Nat.eqb_spec u t); [congruence|lia].
  - replace (c + 1) with (S c) by lia. cbn [fst snd].
    split; [|reflexivity]. split; [cbn [hs_rc]; rewrite upd_length; exact L|]. split; [exact B|]. split; [exact RC'|].
    cbn [hs_torn hs_regs]. split; [exact ND|].
    intros u. split.
    + intros H. apply T in H. destruct H as [Lu H]. split; [exact Lu|lia].
    + intros [Lu Z]. apply T. split; [exact Lu|]. destruct (Nat.eqb_spec u t) as [->|]; [rewrite Ec in Z; discriminate|lia].
Qed.

Lemma tree_of_some s r t : tree_of s r = Some t -> nth_error (hs_regs s) r = Some (Some t).
Proof. unfold tree_of. destruct (nth_error (hs_regs s) r) as [[u|]|]; intros [= ->]; reflexivity. Qed.

Lemma nth_app_new {A} (l : list A) x r y : nth_error (l ++ [x]) r = Some y -> nth_error l r = Some y \/ y = x.
Proof.
  intros H. destruct (Nat.lt_ge_cases r (length l)) as [Lr|Lr].
  - rewrite nth_error_app1 in H by exact Lr. left. exact H.
  - rewrite nth_error_app2 in H by exact Lr. destruct (r - length l) as [|k]; cbn in H; [right; congruence|destruct k; discriminate].
Qed.

Lemma count_pos_in t regs r : nth_error regs r = Some (Some t) -> count t regs <> 0.
Proof.
  intros E Z. apply nth_error_In in E. unfold count in Z. apply length_zero_iff_nil in Z.
  assert (H : In (Some t) (filter (holds t) regs)) by (apply filter_In; split; [exact E|apply holds_same]).
  rewrite Z in H. contradiction.
Qed.

Lemma push_some_inv n s t r :
  HInvM n s -> nth_error (hs_regs s) r = Some (Some t) ->
  HInvM n (mkH (hs_regs s ++ [Some t]) (upd (hs_rc s) t S) (hs_torn s)).
Proof.
  intros (L & B & RC & ND & T) E. pose proof (B _ _ E) as Lt.
  assert (Cn : forall u, count u (hs_regs s ++ [Some t]) = count u (hs_regs s) + (if Nat.eqb t u then 1 else 0)).
  { intros u. rewrite count_app. unfold count at 2. cbn [filter holds]. destruct (Nat.eqb t u); reflexivity. }
  split; [cbn [hs_rc]; rewrite upd_length; exact L|]. split.
  - cbn [hs_regs]. intros r0 u H. apply nth_app_new in H. destruct H as [H|H]; [eapply B; exact H|injection H as ->; exact Lt].
  - split.
    + cbn [hs_rc hs_regs]. intros u Lu. rewrite Cn. destruct (Nat.eqb_spec t u) as [<-|N].
      * rewrite (nth_upd_same _ _ _ _ (RC t Lt)). f_equal. lia.
      * rewrite nth_upd_other by exact N. rewrite (RC u Lu). f_equal. lia.
    + split; [exact ND|]. cbn [hs_torn hs_regs]. intros u. rewrite Cn, T. split; intros [Lu Z]; split; auto.
      * destruct (Nat.eqb_spec t u) as [<-|N]; [exfalso; exact (count_pos_in _ _ _ E Z)|lia].
      * lia.
Qed.

Lemma push_none_inv n s : HInvM n s -> HInvM n (mkH (hs_regs s ++ [None]) (hs_rc s) (hs_torn s)).
Proof.
  intros (L & B & RC & ND & T).
  assert (Cn : forall u, count u (hs_regs s ++ [None]) = count u (hs_regs s)).
  { intros u. rewrite count_app. unfold count at 2. cbn [filter holds length]. lia. }
  split; [exact L|]. split.
  - cbn [hs_regs]. intros r0 u H. apply nth_app_new in H. destruct H as [H|H]; [eapply B; exact H|discriminate].
  - split; [cbn [hs_rc hs_regs]; intros u Lu; rewrite Cn; apply RC; exact Lu|]. split; [exact ND|].
    cbn [hs_torn hs_regs]. intros u. rewrite Cn. apply T.
Qed.

Theorem hstep_inv n s o : HInvM n s -> HInvM n (fst (hstep s o)).
Proof.
  intros I. destruct o as [r|r|r|a b|a b]; cbn [hstep].
  - destruct (tree_of s r) as [t|] eqn:E; cbn [fst]; [apply tree_of_some in E; eapply push_some_inv; eauto|apply push_none_inv; exact I].
  - destruct (tree_of s r) as [t|] eqn:E; cbn [fst]; [apply tree_of_some in E; eapply push_some_inv; eauto|apply push_none_inv; exact I].
  - (* drop *)
    destruct I as (L & B & RC & ND & T).
    destruct (tree_of s r) as [t|] eqn:E; [|cbn [fst]; exact (conj L (conj B (conj RC (conj ND T))))].
    apply tree_of_some in E. pose proof (B _ _ E) as Lt.
    refine (proj1 (release_inv n t _ _ _ L Lt _ _ ND _)).
    + intros r0 u H. destruct (Nat.eq_dec r r0) as [<-|N]; [rewrite (nth_upd_same _ _ _ _ E) in H; discriminate|rewrite nth_upd_other in H by exact N; eapply B; exact H].
    + intros u Lu. rewrite (RC u Lu). f_equal. pose proof (count_upd u (hs_regs s) r (Some t) None E) as C. cbn [holds] in C.
      rewrite (Nat.eqb_sym t u) in C. destruct (Nat.eqb u t); lia.
    + intros u. rewrite T. pose proof (count_upd u (hs_regs s) r (Some t) None E) as C. cbn [holds] in C.
      rewrite (Nat.eqb_sym t u) in C. destruct (Nat.eqb u t); split; intros [A Z]; split; auto; lia.
  - (* clone_from *)
    destruct I as (L & B & RC & ND & T).
    destruct (tree_of s a) as [ta|] eqn:Ea; [|cbn [fst]; exact (conj L (conj B (conj RC (conj ND T))))].
    destruct (tree_of s b) as [tb|] eqn:Eb; [|cbn [fst]; exact (conj L (conj B (conj RC (conj ND T))))].
    apply tree_of_some in Ea, Eb. pose proof (B _ _ Ea) as La. pose proof (B _ _ Eb) as Lb.
    pose proof (fun u => count_upd u (hs_regs s) a (Some ta) (Some tb) Ea) as C. cbn [holds] in C.
    assert (L' : length (upd (hs_rc s) tb S) = n) by (rewrite upd_length; exact L).
    refine (proj1 (release_inv n ta _ _ _ L' La _ _ ND _)).
    + intros r0 u H. destruct (Nat.eq_dec a r0) as [<-|N]; [rewrite (nth_upd_same _ _ _ _ Ea) in H; injection H as <-; exact Lb|rewrite nth_upd_other in H by exact N; eapply B; exact H].
    + intros u Lu. specialize (C u). rewrite (Nat.eqb_sym ta u), (Nat.eqb_sym tb u) in C.
      destruct (Nat.eq_dec tb u) as [<-|N].
      * rewrite (nth_upd_same _ _ _ _ (RC tb Lb)). f_equal. rewrite Nat.eqb_refl in C. destruct (Nat.eqb tb ta); lia.
      * rewrite nth_upd_other by exact N. rewrite (RC u Lu). f_equal.
        destruct (Nat.eqb_spec u tb); [congruence|]. destruct (Nat.eqb u ta); lia.
    + intros u. rewrite T. specialize (C u). rewrite (Nat.eqb_sym ta u), (Nat.eqb_sym tb u) in C.
      split.
      * intros [Lu Z]. split; [exact Lu|]. destruct (Nat.eqb_spec u tb) as [Eu|Nu].
        -- exfalso. rewrite Eu in Z. exact (count_pos_in _ _ _ Eb Z).
        -- destruct (Nat.eqb u ta); lia.
      * intros [Lu Z]. split; [exact Lu|]. destruct (Nat.eqb u tb), (Nat.eqb u ta); lia.
  - (* swap *)
    destruct I as (L & B & RC & ND & T).
    destruct (nth_error (hs_regs s) a) as [x|] eqn:Ea; [|cbn [fst]; exact (conj L (conj B (conj RC (conj ND T))))].
    destruct (nth_error (hs_regs s) b) as [y|] eqn:Eb; [|cbn [fst]; exact (conj L (conj B (conj RC (conj ND T))))].
    cbn [fst].
    assert (Cs : forall u, count u (upd (upd (hs_regs s) a (fun _ => y)) b (fun _ => x)) = count u (hs_regs s)).
    { intros u. destruct (Nat.eq_dec a b) as [<-|N].
      - pose proof (count_upd u (hs_regs s) a x y Ea) as C1.
        pose proof (count_upd u (upd (hs_regs s) a (fun _ => y)) a y x (nth_upd_same _ _ _ _ Ea)) as C2.
        assert (x = y) by congruence. subst y. destruct (holds u x); lia.
      - pose proof (count_upd u (hs_regs s) a x y Ea) as C1.
        assert (Eb' : nth_error (upd (hs_regs s) a (fun _ => y)) b = Some y) by (rewrite nth_upd_other by exact N; exact Eb).
        pose proof (count_upd u _ b y x Eb') as C2. destruct (holds u x), (holds u y); lia. }
    split; [exact L|]. split.
    + cbn [hs_regs]. intros r0 u H. destruct (Nat.eq_dec b r0) as [<-|Nb].
      * assert (Eb' : nth_error (upd (hs_regs s) a (fun _ => y)) b <> None).
        { destruct (Nat.eq_dec a b) as [<-|N]; [rewrite (nth_upd_same _ _ _ _ Ea); discriminate|rewrite nth_upd_other by exact N; congruence]. }
        destruct (nth_error (upd (hs_regs s) a (fun _ => y)) b) as [z|] eqn:Ez; [|congruence].
        rewrite (nth_upd_same _ _ _ _ Ez) in H. injection H as ->. eapply B. exact Ea.
      * rewrite nth_upd_other in H by exact Nb. destruct (Nat.eq_dec a r0) as [<-|Na].
        -- rewrite (nth_upd_same _ _ _ _ Ea) in H. injection H as ->. eapply B. exact Eb.
        -- rewrite nth_upd_other in H by exact Na. eapply B. exact H.
    + split; [cbn [hs_rc hs_regs]; intros u Lu; rewrite Cs; apply RC; exact Lu|]. split; [exact ND|].
      cbn [hs_torn hs_regs]. intros u. rewrite Cs. apply T.
Qed.

Theorem hrun_inv n : forall ops s, HInvM n s -> HInvM n (fst (hrun_ops s ops)).
Proof.
  induction ops as [|o r IH]; intros s I; cbn [hrun_ops]; [exact I|].
  pose proof (hstep_inv n s o I) as I1. destruct (hstep s o) as [s1 t]. cbn [fst] in I1.
  specialize (IH s1 I1). destruct (hrun_ops s1 r) as [s2 ts]. exact IH.
Qed.

(* C06 over several trees and the std-provided handle operations: in every state reached from n trees with one
   handle each, by ANY sequence of clone / child / drop / clone_from / swap,
   - the count of every tree is the number of handles pointing into it,
   - a tree has been torn down exactly if no handle points into it (never earlier: not while one exists;
     never leaked: as soon as none exists), and no tree is torn down twice *)
Theorem handles_reclaim n ops :
  let s := fst (hrun_ops (hinit n) ops) in
  (forall t, t < n -> nth_error (hs_rc s) t = Some (count t (hs_regs s))) /\
  NoDup (hs_torn s) /\
  (forall t, In t (hs_torn s) <-> t < n /\ count t (hs_regs s) = 0).
Proof.
  cbn zeta. destruct (hrun_inv n ops (hinit n) (init_inv n)) as (_ & _ & RC & ND & T). auto.
Qed.

(* the step reports a teardown exactly when it takes the last handle of a tree away *)
Lemma release_shape t regs rc torn :
  (snd (release t regs rc torn) = [t] /\ hs_torn (fst (release t regs rc torn)) = t :: torn) \/
  (snd (release t regs rc torn) = [] /\ hs_torn (fst (release t regs rc torn)) = torn).
Proof. unfold release. destruct (nth_error rc t) as [[|[|k]]|]; cbn [fst snd hs_torn]; auto. Qed.

Lemma hstep_shape s o :
  (exists t, snd (hstep s o) = [t] /\ hs_torn (fst (hstep s o)) = t :: hs_torn s) \/
  (snd (hstep s o) = [] /\ hs_torn (fst (hstep s o)) = hs_torn s).
Proof.
  destruct o as [r|r|r|a b|a b]; cbn [hstep].
  - destruct (tree_of s r); cbn [fst snd hs_torn]; auto.
  - destruct (tree_of s r); cbn [fst snd hs_torn]; auto.
  - destruct (tree_of s r) as [t|]; [|cbn [fst snd]; auto].
    destruct (release_shape t (upd (hs_regs s) r (fun _ => None)) (hs_rc s) (hs_torn s)) as [H|H]; [left; exists t; exact H|right; exact H].
  - destruct (tree_of s a) as [ta|]; [|cbn [fst snd]; auto]. destruct (tree_of s b) as [tb|]; [|cbn [fst snd]; auto].
    destruct (release_shape ta (upd (hs_regs s) a (fun _ => Some tb)) (upd (hs_rc s) tb S) (hs_torn s)) as [H|H]; [left; exists ta; exact H|right; exact H].
  - destruct (nth_error (hs_regs s) a); [|cbn [fst snd]; auto]. destruct (nth_error (hs_regs s) b); cbn [fst snd hs_torn]; auto.
Qed.

Theorem hstep_reports n s o : HInvM n s ->
  forall t, In t (snd (hstep s o)) <-> (~ In t (hs_torn s) /\ In t (hs_torn (fst (hstep s o)))).
Proof.
  intros I t. pose proof (hstep_inv n s o I) as (_ & _ & _ & ND' & _).
  destruct (hstep_shape s o) as [(u & E1 & E2)|(E1 & E2)]; rewrite E1; rewrite E2 in *.
  - inversion ND' as [|? ? Nu _]; subst. cbn [In]. split.
    + intros [<-|[]]. split; [exact Nu|left; reflexivity].
    + intros [A [C|C]]; [left; exact C|contradiction].
  - cbn [In]. split; [intros []|intros [A C]; contradiction].
Qed.

(* never leaked: after every handle is dropped all trees are torn down *)
Lemma count_all_none regs : Forall (fun x => x = None) regs -> forall t, count t regs = 0.
Proof. intros F t. unfold count. induction F as [|x l -> _ IH]; cbn; auto. Qed.

Lemma drops_clear : forall k s base,
  length (hs_regs s) = base + k ->
  (forall r, r < base -> nth_error (hs_regs s) r = Some None) ->
  let s' := fst (hrun_ops s (map HDrop (seq base k))) in
  length (hs_regs s') = base + k /\ forall r, r < base + k -> nth_error (hs_regs s') r = Some None.
Proof.
  induction k as [|k IH]; intros s base L Z; cbn [seq map hrun_ops fst].
  - split; [exact L|]. intros r Lr. apply Z. lia.
  - cbn zeta. assert (Hs : length (hs_regs (fst (hstep s (HDrop base)))) = S base + k /\
                          forall r, r < S base -> nth_error (hs_regs (fst (hstep s (HDrop base)))) r = Some None).
    { cbn [hstep]. unfold tree_of. destruct (nth_error (hs_regs s) base) as [[t|]|] eqn:E.
      - unfold release. assert (Hr : forall x, hs_regs (fst (match nth_error (hs_rc s) t with
                 | Some 1 => (mkH (upd (hs_regs s) base (fun _ => None)) (upd (hs_rc s) t pred) (t :: hs_torn s), [t])
                 | _ => (mkH (upd (hs_regs s) base (fun _ => None)) (upd (hs_rc s) t pred) (hs_torn s), x) end)) = upd (hs_regs s) base (fun _ => None)).
        { intros x. destruct (nth_error (hs_rc s) t) as [[|[|?]]|]; reflexivity. }
        rewrite Hr. rewrite upd_length. split; [lia|]. intros r Lr. destruct (Nat.eq_dec base r) as [<-|N].
        + rewrite (nth_upd_same _ _ _ _ E). reflexivity.
        + rewrite nth_upd_other by exact N. apply Z. lia.
      - cbn [fst]. split; [lia|]. intros r Lr. destruct (Nat.eq_dec base r) as [<-|N]; [exact E|apply Z; lia].
      - exfalso. apply nth_error_None in E. lia. }
    destruct (hstep s (HDrop base)) as [s1 t1]. cbn [fst] in Hs. destruct Hs as [L1 Z1].
    specialize (IH s1 (S base) L1 Z1). cbn zeta in IH.
    destruct (hrun_ops s1 (map HDrop (seq (S base) k))) as [s2 ts]. cbn [fst] in *.
    replace (base + S k) with (S base + k) by lia. exact IH.
Qed.

Theorem handles_no_leak n ops :
  let s := fst (hrun_ops (hinit n) ops) in
  let s' := fst (hdrop_all s) in
  forall t, t < n -> In t (hs_torn s') /\ nth_error (hs_rc s') t = Some 0.
Proof.
  cbn zeta. intros t Lt. set (s := fst (hrun_ops (hinit n) ops)).
  pose proof (hrun_inv n ops (hinit n) (init_inv n)) as I. fold s in I.
  unfold hdrop_all. pose proof (hrun_inv n (map HDrop (seq 0 (length (hs_regs s)))) s I) as I'.
  destruct (drops_clear (length (hs_regs s)) s 0 eq_refl) as [L Z]; [intros r Hr; lia|]. cbn zeta in *.
  set (s' := fst (hrun_ops s (map HDrop (seq 0 (length (hs_regs s)))))) in *.
  assert (C0 : count t (hs_regs s') = 0).
  { apply count_all_none. apply Forall_forall. intros x Hx. apply In_nth_error in Hx. destruct Hx as [r Hr].
    assert (r < length (hs_regs s')) by (apply nth_error_Some; congruence). rewrite Z in Hr by lia. congruence. }
  destruct I' as (_ & _ & RC & _ & T). split; [apply T; split; assumption|]. rewrite (RC t Lt), C0. reflexivity.
Qed.

(* a concrete history over two trees: tree 1 goes when its last handle goes (a clone_from re-pointed to it
   keeps it alive until then), tree 0 when the remaining handles are dropped *)
Example handles_example :
  snd (hrun_ops (hinit 2) [HClone 0; HCloneFrom 2 1; HDrop 1; HDrop 2; HSwap 0 1; HChild 0]) = [[]; []; []; [1]; []; []] /\
  snd (hdrop_all (fst (hrun_ops (hinit 2) [HClone 0; HCloneFrom 2 1; HDrop 1; HDrop 2; HSwap 0 1; HChild 0]))) = [[]; [0]; []; []].
Proof. vm_compute. split; reflexivity. Qed.
