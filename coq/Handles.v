(* Handles.v — C06, the handle operations that std provides on top of Clone and Drop, over SEVERAL trees:
   clone, drop, clone_from (default: *self = source.clone()), mem::swap, navigation to a child (a new handle
   into the same tree).  The machine keeps one reference count per tree, as the code does; a tree is torn
   down when its count reaches zero. *)
From Coq Require Import List Arith Lia Bool.
Import ListNotations.

Inductive hop :=
| HClone (r : nat) | HChild (r : nat) | HDrop (r : nat)
| HCloneFrom (a b : nat)       (* regs[a].clone_from(&regs[b]) *)
| HSwap (a b : nat).           (* mem::swap(&mut regs[a], &mut regs[b]) *)

Record hst := mkH {
  hs_regs : list (option nat);   (* handle registers: which tree the handle belongs to *)
  hs_rc   : list nat;            (* per tree: its reference count *)
  hs_torn : list nat             (* trees torn down so far, latest first *)
}.

Fixpoint upd {A} (l : list A) (i : nat) (f : A -> A) : list A :=
  match l, i with
  | [], _ => []
  | x :: r, O => f x :: r
  | x :: r, S j => x :: upd r j f
  end.

Definition tree_of (s : hst) (r : nat) : option nat :=
  match nth_error (hs_regs s) r with Some (Some t) => Some t | _ => None end.

(* the decrement of Drop: the tree is torn down when the count was 1 *)
Definition release (t : nat) (regs : list (option nat)) (rc : list nat) (torn : list nat) : hst * list nat :=
  let rc' := upd rc t pred in
  match nth_error rc t with
  | Some 1 => (mkH regs rc' (t :: torn), [t])
  | _ => (mkH regs rc' torn, [])
  end.

Definition hinit (n : nat) : hst := mkH (map Some (seq 0 n)) (repeat 1 n) [].

Definition hstep (s : hst) (o : hop) : hst * list nat :=
  match o with
  | HClone r | HChild r =>
      match tree_of s r with
      | Some t => (mkH (hs_regs s ++ [Some t]) (upd (hs_rc s) t S) (hs_torn s), [])
      | None => (mkH (hs_regs s ++ [None]) (hs_rc s) (hs_torn s), [])
      end
  | HDrop r =>
      match tree_of s r with
      | Some t => release t (upd (hs_regs s) r (fun _ => None)) (hs_rc s) (hs_torn s)
      | None => (s, [])
      end
  | HCloneFrom a b =>
      match tree_of s a, tree_of s b with
      | Some ta, Some tb =>
          (* source.clone() first, then the old value of *self is dropped *)
          release ta (upd (hs_regs s) a (fun _ => Some tb)) (upd (hs_rc s) tb S) (hs_torn s)
      | _, _ => (s, [])
      end
  | HSwap a b =>
      match nth_error (hs_regs s) a, nth_error (hs_regs s) b with
      | Some x, Some y => (mkH (upd (upd (hs_regs s) a (fun _ => y)) b (fun _ => x)) (hs_rc s) (hs_torn s), [])
      | _, _ => (s, [])
      end
  end.

Fixpoint hrun_ops (s : hst) (ops : list hop) : hst * list (list nat) :=
  match ops with
  | [] => (s, [])
  | o :: r => let '(s1, t) := hstep s o in let '(s2, ts) := hrun_ops s1 r in (s2, t :: ts)
  end.

(* dropping every remaining handle, in register order (what happens at the end of a scope) *)
Definition hdrop_all (s : hst) : hst * list (list nat) := hrun_ops s (map HDrop (seq 0 (length (hs_regs s)))).
