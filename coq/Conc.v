(* Conc.v — the concurrent machine of the red tree (syntax/node.rs): slots with per-slot RW locks,
   the tree-wide reference count, allocation of NodeData blocks, the per-node data slot; threads
   running small programs over handle registers.  One machine step = one scheduled step of the
   deterministic scheduler of the harness: a blocking point (lock request or read-modify-write on
   the reference count) together with the non-blocking events that follow it.  The machine is
   executable: harness traces are replayed against it step by step. *)
From CsModel Require Export Red.
From Coq Require Import ZArith.

Open Scope N_scope.

(* what a slot holds once initialised *)
(* a node owns a NodeData block; a token is identified by its parent's block and its index *)
Inductive selem := ENode (block : nat) | EToken (parent_block : nat).

(* trace events, as the hooks report them *)
Inductive cev :=
| CReadLock (block slot : nat) | CReadUnlock (block slot : nat)
| CWriteLock (block slot : nat) | CWriteUnlock (block slot : nat)
| CDataLock (block : nat) (write : bool) | CDataUnlock (block : nat) (write : bool)
| CAccess (block slot : nat)             (* a pointer to the content of a child slot is requested *)
| CRmw (delta : Z)
| CAlloc (block : nat) | CFree (block : nat).

(* thread programs *)
Inductive cop :=
| KFirst (r : nat) | KLast (r : nat) | KChild (r i : nat) | KNext (r : nat) | KPrev (r : nat)
| KClone (r : nat) | KDrop (r : nat)
| KSet (r : nat) (v : N) | KTrySet (r : nat) (v : N) | KGet (r : nat) | KClear (r : nat).

Inductive cres :=
| RHandle (h : option (pos * selem))     (* a navigation result: position + identity *)
| RDropped
| RSet (v : N) | RTrySet (ok : bool) (v : N) | RGet (v : option N) | RCleared
| RNone.

(* by which route a child slot is reached: it determines from what the offset of a new element is computed *)
Inductive route :=
| RFirst      (* first_child_or_token: the parent's own offset *)
| RLast       (* last_child_or_token: the parent's end minus the child's length *)
| RIter       (* a child iterator: the parent's offset plus the lengths of the children passed *)
| RNext       (* next_sibling_or_token: the end of the element the call starts from *)
| RPrev.      (* prev_sibling_or_token: the start of that element minus the child's length *)

(* micro-operations: what a thread still has to do for the current program operation; each is one
   blocking point *)
Inductive mop :=
| MRead (p : pos) (i : nat) (rt : route) (first : bool) (keep : bool)
    (* read slot i of the node at p; [first]: a miss allocates a candidate and continues with MWrite,
       otherwise (re-read after try_write) the slot is filled; [keep]: the element found is the
       result of the operation (clone it into a new register) *)
| MWrite (p : pos) (i : nat) (off : N) (cand : option nat) (keep : bool)    (* off: the offset computed for the candidate *)
| MRmwInternal (delta : Z) (after : list cev)      (* compensation inside the loser path / teardown *)
| MCloneResult (h : pos * selem)                   (* fetch_add(1), then the handle goes into a new register *)
| MCloneReg (r : nat)
| MDropReg (r : nat) (report : bool)               (* fetch_sub(1) of an owned handle; the last one tears the tree down *)
| MTearSlot (b : nat) (p : pos) (i : nat)          (* drop_recursive: write-lock slot i of the node at p (block b) *)
| MData (p : pos) (op : cop).

Record thread := mkThread {
  t_regs : list (option (pos * selem));
  t_prog : list cop;
  t_cont : list mop;
  t_out  : list cres
}.

Record cstate := mkC {
  c_rc    : Z;
  c_slots : list (pos * selem);           (* initialised slots *)
  c_wlock : list (pos * nat);             (* write-locked slots (held across several steps only in the loser path / teardown) *)
  c_next  : nat;                          (* next block id *)
  c_live  : list nat;                     (* allocated NodeData blocks *)
  c_freed : list nat;
  c_data  : list (pos * N);               (* node data *)
  c_torn  : bool;                         (* teardown has started *)
  c_payload_drops : nat;                  (* payload values dropped so far *)
  c_threads : list thread;
  c_offs  : list (pos * N)                (* the text offset stored in each initialised slot's element *)
}.

Section Conc.
  Variable g : gelem.

  Fixpoint slot_lookup (sl : list (pos * selem)) (p : pos) : option selem :=
    match sl with [] => None | (q, e) :: r => if pos_eqb q p then Some e else slot_lookup r p end.

  Definition block_of (sl : list (pos * selem)) (p : pos) : nat :=
    match p with [] => 0%nat | _ => match slot_lookup sl p with Some (ENode b) => b | _ => 0%nat end end.

  Definition child_is_node (p : pos) (i : nat) : bool :=
    match nth_error (kids g p) i with Some c => is_node c | None => false end.

  Fixpoint data_lookup (d : list (pos * N)) (p : pos) : option N :=
    match d with [] => None | (q, v) :: r => if pos_eqb q p then Some v else data_lookup r p end.
  Fixpoint data_remove (d : list (pos * N)) (p : pos) : list (pos * N) :=
    match d with [] => [] | (q, v) :: r => if pos_eqb q p then data_remove r p else (q, v) :: data_remove r p end.

  Fixpoint off_lookup (l : list (pos * N)) (p : pos) : option N :=
    match l with [] => None | (q, o) :: r => if pos_eqb q p then Some o else off_lookup r p end.
  (* the offset an element reports (the root starts at 0) *)
  Definition off_of (l : list (pos * N)) (p : pos) : N :=
    match p with [] => 0 | _ => match off_lookup l p with Some o => o | None => 0 end end.
  (* the offset a thread computes for the element it is about to create at slot i of the node at p *)
  Definition cand_off (l : list (pos * N)) (p : pos) (i : nat) (rt : route) : N :=
    match rt with
    | RFirst => off_of l p
    | RLast => off_of l p + len_at g p - len_at g (i :: p)
    | RIter => off_of l p + sumN (map glen (firstn i (kids g p)))
    | RNext => off_of l (Nat.pred i :: p) + len_at g (Nat.pred i :: p)
    | RPrev => off_of l (S i :: p) - len_at g (i :: p)
    end.

  Fixpoint set_nth {A} (l : list A) (i : nat) (x : A) : list A :=
    match l, i with
    | [], _ => []
    | _ :: r, O => x :: r
    | a :: r, S j => a :: set_nth r j x
    end.

  Definition reg_of (t : thread) (r : nat) : option (pos * selem) :=
    match nth_error (t_regs t) r with Some (Some h) => Some h | _ => None end.

  (* expand a program operation into micro-operations (or finish it at once) *)
  Definition get_or_add (p : pos) (i : nat) (rt : route) (keep : bool) : list mop := [MRead p i rt true keep].

  (* children_with_tokens().nth(i): children 0..i-1 are materialised and passed over, child i is kept *)
  Fixpoint iter_to (p : pos) (j : nat) (n : nat) : list mop :=
    match n with
    | O => get_or_add p j RIter true
    | S m => get_or_add p j RIter false ++ iter_to p (S j) m
    end.

  Definition expand (t : thread) (o : cop) : list mop * option cres :=
    let nav (r : nat) (f : pos -> selem -> list mop * option cres) :=
      match reg_of t r with Some (p, e) => f p e | None => ([], Some (RHandle None)) end in
    let nchildren (p : pos) := length (kids g p) in
    match o with
    | KFirst r => nav r (fun p e => match e with
                                    | ENode _ => if Nat.ltb 0 (nchildren p) then (get_or_add p 0 RFirst true, None) else ([], Some (RHandle None))
                                    | EToken _ => ([], Some (RHandle None)) end)
    | KLast r => nav r (fun p e => match e with
                                   | ENode _ => if Nat.ltb 0 (nchildren p) then (get_or_add p (nchildren p - 1) RLast true, None) else ([], Some (RHandle None))
                                   | EToken _ => ([], Some (RHandle None)) end)
    | KChild r i => nav r (fun p e => match e with
                                      | ENode _ => if Nat.ltb i (nchildren p) then (iter_to p 0 i, None)
                                                   else (* the iterator runs off the end: every child is materialised *)
                                                     (flat_map (fun j => get_or_add p j RIter false) (seq 0 (nchildren p)), Some (RHandle None))
                                      | EToken _ => ([], Some (RHandle None)) end)
    | KNext r => nav r (fun p _ => match p with
                                   | [] => ([], Some (RHandle None))
                                   | i :: q => if Nat.ltb (S i) (nchildren q) then (get_or_add q (S i) RNext true, None) else ([], Some (RHandle None))
                                   end)
    | KPrev r => nav r (fun p _ => match p with
                                   | [] => ([], Some (RHandle None))
                                   | i :: q => match i with O => ([], Some (RHandle None)) | S j => (get_or_add q j RPrev true, None) end
                                   end)
    | KClone r => match reg_of t r with Some _ => ([MCloneReg r], None) | None => ([], Some (RHandle None)) end
    | KDrop r => match reg_of t r with Some _ => ([MDropReg r true], None) | None => ([], Some RNone) end
    | KSet r _ | KTrySet r _ | KGet r | KClear r =>
        match reg_of t r with Some (p, ENode _) => ([MData p o], None) | _ => ([], Some RNone) end
    end.

  (* teardown of the node at p: its slots in order; a node child is torn down before its slot is cleared *)
  Definition tear_node (b : nat) (p : pos) : list mop := map (fun i => MTearSlot b p i) (seq 0 (length (kids g p))).

  Fixpoint slot_remove (sl : list (pos * selem)) (p : pos) : list (pos * selem) :=
    match sl with [] => [] | (q, e) :: r => if pos_eqb q p then slot_remove r p else (q, e) :: slot_remove r p end.

  (* what happens when a write-locked slot is cleared during teardown: the element is dropped *)
  Definition tear_slot_events (s : cstate) (pb : nat) (p : pos) (i : nat) : list mop * list cev :=
    match slot_lookup (c_slots s) (i :: p) with
    | Some (ENode b) =>
        (* node.drop_recursive() first, then `*slot = None` drops the handle (fetch_sub), the block is
           freed, and dropping it releases its parent handle (fetch_sub) *)
        (tear_node b (i :: p) ++
         [MRmwInternal (-1) [CFree b]; MRmwInternal (-1) [CWriteUnlock pb i]], [])
    | Some (EToken _) =>
        (* the token's parent handle is released *)
        ([MRmwInternal (-1) [CWriteUnlock pb i]], [])
    | None => ([], [CWriteUnlock pb i])
    end.

  Definition upd_thread (s : cstate) (tid : nat) (t : thread) : cstate :=
    mkC (c_rc s) (c_slots s) (c_wlock s) (c_next s) (c_live s) (c_freed s) (c_data s) (c_torn s) (c_payload_drops s)
        (set_nth (c_threads s) tid t) (c_offs s).

  Definition wlocked (s : cstate) (p : pos) (i : nat) : bool :=
    existsb (fun x => pos_eqb (fst x) p && Nat.eqb (snd x) i) (c_wlock s).
  Definition wunlock (l : list (pos * nat)) (p : pos) (i : nat) : list (pos * nat) :=
    filter (fun x => negb (pos_eqb (fst x) p && Nat.eqb (snd x) i)) l.
  (* the release of slot i of block b: the first held entry for that slot goes (several threads may hold write locks on
     different slots at the same time: each releases its own) *)
  Fixpoint wl_release (sl : list (pos * selem)) (l : list (pos * nat)) (b i : nat) : list (pos * nat) :=
    match l with
    | [] => []
    | x :: r => if Nat.eqb (block_of sl (fst x)) b && Nat.eqb (snd x) i then r else x :: wl_release sl r b i
    end.

  (* is the thread's next micro-operation runnable?  (a slot lock held by another thread blocks it;
     read locks are never held across steps) *)
  Definition mop_runnable (s : cstate) (m : mop) : bool :=
    match m with
    | MRead p i _ _ _ | MWrite p i _ _ _ | MTearSlot _ p i => negb (wlocked s p i)
    | _ => true
    end.

  Definition push_out (t : thread) (r : cres) : thread := mkThread (t_regs t) (t_prog t) (t_cont t) (t_out t ++ [r]).

  (* one micro-operation of thread [tid] (its continuation starts with m :: rest) *)
  Definition exec_mop (s : cstate) (tid : nat) (t : thread) (m : mop) (rest : list mop) : cstate * list cev :=
    let with_t (s' : cstate) (t' : thread) := upd_thread s' tid t' in
    let set_cont (t0 : thread) (c : list mop) := mkThread (t_regs t0) (t_prog t0) c (t_out t0) in
    match m with
    | MRead p i rt first keep =>
        let b := block_of (c_slots s) p in
        match slot_lookup (c_slots s) (i :: p) with
        | Some e =>
            let cont := if keep then MCloneResult (i :: p, e) :: rest else rest in
            (with_t s (set_cont t cont), [CReadLock b i; CAccess b i; CReadUnlock b i])
        | None =>
            (* miss: build the candidate (a node candidate allocates a NodeData block) *)
            if child_is_node p i then
              let c := c_next s in
              let s' := mkC (c_rc s) (c_slots s) (c_wlock s) (S c) (c :: c_live s) (c_freed s) (c_data s) (c_torn s) (c_payload_drops s) (c_threads s) (c_offs s) in
              (with_t s' (set_cont t (MWrite p i (cand_off (c_offs s) p i rt) (Some c) keep :: rest)), [CReadLock b i; CAccess b i; CReadUnlock b i; CAlloc c])
            else
              (with_t s (set_cont t (MWrite p i (cand_off (c_offs s) p i rt) None keep :: rest)), [CReadLock b i; CAccess b i; CReadUnlock b i])
        end
    | MWrite p i off cand keep =>
        let b := block_of (c_slots s) p in
        match slot_lookup (c_slots s) (i :: p) with
        | None =>
            (* we are first: install *)
            let e := match cand with Some c => ENode c | None => EToken b end in
            let s' := mkC (c_rc s) ((i :: p, e) :: c_slots s) (c_wlock s) (c_next s) (c_live s) (c_freed s) (c_data s) (c_torn s) (c_payload_drops s) (c_threads s) ((i :: p, off) :: c_offs s) in
            (with_t s' (set_cont t (MRead p i RIter false keep :: rest)), [CWriteLock b i; CAccess b i; CWriteUnlock b i])
        | Some _ =>
            (* another thread was first: discard the candidate, keeping the write lock meanwhile *)
            let s' := mkC (c_rc s) (c_slots s) ((p, i) :: c_wlock s) (c_next s) (c_live s) (c_freed s) (c_data s) (c_torn s) (c_payload_drops s) (c_threads s) (c_offs s) in
            let loser := match cand with
                         | Some c => [MRmwInternal 2 []; MRmwInternal (-1) [CFree c]; MRmwInternal (-1) [CWriteUnlock b i]]
                         | None => [MRmwInternal 1 []; MRmwInternal (-1) [CWriteUnlock b i]]
                         end in
            (with_t s' (set_cont t (loser ++ MRead p i RIter false keep :: rest)), [CWriteLock b i; CAccess b i])
        end
    | MRmwInternal d after =>
        (* apply the non-blocking events that follow: frees and the release of the write lock *)
        let live' := fold_left (fun l e => match e with CFree c => remove Nat.eq_dec c l | _ => l end) after (c_live s) in
        let freed' := fold_left (fun l e => match e with CFree c => c :: l | _ => l end) after (c_freed s) in
        let wl' := fold_left (fun l e => match e with CWriteUnlock b i => wl_release (c_slots s) l b i | _ => l end) after (c_wlock s) in
        let s' := mkC (c_rc s + d) (c_slots s) wl' (c_next s) live' freed' (c_data s) (c_torn s) (c_payload_drops s) (c_threads s) (c_offs s) in
        (with_t s' (set_cont t rest), CRmw d :: after)
    | MCloneResult h =>
        let s' := mkC (c_rc s + 1) (c_slots s) (c_wlock s) (c_next s) (c_live s) (c_freed s) (c_data s) (c_torn s) (c_payload_drops s) (c_threads s) (c_offs s) in
        let t' := mkThread (t_regs t ++ [Some h]) (t_prog t) rest (t_out t ++ [RHandle (Some h)]) in
        (with_t s' t', [CRmw 1])
    | MCloneReg r =>
        match reg_of t r with
        | Some h =>
            let s' := mkC (c_rc s + 1) (c_slots s) (c_wlock s) (c_next s) (c_live s) (c_freed s) (c_data s) (c_torn s) (c_payload_drops s) (c_threads s) (c_offs s) in
            let t' := mkThread (t_regs t ++ [Some h]) (t_prog t) rest (t_out t ++ [RHandle (Some h)]) in
            (with_t s' t', [CRmw 1])
        | None => (with_t s (set_cont t rest), [])       (* never queued for an empty register *)
        end
    | MDropReg r report =>
        match reg_of t r with
        | None => (with_t s (set_cont t rest), [])        (* never queued for an empty register *)
        | Some _ =>
            let old := c_rc s in
            let t' := mkThread (set_nth (t_regs t) r None) (t_prog t) rest (if report then t_out t ++ [RDropped] else t_out t) in
            if Z.eqb old 1 then
              (* the last handle: tear the tree down from the root, then release the root *)
              (* (the data of the root is dropped with its block, at the end; only the count is observable) *)
              let dr := match data_lookup (c_data s) [] with Some _ => 1%nat | None => 0%nat end in
              let s' := mkC (old - 1) (c_slots s) (c_wlock s) (c_next s) (c_live s) (c_freed s) (data_remove (c_data s) []) true (c_payload_drops s + dr) (c_threads s) (c_offs s) in
              let tear := tear_node 0 [] ++ [MRmwInternal (-1) [CFree 0%nat]] in
              (with_t s' (mkThread (t_regs t') (t_prog t') (tear ++ rest) (t_out t')), [CRmw (-1)])
            else
              let s' := mkC (old - 1) (c_slots s) (c_wlock s) (c_next s) (c_live s) (c_freed s) (c_data s) (c_torn s) (c_payload_drops s) (c_threads s) (c_offs s) in
              (with_t s' t', [CRmw (-1)])
        end
    | MTearSlot b p i =>
        if negb (c_torn s) then (with_t s (set_cont t rest), []) else      (* exists only during teardown *)
        let '(more, evs) := tear_slot_events s b p i in
        (* the slot is emptied (nobody else can look: the lock is held until then, and no other handle
           exists); the data of a node that is torn down is dropped with its block *)
        let dr := match data_lookup (c_data s) (i :: p) with Some _ => 1%nat | None => 0%nat end in
        let wl := match more with [] => c_wlock s | _ => (p, i) :: c_wlock s end in
        let s' := mkC (c_rc s) (slot_remove (c_slots s) (i :: p)) wl (c_next s) (c_live s) (c_freed s)
                      (data_remove (c_data s) (i :: p)) (c_torn s) (c_payload_drops s + dr) (c_threads s) (c_offs s) in
        (with_t s' (set_cont t (more ++ rest)), CWriteLock b i :: CAccess b i :: evs)
    | MData p o =>
        let b := block_of (c_slots s) p in
        let cur := data_lookup (c_data s) p in
        let drops := match cur with Some _ => 1%nat | None => 0%nat end in
        let setv (v : N) := (p, v) :: data_remove (c_data s) p in
        let '(d', dr, res, w) :=
          match o with
          | KSet _ v => (setv v, drops, RSet v, true)
          | KTrySet _ v => match cur with
                           | Some _ => (c_data s, 1%nat, RTrySet false v, true)      (* the rejected value goes back to the caller, who drops it *)
                           | None => (setv v, 0%nat, RTrySet true v, true)
                           end
          | KGet _ => (c_data s, 0%nat, RGet cur, false)
          | KClear _ => (data_remove (c_data s) p, drops, RCleared, true)
          | _ => (c_data s, 0%nat, RNone, false)
          end in
        let s' := mkC (c_rc s) (c_slots s) (c_wlock s) (c_next s) (c_live s) (c_freed s) d' (c_torn s) (c_payload_drops s + dr) (c_threads s) (c_offs s) in
        (with_t s' (mkThread (t_regs t) (t_prog t) rest (t_out t ++ [res])), [CDataLock b w; CDataUnlock b w])
    end.

  (* a thread that has nothing pending takes its next program operation; at the end of its program
     it drops the handles it still owns, in register order *)
  Fixpoint first_owned (regs : list (option (pos * selem))) (i : nat) : option nat :=
    match regs with [] => None | Some _ :: _ => Some i | None :: r => first_owned r (S i) end.

  Fixpoint refill (fuel : nat) (t : thread) : thread :=
    match fuel with
    | O => t
    | S f =>
        match t_cont t with
        | _ :: _ => t
        | [] =>
            match t_prog t with
            | o :: r =>
                let '(ms, res) := expand t o in
                let t1 := mkThread (t_regs t) r ms (match res with Some x => t_out t ++ [x] | None => t_out t end) in
                refill f t1
            | [] => match first_owned (t_regs t) 0 with
                    | Some i => mkThread (t_regs t) [] [MDropReg i false] (t_out t)
                    | None => t
                    end
            end
        end
    end.

  Definition thread_done (t : thread) : bool :=
    match t_cont t, t_prog t, first_owned (t_regs t) 0 with [], [], None => true | _, _, _ => false end.

  Definition normalize (s : cstate) : cstate :=
    mkC (c_rc s) (c_slots s) (c_wlock s) (c_next s) (c_live s) (c_freed s) (c_data s) (c_torn s) (c_payload_drops s)
        (map (fun t => refill (S (length (t_prog t))) t) (c_threads s)) (c_offs s).

  Definition runnable (s : cstate) (tid : nat) : bool :=
    match nth_error (c_threads s) tid with
    | Some t => match t_cont t with m :: _ => mop_runnable s m | [] => false end
    | None => false
    end.

  (* the scheduler's choice: the wanted thread if runnable, otherwise the next runnable one (round robin) *)
  Fixpoint pick (s : cstate) (want : nat) (n k : nat) : option nat :=
    match k with
    | O => None
    | S k' => let t := Nat.modulo want n in
              if runnable s t then Some t else pick s (S want) n k'
    end.

  Definition cstep (s : cstate) (want : nat) : option (cstate * nat * list cev) :=
    let n := length (c_threads s) in
    match pick s want n n with
    | None => None
    | Some tid =>
        match nth_error (c_threads s) tid with
        | Some t => match t_cont t with
                    | m :: rest => let '(s', evs) := exec_mop s tid t m rest in Some (normalize s', tid, evs)
                    | [] => None
                    end
        | None => None
        end
    end.

  Definition all_done (s : cstate) : bool := forallb thread_done (c_threads s).

  (* run under a schedule; when the schedule is exhausted continue round robin *)
  Fixpoint crun (fuel : nat) (s : cstate) (sched : list nat) (rr : nat) : cstate * list (nat * cev) :=
    match fuel with
    | O => (s, [])
    | S f =>
        if all_done s then (s, [])
        else
          let '(want, sched') := match sched with w :: r => (w, r) | [] => (rr, []) end in
          match cstep s want with
          | None => (s, [])
          | Some (s', tid, evs) =>
              let '(sf, tr) := crun f s' sched' (S tid) in
              (sf, map (fun e => (tid, e)) evs ++ tr)
          end
    end.

  Definition cinit (progs : list (list cop)) : cstate :=
    normalize (mkC (Z.of_nat (length progs)) [] [] 1 [0%nat] [] [] false 0
                   (map (fun p => mkThread [Some ([], ENode 0)] p [] []) progs) []).
End Conc.
