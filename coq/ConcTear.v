(* ConcTear.v — C06/C18 on the concurrent machine: the teardown.  Once it has started no thread owns
   a handle and only teardown operations are pending; every node slot (and every node datum) that
   still exists is covered by a pending teardown operation on one of its ancestors.  Hence, when
   every thread is done, nothing is left: no live block, no datum. *)
From CsModel Require Import Red RedProofs Conc ConcProofs ConcHandles ConcData ConcReclaim ConcWf.
From Coq Require Import ZArith Lia Permutation.
Open Scope nat_scope.

Section ConcTear.
  Variable g : gelem.

  Definition tear_op (m : mop) : bool := match m with MTearSlot _ _ _ | MRmwInternal _ _ => true | _ => false end.
  Definition regs_empty (t : thread) : Prop := Forall (fun r => r = None) (t_regs t).

  (* a chain of initialised node slots from x down to rev rl ++ x (exclusive) *)
  Fixpoint ChainR (sl : list (pos * selem)) (x : pos) (rl : list nat) : Prop :=
    match rl with
    | [] => True
    | j :: rl' => (exists b, slot_lookup sl x = Some (ENode b)) /\ child_is_node g x j = true /\ ChainR sl (j :: x) rl'
    end.

  Definition Covered (s : cstate) (q : pos) : Prop :=
    exists j t tb p i rl, nth_error (c_threads s) j = Some t /\ In (MTearSlot tb p i) (t_cont t) /\
                          q = rev rl ++ i :: p /\ ChainR (c_slots s) (i :: p) rl.

  Definition Tn (s : cstate) : Prop :=
    c_torn s = true ->
    Forall (fun t => regs_empty t /\ forallb tear_op (t_cont t) = true) (c_threads s) /\
    (forall q b, slot_lookup (c_slots s) q = Some (ENode b) -> Covered s q) /\
    (forall q v, data_lookup (c_data s) q = Some v -> exists b, slot_lookup (c_slots s) q = Some (ENode b)).

  (* ---- registers ---- *)
  Lemma owned_zero_regs_empty t : owned t = 0%Z -> regs_empty t.
  Proof.
    unfold owned, regs_empty. induction (t_regs t) as [|a l IH]; cbn [filter]; [constructor|].
    destruct a; cbn [length]; [lia|]. intros H. constructor; [reflexivity|apply IH; exact H].
  Qed.

  Lemma regs_empty_reg_of t r : regs_empty t -> reg_of t r = None.
  Proof.
    unfold regs_empty, reg_of. intros F. destruct (nth_error (t_regs t) r) as [[h|]|] eqn:E; try reflexivity.
    rewrite Forall_forall in F. assert (A := F (Some h) (nth_error_In _ _ E)). discriminate.
  Qed.

  Lemma regs_empty_first_owned : forall regs i, Forall (fun r : option (pos * selem) => r = None) regs -> first_owned regs i = None.
  Proof. induction regs as [|a l IH]; intros i F; cbn [first_owned]; [reflexivity|]. inversion F as [|? ? Ha Fl]; subst. apply IH; exact Fl. Qed.

  Lemma expand_inert t o : regs_empty t -> fst (expand g t o) = [].
  Proof.
    intros E. destruct o as [r|r|r i|r|r|r|r|r v|r v|r|r]; unfold expand; rewrite (regs_empty_reg_of t r E); reflexivity.
  Qed.

  Lemma refill_inert : forall fuel t, regs_empty t -> t_cont (refill g fuel t) = t_cont t /\ t_regs (refill g fuel t) = t_regs t.
  Proof.
    induction fuel as [|f IH]; intros t E; cbn [refill]; [auto|].
    destruct t as [regs prog cont out]. cbn [t_cont t_prog t_regs t_out] in *.
    destruct cont as [|m c]; [|auto].
    destruct prog as [|o r].
    - unfold regs_empty in E. cbn [t_regs] in E. rewrite (regs_empty_first_owned regs 0 E). auto.
    - assert (Ex := expand_inert (mkThread regs (o :: r) [] out) o E).
      destruct (expand g (mkThread regs (o :: r) [] out) o) as [ms res]. cbn [fst] in Ex. subst ms.
      destruct (IH (mkThread regs r [] (match res with Some x => out ++ [x] | None => out end))) as (A & B); [exact E|].
      cbn [t_cont t_regs] in A, B. auto.
  Qed.

  (* ---- chains ---- *)
  Lemma ChainR_snoc sl : forall rl x k,
    ChainR sl x rl -> (exists b, slot_lookup sl (rev rl ++ x) = Some (ENode b)) -> child_is_node g (rev rl ++ x) k = true ->
    ChainR sl x (rl ++ [k]).
  Proof.
    induction rl as [|j rl IH]; intros x k C L K; cbn [ChainR app rev] in *.
    - auto.
    - destruct C as (A & B & C). split; [exact A|]. split; [exact B|]. apply IH; auto.
      + rewrite <- app_assoc in L. exact L.
      + rewrite <- app_assoc in K. exact K.
  Qed.

  Lemma ChainR_mono sl sl' : (forall p b, slot_lookup sl p = Some (ENode b) -> slot_lookup sl' p = Some (ENode b)) ->
    forall rl x, ChainR sl x rl -> ChainR sl' x rl.
  Proof.
    intros M. induction rl as [|j rl IH]; intros x C; cbn [ChainR] in *; [exact Logic.I|].
    destruct C as ((b & A) & B & C). split; [exists b; apply M; exact A|]. split; [exact B|apply IH; exact C].
  Qed.

  (* removing the slot at x does not disturb a chain that lies strictly below x *)
  Lemma ChainR_remove_below sl x : forall rl y, length x < length y -> ChainR sl y rl -> ChainR (slot_remove sl x) y rl.
  Proof.
    induction rl as [|j rl IH]; intros y Hl C; cbn [ChainR] in *; [exact Logic.I|].
    destruct C as ((b & A) & B & C). split.
    - exists b. rewrite slot_lookup_remove_other; [exact A|]. intros ->. lia.
    - split; [exact B|]. apply IH; [cbn [length]; lia|exact C].
  Qed.

  (* removing the slot at x from under a chain: either the chain does not pass through x, or the
     rest of the chain starts at x *)
  Lemma ChainR_remove_or sl x : forall rl y q,
    ChainR sl y rl -> q = rev rl ++ y -> q <> x ->
    ChainR (slot_remove sl x) y rl \/ exists rl2, rl2 <> [] /\ q = rev rl2 ++ x /\ ChainR sl x rl2.
  Proof.
    induction rl as [|j rl IH]; intros y q C -> Hq; cbn [ChainR rev app] in *; [left; exact Logic.I|].
    destruct C as ((b & A) & B & C).
    destruct (list_eq_dec Nat.eq_dec y x) as [->|Hne].
    - right. exists (j :: rl). split; [discriminate|]. split; [reflexivity|]. cbn [ChainR]. split; [exists b; exact A|]. split; [exact B|exact C].
    - destruct (IH (j :: y) (rev rl ++ j :: y) C eq_refl) as [L|R].
      + rewrite <- app_assoc in Hq. exact Hq.
      + left. split; [exists b; rewrite slot_lookup_remove_other; [exact A|exact Hne]|]. split; [exact B|exact L].
      + right. destruct R as (rl2 & N & E & C2). exists rl2. split; [exact N|]. split; [|exact C2].
        rewrite <- app_assoc. exact E.
  Qed.

  (* before the teardown: every initialised node slot hangs on a chain from a child of the root *)
  Lemma chain_from_root sl : SlotsOk g sl -> forall n q b0, length q = n -> slot_lookup sl q = Some (ENode b0) ->
    exists i rl, q = rev rl ++ [i] /\ ChainR sl [i] rl /\ child_is_node g [] i = true.
  Proof.
    intros HS. induction n as [|n IH]; intros q b0 Hn L.
    - destruct q; [|discriminate]. destruct (HS _ _ L) as (k & q' & E & _). discriminate.
    - destruct (HS _ _ L) as (k & q' & -> & NP & K). cbn [length] in Hn. cbn [is_enode] in K.
      destruct NP as [->|(b & Lp)].
      + exists k, []. split; [reflexivity|]. split; [exact Logic.I|symmetry; exact K].
      + assert (Hq' : length q' = n) by lia. destruct (IH q' b Hq' Lp) as (i & rl & E & C & R).
        exists i, (rl ++ [k]). split; [|split; [|exact R]].
        * rewrite rev_app_distr. cbn [rev app]. rewrite E. reflexivity.
        * apply ChainR_snoc; [exact C|rewrite <- E; exists b; exact Lp|rewrite <- E; symmetry; exact K].
  Qed.

  Lemma child_is_node_lt p i : child_is_node g p i = true -> (i < length (kids g p))%nat.
  Proof.
    unfold child_is_node. destruct (nth_error (kids g p) i) eqn:E; [|discriminate]. intros _.
    apply nth_error_Some. congruence.
  Qed.

  Lemma in_tear_node b p i : (i < length (kids g p))%nat -> In (MTearSlot b p i) (tear_node g b p).
  Proof. intros H. unfold tear_node. apply in_map_iff. exists i. split; [reflexivity|]. apply in_seq. lia. Qed.

  Lemma tear_op_tear_node b p : forallb tear_op (tear_node g b p) = true.
  Proof. unfold tear_node. induction (seq 0 (length (kids g p))) as [|i r IH]; cbn; auto. Qed.

  (* ---- lists ---- *)
  Lemma nth_set_same {A} : forall (l : list A) i x y, nth_error l i = Some x -> nth_error (set_nth l i y) i = Some y.
  Proof. induction l as [|a l IH]; intros [|i] x y E; cbn [set_nth nth_error] in *; try discriminate; eauto. Qed.

  Lemma nth_set_other {A} : forall (l : list A) i j y, i <> j -> nth_error (set_nth l i y) j = nth_error l j.
  Proof.
    induction l as [|a l IH]; intros [|i] [|j] y Hne; cbn [set_nth nth_error]; try reflexivity; try congruence.
    apply IH. congruence.
  Qed.

  Lemma Forall_nth {A} (P : A -> Prop) l : (forall j x, nth_error l j = Some x -> P x) -> Forall P l.
  Proof.
    intros H. apply Forall_forall. intros x Hin. destruct (In_nth_error _ _ Hin) as (j & E). eapply H; eauto.
  Qed.

  Lemma Forall_set_nth_others {A} (P : A -> Prop) l i y :
    (forall j x, j <> i -> nth_error l j = Some x -> P x) -> P y -> Forall P (set_nth l i y).
  Proof.
    intros H Hy. apply Forall_nth. intros j x E. destruct (Nat.eq_dec i j) as [->|Hne].
    - destruct (nth_error l j) as [z|] eqn:Ez.
      + rewrite (nth_set_same l j z y Ez) in E. injection E as <-. exact Hy.
      + (* out of range: set_nth leaves the list as it is *)
        exfalso. clear - E Ez. revert j E Ez. induction l as [|a l IH]; intros [|j] E Ez; cbn [set_nth nth_error] in *; try discriminate.
        eapply IH; eauto.
    - rewrite nth_set_other in E; [|exact Hne]. eapply H; eauto.
  Qed.

  Lemma slot_lookup_remove_inv sl x q e : slot_lookup (slot_remove sl x) q = Some e -> q <> x /\ slot_lookup sl q = Some e.
  Proof.
    intros L. destruct (list_eq_dec Nat.eq_dec q x) as [->|Hne].
    - rewrite slot_lookup_remove_same in L. discriminate.
    - rewrite slot_lookup_remove_other in L; auto.
  Qed.

  Lemma data_lookup_remove_inv d x q v : data_lookup (data_remove d x) q = Some v -> q <> x /\ data_lookup d q = Some v.
  Proof.
    intros L. destruct (list_eq_dec Nat.eq_dec q x) as [->|Hne].
    - rewrite data_lookup_remove_same in L. discriminate.
    - rewrite data_lookup_remove_other in L; auto.
  Qed.

  (* ---- the step that starts the teardown ---- *)
  Lemma flip_Tn s tid t r b rest :
    Pre s -> Wf g s -> c_torn s = false -> nth_error (c_threads s) tid = Some t -> t_cont t = MDropReg r b :: rest ->
    reg_of t r <> None -> c_rc s = 1%Z -> Tn (fst (exec_mop g s tid t (MDropReg r b) rest)).
  Proof.
    intros P W NT Ht Hc Hr E1 _.
    destruct (flip_alone s tid t r b rest P NT Ht Hc Hr E1) as (-> & O1 & Oth).
    destruct (W NT) as (HS & _ & HD).
    destruct t as [regs prog cont out]. cbn [t_cont] in Hc. subst cont.
    cbn [exec_mop]. destruct (reg_of _ r) as [h|] eqn:Er; [|congruence].
    apply Z.eqb_eq in E1. rewrite E1. apply Z.eqb_eq in E1.
    cbn [fst upd_thread c_torn c_slots c_data c_threads t_regs t_prog t_out t_cont].
    set (t' := mkThread (set_nth regs r None) prog ((tear_node g 0 [] ++ [MRmwInternal (-1) [CFree 0]]) ++ []) (if b then out ++ [RDropped] else out)).
    split; [|split].
    - apply Forall_set_nth_others.
      + intros j x Hj Ex. destruct (Oth j x Hj Ex) as (Ox & Cx). split; [apply owned_zero_regs_empty; exact Ox|rewrite Cx; reflexivity].
      + split.
        * apply owned_zero_regs_empty.
          unfold reg_of in Er. cbn [t_regs] in Er. destruct (nth_error regs r) as [[h'|]|] eqn:En; try discriminate.
          subst t'. rewrite (owned_set_none regs r h' prog _ _ En).
          rewrite (owned_regs regs prog _ _ prog [MDropReg r b] out). lia.
        * subst t'. cbn [t_cont]. rewrite !forallb_app, tear_op_tear_node. reflexivity.
    - intros q b0 L. destruct (chain_from_root _ HS (length q) q b0 eq_refl L) as (i & rl & E & C & R).
      exists tid, t', 0, [], i, rl. split; [eapply nth_set_same; eauto|]. split; [|split; [exact E|exact C]].
      subst t'. cbn [t_cont]. apply in_or_app. left. apply in_or_app. left. apply in_tear_node. apply child_is_node_lt. exact R.
    - intros q v L. apply data_lookup_remove_inv in L as (Hq & L). destruct (HD _ _ L) as [->|Hb]; [contradiction Hq; reflexivity|exact Hb].
  Qed.
End ConcTear.
