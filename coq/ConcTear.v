(* ConcTear.v — C06/C18 on the concurrent machine: the teardown.  Once it has started no thread owns
   a handle and only teardown operations are pending; every node slot (and every node datum) that
   still exists is covered by a pending teardown operation on one of its ancestors.  Hence, when
   every thread is done, nothing is left: no live block, no datum. *)
From CsModel Require Import Red RedProofs Conc ConcProofs ConcHandles ConcData ConcReclaim ConcWf.
From Coq Require Import ZArith Lia Permutation.
Open Scope nat_scope.

Section ConcTear.
  Variable g : gelem.

  Definition tear_op (m : mop) : bool := match m with MTearSlot _ _ _ | MRmwInternal _ _ => true | _ => false end.
  Definition regs_empty (t : thread) : Prop := Forall (fun r => r = None) (t_regs t).

  (* a chain of initialised node slots from x down to rev rl ++ x (exclusive) *)
  Fixpoint ChainR (sl : list (pos * selem)) (x : pos) (rl : list nat) : Prop :=
    match rl with
    | [] => True
    | j :: rl' => (exists b, slot_lookup sl x = Some (ENode b)) /\ child_is_node g x j = true /\ ChainR sl (j :: x) rl'
    end.

  Definition Covered (s : cstate) (q : pos) : Prop :=
    exists j t tb p i rl, nth_error (c_threads s) j = Some t /\ In (MTearSlot tb p i) (t_cont t) /\
                          q = rev rl ++ i :: p /\ ChainR (c_slots s) (i :: p) rl.

  Definition Tn (s : cstate) : Prop :=
    c_torn s = true ->
    Forall (fun t => regs_empty t /\ forallb tear_op (t_cont t) = true) (c_threads s) /\
    (forall q b, slot_lookup (c_slots s) q = Some (ENode b) -> Covered s q) /\
    (forall q v, data_lookup (c_data s) q = Some v -> exists b, slot_lookup (c_slots s) q = Some (ENode b)).

  (* ---- registers ---- *)
  Lemma owned_zero_regs_empty t : owned t = 0%Z -> regs_empty t.
  Proof.
    unfold owned, regs_empty. induction (t_regs t) as [|a l IH]; cbn [filter]; [constructor|].
    destruct a; cbn [length]; [lia|]. intros H. constructor; [reflexivity|apply IH; exact H].
  Qed.

  Lemma regs_empty_reg_of t r : regs_empty t -> reg_of t r = None.
  Proof.
    unfold regs_empty, reg_of. intros F. destruct (nth_error (t_regs t) r) as [[h|]|] eqn:E; try reflexivity.
    rewrite Forall_forall in F. assert (A := F (Some h) (nth_error_In _ _ E)). discriminate.
  Qed.

  Lemma regs_empty_first_owned : forall regs i, Forall (fun r : option (pos * selem) => r = None) regs -> first_owned regs i = None.
  Proof. induction regs as [|a l IH]; intros i F; cbn [first_owned]; [reflexivity|]. inversion F as [|? ? Ha Fl]; subst. apply IH; exact Fl. Qed.

  Lemma expand_inert t o : regs_empty t -> fst (expand g t o) = [].
  Proof.
    intros E. destruct o as [r|r|r i|r|r|r|r|r v|r v|r|r]; unfold expand; rewrite (regs_empty_reg_of t r E); reflexivity.
  Qed.

  Lemma refill_inert : forall fuel t, regs_empty t -> t_cont (refill g fuel t) = t_cont t /\ t_regs (refill g fuel t) = t_regs t.
  Proof.
    induction fuel as [|f IH]; intros t E; cbn [refill]; [auto|].
    destruct t as [regs prog cont out]. cbn [t_cont t_prog t_regs t_out] in *.
    destruct cont as [|m c]; [|auto].
    destruct prog as [|o r].
    - unfold regs_empty in E. cbn [t_regs] in E. rewrite (regs_empty_first_owned regs 0 E). auto.
    - assert (Ex := expand_inert (mkThread regs (o :: r) [] out) o E).
      destruct (expand g (mkThread regs (o :: r) [] out) o) as [ms res]. cbn [fst] in Ex. subst ms.
      destruct (IH (mkThread regs r [] (match res with Some x => out ++ [x] | None => out end))) as (A & B); [exact E|].
      cbn [t_cont t_regs] in A, B. auto.
  Qed.

  (* ---- chains ---- *)
  Lemma ChainR_snoc sl : forall rl x k,
    ChainR sl x rl -> (exists b, slot_lookup sl (rev rl ++ x) = Some (ENode b)) -> child_is_node g (rev rl ++ x) k = true ->
    ChainR sl x (rl ++ [k]).
  Proof.
    induction rl as [|j rl IH]; intros x k C L K; cbn [ChainR app rev] in *.
    - auto.
    - destruct C as (A & B & C). split; [exact A|]. split; [exact B|]. apply IH; auto.
      + rewrite <- app_assoc in L. exact L.
      + rewrite <- app_assoc in K. exact K.
  Qed.

  Lemma ChainR_mono sl sl' : (forall p b, slot_lookup sl p = Some (ENode b) -> slot_lookup sl' p = Some (ENode b)) ->
    forall rl x, ChainR sl x rl -> ChainR sl' x rl.
  Proof.
    intros M. induction rl as [|j rl IH]; intros x C; cbn [ChainR] in *; [exact Logic.I|].
    destruct C as ((b & A) & B & C). split; [exists b; apply M; exact A|]. split; [exact B|apply IH; exact C].
  Qed.

  (* removing the slot at x does not disturb a chain that lies strictly below x *)
  Lemma ChainR_remove_below sl x : forall rl y, length x < length y -> ChainR sl y rl -> ChainR (slot_remove sl x) y rl.
  Proof.
    induction rl as [|j rl IH]; intros y Hl C; cbn [ChainR] in *; [exact Logic.I|].
    destruct C as ((b & A) & B & C). split.
    - exists b. rewrite slot_lookup_remove_other; [exact A|]. intros ->. lia.
    - split; [exact B|]. apply IH; [cbn [length]; lia|exact C].
  Qed.

  (* removing the slot at x from under a chain: either the chain does not pass through x, or the
     rest of the chain starts at x *)
  Lemma ChainR_remove_or sl x : forall rl y q,
    ChainR sl y rl -> q = rev rl ++ y -> q <> x ->
    ChainR (slot_remove sl x) y rl \/ exists rl2, rl2 <> [] /\ q = rev rl2 ++ x /\ ChainR sl x rl2.
  Proof.
    induction rl as [|j rl IH]; intros y q C -> Hq; cbn [ChainR rev app] in *; [left; exact Logic.I|].
    destruct C as ((b & A) & B & C).
    destruct (list_eq_dec Nat.eq_dec y x) as [->|Hne].
    - right. exists (j :: rl). split; [discriminate|]. split; [reflexivity|]. cbn [ChainR]. split; [exists b; exact A|]. split; [exact B|exact C].
    - destruct (IH (j :: y) (rev rl ++ j :: y) C eq_refl) as [L|R].
      + rewrite <- app_assoc in Hq. exact Hq.
      + left. split; [exists b; rewrite slot_lookup_remove_other; [exact A|exact Hne]|]. split; [exact B|exact L].
      + right. destruct R as (rl2 & N & E & C2). exists rl2. split; [exact N|]. split; [|exact C2].
        rewrite <- app_assoc. exact E.
  Qed.

  (* before the teardown: every initialised node slot hangs on a chain from a child of the root *)
  Lemma chain_from_root sl : SlotsOk g sl -> forall n q b0, length q = n -> slot_lookup sl q = Some (ENode b0) ->
    exists i rl, q = rev rl ++ [i] /\ ChainR sl [i] rl /\ child_is_node g [] i = true.
  Proof.
    intros HS. induction n as [|n IH]; intros q b0 Hn L.
    - destruct q; [|discriminate]. destruct (HS _ _ L) as (k & q' & E & _). discriminate.
    - destruct (HS _ _ L) as (k & q' & -> & NP & K). cbn [length] in Hn. cbn [is_enode] in K.
      destruct NP as [->|(b & Lp)].
      + exists k, []. split; [reflexivity|]. split; [exact Logic.I|symmetry; exact K].
      + assert (Hq' : length q' = n) by lia. destruct (IH q' b Hq' Lp) as (i & rl & E & C & R).
        exists i, (rl ++ [k]). split; [|split; [|exact R]].
        * rewrite rev_app_distr. cbn [rev app]. rewrite E. reflexivity.
        * apply ChainR_snoc; [exact C|rewrite <- E; exists b; exact Lp|rewrite <- E; symmetry; exact K].
  Qed.

  Lemma child_is_node_lt p i : child_is_node g p i = true -> (i < length (kids g p))%nat.
  Proof.
    unfold child_is_node. destruct (nth_error (kids g p) i) eqn:E; [|discriminate]. intros _.
    apply nth_error_Some. congruence.
  Qed.

  Lemma in_tear_node b p i : (i < length (kids g p))%nat -> In (MTearSlot b p i) (tear_node g b p).
  Proof. intros H. unfold tear_node. apply in_map_iff. exists i. split; [reflexivity|]. apply in_seq. lia. Qed.

  Lemma tear_op_tear_node b p : forallb tear_op (tear_node g b p) = true.
  Proof. unfold tear_node. induction (seq 0 (length (kids g p))) as [|i r IH]; cbn; auto. Qed.

  (* ---- lists ---- *)
  Lemma nth_set_same {A} : forall (l : list A) i x y, nth_error l i = Some x -> nth_error (set_nth l i y) i = Some y.
  Proof. induction l as [|a l IH]; intros [|i] x y E; cbn [set_nth nth_error] in *; try discriminate; eauto. Qed.

  Lemma nth_set_other {A} : forall (l : list A) i j y, i <> j -> nth_error (set_nth l i y) j = nth_error l j.
  Proof.
    induction l as [|a l IH]; intros [|i] [|j] y Hne; cbn [set_nth nth_error]; try reflexivity; try congruence.
    apply IH. congruence.
  Qed.

  Lemma Forall_nth {A} (P : A -> Prop) l : (forall j x, nth_error l j = Some x -> P x) -> Forall P l.
  Proof.
    intros H. apply Forall_forall. intros x Hin. destruct (In_nth_error _ _ Hin) as (j & E). eapply H; eauto.
  Qed.

  Lemma Forall_set_nth_others {A} (P : A -> Prop) l i y :
    (forall j x, j <> i -> nth_error l j = Some x -> P x) -> P y -> Forall P (set_nth l i y).
  Proof.
    intros H Hy. apply Forall_nth. intros j x E. destruct (Nat.eq_dec i j) as [->|Hne].
    - destruct (nth_error l j) as [z|] eqn:Ez.
      + rewrite (nth_set_same l j z y Ez) in E. injection E as <-. exact Hy.
      + (* out of range: set_nth leaves the list as it is *)
        exfalso. clear - E Ez. revert j E Ez. induction l as [|a l IH]; intros [|j] E Ez; cbn [set_nth nth_error] in *; try discriminate.
        eapply IH; eauto.
    - rewrite nth_set_other in E; [|exact Hne]. eapply H; eauto.
  Qed.

  Lemma slot_lookup_remove_inv sl x q e : slot_lookup (slot_remove sl x) q = Some e -> q <> x /\ slot_lookup sl q = Some e.
  Proof.
    intros L. destruct (list_eq_dec Nat.eq_dec q x) as [->|Hne].
    - rewrite slot_lookup_remove_same in L. discriminate.
    - rewrite slot_lookup_remove_other in L; auto.
  Qed.

  Lemma data_lookup_remove_inv d x q v : data_lookup (data_remove d x) q = Some v -> q <> x /\ data_lookup d q = Some v.
  Proof.
    intros L. destruct (list_eq_dec Nat.eq_dec q x) as [->|Hne].
    - rewrite data_lookup_remove_same in L. discriminate.
    - rewrite data_lookup_remove_other in L; auto.
  Qed.

  (* ---- the step that starts the teardown ---- *)
  Lemma flip_Tn s tid t r b rest :
    Pre s -> Wf g s -> c_torn s = false -> nth_error (c_threads s) tid = Some t -> t_cont t = MDropReg r b :: rest ->
    reg_of t r <> None -> c_rc s = 1%Z -> Tn (fst (exec_mop g s tid t (MDropReg r b) rest)).
  Proof.
    intros P W NT Ht Hc Hr E1 _.
    destruct (flip_alone s tid t r b rest P NT Ht Hc Hr E1) as (-> & O1 & Oth).
    destruct (W NT) as (HS & _ & HD).
    destruct t as [regs prog cont out]. cbn [t_cont] in Hc. subst cont.
    cbn [exec_mop]. destruct (reg_of _ r) as [h|] eqn:Er; [|congruence].
    apply Z.eqb_eq in E1. rewrite E1. apply Z.eqb_eq in E1.
    cbn [fst upd_thread c_torn c_slots c_data c_threads t_regs t_prog t_out t_cont].
    set (t' := mkThread (set_nth regs r None) prog ((tear_node g 0 [] ++ [MRmwInternal (-1) [CFree 0]]) ++ []) (if b then out ++ [RDropped] else out)).
    split; [|split].
    - apply Forall_set_nth_others.
      + intros j x Hj Ex. destruct (Oth j x Hj Ex) as (Ox & Cx). split; [apply owned_zero_regs_empty; exact Ox|rewrite Cx; reflexivity].
      + split.
        * apply owned_zero_regs_empty.
          unfold reg_of in Er. cbn [t_regs] in Er. destruct (nth_error regs r) as [[h'|]|] eqn:En; try discriminate.
          subst t'. rewrite (owned_set_none regs r h' prog _ _ En).
          rewrite (owned_regs regs prog _ _ prog [MDropReg r b] out). lia.
        * subst t'. cbn [t_cont]. rewrite !forallb_app, tear_op_tear_node. reflexivity.
    - intros q b0 L. destruct (chain_from_root _ HS (length q) q b0 eq_refl L) as (i & rl & E & C & R).
      exists tid, t', 0, [], i, rl. split; [eapply nth_set_same; eauto|]. split; [|split; [exact E|exact C]].
      subst t'. cbn [t_cont]. apply in_or_app. left. apply in_or_app. left. apply in_tear_node. apply child_is_node_lt. exact R.
    - intros q v L. apply data_lookup_remove_inv in L as (Hq & L). destruct (HD _ _ L) as [->|Hb]; [contradiction Hq; reflexivity|exact Hb].
  Qed.

  (* ---- steps of the teardown ---- *)
  Theorem exec_Tn s tid t m rest :
    nth_error (c_threads s) tid = Some t -> t_cont t = m :: rest ->
    Tn s -> c_torn s = true -> Tn (fst (exec_mop g s tid t m rest)).
  Proof.
    intros Ht Hc T NT _. destruct (T NT) as (F & Cov & Dat). clear T. unfold Covered in *.
    destruct (nth_error_Forall _ _ _ _ F Ht) as (Re & Tops). rewrite Hc in Tops. cbn [forallb] in Tops.
    apply andb_true_iff in Tops as [Tm Tr].
    destruct t as [regs prog cont out]. cbn [t_cont] in Hc. subst cont. unfold regs_empty in Re. cbn [t_regs] in Re.
    destruct m as [p i rt first keep|p i off cand keep|delta after|h|r|r report|tb p i|p o]; cbn [tear_op] in Tm; try discriminate; cbn [exec_mop].
    - (* an internal read-modify-write of the teardown *)
      cbn [fst upd_thread c_torn c_slots c_data c_threads].
      split; [|split; [|exact Dat]].
      + apply Forall_set_nth; [exact F|]. split; [exact Re|exact Tr].
      + intros q b L. destruct (Cov q b L) as (j & t0 & tb & p & i & rl & Ej & Hin & Eq & Ch).
        destruct (Nat.eq_dec tid j) as [<-|Hne].
        * rewrite Ht in Ej. injection Ej as <-. cbn [t_cont] in Hin. destruct Hin as [Hd|Hin]; [discriminate|].
          eexists tid, _, tb, p, i, rl. split; [eapply nth_set_same; eauto|]. split; [exact Hin|]. split; [exact Eq|exact Ch].
        * exists j, t0, tb, p, i, rl. split; [rewrite nth_set_other; auto|]. auto.
    - (* a slot is torn down *)
      rewrite NT. cbn [negb]. unfold tear_slot_events. set (x := i :: p).
      assert (Keep : forall q b, slot_lookup (slot_remove (c_slots s) x) q = Some (ENode b) ->
                forall more, (forall bx j0, slot_lookup (c_slots s) x = Some (ENode bx) -> (j0 < length (kids g x)) -> In (MTearSlot bx x j0) more) ->
                exists j t0 tb' p' i' rl,
                  nth_error (set_nth (c_threads s) tid (mkThread regs prog (more ++ rest) out)) j = Some t0 /\
                  In (MTearSlot tb' p' i') (t_cont t0) /\ q = rev rl ++ i' :: p' /\ ChainR (slot_remove (c_slots s) x) (i' :: p') rl).
      { intros q b L more Hmore. apply slot_lookup_remove_inv in L as (Hq & L).
        destruct (Cov q b L) as (j & t0 & tb' & p' & i' & rl & Ej & Hin & Eq & Ch).
        destruct (ChainR_remove_or (c_slots s) x rl (i' :: p') q Ch Eq Hq) as [Cl|(rl2 & N2 & E2 & C2)].
        - (* the chain survives: is the covering operation still pending? *)
          destruct (Nat.eq_dec tid j) as [<-|Hne].
          + rewrite Ht in Ej. injection Ej as <-. cbn [t_cont] in Hin. destruct Hin as [Hd|Hin].
            * (* it is the operation being executed: then the chain starts at x and needs the slot at x *)
              injection Hd as <- <- <-. fold x in Cl, Eq. destruct rl as [|j0 rl']; [cbn [rev app] in Eq; contradiction|].
              cbn [ChainR] in Cl. destruct Cl as ((b' & Lx) & _). rewrite slot_lookup_remove_same in Lx. discriminate.
            * eexists tid, _, tb', p', i', rl. split; [eapply nth_set_same; eauto|]. cbn [t_cont].
              split; [apply in_or_app; right; exact Hin|]. split; [exact Eq|exact Cl].
          + exists j, t0, tb', p', i', rl. split; [rewrite nth_set_other; auto|]. auto.
        - (* the chain passes through x: covered by the teardown of x's children *)
          destruct rl2 as [|j0 rl2']; [contradiction N2; reflexivity|].
          cbn [ChainR] in C2. destruct C2 as ((bx & Lx) & K & C3).
          eexists tid, _, bx, x, j0, rl2'. split; [eapply nth_set_same; eauto|]. cbn [t_cont].
          split; [apply in_or_app; left; apply Hmore; [exact Lx|apply child_is_node_lt; exact K]|].
          split; [rewrite E2; cbn [rev]; rewrite <- app_assoc; reflexivity|].
          apply ChainR_remove_below; [cbn [length]; lia|exact C3]. }
      assert (DatOk : forall q v, data_lookup (data_remove (c_data s) x) q = Some v -> exists b, slot_lookup (slot_remove (c_slots s) x) q = Some (ENode b)).
      { intros q v L. apply data_lookup_remove_inv in L as (Hq & L). destruct (Dat q v L) as (b & Lb). exists b.
        rewrite slot_lookup_remove_other; auto. }
      destruct (slot_lookup (c_slots s) x) as [[bx|pb]|] eqn:Lx; cbn [fst upd_thread c_torn c_slots c_data c_threads].
      + split; [|split; [|exact DatOk]].
        * apply Forall_set_nth; [exact F|]. split; [exact Re|]. cbn [t_cont]. rewrite !forallb_app, tear_op_tear_node. cbn [forallb tear_op andb]. exact Tr.
        * intros q b L. apply (Keep q b L). intros bx' j0 E Hj. injection E as <-. apply in_or_app. left. apply in_tear_node. exact Hj.
      + split; [|split; [|exact DatOk]].
        * apply Forall_set_nth; [exact F|]. split; [exact Re|]. cbn [t_cont forallb tear_op app andb]. exact Tr.
        * intros q b L. apply (Keep q b L). intros bx' j0 E Hj. discriminate.
      + split; [|split; [|exact DatOk]].
        * apply Forall_set_nth; [exact F|]. split; [exact Re|]. cbn [t_cont app]. exact Tr.
        * intros q b L. apply (Keep q b L). intros bx' j0 E Hj. discriminate.
  Qed.

  Lemma normalize_Tn s : Tn s -> Tn (normalize g s).
  Proof.
    unfold Tn, normalize, Covered. cbn [c_torn c_slots c_data c_threads]. intros T NT. destruct (T NT) as (F & Cov & Dat).
    split; [|split; [|exact Dat]].
    - apply Forall_map. eapply Forall_impl; [|exact F]. intros t (Re & Tops).
      destruct (refill_inert (S (length (t_prog t))) t Re) as (A & B). unfold regs_empty. rewrite A, B. auto.
    - intros q b L. destruct (Cov q b L) as (j & t0 & tb & p & i & rl & Ej & Hin & Eq & Ch).
      exists j, (refill g (S (length (t_prog t0))) t0), tb, p, i, rl. split; [rewrite nth_error_map, Ej; reflexivity|].
      destruct (nth_error_Forall _ _ _ _ F Ej) as (Re & _).
      destruct (refill_inert (S (length (t_prog t0))) t0 Re) as (A & _). rewrite A. auto.
  Qed.

  (* ---- everything together, for every reachable state ---- *)
  Lemma fresh_no_blocks ms : forallb fresh_op ms = true -> cont_blocks ms = [].
  Proof.
    induction ms as [|m r IH]; cbn [forallb]; [reflexivity|].
    intros E. apply andb_true_iff in E as [E1 E2]. unfold cont_blocks in *. cbn [flat_map]. rewrite (IH E2).
    destruct m; cbn in E1; try discriminate; reflexivity.
  Qed.

  Lemma refill_blocks : forall fuel t, cont_blocks (t_cont (refill g fuel t)) = cont_blocks (t_cont t).
  Proof.
    induction fuel as [|f IH]; intros t; cbn [refill]; [reflexivity|].
    destruct t as [regs prog cont out]. cbn [t_cont t_prog t_regs t_out].
    destruct cont as [|m c]; [|reflexivity].
    destruct prog as [|o r].
    - destruct (first_owned regs 0); reflexivity.
    - assert (Ex := expand_ok g (mkThread regs (o :: r) [] out) o).
      destruct (expand g (mkThread regs (o :: r) [] out) o) as [ms res]. cbn [fst] in Ex.
      rewrite IH. cbn [t_cont]. destruct Ex as [[P|(r0 & b & ->)] _]; [apply fresh_no_blocks; exact P|reflexivity].
  Qed.

  Lemma normalize_Claims s : Claims s -> Claims (normalize g s).
  Proof.
    unfold Claims, blocks, blocks_of, normalize. cbn [c_torn c_slots c_live c_freed c_next c_threads].
    assert (E : thr_blocks (map (fun t => refill g (S (length (t_prog t))) t) (c_threads s)) = thr_blocks (c_threads s)).
    { unfold thr_blocks. induction (c_threads s) as [|t l IH]; cbn [map flat_map]; [reflexivity|]. rewrite refill_blocks, IH. reflexivity. }
    rewrite E. auto.
  Qed.

  Definition Good (s : cstate) : Prop := Pre s /\ HInv s /\ Wf g s /\ Tn s /\ Claims s.

  Lemma init_Good progs : Good (cinit g progs).
  Proof.
    split; [apply init_Pre|]. split; [apply init_HInv|]. split; [apply init_Wf|]. split.
    - intros T. unfold cinit, normalize in T. cbn [c_torn] in T. discriminate.
    - unfold cinit. apply normalize_Claims. unfold Claims, blocks, blocks_of. cbn [c_torn c_slots c_live c_freed c_next c_threads].
      assert (E : thr_blocks (map (fun p => mkThread [Some ([], ENode 0)] p [] []) progs) = []).
      { unfold thr_blocks. induction progs as [|p l IH]; cbn [map flat_map]; auto. }
      rewrite E. cbn [slot_blocks flat_map app]. constructor.
      + constructor; [intros []|constructor].
      + intros b. tauto.
      + constructor; [intros []|constructor].
      + intros b [<-|[]]. lia.
      + constructor.
      + constructor.
      + intros b [].
  Qed.

  Lemma cstep_Good s want s' tid evs : Good s -> cstep g s want = Some (s', tid, evs) -> Good s'.
  Proof.
    intros (P & I & W & T & C) St. destruct (cstep_inv g _ _ _ _ _ St) as (t & m & rest & Ht & Hc & -> & _).
    assert (P' := exec_Pre g s tid t m rest Ht Hc P).
    destruct (c_torn s) eqn:NT.
    - (* the teardown is running *)
      assert (NT' := exec_torn_stays g s tid t m rest NT).
      destruct (T NT) as (F & _). destruct (nth_error_Forall _ _ _ _ F Ht) as (_ & Tops). rewrite Hc in Tops. cbn [forallb] in Tops.
      apply andb_true_iff in Tops as [Tm _].
      split; [apply normalize_Pre; exact P'|]. split; [|split; [|split]].
      + intros D. unfold normalize in D. cbn [c_torn] in D. congruence.
      + intros D. unfold normalize in D. cbn [c_torn] in D. congruence.
      + apply normalize_Tn. apply exec_Tn; auto.
      + apply normalize_Claims. apply exec_Claims; auto. intros _. destruct m; cbn in Tm; try discriminate; reflexivity.
    - assert (I' := exec_HInv g s tid t m rest Ht Hc I NT).
      assert (W' : Wf g (fst (exec_mop g s tid t m rest))) by (apply exec_Wf; auto).
      split; [apply normalize_Pre; exact P'|]. split; [apply normalize_HInv; exact I'|]. split; [apply normalize_Wf; auto|]. split.
      + apply normalize_Tn. intros NT'.
        destruct (exec_torn_flip g s tid t m rest NT NT') as (r & b & -> & E1 & Hr).
        apply (flip_Tn s tid t r b rest P W NT Ht Hc Hr E1 NT').
      + apply normalize_Claims. apply exec_Claims; auto. intros D. congruence.
  Qed.

  Theorem reach_Good progs s : Reach g progs s -> Good s.
  Proof. induction 1 as [|s want s' tid evs _ IH C]; [apply init_Good|eapply cstep_Good; eauto]. Qed.

  (* ---- the count stays positive until the teardown ---- *)
  Definition RcPos (s : cstate) : Prop := c_torn s = false -> (c_rc s >= 1)%Z.

  Lemma exec_RcPos s tid t m rest :
    nth_error (c_threads s) tid = Some t -> t_cont t = m :: rest -> Pre s -> RcPos s -> RcPos (fst (exec_mop g s tid t m rest)).
  Proof.
    intros Ht Hc P R NT'. destruct (c_torn s) eqn:NT; [rewrite (exec_torn_stays g s tid t m rest NT) in NT'; discriminate|].
    specialize (R NT). destruct (P NT) as (E & F).
    assert (W : Forall (fun t => (weight t >= 0)%Z) (c_threads s)).
    { eapply Forall_impl; [|exact F]. intros x (Hnn & _ & _). unfold weight. assert (A := owned_nonneg x). assert (B := NN_debt _ Hnn). lia. }
    assert (Wt := sumT_ge_one weight _ tid t W Ht). rewrite <- sumT_weight in E. rewrite <- E in Wt.
    destruct (nth_error_Forall _ _ _ _ F Ht) as (Hnn & _ & Hbusy).
    assert (Ot : (owned t >= 1)%Z) by (apply Hbusy; rewrite Hc; discriminate).
    unfold weight in Wt. rewrite Hc in Wt, Hnn.
    revert NT'. destruct t as [regs prog cont out].
    destruct m as [p i rt first keep|p i off cand keep|delta after|h|r|r report|tb p i|p o]; cbn [exec_mop].
    - destruct (slot_lookup (c_slots s) (i :: p)); [|destruct (child_is_node g p i)]; cbn [fst upd_thread c_torn c_rc]; intros _; exact R.
    - destruct (slot_lookup (c_slots s) (i :: p)); cbn [fst upd_thread c_torn c_rc]; intros _; exact R.
    - cbn [fst upd_thread c_torn c_rc]. intros _. cbn [debt] in Wt. assert (D := NN_debt _ (NN_tail _ _ Hnn)). lia.
    - cbn [fst upd_thread c_torn c_rc]. intros _. lia.
    - destruct (reg_of _ r); cbn [fst upd_thread c_torn c_rc]; intros _; lia.
    - destruct (reg_of _ r); [destruct (Z.eqb (c_rc s) 1) eqn:E1|]; cbn [fst upd_thread c_torn c_rc]; try discriminate; intros _; [|exact R].
      apply Z.eqb_neq in E1. lia.
    - rewrite NT. cbn [negb fst upd_thread c_torn c_rc]. intros _. exact R.
    - destruct (match o with KSet _ v => _ | KTrySet _ v => _ | KGet _ => _ | KClear _ => _ | _ => _ end) as [[[d' dr] res] w].
      cbn [fst upd_thread c_torn c_rc]. intros _. exact R.
  Qed.

  Theorem reach_RcPos progs s : progs <> [] -> Reach g progs s -> RcPos s.
  Proof.
    intros Hp. induction 1 as [|s want s' tid evs R IH C].
    - intros _. unfold cinit, normalize. cbn [c_rc]. destruct progs; [contradiction Hp; reflexivity|]. cbn [length]. lia.
    - destruct (cstep_inv g _ _ _ _ _ C) as (t & m & rest & Ht & Hc & -> & _).
      intros NT'. unfold normalize in *. cbn [c_torn c_rc] in *.
      apply (exec_RcPos s tid t m rest Ht Hc (reach_Pre g progs s R) IH NT').
  Qed.

  (* ---- final theorems ---- *)
  Lemma all_done_conts s : all_done s = true -> Forall (fun t => t_cont t = [] /\ owned t = 0%Z) (c_threads s).
  Proof.
    unfold all_done. rewrite forallb_forall. intros H. apply Forall_forall. intros t Hin. specialize (H t Hin).
    unfold thread_done in H. destruct (t_cont t); [|discriminate]. destruct (t_prog t); [|discriminate].
    destruct (first_owned (t_regs t) 0) eqn:Ef; [discriminate|]. split; [reflexivity|].
    unfold owned. clear - Ef. revert Ef. generalize 0. induction (t_regs t) as [|a l IH]; intros n Ef; cbn [first_owned filter] in *; [reflexivity|].
    destruct a; [discriminate|]. eapply IH; eauto.
  Qed.

  Lemma sumT_zero f l : Forall (fun t => f t = 0%Z) l -> sumT f l = 0%Z.
  Proof. induction 1 as [|t l E _ IH]; cbn [sumT]; lia. Qed.

  Lemma no_node_slots_no_blocks sl : NoDup (map fst sl) -> (forall q b, slot_lookup sl q <> Some (ENode b)) -> slot_blocks sl = [].
  Proof.
    induction sl as [|[q e] r IH]; intros N H; [reflexivity|]. cbn [map fst] in N. inversion N as [|? ? Hq Nr]; subst.
    unfold slot_blocks. cbn [flat_map snd]. fold (slot_blocks r).
    assert (He : forall b, e <> ENode b).
    { intros b ->. apply (H q b). cbn [slot_lookup]. rewrite pos_eqb_refl. reflexivity. }
    rewrite IH; [destruct e; [exfalso; eapply He; reflexivity|reflexivity]|exact Nr|].
    intros q' b L. apply (H q' b). cbn [slot_lookup]. destruct (pos_eqb q q') eqn:E; [|exact L].
    apply pos_eqb_eq in E. subst q'. exfalso. apply Hq. apply slot_lookup_none_keys_contra with (e := ENode b). exact L.
  Qed.

  (* when every thread is done — whatever the programs and the schedule — the tree has been torn
     down, every block has been freed, and no node datum is left *)
  Definition no_node_slot (s : cstate) : Prop := forall q b, slot_lookup (c_slots s) q <> Some (ENode b).

  Theorem no_leak progs s :
    progs <> [] -> Reach g progs s -> all_done s = true ->
    c_torn s = true /\ c_live s = [] /\ c_data s = [] /\ no_node_slot s.
  Proof.
    intros Hp R D. destruct (reach_Good _ _ R) as (P & _ & _ & T & C).
    assert (A := all_done_conts s D).
    assert (Torn : c_torn s = true).
    { destruct (c_torn s) eqn:NT; [reflexivity|]. exfalso.
      assert (Rp := reach_RcPos progs s Hp R NT). destruct (P NT) as (E & _).
      rewrite (sumT_zero owned), (sumT_zero (fun t => debt (t_cont t))) in E; [lia| |].
      - eapply Forall_impl; [|exact A]. intros t (-> & _). reflexivity.
      - eapply Forall_impl; [|exact A]. cbn beta. tauto. }
    destruct (T Torn) as (_ & Cov & Dat).
    assert (NoSlot : no_node_slot s).
    { intros q b L. destruct (Cov q b L) as (j & t0 & tb & p & i & rl & Ej & Hin & _).
      destruct (nth_error_Forall _ _ _ _ A Ej) as (E0 & _). rewrite E0 in Hin. destruct Hin. }
    split; [exact Torn|]. split; [|split; [|exact NoSlot]].
    - (* nothing claims a block any more *)
      destruct C as [_ L _ _ K _ _]. unfold blocks, blocks_of in L. rewrite Torn in L.
      rewrite (no_node_slots_no_blocks _ K NoSlot) in L.
      assert (E : thr_blocks (c_threads s) = []).
      { unfold thr_blocks. clear - A. induction A as [|t l (E0 & _) _ IH]; cbn [flat_map]; [reflexivity|]. rewrite E0, IH. reflexivity. }
      rewrite E in L. cbn [app] in L. destruct (c_live s) as [|b l]; [reflexivity|]. exfalso. apply (proj1 (L b)). left. reflexivity.
    - destruct (c_data s) as [|[q v] d] eqn:Ed; [reflexivity|]. exfalso.
      destruct (Dat q v) as (b & L); [cbn [data_lookup]; rewrite pos_eqb_refl; reflexivity|]. exact (NoSlot q b L).
  Qed.

  (* never twice, and only what is live: the freed blocks are pairwise different and none of them is
     live; every live block is claimed exactly once (by the root, an initialised slot, a candidate
     about to be installed, or a queued free) *)
  Theorem free_once progs s :
    Reach g progs s ->
    NoDup (c_freed s) /\ (forall b, In b (c_freed s) -> ~ In b (c_live s)) /\
    NoDup (blocks s) /\ (forall b, In b (c_live s) <-> In b (blocks s)).
  Proof.
    intros R. destruct (reach_Good _ _ R) as (_ & _ & _ & _ & [N L _ _ _ F FD]).
    split; [exact F|]. split; [intros b Hb; exact (proj1 (FD b Hb))|]. split; [exact N|exact L].
  Qed.

  (* identity: while the tree is alive a block stands for one position, and no slot shares the root's block *)
  Lemma slot_blocks_in sl p b : slot_lookup sl p = Some (ENode b) -> In b (slot_blocks sl).
  Proof.
    induction sl as [|[q e] r IH]; cbn [slot_lookup]; [discriminate|]. unfold slot_blocks. cbn [flat_map snd]. fold (slot_blocks r).
    destruct (pos_eqb q p); [intros [= ->]; left; reflexivity|]. intros L. apply in_or_app. right. apply IH. exact L.
  Qed.

  Lemma slot_blocks_inj sl : NoDup (slot_blocks sl) -> forall p1 p2 b,
    slot_lookup sl p1 = Some (ENode b) -> slot_lookup sl p2 = Some (ENode b) -> p1 = p2.
  Proof.
    induction sl as [|[q e] r IH]; intros N p1 p2 b L1 L2; [discriminate|].
    unfold slot_blocks in N. cbn [flat_map snd] in N. fold (slot_blocks r) in N. cbn [slot_lookup] in L1, L2.
    destruct (NoDup_app_inv _ _ N) as (_ & Nr & Dj).
    destruct (pos_eqb q p1) eqn:E1, (pos_eqb q p2) eqn:E2.
    - apply pos_eqb_eq in E1, E2. congruence.
    - injection L1 as ->. exfalso. apply (Dj b); [left; reflexivity|eapply slot_blocks_in; eauto].
    - injection L2 as ->. exfalso. apply (Dj b); [left; reflexivity|eapply slot_blocks_in; eauto].
    - eapply IH; eauto.
  Qed.

  Theorem block_identity progs s p1 p2 b :
    Reach g progs s -> c_torn s = false ->
    slot_lookup (c_slots s) p1 = Some (ENode b) -> slot_lookup (c_slots s) p2 = Some (ENode b) ->
    p1 = p2 /\ b <> 0.
  Proof.
    intros R NT L1 L2. destruct (reach_Good _ _ R) as (_ & _ & _ & _ & [N _ _ _ _ _ _]).
    unfold blocks, blocks_of in N. rewrite NT in N. cbn [app] in N. inversion N as [|? ? H0 N2]; subst.
    destruct (NoDup_app_inv _ _ N2) as (Ns & _ & _). split; [eapply slot_blocks_inj; eauto|].
    intros ->. apply H0. apply in_or_app. left. eapply slot_blocks_in; eauto.
  Qed.
End ConcTear.
