(* TextViewProofs.v — C12: every method of the text view agrees with the string the view denotes. *)
From CsModel Require Import Red RedProofs TextPos TextView.
From Coq Require Import ZifyN ZifyNat ZifyBool.

(* ---- contains_char ---- *)
Theorem v_contains_spec cs c : v_contains cs c = has_char c (concat cs).
Proof.
  unfold v_contains, has_char. induction cs as [|t r IH]; cbn [existsb concat]; [reflexivity|].
  rewrite existsb_app, IH. reflexivity.
Qed.

(* ---- find_char: byte position of the first occurrence ---- *)
Lemma find_in_acc t c : forall acc, find_in t c acc = option_map (N.add acc) (find_in t c 0).
Proof.
  induction t as [|x r IH]; intros acc; cbn [find_in]; [reflexivity|].
  destruct (x =? c); [cbn; f_equal; lia|].
  rewrite (IH (acc + utf8_width x)), (IH (0 + utf8_width x)).
  destruct (find_in r c 0); cbn; [f_equal; lia|reflexivity].
Qed.

Lemma find_in_app a b c :
  find_in (a ++ b) c 0 = match find_in a c 0 with Some p => Some p | None => option_map (N.add (byte_len a)) (find_in b c 0) end.
Proof.
  induction a as [|x r IH]; cbn [app find_in byte_len].
  - destruct (find_in b c 0); cbn; [f_equal; lia|reflexivity].
  - destruct (x =? c); [reflexivity|].
    rewrite (find_in_acc (r ++ b)), (find_in_acc r), IH.
    destruct (find_in r c 0); cbn; [reflexivity|].
    destruct (find_in b c 0); cbn; [f_equal; lia|reflexivity].
Qed.

Theorem v_find_spec cs c : forall acc, v_find cs c acc = option_map (N.add acc) (find_in (concat cs) c 0).
Proof.
  induction cs as [|t r IH]; intros acc; cbn [v_find concat]; [reflexivity|].
  rewrite find_in_app. destruct (find_in t c 0); [reflexivity|].
  rewrite IH. destruct (find_in (concat r) c 0); cbn; [f_equal; lia|reflexivity].
Qed.

(* the position found is where the character first occurs in the string *)
Theorem find_in_correct t c : forall p,
  find_in t c 0 = Some p -> exists pre post, t = pre ++ c :: post /\ byte_len pre = p /\ ~ In c pre.
Proof.
  induction t as [|x r IH]; intros p; cbn [find_in]; [discriminate|].
  destruct (N.eqb_spec x c) as [->|NE].
  - intros [= <-]. exists [], r. cbn. auto.
  - rewrite find_in_acc. destruct (find_in r c 0) as [q|] eqn:E; [|discriminate]. cbn. intros [= <-].
    destruct (IH q eq_refl) as (pre & post & -> & L & NI). exists (x :: pre), post. cbn [app byte_len In].
    split; [reflexivity|]. split; [lia|]. intros [X|X]; [congruence|contradiction].
Qed.

Theorem find_in_none t c : find_in t c 0 = None -> ~ In c t.
Proof.
  induction t as [|x r IH]; cbn [find_in In]; [tauto|].
  destruct (N.eqb_spec x c) as [->|NE]; [discriminate|].
  rewrite find_in_acc. destruct (find_in r c 0); [discriminate|]. intros _ [X|X]; [congruence|apply IH; auto].
Qed.

(* ---- equality against a string ---- *)
Lemma strip_prefix_spec p : forall t rest, strip_prefix p t = Some rest <-> t = p ++ rest.
Proof.
  induction p as [|x p IH]; intros [|y t] rest; cbn [strip_prefix app].
  - split; [intros [= <-]; reflexivity|intros <-; reflexivity].
  - split; [intros [= <-]; reflexivity|intros <-; reflexivity].
  - split; discriminate.
  - destruct (N.eqb_spec x y) as [->|NE].
    + rewrite IH. split; [intros ->; reflexivity|intros [= ->]; reflexivity].
    + split; [discriminate|intros [= E _]; congruence].
Qed.

Theorem v_eq_str_spec cs : forall rhs, v_eq_str cs rhs = text_eqb (concat cs) rhs.
Proof.
  induction cs as [|t r IH]; intros rhs; cbn [v_eq_str concat].
  - destruct rhs; reflexivity.
  - destruct (strip_prefix t rhs) as [rest|] eqn:E.
    + apply strip_prefix_spec in E. subst rhs. rewrite IH.
      clear. induction t as [|x t IHt]; cbn [app text_eqb]; [reflexivity|]. rewrite N.eqb_refl, IHt. reflexivity.
    + destruct (text_eqb (t ++ concat r) rhs) eqn:T; [|reflexivity].
      apply text_eqb_eq in T. subst rhs.
      assert (X : strip_prefix t (t ++ concat r) = Some (concat r)) by (apply strip_prefix_spec; reflexivity). congruence.
Qed.

(* ---- char_at ---- *)
Lemma drop_bytes_prefix pre : forall post, drop_bytes (pre ++ post) (byte_len pre) = Ok post.
Proof.
  induction pre as [|x pre IH]; intros post; cbn [app byte_len].
  - destruct post; cbn [drop_bytes]; rewrite N.eqb_refl; reflexivity.
  - cbn [drop_bytes]. pose proof (utf8_width_bounds x). destruct (N.eqb_spec (utf8_width x + byte_len pre) 0); [lia|].
    destruct (N.leb_spec (utf8_width x) (utf8_width x + byte_len pre)); [|lia].
    replace (utf8_width x + byte_len pre - utf8_width x) with (byte_len pre) by lia. apply IH.
Qed.

Lemma byte_len_pos x t : 0 < byte_len (x :: t).
Proof. cbn [byte_len]. pose proof (utf8_width_bounds x). lia. Qed.

(* a prefix (by bytes) of a concatenation lies inside the first part or contains it *)
Lemma app_split_bytes (a b pre rest : text) :
  a ++ b = pre ++ rest ->
  (byte_len pre < byte_len a -> exists mid, a = pre ++ mid /\ rest = mid ++ b /\ mid <> []) /\
  (byte_len a <= byte_len pre -> exists pre', pre = a ++ pre' /\ b = pre' ++ rest).
Proof.
  intros E. apply app_eq_app in E. destruct E as [l [[E1 E2]|[E1 E2]]].
  - split.
    + intros L. exists l. subst. rewrite byte_len_app in L. destruct l; [cbn in L; lia|]. repeat split; auto; discriminate.
    + intros L. subst a. rewrite byte_len_app in L. destruct l as [|x l]; [|pose proof (byte_len_pos x l); lia].
      exists []. rewrite app_nil_r in *. cbn in E2. subst. rewrite app_nil_r. auto.
  - split.
    + intros L. subst pre. rewrite byte_len_app in L. lia.
    + intros _. exists l. auto.
Qed.

Theorem v_char_at_spec cs : forall off start pre c post,
  concat cs = pre ++ c :: post -> off = start + byte_len pre ->
  v_char_at cs off start = Ok (Some c).
Proof.
  induction cs as [|t r IH]; intros off start pre c post E Eo; cbn [concat] in E; [destruct pre; discriminate|].
  cbn [v_char_at]. destruct (app_split_bytes t (concat r) pre (c :: post) E) as [In_ Out].
  destruct (N.ltb_spec off (start + byte_len t)) as [L|L].
  - destruct (N.leb_spec start off); [|lia]. cbn [andb].
    destruct In_ as (mid & -> & Em & NE); [lia|]. destruct mid as [|m mid]; [congruence|].
    cbn [app] in Em. injection Em as <- _.
    replace (off - start) with (byte_len pre) by lia. rewrite drop_bytes_prefix. reflexivity.
  - destruct (N.leb_spec start off); cbn [andb]; [|apply (IH off (start + byte_len t)) with (pre := pre) (post := post); lia].
    destruct Out as (pre' & -> & E2); [lia|].
    apply (IH off (start + byte_len t) pre' c post E2). rewrite byte_len_app in Eo. lia.
Qed.

Theorem v_char_at_end cs : forall off start,
  start + byte_len (concat cs) <= off -> v_char_at cs off start = Ok None.
Proof.
  induction cs as [|t r IH]; intros off start L; cbn [v_char_at concat] in *; [reflexivity|].
  rewrite byte_len_app in L. destruct (N.ltb_spec off (start + byte_len t)); [lia|]. rewrite andb_false_r.
  apply IH. lia.
Qed.

(* ---- slicing a view: exactly the three asserts, and composition ---- *)
Theorem v_slice_spec s e a b :
  match v_slice s e a b with
  | Ok (s', e') => a <= b /\ s + b <= e /\ s' = s + a /\ e' = s + b
  | Panic _ => b < a \/ e < s + b
  end.
Proof.
  unfold v_slice. destruct (N.ltb_spec b a); [left; assumption|].
  destruct (N.leb_spec s (s + a)); [|lia]. destruct (N.leb_spec (s + a + (b - a)) e); cbn [andb]; lia.
Qed.

(* the open-ended forms: `..` is the view itself, `a..` and `..b` are the closed slices with the missing end filled in *)
Theorem v_slice_opt_spec s e a b : s <= e ->
  v_slice_opt s e None None = Ok (s, e) /\
  v_slice_opt s e (Some a) None = v_slice s e a (e - s) /\
  v_slice_opt s e None (Some b) = v_slice s e 0 b /\
  v_slice_opt s e (Some a) (Some b) = v_slice s e a b.
Proof.
  intros L. unfold v_slice_opt. repeat split. unfold v_slice.
  destruct (N.ltb_spec (e - s) 0); [lia|]. rewrite N.add_0_r, N.sub_0_r.
  replace (s + (e - s)) with e by lia. rewrite !N.leb_refl. reflexivity.
Qed.

Theorem v_slice_compose s e a1 b1 a2 b2 s1 e1 s2 e2 :
  v_slice s e a1 b1 = Ok (s1, e1) -> v_slice s1 e1 a2 b2 = Ok (s2, e2) ->
  v_slice s e (a1 + a2) (a1 + b2) = Ok (s2, e2).
Proof.
  intros A B. pose proof (v_slice_spec s e a1 b1) as S1. rewrite A in S1.
  pose proof (v_slice_spec s1 e1 a2 b2) as S2. rewrite B in S2.
  unfold v_slice. destruct (N.ltb_spec (a1 + b2) (a1 + a2)); [lia|].
  destruct (N.leb_spec s (s + (a1 + a2))); [|lia].
  destruct (N.leb_spec (s + (a1 + a2) + (a1 + b2 - (a1 + a2))) e); cbn [andb]; [f_equal; f_equal; lia|lia].
Qed.

(* ---------------------------------------------------------------------------------------- *)
(* chunks: for a view whose ends are character boundaries of the node's text, no chunk slicing
   panics and the chunks concatenate to exactly that slice of the text *)
Lemma take_bytes_prefix m : forall r, take_bytes (m ++ r) (byte_len m) = Ok m.
Proof.
  induction m as [|x m IH]; intros r; cbn [app byte_len].
  - destruct r; cbn [take_bytes]; rewrite N.eqb_refl; reflexivity.
  - cbn [take_bytes]. pose proof (utf8_width_bounds x). destruct (N.eqb_spec (utf8_width x + byte_len m) 0); [lia|].
    destruct (N.leb_spec (utf8_width x) (utf8_width x + byte_len m)); [|lia].
    replace (utf8_width x + byte_len m - utf8_width x) with (byte_len m) by lia. rewrite IH. reflexivity.
Qed.

Lemma slice_str_mid a m r : slice_str (a ++ m ++ r) (byte_len a) (byte_len (a ++ m)) = Ok m.
Proof.
  unfold slice_str. rewrite byte_len_app. destruct (N.ltb_spec (byte_len a + byte_len m) (byte_len a)); [lia|].
  rewrite drop_bytes_prefix. replace (byte_len a + byte_len m - byte_len a) with (byte_len m) by lia. apply take_bytes_prefix.
Qed.

Fixpoint Consec (toks : list (N * text)) (o : N) : Prop :=
  match toks with [] => True | (o', t) :: r => o' = o /\ Consec r (o + byte_len t) end.

(* tokens that start at or after the end of the view contribute only empty chunks *)
Lemma chunks_after : forall toks o s e, Consec toks o -> e <= o -> N.max s o <= e \/ e < o ->
  exists cs, chunks toks s e = Ok cs /\ concat cs = [].
Proof.
  induction toks as [|[o' t] r IH]; intros o s e C L M; cbn [chunks]; [exists []; auto|].
  destruct C as [-> C].
  destruct (N.ltb_spec (N.min e (o + byte_len t)) (N.max s o)) as [Sk|NSk].
  - apply (IH (o + byte_len t)); [exact C|lia|lia].
  - (* touching: an empty chunk *)
    assert (E1 : N.max s o = o) by lia. assert (E2 : N.min e (o + byte_len t) = o) by lia.
    rewrite E1, E2, N.sub_diag.
    assert (S0 : slice_str t 0 0 = Ok []).
    { unfold slice_str. cbn. destruct t; cbn [drop_bytes take_bytes]; reflexivity. }
    rewrite S0. destruct (IH (o + byte_len t) s e C) as (cs & -> & Ec); [lia|lia|].
    exists ([] :: cs). cbn. auto.
Qed.

Lemma chunks_concat_gen : forall toks o, Consec toks o -> forall s e A M Z,
  concat (map snd toks) = A ++ M ++ Z -> byte_len A = N.max s o - o -> byte_len (A ++ M) = e - o -> N.max s o <= e ->
  exists cs, chunks toks s e = Ok cs /\ concat cs = M.
Proof.
  induction toks as [|[o' t] r IH]; intros o C s e A M Z E LA LM Le; cbn [map snd concat] in E.
  - destruct A; [|discriminate]. destruct M; [|discriminate]. exists []. cbn. auto.
  - destruct C as [-> C]. cbn [chunks].
    assert (So : o <= N.max s o) by lia.
    destruct (N.lt_ge_cases e (o + byte_len t)) as [Ein|Eout].
    + (* the view ends inside this token *)
      rewrite byte_len_app in LM.
      assert (E' : t ++ concat (map snd r) = (A ++ M) ++ Z) by (rewrite <- app_assoc; exact E).
      destruct (proj1 (app_split_bytes _ _ _ _ E')) as (mid & Et & _ & _); [rewrite byte_len_app; lia|].
      rewrite <- app_assoc in Et.
      assert (X1 : N.max s o - o = byte_len A) by lia.
      assert (X2 : N.min e (o + byte_len t) - o = byte_len (A ++ M)) by (rewrite byte_len_app; lia).
      destruct (N.ltb_spec (N.min e (o + byte_len t)) (N.max s o)); [lia|].
      rewrite X1, X2, Et, slice_str_mid.
      destruct (chunks_after r (o + byte_len t) s e C) as (cs & Ec & Ecc); [lia|lia|].
      rewrite Ec. exists (M :: cs). cbn. rewrite Ecc, app_nil_r. auto.
    + (* the view reaches (at least) the end of this token *)
      destruct (N.lt_ge_cases (N.max s o) (o + byte_len t)) as [Sin|Sout].
      * (* ... and starts inside it: t = A ++ M1 *)
        destruct (proj1 (app_split_bytes _ _ _ _ E)) as (m1 & Et & Erest & _); [lia|].
        (* m1 is a prefix of M (the view continues past the token) *)
        assert (Lm1 : byte_len m1 <= byte_len M).
        { rewrite Et, !byte_len_app in *. lia. }
        destruct (proj2 (app_split_bytes _ _ _ _ (eq_sym Erest))) as (m2 & EM & EZ); [exact Lm1|].
        assert (X1 : N.max s o - o = byte_len A) by lia.
        assert (X2 : N.min e (o + byte_len t) - o = byte_len (A ++ m1)) by (rewrite Et, byte_len_app in *; lia).
        destruct (N.ltb_spec (N.min e (o + byte_len t)) (N.max s o)); [lia|].
        rewrite X1, X2, Et. pose proof (slice_str_mid A m1 []) as Sm. rewrite app_nil_r in Sm. rewrite Sm.
        assert (C' : Consec r (o + byte_len (A ++ m1))) by (rewrite <- Et; exact C).
        destruct (IH (o + byte_len (A ++ m1)) C' s e [] m2 Z) as (cs & Ec & Ecc).
        -- cbn [app]. exact EZ.
        -- cbn. rewrite Et, byte_len_app in *. lia.
        -- cbn [app]. rewrite EM, Et, !byte_len_app in *. lia.
        -- rewrite Et, byte_len_app in *. lia.
        -- rewrite Ec. exists (m1 :: cs). cbn. rewrite Ecc, EM. auto.
      * (* ... and starts at or after its end: t is part of A *)
        destruct (proj2 (app_split_bytes _ _ _ _ E)) as (a' & EA & Erest); [lia|].
        assert (IHc : exists cs, chunks r s e = Ok cs /\ concat cs = M).
        { apply (IH (o + byte_len t) C s e a' M Z Erest); rewrite EA, ?byte_len_app in *; lia. }
        destruct IHc as (cs & Ec & Ecc).
        destruct (N.ltb_spec (N.min e (o + byte_len t)) (N.max s o)) as [Sk|NSk]; [rewrite Ec; exists cs; auto|].
        (* touching at the end of the token: an empty chunk *)
        assert (X1 : N.max s o - o = byte_len t) by lia. assert (X2 : N.min e (o + byte_len t) - o = byte_len t) by lia.
        rewrite X1, X2.
        assert (S0 : slice_str t (byte_len t) (byte_len t) = Ok []).
        { pose proof (slice_str_mid t [] []) as X. rewrite !app_nil_r in X. exact X. }
        rewrite S0, Ec. exists ([] :: cs). cbn. auto.
Qed.

(* the token list of a well-formed sub-tree: consecutive offsets, texts concatenating to its text *)
Section TokRanges.
  Variable static_text : kind -> option text.
  Variable H : list hw -> N.
  Variable strs : list text.
  Notation WfG := (WfGreen static_text H strs).
  Notation gt := (gtext static_text strs).
  Notation tr := (tok_ranges static_text strs).

  Lemma Consec_app a : forall o b, Consec a o -> Consec b (o + byte_len (concat (map snd a))) -> Consec (a ++ b) o.
  Proof.
    induction a as [|[o' t] r IH]; intros o b Ca Cb; cbn [app Consec map snd concat byte_len] in *.
    - rewrite N.add_0_r in Cb. exact Cb.
    - destruct Ca as [-> Ca]. split; [reflexivity|]. apply IH; [exact Ca|]. rewrite byte_len_app, N.add_assoc in Cb. exact Cb.
  Qed.

  Lemma tok_ranges_ok e : WfG e -> forall o, Consec (tr e o) o /\ concat (map snd (tr e o)) = gt e.
  Proof.
    induction e as [id k key len|id k len h cs IH] using gelem_ind'; intros W o.
    - cbn [tok_ranges Consec map snd concat]. split; [auto|]. unfold gtext. cbn [denote stext]. apply app_nil_r.
    - rewrite gtext_node. cbn [tok_ranges]. apply WfGreen_node in W. destruct W as (_ & _ & W).
      apply WfGs_Forall in W. revert o. clear -IH W.
      induction IH as [|c r Hc Hr IHr]; intros o; cbn [toks_loop flat_map]; [cbn; auto|].
      inversion W as [|? ? Wc Wr]; subst. destruct (Hc Wc o) as [C1 T1]. destruct (IHr Wr (o + glen c)) as [C2 T2].
      split.
      + apply Consec_app; [exact C1|]. rewrite T1, <- (glen_text static_text H strs c Wc). exact C2.
      + rewrite map_app, concat_app, T1, T2. reflexivity.
  Qed.

  (* the view [s, e] of the node e0 located at true offset o: if the view's ends are character
     boundaries of the node's text (the text decomposes as A ++ M ++ Z with |A| = s - o and
     |A ++ M| = e - o), the chunks are computed without panic and concatenate to M *)
  Theorem chunks_concat e0 o s e A M Z :
    WfG e0 -> gt e0 = A ++ M ++ Z -> o <= s -> s <= e ->
    byte_len A = s - o -> byte_len (A ++ M) = e - o ->
    exists cs, chunks (tr e0 o) s e = Ok cs /\ concat cs = M.
  Proof.
    intros W E Ls Le LA LM. destruct (tok_ranges_ok e0 W o) as [C T].
    apply (chunks_concat_gen (tr e0 o) o C s e A M Z); [rewrite T; exact E|lia|exact LM|lia].
  Qed.

  (* the whole view of a node: its text *)
  Corollary chunks_whole e0 o : WfG e0 -> exists cs, chunks (tr e0 o) o (o + glen e0) = Ok cs /\ concat cs = gt e0.
  Proof.
    intros W. apply (chunks_concat e0 o o (o + glen e0) [] (gt e0) []); [exact W|rewrite app_nil_r; reflexivity|lia|lia|cbn; lia|].
    cbn [app]. rewrite <- (glen_text static_text H strs e0 W). lia.
  Qed.
End TokRanges.

(* ---------------------------------------------------------------------------------------- *)
(* equality of two views: the two-pointer walk agrees with equality of the strings, however the two
   texts are split into chunks *)
Lemma all_empty_concat l : all_empty l = true <-> concat l = [].
Proof.
  induction l as [|t r IH]; cbn [all_empty forallb concat]; [tauto|].
  destruct t; cbn [app]; [rewrite <- IH; tauto|]. split; discriminate.
Qed.

Lemma text_eqb_app_same p a b : text_eqb (p ++ a) (p ++ b) = text_eqb a b.
Proof. induction p as [|x p IH]; cbn [app text_eqb]; [reflexivity|]. rewrite N.eqb_refl. exact IH. Qed.

Lemma byte_len_zero t : byte_len t = 0 -> t = [].
Proof. destruct t as [|x t]; [reflexivity|]. pose proof (byte_len_pos x t). lia. Qed.

Lemma is_prefix_spec p t : is_prefix p t = true <-> exists rest, t = p ++ rest.
Proof.
  unfold is_prefix. destruct (strip_prefix p t) as [rest|] eqn:E.
  - apply strip_prefix_spec in E. split; [intros _; exists rest; exact E|reflexivity].
  - split; [discriminate|]. intros [rest ->].
    assert (X : strip_prefix p (p ++ rest) = Some rest) by (apply strip_prefix_spec; reflexivity). congruence.
Qed.

Definition zmeasure (x : text) (xs : list text) (y : text) (ys : list text) : nat :=
  (length x + length (concat xs) + length y + length (concat ys) + length xs + length ys)%nat.

Lemma zip_texts_spec : forall fuel x xs y ys,
  (zmeasure x xs y ys < fuel)%nat ->
  byte_len (x ++ concat xs) = byte_len (y ++ concat ys) ->
  let '(ok, (rx, ry)) := zip_texts fuel x xs y ys in
  ok && all_empty rx && all_empty ry = text_eqb (x ++ concat xs) (y ++ concat ys).
Proof.
  induction fuel as [|f IH]; intros x xs y ys M L; [lia|].
  cbn [zip_texts]. destruct x as [|cx x].
  - destruct xs as [|x' xs'].
    + (* the left side is exhausted: the right side must be empty too *)
      cbn [app concat byte_len] in L. symmetry in L. apply byte_len_zero in L. rewrite L.
      apply app_eq_nil in L. destruct L as [_ L]. apply all_empty_concat in L. cbn [app concat text_eqb andb all_empty forallb]. exact L.
    + cbn [app concat] in *. apply IH; [unfold zmeasure in *; cbn [length concat] in *; rewrite app_length in M; lia|exact L].
  - destruct y as [|cy y].
    + destruct ys as [|y' ys'].
      * (* the right side is exhausted while the left still has text: impossible for equal lengths *)
        exfalso. cbn [app concat byte_len] in L. pose proof (utf8_width_bounds cx). lia.
      * cbn [app concat] in *. apply IH; [unfold zmeasure in *; cbn [length concat] in *; rewrite app_length in M; lia|exact L].
    + destruct (is_prefix (cy :: y) (cx :: x)) eqn:P1.
      * destruct (strip_prefix (cy :: y) (cx :: x)) as [x'|] eqn:S1; [|unfold is_prefix in P1; rewrite S1 in P1; discriminate].
        apply strip_prefix_spec in S1. rewrite S1 in *.
        specialize (IH x' xs [] ys). rewrite <- !app_assoc, text_eqb_app_same. cbn [app] in IH.
        apply IH.
        -- unfold zmeasure in *. cbn [length] in *. rewrite !app_length in M. cbn [length] in M. lia.
        -- rewrite <- !app_assoc, !byte_len_app in L. rewrite byte_len_app. lia.
      * destruct (is_prefix (cx :: x) (cy :: y)) eqn:P2.
        -- destruct (strip_prefix (cx :: x) (cy :: y)) as [y'|] eqn:S2; [|unfold is_prefix in P2; rewrite S2 in P2; discriminate].
           apply strip_prefix_spec in S2. rewrite S2 in *.
           specialize (IH [] xs y' ys). rewrite <- !app_assoc, text_eqb_app_same. cbn [app] in IH.
           apply IH.
           ++ unfold zmeasure in *. cbn [length] in *. rewrite !app_length in M. cbn [length] in M. lia.
           ++ rewrite <- !app_assoc, !byte_len_app in L. rewrite byte_len_app. lia.
        -- (* neither is a prefix of the other: the strings differ *)
           cbn [andb]. symmetry. destruct (text_eqb ((cx :: x) ++ concat xs) ((cy :: y) ++ concat ys)) eqn:T; [|reflexivity].
           apply text_eqb_eq in T. apply app_eq_app in T. destruct T as [l [[T1 _]|[T1 _]]].
           ++ assert (X : is_prefix (cy :: y) (cx :: x) = true) by (apply is_prefix_spec; exists l; exact T1). congruence.
           ++ assert (X : is_prefix (cx :: x) (cy :: y) = true) by (apply is_prefix_spec; exists l; exact T1). congruence.
Qed.

Theorem v_eq_view_spec xs ys :
  v_eq_view xs (byte_len (concat xs)) ys (byte_len (concat ys)) = text_eqb (concat xs) (concat ys).
Proof.
  unfold v_eq_view. destruct (N.eqb_spec (byte_len (concat xs)) (byte_len (concat ys))) as [L|NL]; cbn [negb].
  - destruct xs as [|x xr].
    + cbn [concat byte_len] in *. symmetry in L. apply byte_len_zero in L. rewrite L. cbn. apply all_empty_concat. exact L.
    + destruct ys as [|y yr].
      * cbn [concat byte_len] in L |- *. apply byte_len_zero in L. rewrite L. apply app_eq_nil in L. destruct L as [_ L].
        cbn. apply all_empty_concat. exact L.
      * pose proof (zip_texts_spec (S (length (concat (x :: xr)) + length (concat (y :: yr)) + length (x :: xr) + length (y :: yr))) x xr y yr) as Z.
        cbn [concat] in *. destruct (zip_texts _ x xr y yr) as [ok [rx ry]]. apply Z; [|exact L].
        unfold zmeasure. rewrite !app_length. cbn [length]. lia.
  - symmetry. destruct (text_eqb (concat xs) (concat ys)) eqn:T; [|reflexivity]. apply text_eqb_eq in T. rewrite T in NL. congruence.
Qed.
