(* Green.v — green trees as the code represents them, and the reference ("spec") trees.
   gelem carries an allocation identity [id]: structural equality ([geq], Rust's ==) ignores it,
   pointer identity (sharing through the cache) is equality of ids. *)
From CsModel Require Export Base.

Inductive gelem : Type :=
| GTok  (id : N) (k : kind) (key : option N) (len : N)
| GNode (id : N) (k : kind) (len : N) (hash : N) (cs : list gelem).

(* the reference tree: kinds, nesting, token texts — nothing else *)
Inductive stree : Type :=
| STok  (k : kind) (t : text)
| SNode (k : kind) (cs : list stree).

(* induction principles for the nested types *)
Section GelemInd.
  Variable P : gelem -> Prop.
  Hypothesis Htok : forall id k key len, P (GTok id k key len).
  Hypothesis Hnode : forall id k len h cs, Forall P cs -> P (GNode id k len h cs).
  Fixpoint gelem_ind' (g : gelem) : P g :=
    match g with
    | GTok id k key len => Htok id k key len
    | GNode id k len h cs =>
        Hnode id k len h cs
          ((fix all (l : list gelem) : Forall P l :=
              match l with
              | [] => Forall_nil P
              | c :: r => Forall_cons c (gelem_ind' c) (all r)
              end) cs)
    end.
End GelemInd.

Section StreeInd.
  Variable P : stree -> Prop.
  Hypothesis Htok : forall k t, P (STok k t).
  Hypothesis Hnode : forall k cs, Forall P cs -> P (SNode k cs).
  Fixpoint stree_ind' (s : stree) : P s :=
    match s with
    | STok k t => Htok k t
    | SNode k cs =>
        Hnode k cs
          ((fix all (l : list stree) : Forall P l :=
              match l with
              | [] => Forall_nil P
              | c :: r => Forall_cons c (stree_ind' c) (all r)
              end) cs)
    end.
End StreeInd.

(* ---------------------------------------------------------------------------------------- *)
(* accessors as in green/element.rs *)
Definition gid (g : gelem) : N := match g with GTok id _ _ _ => id | GNode id _ _ _ _ => id end.
Definition gkind (g : gelem) : kind := match g with GTok _ k _ _ => k | GNode _ k _ _ _ => k end.
Definition glen (g : gelem) : N := match g with GTok _ _ _ l => l | GNode _ _ l _ _ => l end.
Definition gchildren (g : gelem) : list gelem := match g with GTok _ _ _ _ => [] | GNode _ _ _ _ cs => cs end.
Definition is_node (g : gelem) : bool := match g with GTok _ _ _ _ => false | GNode _ _ _ _ _ => true end.

(* What `child.hash(&mut hasher)` feeds: the derived Hash of GreenTokenData resp. GreenNodeHead
   (node.rs:139 hashes the head only).  Identity-free by construction. *)
Inductive hw : Type :=
| HWTok  (k : kind) (key : option N) (len : N)
| HWNode (k : kind) (len : N) (hash : N).

Definition hw_of (g : gelem) : hw :=
  match g with
  | GTok _ k key len => HWTok k key len
  | GNode _ k len h _ => HWNode k len h
  end.

Definition hw_eqb (a b : hw) : bool :=
  match a, b with
  | HWTok k key l, HWTok k' key' l' => (k =? k') && optN_eqb key key' && (l =? l')
  | HWNode k l h, HWNode k' l' h' => (k =? k') && (l =? l') && (h =? h')
  | _, _ => false
  end.

(* Rust's == on green elements (node.rs:146: ThinArc data equality = head, then children
   pairwise; token.rs:114: data equality).  Pointer equality short-cuts are not observable. *)
Fixpoint geq (a b : gelem) : bool :=
  match a, b with
  | GTok _ k key l, GTok _ k' key' l' => (k =? k') && optN_eqb key key' && (l =? l')
  | GNode _ k l h cs, GNode _ k' l' h' cs' =>
      (k =? k') && (l =? l') && (h =? h') &&
      (fix all (x y : list gelem) : bool :=
         match x, y with
         | [], [] => true
         | c :: r, c' :: r' => geq c c' && all r r'
         | _, _ => false
         end) cs cs'
  | _, _ => false
  end.

Fixpoint geq_list (x y : list gelem) : bool :=
  match x, y with
  | [], [] => true
  | c :: r, c' :: r' => geq c c' && geq_list r r'
  | _, _ => false
  end.

Lemma geq_node_unfold i k l h cs i' k' l' h' cs' :
  geq (GNode i k l h cs) (GNode i' k' l' h' cs') =
  (k =? k') && (l =? l') && (h =? h') && geq_list cs cs'.
Proof.
  cbn [geq].
  assert (E : forall x y, (fix all (x y : list gelem) : bool :=
         match x, y with
         | [], [] => true
         | c :: r, c' :: r' => geq c c' && all r r'
         | _, _ => false
         end) x y = geq_list x y).
  { reflexivity. }
  rewrite E. reflexivity.
Qed.

Lemma optN_eqb_refl a : optN_eqb a a = true.
Proof. destruct a; cbn; [apply N.eqb_refl|reflexivity]. Qed.

Lemma geq_refl g : geq g g = true.
Proof.
  induction g as [i k key l | i k l h cs IH] using gelem_ind'.
  - cbn [geq]. rewrite !N.eqb_refl, optN_eqb_refl. reflexivity.
  - rewrite geq_node_unfold, !N.eqb_refl. cbn [andb].
    induction IH as [|c r Hc Hr IHr]; cbn [geq_list]; [reflexivity|]. rewrite Hc, IHr; reflexivity.
Qed.

Lemma geq_list_refl x : geq_list x x = true.
Proof. induction x as [|a r IH]; cbn [geq_list]; [reflexivity|]. rewrite geq_refl, IH. reflexivity. Qed.

(* structural equality of spec trees *)
Fixpoint seq_tree (a b : stree) : bool :=
  match a, b with
  | STok k t, STok k' t' => (k =? k') && text_eqb t t'
  | SNode k cs, SNode k' cs' =>
      (k =? k') &&
      (fix all (x y : list stree) : bool :=
         match x, y with
         | [], [] => true
         | c :: r, c' :: r' => seq_tree c c' && all r r'
         | _, _ => false
         end) cs cs'
  | _, _ => false
  end.

(* ---------------------------------------------------------------------------------------- *)
Section Denote.
  Variable static_text : kind -> option text.
  Variable H : list hw -> N.     (* the 32-bit child hash: ARBITRARY in all theorems *)

  (* lookup by a binary index (no unary conversion of the key: keys range over all of u32) *)
  Fixpoint nth_N (l : list text) (i : N) : option text :=
    match l with
    | [] => None
    | x :: r => if i =? 0 then Some x else nth_N r (i - 1)
    end.

  Definition resolve (strs : list text) (key : N) : option text := nth_N strs key.

  Lemma resolve_eq strs key : resolve strs key = nth_error strs (N.to_nat key).
  Proof.
    unfold resolve. revert key; induction strs as [|x r IH]; intros key; cbn [nth_N].
    - destruct (N.to_nat key); reflexivity.
    - destruct (N.eqb_spec key 0) as [->|NE]; [reflexivity|].
      rewrite IH. replace (N.to_nat key) with (S (N.to_nat (key - 1))) by lia. reflexivity.
  Qed.

  (* syntax/token.rs resolve_text: static text first, else the interned key *)
  Definition tok_text (strs : list text) (k : kind) (key : option N) : option text :=
    match static_text k with
    | Some t => Some t
    | None => match key with Some i => resolve strs i | None => None end
    end.

  Definition text_or_empty (o : option text) : text := match o with Some t => t | None => [] end.

  Fixpoint denote (strs : list text) (g : gelem) : stree :=
    match g with
    | GTok _ k key _ => STok k (text_or_empty (tok_text strs k key))
    | GNode _ k _ _ cs => SNode k (map (denote strs) cs)
    end.

  (* well-formed green element w.r.t. an interner table *)
  Fixpoint WfGreen (strs : list text) (g : gelem) : Prop :=
    match g with
    | GTok _ k key len =>
        match static_text k with
        | Some t => key = None /\ len = byte_len t
        | None => exists i t, key = Some i /\ resolve strs i = Some t /\ len = byte_len t
        end
    | GNode _ k len h cs =>
        len = sumN (map glen cs) /\ h = H (map hw_of cs) /\
        (fix all (l : list gelem) : Prop :=
           match l with [] => True | c :: r => WfGreen strs c /\ all r end) cs
    end.

  Fixpoint WfGreens (strs : list text) (l : list gelem) : Prop :=
    match l with [] => True | c :: r => WfGreen strs c /\ WfGreens strs r end.

  Lemma WfGreen_node strs i k len h cs :
    WfGreen strs (GNode i k len h cs) <->
    len = sumN (map glen cs) /\ h = H (map hw_of cs) /\ WfGreens strs cs.
  Proof.
    cbn [WfGreen].
    assert (E : (fix all (l : list gelem) : Prop :=
                   match l with [] => True | c :: r => WfGreen strs c /\ all r end) cs
                = WfGreens strs cs).
    { induction cs as [|c r IH]; cbn [WfGreens]; [reflexivity | rewrite IH; reflexivity]. }
    rewrite E. tauto.
  Qed.

  (* the text of a spec tree: concatenation of token texts, in order *)
  Fixpoint stext (s : stree) : text :=
    match s with
    | STok _ t => t
    | SNode _ cs => flat_map stext cs
    end.

  Definition gtext (strs : list text) (g : gelem) : text := stext (denote strs g).
End Denote.

Fixpoint ssize (s : stree) : nat :=
  match s with STok _ _ => 1%nat | SNode _ cs => S (fold_right (fun c n => (ssize c + n)%nat) 0%nat cs) end.
