(* Preorder.v — C03/C19: the preorder walks (iter::successors over first_child / next_sibling /
   parent) emit exactly the properly nested enter/leave events of the sub-tree, each element once,
   in document order — and the fuel of the model never runs out. *)
From CsModel Require Import Red RedProofs Nav NavSpec.
From Coq Require Import ZifyN ZifyNat ZifyBool.

(* the first wanted index at or after idx *)
Fixpoint find_from (pred : gelem -> bool) (l : list gelem) (idx : nat) : option nat :=
  match l with [] => None | c :: r => if pred c then Some idx else find_from pred r (S idx) end.
Definition next_idx (b : bool) (cs : list gelem) (from : nat) : option nat :=
  find_from (wanted b) (skipn from cs) from.

Fixpoint psucc {A} (fuel : nat) (f : A -> option A) (a : A) : list A :=
  match fuel with
  | O => [a]
  | S n => match f a with Some x => a :: psucc n f x | None => [a] end
  end.

Section Preorder.
  Variable g : gelem.
  Variable b : bool.          (* nodes only? *)

  Lemma pick_idx : forall l idx off,
    option_map (fun x => snd (fst x)) (pick b (kids_from l idx off)) = find_from (wanted b) l idx.
  Proof.
    induction l as [|c r IH]; intros idx off; cbn [kids_from pick find find_from fst]; [reflexivity|].
    fold (wanted b c). destruct (wanted b c); [reflexivity|]. apply IH.
  Qed.

  Lemma take_first_pure rs p cs start off :
    fst (take_first b rs p (children_from cs start off)) = option_map (fun i => i :: p) (next_idx b cs start).
  Proof.
    unfold take_first, children_from, next_idx. rewrite <- (pick_idx (skipn start cs) start off).
    destruct (pick b (kids_from (skipn start cs) start off)) as [[[c i] o]|]; reflexivity.
  Qed.

  (* the successor function of the walk, without the red state *)
  Definition pstep (root : pos) (ev : wev) : option wev :=
    match ev with
    | Enter p =>
        if is_node_at g p then
          match next_idx b (kids g p) 0 with
          | Some i => Some (Enter (i :: p))
          | None => Some (Leave p)
          end
        else Some (Leave p)
    | Leave p =>
        if pos_eqb p root then None
        else match p with
             | [] => None
             | i :: q => match next_idx b (kids g q) (S i) with
                         | Some j => Some (Enter (j :: q))
                         | None => Some (Leave q)
                         end
             end
    end.

  Lemma step_pure root rs ev : fst (preorder_step g b root rs ev) = pstep root ev.
  Proof.
    destruct ev as [p|p]; cbn [preorder_step pstep].
    - destruct (is_node_at g p); [|reflexivity].
      pose proof (take_first_pure rs p (kids g p) 0 (start_of rs p)) as T. unfold first_child_gen.
      destruct (take_first b rs p (children_from (kids g p) 0 (start_of rs p))) as [[c|] rs']; cbn [fst] in *;
        destruct (next_idx b (kids g p) 0); cbn in T; try discriminate; [injection T as ->|]; reflexivity.
    - destruct (pos_eqb p root); [reflexivity|]. destruct p as [|i q]; [reflexivity|].
      cbn [next_sibling_gen].
      pose proof (take_first_pure rs q (kids g q) (S i) (end_of g rs (i :: q))) as T.
      destruct (take_first b rs q (children_from (kids g q) (S i) (end_of g rs (i :: q)))) as [[c|] rs']; cbn [fst parent_of] in *;
        destruct (next_idx b (kids g q) (S i)); cbn in T; try discriminate; [injection T as ->|]; reflexivity.
  Qed.

  Lemma successors_pure {A} (step : rstate -> A -> option A * rstate) (f : A -> option A) :
    (forall rs a, fst (step rs a) = f a) ->
    forall fuel rs a, fst (successors fuel step rs a) = psucc fuel f a.
  Proof.
    intros Hs. induction fuel as [|n IH]; intros rs a; cbn [successors psucc]; [reflexivity|].
    rewrite <- (Hs rs a). destruct (step rs a) as [[x|] rs']; cbn [fst]; [|reflexivity].
    specialize (IH rs' x). destruct (successors n step rs' x). cbn [fst] in *. rewrite IH. reflexivity.
  Qed.

  (* ---- the events the structure dictates ---- *)
  Section Loop.
    Variable rec : gelem -> pos -> list wev.
    Variable p : pos.
    Fixpoint ev_loop (l : list gelem) (i : nat) : list wev :=
      match l with
      | [] => []
      | c :: r => (if wanted b c then rec c (i :: p) else []) ++ ev_loop r (S i)
      end.
  End Loop.

  Fixpoint events_of (e : gelem) (p : pos) : list wev :=
    match e with
    | GTok _ _ _ _ => [Enter p; Leave p]
    | GNode _ _ _ _ cs => Enter p :: ev_loop events_of p cs 0 ++ [Leave p]
    end.

  (* everything of the element at p except the final Leave p *)
  Definition body_of (e : gelem) (p : pos) : list wev :=
    match e with
    | GTok _ _ _ _ => [Enter p]
    | GNode _ _ _ _ cs => Enter p :: ev_loop events_of p cs 0
    end.

  Lemma events_body e p : events_of e p = body_of e p ++ [Leave p].
  Proof. destruct e; cbn; [reflexivity|]. rewrite app_comm_cons. reflexivity. Qed.

  Lemma psucc_app {A} (f : A -> option A) : forall n m a,
    psucc (n + m) f a = psucc (n + m) f a.
  Proof. reflexivity. Qed.

  Lemma find_from_skip pred : forall l idx, find_from pred l idx = find_from pred l idx.
  Proof. reflexivity. Qed.

  Lemma next_idx_cons_wanted cs pre c r :
    cs = pre ++ c :: r -> wanted b c = true -> next_idx b cs (length pre) = Some (length pre).
  Proof.
    intros -> W. unfold next_idx. rewrite skipn_app, skipn_all, Nat.sub_diag. cbn [app skipn find_from]. rewrite W. reflexivity.
  Qed.

  Lemma next_idx_cons_unwanted cs pre c r :
    cs = pre ++ c :: r -> wanted b c = false -> next_idx b cs (length pre) = next_idx b cs (S (length pre)).
  Proof.
    intros -> W. unfold next_idx. rewrite !skipn_app, skipn_all.
    rewrite (skipn_all2 pre) by lia. rewrite Nat.sub_diag.
    replace (S (length pre) - length pre)%nat with 1%nat by lia.
    cbn [app skipn find_from]. rewrite W. reflexivity.
  Qed.

  Lemma pos_eqb_longer l root : l <> [] -> pos_eqb (l ++ root) root = false.
  Proof.
    intros NE. destruct (pos_eqb (l ++ root) root) eqn:E; [|reflexivity].
    apply pos_eqb_eq in E. apply (f_equal (@length nat)) in E. rewrite app_length in E.
    destruct l; [congruence|cbn in E; lia].
  Qed.

  Variable root : pos.

  (* from [Enter q] the walk emits exactly the body of the sub-tree at q and arrives at [Leave q],
     with the remaining fuel untouched — for every position q inside the walk *)
  Definition WalkOk (e : gelem) : Prop :=
    forall l fuel, subr g (l ++ root) = Some e ->
      psucc (length (body_of e (l ++ root)) + fuel) (pstep root) (Enter (l ++ root)) =
      body_of e (l ++ root) ++ psucc fuel (pstep root) (Leave (l ++ root)).

  (* the event at which the processing of the children from index i on starts *)
  Definition start_ev (q : pos) (i : nat) : wev :=
    match next_idx b (kids g q) i with Some j => Enter (j :: q) | None => Leave q end.

  Lemma loop_walk q (Hq : exists l, q = l ++ root) : forall l pre fuel,
    kids g q = pre ++ l -> Forall WalkOk l ->
    psucc (length (ev_loop events_of q l (length pre)) + fuel) (pstep root) (start_ev q (length pre)) =
    ev_loop events_of q l (length pre) ++ psucc fuel (pstep root) (Leave q).
  Proof.
    destruct Hq as [lq ->].
    induction l as [|c r IH]; intros pre fuel E F; cbn [ev_loop].
    - cbn [length Nat.add app]. unfold start_ev, next_idx. rewrite E, app_nil_r, skipn_all. cbn. reflexivity.
    - inversion F as [|? ? Fc Fr]; subst.
      assert (E2 : kids g (lq ++ root) = (pre ++ [c]) ++ r) by (rewrite <- app_assoc; exact E).
      specialize (IH (pre ++ [c])). rewrite app_length in IH. cbn [length] in IH.
      replace (length pre + 1)%nat with (S (length pre)) in IH by lia.
      destruct (wanted b c) eqn:W.
      + unfold start_ev at 1. rewrite (next_idx_cons_wanted _ pre c r E W).
        assert (Sc : subr g ((length pre :: lq) ++ root) = Some c).
        { cbn [app]. rewrite kids_nth, E, nth_error_app2, Nat.sub_diag; [reflexivity|lia]. }
        rewrite events_body, !app_length, <- !app_assoc. cbn [length].
        replace (length (body_of c (length pre :: lq ++ root)) + 1 + length (ev_loop events_of (lq ++ root) r (S (length pre))) + fuel)%nat
          with (length (body_of c ((length pre :: lq) ++ root)) + (S (length (ev_loop events_of (lq ++ root) r (S (length pre))) + fuel)))%nat
          by (cbn [app]; lia).
        change (length pre :: lq ++ root) with ((length pre :: lq) ++ root).
        rewrite (Fc (length pre :: lq) _ Sc). f_equal.
        (* at Leave (i :: q): not the root; continue with the next wanted sibling *)
        cbn [psucc pstep]. rewrite (pos_eqb_longer (length pre :: lq) root) by discriminate. cbn [app].
        fold (start_ev (lq ++ root) (S (length pre))).
        destruct (next_idx b (kids g (lq ++ root)) (S (length pre))) eqn:Nx;
          (cbn [app]; f_equal; rewrite <- (IH fuel E2 Fr); unfold start_ev; rewrite Nx; reflexivity).
      + cbn [app]. unfold start_ev at 1. rewrite (next_idx_cons_unwanted _ pre c r E W).
        fold (start_ev (lq ++ root) (S (length pre))). apply IH; assumption.
  Qed.

  Lemma walk_ok e : WalkOk e.
  Proof.
    induction e as [id k key len|id k len h cs IH] using gelem_ind'; intros l fuel S.
    - cbn [body_of length Nat.add psucc pstep]. unfold is_node_at. rewrite S. reflexivity.
    - cbn [body_of length]. cbn [Nat.add psucc pstep]. unfold is_node_at. rewrite S. cbn [is_node].
      assert (Ek : kids g (l ++ root) = cs) by (unfold kids; rewrite S; reflexivity).
      pose proof (loop_walk (l ++ root) (ex_intro _ l eq_refl) cs [] fuel Ek IH) as L. cbn [length] in L.
      unfold start_ev in L. rewrite Ek in *.
      destruct (next_idx b cs 0); cbn [app]; f_equal; exact L.
  Qed.

  (* the whole walk from the root of the walk *)
  Theorem preorder_pure e fuel :
    subr g root = Some e -> (length (events_of e root) <= S fuel)%nat ->
    psucc fuel (pstep root) (Enter root) = events_of e root.
  Proof.
    intros S L. rewrite events_body in *. rewrite app_length in L. cbn [length] in L.
    replace fuel with (length (body_of e root) + (fuel + 1 - length (body_of e root) - 1))%nat by lia.
    pose proof (walk_ok e [] (fuel + 1 - length (body_of e root) - 1)%nat) as W. cbn [app] in W.
    rewrite (W S). f_equal.
    destruct (fuel + 1 - length (body_of e root) - 1)%nat; cbn [psucc pstep]; rewrite ?pos_eqb_refl; reflexivity.
  Qed.
End Preorder.

Section PreorderSpec.
  Variable g : gelem.
  Variable b : bool.

  Fixpoint sum_size (l : list gelem) : nat := match l with [] => 0%nat | c :: r => (gsize c + sum_size r)%nat end.
  Lemma gsize_node id k len h cs : gsize (GNode id k len h cs) = S (sum_size cs).
  Proof. cbn [gsize]. f_equal. Qed.

  Lemma ev_loop_len p : forall l i,
    Forall (fun c => forall q, (length (events_of b c q) <= 2 * gsize c)%nat) l ->
    (length (ev_loop b (events_of b) p l i) <= 2 * sum_size l)%nat.
  Proof.
    induction l as [|c r IH]; intros i F; cbn [ev_loop sum_size]; [cbn; lia|].
    inversion F as [|? ? Fc Fr]; subst. rewrite app_length. specialize (IH (S i) Fr).
    destruct (wanted b c); [specialize (Fc (i :: p))|cbn [length]]; lia.
  Qed.

  Lemma events_len e : forall p, (length (events_of b e p) <= 2 * gsize e)%nat.
  Proof.
    induction e as [id k key len|id k len h cs IH] using gelem_ind'; intros p; [cbn; lia|].
    rewrite gsize_node. cbn [events_of length]. rewrite app_length. cbn [length].
    pose proof (ev_loop_len p cs 0 IH). lia.
  Qed.

  Lemma sum_size_nth : forall l i c, nth_error l i = Some c -> (gsize c <= sum_size l)%nat.
  Proof.
    induction l as [|a r IH]; intros [|i] c E; cbn in *; try discriminate.
    - injection E as ->. lia.
    - specialize (IH i c E). lia.
  Qed.

  Lemma gsize_sub : forall p e x, sub e p = Some x -> (gsize x <= gsize e)%nat.
  Proof.
    induction p as [|i p IH]; intros e x S; cbn [sub] in S; [injection S as <-; lia|].
    destruct (nth_error (gchildren e) i) as [c|] eqn:E; [|discriminate].
    specialize (IH c x S). destruct e as [|id k len h cs]; [destruct i; discriminate|].
    rewrite gsize_node. cbn [gchildren] in E. pose proof (sum_size_nth cs i c E). lia.
  Qed.

  (* preorder() / preorder_with_tokens() from any node: exactly the nested enter/leave events of its
     sub-tree, each wanted element entered and left once, in document order; the model's fuel
     (2 * size of the tree) is never exhausted *)
  Theorem preorder_spec rs p e :
    subr g p = Some e -> fst (preorder g b rs p) = events_of b e p.
  Proof.
    intros S. unfold preorder.
    rewrite (successors_pure (preorder_step g b p) (pstep g b p) (step_pure g b p)).
    apply preorder_pure; [exact S|].
    pose proof (events_len e p). pose proof (gsize_sub (rev p) g e S). lia.
  Qed.

  Theorem descendants_spec rs p e :
    subr g p = Some e -> fst (descendants g b rs p) = entered (events_of b e p).
  Proof.
    intros S. unfold descendants. pose proof (preorder_spec rs p e S) as P.
    destruct (preorder g b rs p) as [l rs']. cbn [fst] in *. rewrite P. reflexivity.
  Qed.

  (* proper nesting: the events of a sub-tree are Enter, the events of the wanted children in order,
     Leave — by definition of events_of; every Enter has its Leave *)
  Fixpoint balanced (l : list wev) (stack : list pos) : bool :=
    match l with
    | [] => match stack with [] => true | _ => false end
    | Enter p :: r => balanced r (p :: stack)
    | Leave p :: r => match stack with q :: st => pos_eqb p q && balanced r st | [] => false end
    end.

  Lemma balanced_app_loop p : forall l i rest stack,
    Forall (fun c => forall q rest stack, balanced (events_of b c q ++ rest) stack = balanced rest stack) l ->
    balanced (ev_loop b (events_of b) p l i ++ rest) stack = balanced rest stack.
  Proof.
    induction l as [|c r IH]; intros i rest stack F; cbn [ev_loop app]; [reflexivity|].
    inversion F as [|? ? Fc Fr]; subst. rewrite <- app_assoc.
    destruct (wanted b c); [rewrite Fc|cbn [app]]; apply IH; exact Fr.
  Qed.

  Theorem events_balanced e : forall q rest stack,
    balanced (events_of b e q ++ rest) stack = balanced rest stack.
  Proof.
    induction e as [id k key len|id k len h cs IH] using gelem_ind'; intros q rest stack.
    - cbn. rewrite pos_eqb_refl. reflexivity.
    - cbn [events_of app balanced]. rewrite <- app_assoc, (balanced_app_loop q cs 0 _ _ IH).
      cbn. rewrite pos_eqb_refl. reflexivity.
  Qed.

  Theorem preorder_balanced rs p e : subr g p = Some e -> balanced (fst (preorder g b rs p)) [] = true.
  Proof.
    intros S. rewrite (preorder_spec rs p e S). rewrite <- (app_nil_r (events_of b e p)).
    rewrite events_balanced. reflexivity.
  Qed.
End PreorderSpec.
